(* NormFloat — the T-norm / S-norm laws at the binary64 level.

   The GENERATED kernels of Gen/GenNorm.v are instantiated at `NumF m tbl` (Coq primitive floats; no kernel of
   norm.py calls an oracle function, so the statements hold for every m and tbl) and shown equal to a hand-written
   float formula <N>_F (lemmas <N>_Feq: the only ones that look inside Gen; tactic `feqgen` tolerates
   let-bindings and commuted operands of + * & |).  The laws are then proved on <N>_F for ALL binary64 a, b with
   0 <= a, b <= 1 (unitF) through Proofs/FloatLevel.v; laws that are only true up to rounding are REFUTED by
   a concrete binary64 witness (`..._refuted`, checked by vm_compute). *)
From Coq Require Import ZArith Reals Lra Lia Bool Floats Psatz.
From Flocq Require Import Core IEEE754.BinarySingleNaN IEEE754.PrimFloat.
From VF Require Import Num NumF GenNorm FloatLevel SpecNorm NormLaws.
Local Open Scope R_scope.

(* ------------------------------------------------------------------ 0. reading a generated kernel at NumF *)
Ltac unnum := cbv beta iota zeta delta [where_ gtb geb neqb b2f pymin pymax Num.zero Num.one
   NumF Num.lit Num.nan Num.pinf Num.ninf Num.npi Num.add Num.sub Num.mul Num.div Num.neg Num.nabs Num.nsqrt
   Num.square Num.spow2 Num.pypow2 Num.nmin Num.nmax Num.ltb Num.leb Num.eqb Num.isnan Num.isfinite
   Num.isposinf Num.isneginf Num.fexp Num.flog Num.fcos Num.fpow].
Ltac flits := repeat match goal with |- context [Flit ?m ?e] =>
   let v := eval vm_compute in (Flit m e) in change (Flit m e) with v end.

Lemma if_congr {A : Type} (c c' : bool) (x x' y y' : A) :
  c = c' -> x = x' -> y = y' -> (if c then x else y) = (if c' then x' else y').
Proof. intros -> -> ->. reflexivity. Qed.

(* equality modulo commutativity of float + and * (Leibniz: FloatLevel.add_comm_f, mul_comm_f) and of && and || *)
Ltac fcomm :=
  first [ reflexivity
  | match goal with
    | |- PrimFloat.mul ?a ?b = PrimFloat.mul ?c ?d =>
        first [ apply (f_equal2 PrimFloat.mul); fcomm
              | rewrite (mul_comm_f a b); apply (f_equal2 PrimFloat.mul); fcomm ]
    | |- PrimFloat.add ?a ?b = PrimFloat.add ?c ?d =>
        first [ apply (f_equal2 PrimFloat.add); fcomm
              | rewrite (add_comm_f a b); apply (f_equal2 PrimFloat.add); fcomm ]
    | |- andb ?a ?b = andb ?c ?d =>
        first [ apply (f_equal2 andb); fcomm
              | rewrite (andb_comm a b); apply (f_equal2 andb); fcomm ]
    | |- orb ?a ?b = orb ?c ?d =>
        first [ apply (f_equal2 orb); fcomm
              | rewrite (orb_comm a b); apply (f_equal2 orb); fcomm ]
    | |- (if _ then _ else _) = (if _ then _ else _) => apply if_congr; fcomm
    | |- ?f ?a ?b = ?f ?c ?d => apply (f_equal2 f); fcomm
    | |- ?f ?a = ?f ?c => apply (f_equal f); fcomm
    end ].

Notation flt := PrimFloat.float.
Definition F2 := flt -> flt -> flt.

(* ------------------------------------------------------------------ 1. the float formulas *)
Definition AlgebraicProduct_F : F2 := fun a b => (a * b)%float.
Definition BoundedDifference_F : F2 := fun a b => Fmax 0 ((a + b) - 1)%float.
Definition DrasticProduct_F : F2 := fun a b => if PrimFloat.eqb (Fmax a b) 1 then Fmin a b else 0%float.
Definition EinsteinProduct_F : F2 := fun a b => ((a * b) / (2 - ((a + b) - (a * b))))%float.
Definition HamacherProduct_F : F2 := fun a b =>
  if negb (PrimFloat.eqb (a + b) 0) then ((a * b) / ((a + b) - (a * b)))%float else 0%float.
Definition Minimum_F : F2 := fun a b => Fmin a b.
Definition NilpotentMinimum_F : F2 := fun a b => if PrimFloat.ltb 1 (a + b) then Fmin a b else 0%float.
Definition AlgebraicSum_F : F2 := fun a b => ((a + b) - (a * b))%float.
Definition BoundedSum_F : F2 := fun a b => Fmin 1 (a + b)%float.
Definition DrasticSum_F : F2 := fun a b => if PrimFloat.eqb (Fmin a b) 0 then Fmax a b else 1%float.
Definition EinsteinSum_F : F2 := fun a b => ((a + b) / (1 + (a * b)))%float.
Definition HamacherSum_F : F2 := fun a b =>
  if negb (PrimFloat.eqb (a * b) 1) then (((a + b) - ((2 * a) * b)) / (1 - (a * b)))%float else 1%float.
Definition Maximum_F : F2 := fun a b => Fmax a b.
Definition NilpotentMaximum_F : F2 := fun a b => if PrimFloat.ltb (a + b) 1 then Fmax a b else 1%float.
Definition NormalizedSum_F : F2 := fun a b => ((a + b) / Fmax 1 (a + b))%float.
Definition UnboundedSum_F : F2 := fun a b => (a + b)%float.

Ltac ungenF := unfold AlgebraicProduct_compute, BoundedDifference_compute, DrasticProduct_compute,
  EinsteinProduct_compute, HamacherProduct_compute, Minimum_compute, NilpotentMinimum_compute,
  AlgebraicSum_compute, BoundedSum_compute, DrasticSum_compute, EinsteinSum_compute, HamacherSum_compute,
  Maximum_compute, NilpotentMaximum_compute, NormalizedSum_compute, UnboundedSum_compute.
Ltac unF := unfold AlgebraicProduct_F, BoundedDifference_F, DrasticProduct_F, EinsteinProduct_F, HamacherProduct_F,
  Minimum_F, NilpotentMinimum_F, AlgebraicSum_F, BoundedSum_F, DrasticSum_F, EinsteinSum_F, HamacherSum_F,
  Maximum_F, NilpotentMaximum_F, NormalizedSum_F, UnboundedSum_F in *.
Ltac feqgen := intros; ungenF; unF; unnum; flits; fcomm.

Section Feq.
  Variables (m : bool) (tbl : oracle).
  Local Notation NF := (NumF m tbl).
  Lemma AlgebraicProduct_Feq a b : @AlgebraicProduct_compute _ NF a b = AlgebraicProduct_F a b. Proof. feqgen. Qed.
  Lemma BoundedDifference_Feq a b : @BoundedDifference_compute _ NF a b = BoundedDifference_F a b. Proof. feqgen. Qed.
  Lemma DrasticProduct_Feq a b : @DrasticProduct_compute _ NF a b = DrasticProduct_F a b. Proof. feqgen. Qed.
  Lemma EinsteinProduct_Feq a b : @EinsteinProduct_compute _ NF a b = EinsteinProduct_F a b. Proof. feqgen. Qed.
  Lemma HamacherProduct_Feq a b : @HamacherProduct_compute _ NF a b = HamacherProduct_F a b. Proof. feqgen. Qed.
  Lemma Minimum_Feq a b : @Minimum_compute _ NF a b = Minimum_F a b. Proof. feqgen. Qed.
  Lemma NilpotentMinimum_Feq a b : @NilpotentMinimum_compute _ NF a b = NilpotentMinimum_F a b. Proof. feqgen. Qed.
  Lemma AlgebraicSum_Feq a b : @AlgebraicSum_compute _ NF a b = AlgebraicSum_F a b. Proof. feqgen. Qed.
  Lemma BoundedSum_Feq a b : @BoundedSum_compute _ NF a b = BoundedSum_F a b. Proof. feqgen. Qed.
  Lemma DrasticSum_Feq a b : @DrasticSum_compute _ NF a b = DrasticSum_F a b. Proof. feqgen. Qed.
  Lemma EinsteinSum_Feq a b : @EinsteinSum_compute _ NF a b = EinsteinSum_F a b. Proof. feqgen. Qed.
  Lemma HamacherSum_Feq a b : @HamacherSum_compute _ NF a b = HamacherSum_F a b. Proof. feqgen. Qed.
  Lemma Maximum_Feq a b : @Maximum_compute _ NF a b = Maximum_F a b. Proof. feqgen. Qed.
  Lemma NilpotentMaximum_Feq a b : @NilpotentMaximum_compute _ NF a b = NilpotentMaximum_F a b. Proof. feqgen. Qed.
  Lemma NormalizedSum_Feq a b : @NormalizedSum_compute _ NF a b = NormalizedSum_F a b. Proof. feqgen. Qed.
  Lemma UnboundedSum_Feq a b : @UnboundedSum_compute _ NF a b = UnboundedSum_F a b. Proof. feqgen. Qed.
End Feq.

(* ------------------------------------------------------------------ 2. the laws, on binary64 values of [0,1] *)
Definition rangeF (T : F2) := forall a b, unitF a -> unitF b -> unitF (T a b).
Definition commF (T : F2) := forall a b, unitF a -> unitF b -> R_of (T a b) = R_of (T b a).
Definition commL (T : F2) := forall a b, T a b = T b a.     (* Leibniz, for ALL floats (also NaN, infinities) *)
Definition mono2F (T : F2) := forall a b c, unitF a -> unitF b -> unitF c -> R_of b <= R_of c ->
  R_of (T a b) <= R_of (T a c).
Definition mono1F (T : F2) := forall a b c, unitF a -> unitF b -> unitF c -> R_of b <= R_of c ->
  R_of (T b a) <= R_of (T c a).
Definition assocF (T : F2) := forall a b c, unitF a -> unitF b -> unitF c ->
  R_of (T (T a b) c) = R_of (T a (T b c)).
Definition identF (T : F2) (e : flt) := forall a, unitF a -> fin (T a e) /\ R_of (T a e) = R_of a.
Definition annihF (T : F2) (z : flt) := forall a, unitF a -> fin (T a z) /\ R_of (T a z) = R_of z.
Definition le_minF (T : F2) := forall a b, unitF a -> unitF b -> R_of (T a b) <= Rmin (R_of a) (R_of b).
Definition ge_maxF (S : F2) := forall a b, unitF a -> unitF b -> Rmax (R_of a) (R_of b) <= R_of (S a b).

Ltac unlawsF := unfold rangeF, commF, commL, mono1F, mono2F, assocF, identF, annihF, le_minF, ge_maxF in *.

Lemma commL_commF T : commL T -> commF T.
Proof. intros H a b _ _. now rewrite (H a b). Qed.
Lemma mono2_mono1 T : commF T -> mono2F T -> mono1F T.
Proof. intros C M a b c Ua Ub Uc H. rewrite (C b a Ub Ua), (C c a Uc Ua). now apply M. Qed.

(* transport along pointwise equality *)
Lemma rangeF_ext T T' : (forall a b, T' a b = T a b) -> rangeF T -> rangeF T'.
Proof. intros E H a b Ua Ub. rewrite E. now apply H. Qed.
Lemma commF_ext T T' : (forall a b, T' a b = T a b) -> commF T -> commF T'.
Proof. intros E H a b Ua Ub. rewrite !E. now apply H. Qed.
Lemma commL_ext T T' : (forall a b, T' a b = T a b) -> commL T -> commL T'.
Proof. intros E H a b. rewrite !E. apply H. Qed.
Lemma mono1F_ext T T' : (forall a b, T' a b = T a b) -> mono1F T -> mono1F T'.
Proof. intros E H a b c Ua Ub Uc L. rewrite !E. now apply H. Qed.
Lemma mono2F_ext T T' : (forall a b, T' a b = T a b) -> mono2F T -> mono2F T'.
Proof. intros E H a b c Ua Ub Uc L. rewrite !E. now apply H. Qed.
Lemma assocF_ext T T' : (forall a b, T' a b = T a b) -> assocF T -> assocF T'.
Proof. intros E H a b c Ua Ub Uc. rewrite !E. now apply H. Qed.
Lemma identF_ext T T' e : (forall a b, T' a b = T a b) -> identF T e -> identF T' e.
Proof. intros E H a Ua. rewrite !E. now apply H. Qed.
Lemma annihF_ext T T' z : (forall a b, T' a b = T a b) -> annihF T z -> annihF T' z.
Proof. intros E H a Ua. rewrite !E. now apply H. Qed.
Lemma le_minF_ext T T' : (forall a b, T' a b = T a b) -> le_minF T -> le_minF T'.
Proof. intros E H a b Ua Ub. rewrite E. now apply H. Qed.
Lemma ge_maxF_ext T T' : (forall a b, T' a b = T a b) -> ge_maxF T -> ge_maxF T'.
Proof. intros E H a b Ua Ub. rewrite E. now apply H. Qed.

Ltac splitmm := unfold Rmin, Rmax in *; repeat match goal with
  | |- context [Rle_dec ?a ?b] => destruct (Rle_dec a b)
  | H : context [Rle_dec ?a ?b] |- _ => destruct (Rle_dec a b)
  end.
Ltac startF := unlawsF; unF; intros; pose_lits;
  repeat match goal with H : unitF _ |- _ => let F := fresh "FIN" in let U := fresh "UB" in destruct H as [F U] end.

(* ------------------------------------------------------------------ 3. AlgebraicProduct : RN(a*b) *)
Lemma AlgebraicProduct_F_range : rangeF AlgebraicProduct_F.
Proof. unlawsF; unF; intros a b Ua Ub. apply (mul_unit a b Ua Ub). Qed.
Lemma AlgebraicProduct_F_commL : commL AlgebraicProduct_F.
Proof. unlawsF; unF; intros. fcomm. Qed.
Lemma AlgebraicProduct_F_ident : identF AlgebraicProduct_F 1.
Proof. unlawsF; unF; intros a [Fa _]. apply (mul_1_r a Fa). Qed.
Lemma AlgebraicProduct_F_annih : annihF AlgebraicProduct_F 0.
Proof. unlawsF; unF; intros a [Fa _]. rewrite R_of_zero. apply (mul_0_r a Fa). Qed.
Lemma AlgebraicProduct_F_le_min : le_minF AlgebraicProduct_F.
Proof. unlawsF; unF; intros a b Ua Ub. apply (mul_unit_le_min a b Ua Ub). Qed.
Lemma AlgebraicProduct_F_mono2 : mono2F AlgebraicProduct_F.
Proof.
  startF.
  fmul a b in 0 1 as F2 E2 B2. fmul a c in 0 1 as F3 E3 B3.
  rewrite E2, E3. apply RN_le. nra.
Qed.

(* ------------------------------------------------------------------ 4. BoundedDifference : max(0, RN(RN(a+b) - 1)) *)
Lemma BoundedDifference_F_range : rangeF BoundedDifference_F.
Proof.
  startF.
  fadd a b in 0 2 as Fs Es Bs. fsub (a + b)%float 1%float in (-1) 1 as Fd Ed Bd.
  destruct (Fmax_fin 0 _ fin_zero Fd) as [Fm Em]. split; [exact Fm |].
  rewrite Em. splitmm; lra.
Qed.
Lemma BoundedDifference_F_commL : commL BoundedDifference_F.
Proof. unlawsF; unF; intros. fcomm. Qed.
Lemma BoundedDifference_F_annih : annihF BoundedDifference_F 0.
Proof.
  startF.
  fadd a 0%float in 0 1 as Fs Es Bs. fsub (a + 0)%float 1%float in (-1) 0 as Fd Ed Bd.
  destruct (Fmax_fin 0 _ fin_zero Fd) as [Fm Em]. split; [exact Fm |].
  rewrite Em. splitmm; lra.
Qed.
Lemma BoundedDifference_F_mono2 : mono2F BoundedDifference_F.
Proof.
  startF.
  fadd a b in 0 2 as Fs Es Bs. fsub (a + b)%float 1%float in (-1) 1 as Fd Ed Bd.
  fadd a c in 0 2 as Fs' Es' Bs'. fsub (a + c)%float 1%float in (-1) 1 as Fd' Ed' Bd'.
  destruct (Fmax_fin 0 _ fin_zero Fd) as [Fm Em]. destruct (Fmax_fin 0 _ fin_zero Fd') as [Fm' Em'].
  rewrite Em, Em'.
  assert (L1 : R_of (a + b)%float <= R_of (a + c)%float) by (rewrite Es, Es'; apply RN_le; lra).
  assert (L2 : R_of (a + b - 1)%float <= R_of (a + c - 1)%float) by (rewrite Ed, Ed'; apply RN_le; lra).
  splitmm; lra.
Qed.

(* ------------------------------------------------------------------ 5. Minimum, Maximum *)
Lemma Minimum_F_spec a b : unitF a -> unitF b ->
  unitF (Minimum_F a b) /\ R_of (Minimum_F a b) = Rmin (R_of a) (R_of b).
Proof. intros Ua Ub. split; [apply (Fmin_unit a b Ua Ub) | apply Fmin_fin; fin_tac]. Qed.
Lemma Maximum_F_spec a b : unitF a -> unitF b ->
  unitF (Maximum_F a b) /\ R_of (Maximum_F a b) = Rmax (R_of a) (R_of b).
Proof. intros Ua Ub. split; [apply (Fmax_unit a b Ua Ub) | apply Fmax_fin; fin_tac]. Qed.

(* ------------------------------------------------------------------ 6. exact norms: every law of the real formula transfers *)
Definition tnorm_laws_F (T : F2) :=
  rangeF T /\ commF T /\ mono2F T /\ assocF T /\ identF T 1 /\ annihF T 0 /\ le_minF T.
Definition snorm_laws_F (S : F2) :=
  rangeF S /\ commF S /\ mono2F S /\ assocF S /\ identF S 0 /\ annihF S 1 /\ ge_maxF S.
(* the float kernel computes the real formula without any rounding on [0,1] *)
Definition exactF (TF : F2) (TR : R -> R -> R) := forall a b, unitF a -> unitF b ->
  fin (TF a b) /\ R_of (TF a b) = TR (R_of a) (R_of b).

Lemma unitF_unit a : unitF a -> unit (R_of a).
Proof. intros [_ H]. exact H. Qed.

Lemma exact_tnorm TF TR : exactF TF TR -> tnorm_laws TR -> tnorm_laws_F TF.
Proof.
  intros X (Hr & Hc & Hm & Ha & Hi & Hz & Hl).
  assert (Rg : rangeF TF).
  { intros a b Ua Ub. destruct (X a b Ua Ub) as [F E]. split; [exact F |]. rewrite E.
    apply Hr; now apply unitF_unit. }
  unfold tnorm_laws_F. refine (conj Rg (conj _ (conj _ (conj _ (conj _ (conj _ _)))))).
  - intros a b Ua Ub. rewrite (proj2 (X a b Ua Ub)), (proj2 (X b a Ub Ua)). apply Hc; now apply unitF_unit.
  - intros a b c Ua Ub Uc L. rewrite (proj2 (X a b Ua Ub)), (proj2 (X a c Ua Uc)).
    apply Hm; try now apply unitF_unit. exact L.
  - intros a b c Ua Ub Uc.
    rewrite (proj2 (X _ c (Rg a b Ua Ub) Uc)), (proj2 (X a _ Ua (Rg b c Ub Uc))),
      (proj2 (X a b Ua Ub)), (proj2 (X b c Ub Uc)).
    apply Ha; now apply unitF_unit.
  - intros a Ua. destruct (X a 1%float Ua unitF_one) as [F E]. split; [exact F |].
    rewrite E, R_of_one. apply Hi. now apply unitF_unit.
  - intros a Ua. destruct (X a 0%float Ua unitF_zero) as [F E]. split; [exact F |].
    rewrite E, R_of_zero. apply Hz. now apply unitF_unit.
  - intros a b Ua Ub. rewrite (proj2 (X a b Ua Ub)). apply Hl; now apply unitF_unit.
Qed.

Lemma exact_snorm SF SR : exactF SF SR -> snorm_laws SR -> snorm_laws_F SF.
Proof.
  intros X (Hr & Hc & Hm & Ha & Hi & Hz & Hl).
  assert (Rg : rangeF SF).
  { intros a b Ua Ub. destruct (X a b Ua Ub) as [F E]. split; [exact F |]. rewrite E.
    apply Hr; now apply unitF_unit. }
  unfold snorm_laws_F. refine (conj Rg (conj _ (conj _ (conj _ (conj _ (conj _ _)))))).
  - intros a b Ua Ub. rewrite (proj2 (X a b Ua Ub)), (proj2 (X b a Ub Ua)). apply Hc; now apply unitF_unit.
  - intros a b c Ua Ub Uc L. rewrite (proj2 (X a b Ua Ub)), (proj2 (X a c Ua Uc)).
    apply Hm; try now apply unitF_unit. exact L.
  - intros a b c Ua Ub Uc.
    rewrite (proj2 (X _ c (Rg a b Ua Ub) Uc)), (proj2 (X a _ Ua (Rg b c Ub Uc))),
      (proj2 (X a b Ua Ub)), (proj2 (X b c Ub Uc)).
    apply Ha; now apply unitF_unit.
  - intros a Ua. destruct (X a 0%float Ua unitF_zero) as [F E]. split; [exact F |].
    rewrite E, R_of_zero. apply Hi. now apply unitF_unit.
  - intros a Ua. destruct (X a 1%float Ua unitF_one) as [F E]. split; [exact F |].
    rewrite E, R_of_one. apply Hz. now apply unitF_unit.
  - intros a b Ua Ub. rewrite (proj2 (X a b Ua Ub)). apply Hl; now apply unitF_unit.
Qed.

Lemma Minimum_F_exact : exactF Minimum_F Minimum.
Proof. intros a b Ua Ub. unfold Minimum_F, Minimum. apply Fmin_fin; fin_tac. Qed.
Lemma Maximum_F_exact : exactF Maximum_F Maximum.
Proof. intros a b Ua Ub. unfold Maximum_F, Maximum. apply Fmax_fin; fin_tac. Qed.
Lemma DrasticProduct_F_exact : exactF DrasticProduct_F DrasticProduct.
Proof.
  intros a b Ua Ub. unfold DrasticProduct_F, DrasticProduct. pose_lits.
  destruct (Fmax_fin a b ltac:(fin_tac) ltac:(fin_tac)) as [Fm Em].
  destruct (Fmin_fin a b ltac:(fin_tac) ltac:(fin_tac)) as [Fn En].
  fcase_eqb (Fmax a b) 1%float as H; destruct (Req_EM_T (Rmax (R_of a) (R_of b)) 1) as [Q | Q];
    try (exfalso; lra); try (split; [fin_tac | lra]).
Qed.
Lemma DrasticSum_F_exact : exactF DrasticSum_F DrasticSum.
Proof.
  intros a b Ua Ub. unfold DrasticSum_F, DrasticSum. pose_lits.
  destruct (Fmax_fin a b ltac:(fin_tac) ltac:(fin_tac)) as [Fm Em].
  destruct (Fmin_fin a b ltac:(fin_tac) ltac:(fin_tac)) as [Fn En].
  fcase_eqb (Fmin a b) 0%float as H; destruct (Req_EM_T (Rmin (R_of a) (R_of b)) 0) as [Q | Q];
    try (exfalso; lra); try (split; [fin_tac | lra]).
Qed.

Theorem Minimum_F_laws : tnorm_laws_F Minimum_F.
Proof. exact (exact_tnorm _ _ Minimum_F_exact Minimum_laws). Qed.
Theorem DrasticProduct_F_laws : tnorm_laws_F DrasticProduct_F.
Proof. exact (exact_tnorm _ _ DrasticProduct_F_exact DrasticProduct_laws). Qed.
Theorem Maximum_F_laws : snorm_laws_F Maximum_F.
Proof. exact (exact_snorm _ _ Maximum_F_exact Maximum_laws). Qed.
Theorem DrasticSum_F_laws : snorm_laws_F DrasticSum_F.
Proof. exact (exact_snorm _ _ DrasticSum_F_exact DrasticSum_laws). Qed.

(* ------------------------------------------------------------------ 7. NilpotentMinimum : if 1 < RN(a+b) then min a b else 0 *)
Lemma NilpotentMinimum_F_range : rangeF NilpotentMinimum_F.
Proof.
  startF. fadd a b in 0 2 as Fs Es Bs.
  fcase_ltb 1%float (a + b)%float as H; [apply Fmin_unit; split; assumption | apply unitF_zero].
Qed.
Lemma NilpotentMinimum_F_comm : commF NilpotentMinimum_F.
Proof.
  startF. rewrite (add_comm_f b a). fadd a b in 0 2 as Fs Es Bs.
  destruct (Fmin_fin a b ltac:(fin_tac) ltac:(fin_tac)) as [_ E1].
  destruct (Fmin_fin b a ltac:(fin_tac) ltac:(fin_tac)) as [_ E2].
  fcase_ltb 1%float (a + b)%float as H; [rewrite E1, E2; apply Rmin_comm | reflexivity].
Qed.
Lemma NilpotentMinimum_F_annih : annihF NilpotentMinimum_F 0.
Proof.
  startF. fadd a 0%float in 0 1 as Fs Es Bs.
  fcase_ltb 1%float (a + 0)%float as H; [exfalso; lra | split; [fin_tac | reflexivity]].
Qed.
Lemma NilpotentMinimum_F_le_min : le_minF NilpotentMinimum_F.
Proof.
  startF. fadd a b in 0 2 as Fs Es Bs.
  destruct (Fmin_fin a b ltac:(fin_tac) ltac:(fin_tac)) as [_ E1].
  fcase_ltb 1%float (a + b)%float as H; [rewrite E1; lra | splitmm; lra].
Qed.
Lemma NilpotentMinimum_F_mono2 : mono2F NilpotentMinimum_F.
Proof.
  startF. fadd a b in 0 2 as Fs Es Bs. fadd a c in 0 2 as Fs' Es' Bs'.
  assert (L1 : R_of (a + b)%float <= R_of (a + c)%float) by (rewrite Es, Es'; apply RN_le; lra).
  destruct (Fmin_fin a b ltac:(fin_tac) ltac:(fin_tac)) as [_ E1].
  destruct (Fmin_fin a c ltac:(fin_tac) ltac:(fin_tac)) as [_ E2].
  fcase_ltb 1%float (a + b)%float as H; fcase_ltb 1%float (a + c)%float as H';
    rewrite ?E1, ?E2; splitmm; lra.
Qed.

(* ------------------------------------------------------------------ 8. NilpotentMaximum : if RN(a+b) < 1 then max a b else 1 *)
Lemma NilpotentMaximum_F_range : rangeF NilpotentMaximum_F.
Proof.
  startF. fadd a b in 0 2 as Fs Es Bs.
  fcase_ltb (a + b)%float 1%float as H; [apply Fmax_unit; split; assumption | apply unitF_one].
Qed.
Lemma NilpotentMaximum_F_comm : commF NilpotentMaximum_F.
Proof.
  startF. rewrite (add_comm_f b a). fadd a b in 0 2 as Fs Es Bs.
  destruct (Fmax_fin a b ltac:(fin_tac) ltac:(fin_tac)) as [_ E1].
  destruct (Fmax_fin b a ltac:(fin_tac) ltac:(fin_tac)) as [_ E2].
  fcase_ltb (a + b)%float 1%float as H; [rewrite E1, E2; apply Rmax_comm | reflexivity].
Qed.
Lemma NilpotentMaximum_F_ident : identF NilpotentMaximum_F 0.
Proof.
  startF. destruct (add_0_r a ltac:(fin_tac)) as [Fs Es].
  destruct (Fmax_fin a 0%float ltac:(fin_tac) ltac:(fin_tac)) as [Fm Em].
  fcase_ltb (a + 0)%float 1%float as H; [split; [exact Fm | rewrite Em; splitmm; lra] | split; [fin_tac | lra]].
Qed.
Lemma NilpotentMaximum_F_annih : annihF NilpotentMaximum_F 1.
Proof.
  startF. fadd a 1%float in 1 2 as Fs Es Bs.
  fcase_ltb (a + 1)%float 1%float as H; [exfalso; lra | split; [fin_tac | reflexivity]].
Qed.
Lemma NilpotentMaximum_F_ge_max : ge_maxF NilpotentMaximum_F.
Proof.
  startF. fadd a b in 0 2 as Fs Es Bs.
  destruct (Fmax_fin a b ltac:(fin_tac) ltac:(fin_tac)) as [_ E1].
  fcase_ltb (a + b)%float 1%float as H; [rewrite E1; lra | splitmm; lra].
Qed.
Lemma NilpotentMaximum_F_mono2 : mono2F NilpotentMaximum_F.
Proof.
  startF. fadd a b in 0 2 as Fs Es Bs. fadd a c in 0 2 as Fs' Es' Bs'.
  assert (L1 : R_of (a + b)%float <= R_of (a + c)%float) by (rewrite Es, Es'; apply RN_le; lra).
  destruct (Fmax_fin a b ltac:(fin_tac) ltac:(fin_tac)) as [_ E1].
  destruct (Fmax_fin a c ltac:(fin_tac) ltac:(fin_tac)) as [_ E2].
  fcase_ltb (a + b)%float 1%float as H; fcase_ltb (a + c)%float 1%float as H';
    rewrite ?E1, ?E2; splitmm; lra.
Qed.

(* ------------------------------------------------------------------ 9. BoundedSum : min(1, RN(a+b)) *)
Lemma BoundedSum_F_spec a b : unitF a -> unitF b ->
  fin (BoundedSum_F a b) /\ R_of (BoundedSum_F a b) = Rmin 1 (RN (R_of a + R_of b)).
Proof.
  startF. fadd a b in 0 2 as Fs Es Bs.
  destruct (Fmin_fin 1%float (a + b)%float ltac:(fin_tac) Fs) as [Fm Em].
  split; [exact Fm | rewrite Em, Es; f_equal; lra].
Qed.
Lemma BoundedSum_F_range : rangeF BoundedSum_F.
Proof.
  intros a b Ua Ub. destruct (BoundedSum_F_spec a b Ua Ub) as [F E]. split; [exact F |]. rewrite E.
  destruct Ua as [_ Ua], Ub as [_ Ub].
  assert (0 <= RN (R_of a + R_of b)) by (apply RN_ge; [apply fmt_0 | lra]). splitmm; lra.
Qed.
Lemma BoundedSum_F_commL : commL BoundedSum_F.
Proof. unlawsF; unF; intros. fcomm. Qed.
Lemma BoundedSum_F_ident : identF BoundedSum_F 0.
Proof.
  intros a Ua. destruct (BoundedSum_F_spec a 0%float Ua unitF_zero) as [F E]. split; [exact F |]. rewrite E.
  rewrite R_of_zero, Rplus_0_r, (RN_id _ (fmt_R_of a)). destruct Ua as [_ Ua]. splitmm; lra.
Qed.
Lemma BoundedSum_F_annih : annihF BoundedSum_F 1.
Proof.
  intros a Ua. destruct (BoundedSum_F_spec a 1%float Ua unitF_one) as [F E]. split; [exact F |]. rewrite E.
  rewrite R_of_one. destruct Ua as [_ Ua].
  assert (1 <= RN (R_of a + 1)) by (apply RN_ge; [apply fmt_1 | lra]). splitmm; lra.
Qed.
Lemma BoundedSum_F_ge_max : ge_maxF BoundedSum_F.
Proof.
  intros a b Ua Ub. rewrite (proj2 (BoundedSum_F_spec a b Ua Ub)). destruct Ua as [_ Ua], Ub as [_ Ub].
  assert (Rmax (R_of a) (R_of b) <= RN (R_of a + R_of b)).
  { apply RN_ge; [apply fmt_Rmax; apply fmt_R_of | splitmm; lra]. }
  splitmm; lra.
Qed.
Lemma BoundedSum_F_mono2 : mono2F BoundedSum_F.
Proof.
  intros a b c Ua Ub Uc L. rewrite (proj2 (BoundedSum_F_spec a b Ua Ub)), (proj2 (BoundedSum_F_spec a c Ua Uc)).
  assert (RN (R_of a + R_of b) <= RN (R_of a + R_of c)) by (apply RN_le; lra). splitmm; lra.
Qed.

(* ------------------------------------------------------------------ 10. NormalizedSum : RN(a+b) / max(1, RN(a+b)) -- computes BoundedSum exactly *)
Lemma NormalizedSum_F_BoundedSum a b : unitF a -> unitF b ->
  fin (NormalizedSum_F a b) /\ R_of (NormalizedSum_F a b) = R_of (BoundedSum_F a b).
Proof.
  intros Ua Ub. rewrite (proj2 (BoundedSum_F_spec a b Ua Ub)). revert Ua Ub. startF.
  fadd a b in 0 2 as Fs Es Bs. rewrite <- Es.
  destruct (Fmax_fin 1%float (a + b)%float ltac:(fin_tac) Fs) as [Fm Em].
  destruct (Rle_dec (R_of (a + b)%float) 1) as [L | L].
  - assert (E1 : R_of (Fmax 1 (a + b)%float) = 1) by (rewrite Em; splitmm; lra).
    destruct (div_R1 _ _ Fs Fm E1) as [Fq Eq]. split; [exact Fq |]. rewrite Eq. splitmm; lra.
  - assert (E1 : R_of (a + b)%float = R_of (Fmax 1 (a + b)%float)) by (rewrite Em; splitmm; lra).
    destruct (div_eqR _ _ Fs Fm E1 ltac:(lra)) as [Fq Eq]. split; [exact Fq |]. rewrite Eq. splitmm; lra.
Qed.
Lemma NormalizedSum_F_range : rangeF NormalizedSum_F.
Proof.
  intros a b Ua Ub. destruct (NormalizedSum_F_BoundedSum a b Ua Ub) as [F E]. split; [exact F |].
  rewrite E. apply (BoundedSum_F_range a b Ua Ub).
Qed.
Lemma NormalizedSum_F_commL : commL NormalizedSum_F.
Proof. unlawsF; unF; intros. fcomm. Qed.
Lemma NormalizedSum_F_ident : identF NormalizedSum_F 0.
Proof.
  intros a Ua. destruct (NormalizedSum_F_BoundedSum a 0%float Ua unitF_zero) as [F E]. split; [exact F |].
  rewrite E. apply (BoundedSum_F_ident a Ua).
Qed.
Lemma NormalizedSum_F_annih : annihF NormalizedSum_F 1.
Proof.
  intros a Ua. destruct (NormalizedSum_F_BoundedSum a 1%float Ua unitF_one) as [F E]. split; [exact F |].
  rewrite E. apply (BoundedSum_F_annih a Ua).
Qed.
Lemma NormalizedSum_F_ge_max : ge_maxF NormalizedSum_F.
Proof. intros a b Ua Ub. rewrite (proj2 (NormalizedSum_F_BoundedSum a b Ua Ub)). now apply BoundedSum_F_ge_max. Qed.
Lemma NormalizedSum_F_mono2 : mono2F NormalizedSum_F.
Proof.
  intros a b c Ua Ub Uc L.
  rewrite (proj2 (NormalizedSum_F_BoundedSum a b Ua Ub)), (proj2 (NormalizedSum_F_BoundedSum a c Ua Uc)).
  now apply BoundedSum_F_mono2.
Qed.

(* ------------------------------------------------------------------ 11. UnboundedSum : RN(a+b), in [0,2] *)
Lemma UnboundedSum_F_range2 a b : unitF a -> unitF b ->
  fin (UnboundedSum_F a b) /\ 0 <= R_of (UnboundedSum_F a b) <= 2.
Proof. startF. fadd a b in 0 2 as Fs Es Bs. split; assumption. Qed.
Lemma UnboundedSum_F_commL : commL UnboundedSum_F.
Proof. unlawsF; unF; intros. fcomm. Qed.
Lemma UnboundedSum_F_ident : identF UnboundedSum_F 0.
Proof. unlawsF; unF; intros a [Fa _]. apply (add_0_r a Fa). Qed.
Lemma UnboundedSum_F_ge_max : ge_maxF UnboundedSum_F.
Proof. unlawsF; unF; intros a b Ua Ub. apply (add_unit a b Ua Ub). Qed.
Lemma UnboundedSum_F_mono2 : mono2F UnboundedSum_F.
Proof.
  startF. fadd a b in 0 2 as Fs Es Bs. fadd a c in 0 2 as Fs' Es' Bs'.
  rewrite Es, Es'. apply RN_le. lra.
Qed.

(* ------------------------------------------------------------------ 12. AlgebraicSum : RN(RN(a+b) - RN(a*b)) *)
Lemma AlgebraicSum_F_commL : commL AlgebraicSum_F.
Proof. unlawsF; unF; intros. fcomm. Qed.
Lemma AlgebraicSum_F_ident : identF AlgebraicSum_F 0.
Proof.
  startF. destruct (add_0_r a ltac:(fin_tac)) as [Fs Es]. destruct (mul_0_r a ltac:(fin_tac)) as [Fp Ep].
  assert (S : safe (R_of (a + 0)%float - R_of (a * 0)%float)).
  { rewrite Es, Ep, Rminus_0_r. apply safe_R_of. }
  destruct (sub_RN _ _ Fs Fp S) as [F E]. split; [exact F |].
  rewrite E, Es, Ep, Rminus_0_r. apply RN_id, fmt_R_of.
Qed.

(* ------------------------------------------------------------------ 13. EinsteinSum : RN(a+b) / RN(1 + RN(a*b)) *)
Lemma EinsteinSum_F_commL : commL EinsteinSum_F.
Proof. unlawsF; unF; intros. fcomm. Qed.
Lemma EinsteinSum_F_ident : identF EinsteinSum_F 0.
Proof.
  startF. destruct (add_0_r a ltac:(fin_tac)) as [Fs Es]. destruct (mul_0_r a ltac:(fin_tac)) as [Fp Ep].
  destruct (add_0_r 1%float fin_one) as [Fd Ed].
  assert (Fd' : fin (1 + a * 0)%float /\ R_of (1 + a * 0)%float = 1).
  { assert (S : safe (R_of 1%float + R_of (a * 0)%float)) by (rewrite Ep; apply safe_4; lra).
    destruct (add_RN 1%float _ fin_one Fp S) as [F E]. split; [exact F |].
    rewrite E, Ep, Lit1, Rplus_0_r. apply RN_id, fmt_1. }
  destruct Fd' as [Fd' Ed'].
  destruct (div_R1 _ _ Fs Fd' Ed') as [F E]. split; [exact F | lra].
Qed.
Lemma EinsteinSum_F_annih : annihF EinsteinSum_F 1.
Proof.
  startF. destruct (mul_1_r a ltac:(fin_tac)) as [Fp Ep].
  fadd a 1%float in 1 2 as Fs Es Bs.
  assert (Fd : fin (1 + a * 1)%float /\ R_of (1 + a * 1)%float = R_of (a + 1)%float).
  { assert (S : safe (R_of 1%float + R_of (a * 1)%float)) by (apply safe_4; lra).
    destruct (add_RN 1%float _ fin_one Fp S) as [F E]. split; [exact F |].
    rewrite E, Es. f_equal. lra. }
  destruct Fd as [Fd Ed].
  destruct (div_eqR _ _ Fs Fd (eq_sym Ed) ltac:(lra)) as [F E]. split; [exact F | lra].
Qed.

(* ------------------------------------------------------------------ 14. HamacherSum : (RN(RN(a+b) - RN(RN(2a)*b))) / RN(1 - RN(a*b)) unless RN(a*b) = 1 *)
Lemma HamacherSum_F_ident : identF HamacherSum_F 0.
Proof.
  startF. destruct (add_0_r a ltac:(fin_tac)) as [Fs Es]. destruct (mul_0_r a ltac:(fin_tac)) as [Fp Ep].
  fmul 2%float a in 0 2 as F2a E2a B2a.
  destruct (mul_0_r (2 * a)%float F2a) as [Fq Eq].
  fcase_eqb (a * 0)%float 1%float as H; [exfalso; lra |]. simpl negb. cbv iota.
  assert (Fn : fin (a + 0 - 2 * a * 0)%float /\ R_of (a + 0 - 2 * a * 0)%float = R_of a).
  { assert (S : safe (R_of (a + 0)%float - R_of (2 * a * 0)%float)).
    { rewrite Es, Eq, Rminus_0_r. apply safe_R_of. }
    destruct (sub_RN _ _ Fs Fq S) as [F E]. split; [exact F |].
    rewrite E, Es, Eq, Rminus_0_r. apply RN_id, fmt_R_of. }
  destruct Fn as [Fn En].
  assert (Fd : fin (1 - a * 0)%float /\ R_of (1 - a * 0)%float = 1).
  { assert (S : safe (R_of 1%float - R_of (a * 0)%float)) by (apply safe_4; lra).
    destruct (sub_RN _ _ fin_one Fp S) as [F E]. split; [exact F |].
    rewrite E, Ep, Lit1, Rminus_0_r. apply RN_id, fmt_1. }
  destruct Fd as [Fd Ed].
  destruct (div_R1 _ _ Fn Fd Ed) as [F E]. split; [exact F | lra].
Qed.

(* ------------------------------------------------------------------ 15. EinsteinProduct : RN(a*b) / RN(2 - RN(RN(a+b) - RN(a*b))) *)
Lemma EinsteinProduct_F_commL : commL EinsteinProduct_F.
Proof. unlawsF; unF; intros. fcomm. Qed.
Lemma EinsteinProduct_F_annih : annihF EinsteinProduct_F 0.
Proof.
  startF. destruct (add_0_r a ltac:(fin_tac)) as [Fs Es]. destruct (mul_0_r a ltac:(fin_tac)) as [Fp Ep].
  assert (Ft : fin (a + 0 - a * 0)%float /\ R_of (a + 0 - a * 0)%float = R_of a).
  { assert (S : safe (R_of (a + 0)%float - R_of (a * 0)%float)).
    { rewrite Es, Ep, Rminus_0_r. apply safe_R_of. }
    destruct (sub_RN _ _ Fs Fp S) as [F E]. split; [exact F |].
    rewrite E, Es, Ep, Rminus_0_r. apply RN_id, fmt_R_of. }
  destruct Ft as [Ft Et].
  fsub 2%float (a + 0 - a * 0)%float in 1 2 as Fd Ed Bd.
  destruct (div_0R _ _ Fp Fd Ep ltac:(lra)) as [F E]. split; [exact F | lra].
Qed.

(* ------------------------------------------------------------------ 16. HamacherProduct : RN(a*b) / RN(RN(a+b) - RN(a*b)) unless RN(a+b) = 0 *)
Lemma HamacherProduct_F_commL : commL HamacherProduct_F.
Proof. unlawsF; unF; intros. fcomm. Qed.
Lemma HamacherProduct_F_annih : annihF HamacherProduct_F 0.
Proof.
  startF. destruct (add_0_r a ltac:(fin_tac)) as [Fs Es]. destruct (mul_0_r a ltac:(fin_tac)) as [Fp Ep].
  fcase_eqb (a + 0)%float 0%float as H; simpl negb; cbv iota; [split; [fin_tac | reflexivity] |].
  assert (Ft : fin (a + 0 - a * 0)%float /\ R_of (a + 0 - a * 0)%float = R_of a).
  { assert (S : safe (R_of (a + 0)%float - R_of (a * 0)%float)).
    { rewrite Es, Ep, Rminus_0_r. apply safe_R_of. }
    destruct (sub_RN _ _ Fs Fp S) as [F E]. split; [exact F |].
    rewrite E, Es, Ep, Rminus_0_r. apply RN_id, fmt_R_of. }
  destruct Ft as [Ft Et].
  destruct (div_0R _ _ Fp Ft Ep ltac:(lra)) as [F E]. split; [exact F | lra].
Qed.

(* ------------------------------------------------------------------ 17. refutations: laws of the real formulas that FAIL in binary64 *)
Definition unitb (a : flt) : bool := PrimFloat.is_finite a && PrimFloat.leb 0 a && PrimFloat.leb a 1.
Definition fneq (x y : flt) : bool := PrimFloat.is_finite x && PrimFloat.is_finite y && negb (PrimFloat.eqb x y).
Definition fltb (x y : flt) : bool := PrimFloat.is_finite x && PrimFloat.is_finite y && PrimFloat.ltb x y.

Lemma unitb_ok a : unitb a = true -> unitF a.
Proof.
  unfold unitb. intros H. apply andb_prop in H. destruct H as [H H1]. apply andb_prop in H. destruct H as [Hf H0].
  apply fin_is_finite in Hf. split; [exact Hf |].
  apply (leb_fin _ _ fin_zero Hf) in H0. apply (leb_fin _ _ Hf fin_one) in H1.
  rewrite R_of_zero in H0. rewrite R_of_one in H1. lra.
Qed.
Lemma fneq_ok x y : fneq x y = true -> fin x /\ fin y /\ R_of x <> R_of y.
Proof.
  unfold fneq. intros H. apply andb_prop in H. destruct H as [H Hn]. apply andb_prop in H. destruct H as [Hx Hy].
  apply fin_is_finite in Hx. apply fin_is_finite in Hy. split; [exact Hx |]. split; [exact Hy |].
  intros E. apply (eqb_fin _ _ Hx Hy) in E. rewrite E in Hn. discriminate.
Qed.
Lemma fltb_ok x y : fltb x y = true -> fin x /\ fin y /\ R_of x < R_of y.
Proof.
  unfold fltb. intros H. apply andb_prop in H. destruct H as [H Hn]. apply andb_prop in H. destruct H as [Hx Hy].
  apply fin_is_finite in Hx. apply fin_is_finite in Hy. split; [exact Hx |]. split; [exact Hy |].
  now apply (ltb_fin _ _ Hx Hy).
Qed.

(* witness forms: concrete binary64 values of [0,1], finite results, strict difference *)
Definition not_assocF (T : F2) := exists a b c, unitF a /\ unitF b /\ unitF c /\
  fin (T (T a b) c) /\ fin (T a (T b c)) /\ R_of (T (T a b) c) <> R_of (T a (T b c)).
Definition not_identF (T : F2) (e : flt) := exists a, unitF a /\ fin (T a e) /\ fin a /\ R_of (T a e) <> R_of a.
Definition not_annihF (T : F2) (z : flt) := exists a, unitF a /\ fin (T a z) /\ fin z /\ R_of (T a z) <> R_of z.
Definition not_le_minF (T : F2) := exists a b, unitF a /\ unitF b /\
  fin (Fmin a b) /\ fin (T a b) /\ R_of (Fmin a b) < R_of (T a b).
Definition not_ge_maxF (S : F2) := exists a b, unitF a /\ unitF b /\
  fin (S a b) /\ fin (Fmax a b) /\ R_of (S a b) < R_of (Fmax a b).
Definition not_mono2F (T : F2) := exists a b c, unitF a /\ unitF b /\ unitF c /\
  (fin b /\ fin c /\ R_of b < R_of c) /\ fin (T a c) /\ fin (T a b) /\ R_of (T a c) < R_of (T a b).
Definition not_rangeF (T : F2) := exists a b, unitF a /\ unitF b /\ fin 1%float /\ fin (T a b) /\ R_of 1%float < R_of (T a b).

Ltac refute := unfold not_assocF, not_identF, not_annihF, not_le_minF, not_ge_maxF, not_mono2F, not_rangeF;
  repeat eexists;
  try (apply unitb_ok; vm_compute; reflexivity);
  first [ apply fneq_ok | apply fltb_ok ]; vm_compute; reflexivity.

Lemma not_assocF_neg T : not_assocF T -> ~ assocF T.
Proof. intros (a & b & c & Ua & Ub & Uc & _ & _ & N) H. apply N. now apply H. Qed.
Lemma not_identF_neg T e : not_identF T e -> ~ identF T e.
Proof. intros (a & Ua & _ & _ & N) H. apply N. now apply H. Qed.
Lemma not_annihF_neg T z : not_annihF T z -> ~ annihF T z.
Proof. intros (a & Ua & _ & _ & N) H. apply N. now apply H. Qed.
Lemma not_le_minF_neg T : not_le_minF T -> ~ le_minF T.
Proof.
  intros (a & b & Ua & Ub & _ & _ & N) H. specialize (H a b Ua Ub).
  rewrite (proj2 (Fmin_fin a b (proj1 Ua) (proj1 Ub))) in N. lra.
Qed.
Lemma not_ge_maxF_neg S : not_ge_maxF S -> ~ ge_maxF S.
Proof.
  intros (a & b & Ua & Ub & _ & _ & N) H. specialize (H a b Ua Ub).
  rewrite (proj2 (Fmax_fin a b (proj1 Ua) (proj1 Ub))) in N. lra.
Qed.
Lemma not_mono2F_neg T : not_mono2F T -> ~ mono2F T.
Proof. intros (a & b & c & Ua & Ub & Uc & (_ & _ & L) & _ & _ & N) H. specialize (H a b c Ua Ub Uc). lra. Qed.
Lemma not_rangeF_neg T : not_rangeF T -> ~ rangeF T.
Proof. intros (a & b & Ua & Ub & _ & _ & N) H. destruct (H a b Ua Ub) as [_ B]. rewrite R_of_one in N. lra. Qed.

Lemma AlgebraicProduct_F_assoc_refuted : not_assocF AlgebraicProduct_F.
Proof. exists 0x1.aa8b65c500aebp-1%float, 0x1.aa8b65c500aebp-1%float, 0x1.d692c896e7f65p-1%float. refute. Qed.

Lemma BoundedDifference_F_ident_refuted : not_identF BoundedDifference_F 1.
Proof. exists 0x1p-60%float. refute. Qed.
Lemma BoundedDifference_F_le_min_refuted : not_le_minF BoundedDifference_F.
Proof. exists 0x1.0000000000001p-53%float, 1%float. refute. Qed.
Lemma BoundedDifference_F_assoc_refuted : not_assocF BoundedDifference_F.
Proof. exists 0x1.1ad0cc00a3092p-2%float, 0x1.73edee28fbe76p-1%float, 0x1.ffffffffe741bp-1%float. refute. Qed.

Lemma EinsteinProduct_F_mono2_refuted : not_mono2F EinsteinProduct_F.
Proof. exists 0x1.914158b904260p-6%float, 0x1.ffffffc000001p-1%float, 0x1.ffffffc000002p-1%float. refute. Qed.
Lemma EinsteinProduct_F_assoc_refuted : not_assocF EinsteinProduct_F.
Proof. exists 0x1.fffae319d5e06p-1%float, 0x1.fffae319d5e06p-1%float, 0x1.fff6a28c9cd84p-1%float. refute. Qed.

Lemma HamacherProduct_F_ident_refuted : not_identF HamacherProduct_F 1.
Proof. exists 0x1.0000000000001p-54%float. refute. Qed.
Lemma HamacherProduct_F_le_min_refuted : not_le_minF HamacherProduct_F.
Proof. exists 0x1.0000000000001p-54%float, 1%float. refute. Qed.
Lemma HamacherProduct_F_mono2_refuted : not_mono2F HamacherProduct_F.
Proof. exists 0x1.9e9823394f60bp-30%float, 0x1.fffffffffffffp-1%float, 1%float. refute. Qed.
Lemma HamacherProduct_F_assoc_refuted : not_assocF HamacherProduct_F.
Proof. exists 0x1.13b2bf5872a20p-6%float, 0x1.13b2bf5872a20p-6%float, 0x1.9c4698a572d95p-1%float. refute. Qed.

Lemma NilpotentMinimum_F_ident_refuted : not_identF NilpotentMinimum_F 1.
Proof. exists 0x1p-60%float. refute. Qed.

Lemma AlgebraicSum_F_annih_refuted : not_annihF AlgebraicSum_F 1.
Proof. exists 0x1.8p-54%float. refute. Qed.
Lemma AlgebraicSum_F_ge_max_refuted : not_ge_maxF AlgebraicSum_F.
Proof. exists 0x1.8p-54%float, 1%float. refute. Qed.
Lemma AlgebraicSum_F_mono2_refuted : not_mono2F AlgebraicSum_F.
Proof. exists 0x1.3da97e41bca25p-4%float, 0x1.fffffffffffffp-1%float, 1%float. refute. Qed.
Lemma AlgebraicSum_F_assoc_refuted : not_assocF AlgebraicSum_F.
Proof. exists 0x1.7965d4e3486f4p-2%float, 0x1.7965d4e3486f4p-2%float, 0x1.791ff34e3d12ap-2%float. refute. Qed.

Lemma BoundedSum_F_assoc_refuted : not_assocF BoundedSum_F.
Proof. exists 0x1.9cb0b65679748p-1%float, 0x1.26eafab5e6c88p-3%float, 0x1.bfc70d32595d4p-6%float. refute. Qed.

Lemma EinsteinSum_F_ge_max_refuted : not_ge_maxF EinsteinSum_F.
Proof. exists 0x1.0000000000002p-53%float, 0x1.ffffffffffffep-1%float. refute. Qed.
Lemma EinsteinSum_F_mono2_refuted : not_mono2F EinsteinSum_F.
Proof. exists 0x1.e8d0a21c25400p-9%float, 0x1.7ffffffffffffp-1%float, 0x1.8p-1%float. refute. Qed.
Lemma EinsteinSum_F_assoc_refuted : not_assocF EinsteinSum_F.
Proof. exists 0x1.edaefca56eb74p-1%float, 0x1.edaefca56eb74p-1%float, 0x1.beb132b8ef4d8p-2%float. refute. Qed.

(* HamacherSum leaves the unit interval: S(a, 1) = 1 + 2^-52 for a just above 2^-53 *)
Lemma HamacherSum_F_range_refuted : not_rangeF HamacherSum_F.
Proof. exists 0x1.0000000000001p-53%float, 1%float. refute. Qed.
Lemma HamacherSum_F_annih_refuted : not_annihF HamacherSum_F 1.
Proof. exists 0x1.0000000000001p-53%float. refute. Qed.
Lemma HamacherSum_F_ge_max_refuted : not_ge_maxF HamacherSum_F.
Proof. exists 0x1.1f39cf5a92d22p-50%float, 1%float. refute. Qed.
Lemma HamacherSum_F_mono2_refuted : not_mono2F HamacherSum_F.
Proof. exists 0x1.00ed13daec180p-10%float, 0x1.fffffffffffffp-1%float, 1%float. refute. Qed.
Lemma HamacherSum_F_assoc_refuted : not_assocF HamacherSum_F.
Proof. exists 0x1.cea9fc931f76cp-3%float, 0x1.cea9fc931f76cp-3%float, 0x1.defabc94ffd8fp-1%float. refute. Qed.

Lemma NormalizedSum_F_assoc_refuted : not_assocF NormalizedSum_F.
Proof. exists 0x1.fe6c3056f9388p-2%float, 0x1.00ed13daec180p-10%float, 0x1.5555555555555p-2%float. refute. Qed.

Lemma UnboundedSum_F_range_refuted : not_rangeF UnboundedSum_F.
Proof. exists 1%float, 1%float. refute. Qed.
Lemma UnboundedSum_F_assoc_refuted : not_assocF UnboundedSum_F.
Proof. exists 0x1.3642a79c4e4c8p-9%float, 0x1.3642a79c4e4c8p-9%float, 0x1.515a176552fc8p-2%float. refute. Qed.

(* ------------------------------------------------------------------ 18. associativity of the nilpotent pair holds EXACTLY:
   the branch test  1 < RN(a+b)  is monotone in a and b, so it behaves like a threshold on the real sum *)
Definition NilMinRN (x y : R) : R := if Rlt_dec 1 (RN (x + y)) then Rmin x y else 0.
Definition NilMaxRN (x y : R) : R := if Rlt_dec (RN (x + y)) 1 then Rmax x y else 1.

Lemma NilpotentMinimum_F_spec a b : unitF a -> unitF b ->
  R_of (NilpotentMinimum_F a b) = NilMinRN (R_of a) (R_of b).
Proof.
  unfold NilMinRN. startF. fadd a b in 0 2 as Fs Es Bs. rewrite <- Es.
  destruct (Fmin_fin a b ltac:(fin_tac) ltac:(fin_tac)) as [_ E1].
  fcase_ltb 1%float (a + b)%float as H; destruct (Rlt_dec 1 (R_of (a + b)%float)); try (exfalso; lra);
    [exact E1 | exact Lit0].
Qed.
Lemma NilpotentMaximum_F_spec a b : unitF a -> unitF b ->
  R_of (NilpotentMaximum_F a b) = NilMaxRN (R_of a) (R_of b).
Proof.
  unfold NilMaxRN. startF. fadd a b in 0 2 as Fs Es Bs. rewrite <- Es.
  destruct (Fmax_fin a b ltac:(fin_tac) ltac:(fin_tac)) as [_ E1].
  fcase_ltb (a + b)%float 1%float as H; destruct (Rlt_dec (R_of (a + b)%float) 1); try (exfalso; lra);
    [exact E1 | exact Lit1].
Qed.

Ltac noifF t := lazymatch t with context [if _ then _ else _] => fail | _ => idtac end.
Lemma Rmin3 x y z : Rmin (Rmin x y) z = Rmin (Rmin z y) x.
Proof.
  unfold Rmin; repeat match goal with |- context [Rle_dec ?a ?b] => noifF a; noifF b; destruct (Rle_dec a b) end; lra.
Qed.
Lemma Rmax3 x y z : Rmax (Rmax x y) z = Rmax (Rmax z y) x.
Proof.
  unfold Rmax; repeat match goal with |- context [Rle_dec ?a ?b] => noifF a; noifF b; destruct (Rle_dec a b) end; lra.
Qed.

Lemma NilMinRN_comm x y : NilMinRN x y = NilMinRN y x.
Proof. unfold NilMinRN. now rewrite (Rplus_comm y x), (Rmin_comm y x). Qed.
Lemma NilMaxRN_comm x y : NilMaxRN x y = NilMaxRN y x.
Proof. unfold NilMaxRN. now rewrite (Rplus_comm y x), (Rmax_comm y x). Qed.

(* the nested application is `min of all three` guarded by the three pairwise tests *)
Lemma NilMinRN_left x y z : fmt z -> unit x -> unit y -> unit z ->
  NilMinRN (NilMinRN x y) z =
  if Rlt_dec 1 (RN (x + y)) then if Rlt_dec 1 (RN (x + z)) then if Rlt_dec 1 (RN (y + z))
  then Rmin (Rmin x y) z else 0 else 0 else 0.
Proof.
  unfold unit. intros Fz Ux Uy Uz.
  assert (Z1 : RN (0 + z) = z) by (rewrite Rplus_0_l; now apply RN_id).
  unfold NilMinRN at 2. destruct (Rlt_dec 1 (RN (x + y))) as [A | A].
  - destruct (Rle_dec x y) as [O | O].
    + assert (M : RN (x + z) <= RN (y + z)) by (apply RN_le; lra).
      rewrite (Rmin_left x y O). unfold NilMinRN. destruct (Rlt_dec 1 (RN (x + z))) as [B | B]; [| reflexivity].
      destruct (Rlt_dec 1 (RN (y + z))) as [C | C]; [reflexivity | exfalso; lra].
    + assert (M : RN (y + z) <= RN (x + z)) by (apply RN_le; lra).
      rewrite (Rmin_right x y) by lra. unfold NilMinRN. destruct (Rlt_dec 1 (RN (y + z))) as [C | C].
      * destruct (Rlt_dec 1 (RN (x + z))) as [B | B]; [reflexivity | exfalso; lra].
      * destruct (Rlt_dec 1 (RN (x + z))); reflexivity.
  - unfold NilMinRN. rewrite Z1. destruct (Rlt_dec 1 z); [exfalso; lra | reflexivity].
Qed.
Lemma NilMaxRN_left x y z : unit x -> unit y -> unit z ->
  NilMaxRN (NilMaxRN x y) z =
  if Rlt_dec (RN (x + y)) 1 then if Rlt_dec (RN (x + z)) 1 then if Rlt_dec (RN (y + z)) 1
  then Rmax (Rmax x y) z else 1 else 1 else 1.
Proof.
  unfold unit. intros Ux Uy Uz.
  assert (Z1 : 1 <= RN (1 + z)) by (apply RN_ge; [apply fmt_1 | lra]).
  unfold NilMaxRN at 2. destruct (Rlt_dec (RN (x + y)) 1) as [A | A].
  - destruct (Rle_dec x y) as [O | O].
    + assert (M : RN (x + z) <= RN (y + z)) by (apply RN_le; lra).
      rewrite (Rmax_right x y O). unfold NilMaxRN. destruct (Rlt_dec (RN (y + z)) 1) as [C | C].
      * destruct (Rlt_dec (RN (x + z)) 1) as [B | B]; [reflexivity | exfalso; lra].
      * destruct (Rlt_dec (RN (x + z)) 1); reflexivity.
    + assert (M : RN (y + z) <= RN (x + z)) by (apply RN_le; lra).
      rewrite (Rmax_left x y) by lra. unfold NilMaxRN. destruct (Rlt_dec (RN (x + z)) 1) as [B | B]; [| reflexivity].
      destruct (Rlt_dec (RN (y + z)) 1) as [C | C]; [reflexivity | exfalso; lra].
  - unfold NilMaxRN. destruct (Rlt_dec (RN (1 + z)) 1); [exfalso; lra | reflexivity].
Qed.

Lemma NilMinRN_assoc x y z : fmt x -> fmt y -> fmt z -> unit x -> unit y -> unit z ->
  NilMinRN (NilMinRN x y) z = NilMinRN x (NilMinRN y z).
Proof.
  intros Fx Fy Fz Ux Uy Uz.
  rewrite (NilMinRN_comm x (NilMinRN y z)), (NilMinRN_comm y z).
  rewrite (NilMinRN_left x y z Fz Ux Uy Uz), (NilMinRN_left z y x Fx Uz Uy Ux).
  rewrite (Rplus_comm z y), (Rplus_comm z x), (Rplus_comm y x), (Rmin3 z y x).
  destruct (Rlt_dec 1 (RN (x + y))), (Rlt_dec 1 (RN (x + z))), (Rlt_dec 1 (RN (y + z))); reflexivity.
Qed.
Lemma NilMaxRN_assoc x y z : fmt x -> fmt y -> fmt z -> unit x -> unit y -> unit z ->
  NilMaxRN (NilMaxRN x y) z = NilMaxRN x (NilMaxRN y z).
Proof.
  intros Fx Fy Fz Ux Uy Uz.
  rewrite (NilMaxRN_comm x (NilMaxRN y z)), (NilMaxRN_comm y z).
  rewrite (NilMaxRN_left x y z Ux Uy Uz), (NilMaxRN_left z y x Uz Uy Ux).
  rewrite (Rplus_comm z y), (Rplus_comm z x), (Rplus_comm y x), (Rmax3 z y x).
  destruct (Rlt_dec (RN (x + y)) 1), (Rlt_dec (RN (x + z)) 1), (Rlt_dec (RN (y + z)) 1); reflexivity.
Qed.

Lemma NilpotentMinimum_F_assoc : assocF NilpotentMinimum_F.
Proof.
  intros a b c Ua Ub Uc.
  rewrite (NilpotentMinimum_F_spec _ c (NilpotentMinimum_F_range a b Ua Ub) Uc),
    (NilpotentMinimum_F_spec a _ Ua (NilpotentMinimum_F_range b c Ub Uc)),
    (NilpotentMinimum_F_spec a b Ua Ub), (NilpotentMinimum_F_spec b c Ub Uc).
  apply NilMinRN_assoc; try apply fmt_R_of; now apply unitF_unit.
Qed.
Lemma NilpotentMaximum_F_assoc : assocF NilpotentMaximum_F.
Proof.
  intros a b c Ua Ub Uc.
  rewrite (NilpotentMaximum_F_spec _ c (NilpotentMaximum_F_range a b Ua Ub) Uc),
    (NilpotentMaximum_F_spec a _ Ua (NilpotentMaximum_F_range b c Ub Uc)),
    (NilpotentMaximum_F_spec a b Ua Ub), (NilpotentMaximum_F_spec b c Ub Uc).
  apply NilMaxRN_assoc; try apply fmt_R_of; now apply unitF_unit.
Qed.

(* ------------------------------------------------------------------ 19. De Morgan duality S a b = 1 - T (1-a) (1-b) fails in binary64
   for every pair (1 - a is not exact for small a): one witness serves all seven pairs *)
Definition not_dualF (S T : F2) := exists a b, unitF a /\ unitF b /\
  fin (S a b) /\ fin (1 - T (1 - a) (1 - b))%float /\ R_of (S a b) <> R_of (1 - T (1 - a) (1 - b))%float.
Lemma dual_refuted_all :
  not_dualF AlgebraicSum_F AlgebraicProduct_F /\ not_dualF BoundedSum_F BoundedDifference_F /\
  not_dualF DrasticSum_F DrasticProduct_F /\ not_dualF EinsteinSum_F EinsteinProduct_F /\
  not_dualF HamacherSum_F HamacherProduct_F /\ not_dualF Maximum_F Minimum_F /\
  not_dualF NilpotentMaximum_F NilpotentMinimum_F.
Proof.
  repeat split; exists 0x1p-60%float, 0%float; unfold not_dualF;
    (split; [apply unitb_ok; vm_compute; reflexivity |]);
    (split; [apply unitb_ok; vm_compute; reflexivity |]); apply fneq_ok; vm_compute; reflexivity.
Qed.

(* ------------------------------------------------------------------ 20. transport of the witness forms *)
Lemma not_assocF_ext T T' : (forall a b, T' a b = T a b) -> not_assocF T -> not_assocF T'.
Proof. intros E (a & b & c & H). exists a, b, c. rewrite !E. exact H. Qed.
Lemma not_identF_ext T T' e : (forall a b, T' a b = T a b) -> not_identF T e -> not_identF T' e.
Proof. intros E (a & H). exists a. rewrite !E. exact H. Qed.
Lemma not_annihF_ext T T' z : (forall a b, T' a b = T a b) -> not_annihF T z -> not_annihF T' z.
Proof. intros E (a & H). exists a. rewrite !E. exact H. Qed.
Lemma not_le_minF_ext T T' : (forall a b, T' a b = T a b) -> not_le_minF T -> not_le_minF T'.
Proof. intros E (a & b & H). exists a, b. rewrite !E. exact H. Qed.
Lemma not_ge_maxF_ext T T' : (forall a b, T' a b = T a b) -> not_ge_maxF T -> not_ge_maxF T'.
Proof. intros E (a & b & H). exists a, b. rewrite !E. exact H. Qed.
Lemma not_mono2F_ext T T' : (forall a b, T' a b = T a b) -> not_mono2F T -> not_mono2F T'.
Proof. intros E (a & b & c & H). exists a, b, c. rewrite !E. exact H. Qed.
Lemma not_rangeF_ext T T' : (forall a b, T' a b = T a b) -> not_rangeF T -> not_rangeF T'.
Proof. intros E (a & b & H). exists a, b. rewrite !E. exact H. Qed.
Lemma not_dualF_ext S S' T T' : (forall a b, S' a b = S a b) -> (forall a b, T' a b = T a b) ->
  not_dualF S T -> not_dualF S' T'.
Proof. intros ES ET (a & b & H). exists a, b. rewrite !ES, !ET. exact H. Qed.
Lemma tnorm_laws_F_ext T T' : (forall a b, T' a b = T a b) -> tnorm_laws_F T -> tnorm_laws_F T'.
Proof.
  intros E (H1 & H2 & H3 & H4 & H5 & H6 & H7).
  exact (conj (rangeF_ext _ _ E H1) (conj (commF_ext _ _ E H2) (conj (mono2F_ext _ _ E H3)
    (conj (assocF_ext _ _ E H4) (conj (identF_ext _ _ _ E H5) (conj (annihF_ext _ _ _ E H6) (le_minF_ext _ _ E H7))))))).
Qed.
Lemma snorm_laws_F_ext S S' : (forall a b, S' a b = S a b) -> snorm_laws_F S -> snorm_laws_F S'.
Proof.
  intros E (H1 & H2 & H3 & H4 & H5 & H6 & H7).
  exact (conj (rangeF_ext _ _ E H1) (conj (commF_ext _ _ E H2) (conj (mono2F_ext _ _ E H3)
    (conj (assocF_ext _ _ E H4) (conj (identF_ext _ _ _ E H5) (conj (annihF_ext _ _ _ E H6) (ge_maxF_ext _ _ E H7))))))).
Qed.
Lemma tnorm_laws_F_mono1 T : tnorm_laws_F T -> mono1F T.
Proof. intros (_ & C & M & _). now apply mono2_mono1. Qed.
Lemma snorm_laws_F_mono1 S : snorm_laws_F S -> mono1F S.
Proof. intros (_ & C & M & _). now apply mono2_mono1. Qed.

Theorem NilpotentMaximum_F_laws : snorm_laws_F NilpotentMaximum_F.
Proof.
  exact (conj NilpotentMaximum_F_range (conj NilpotentMaximum_F_comm (conj NilpotentMaximum_F_mono2
    (conj NilpotentMaximum_F_assoc (conj NilpotentMaximum_F_ident (conj NilpotentMaximum_F_annih
    NilpotentMaximum_F_ge_max)))))).
Qed.

(* ------------------------------------------------------------------ 22. finer analysis: the remaining range laws *)
Lemma mul_ge_luk a b : unitF a -> unitF b -> R_of a + R_of b - 1 <= R_of (a * b)%float.
Proof.
  intros Ua Ub. destruct (mul_unit a b Ua Ub) as (_ & E & _). rewrite E.
  apply RN_mul_ge_luk; try apply fmt_R_of; [apply Ua | apply Ub].
Qed.

Lemma HamacherProduct_F_range : rangeF HamacherProduct_F.
Proof.
  startF. fadd a b in 0 2 as Fs Es Bs.
  destruct (mul_unit a b ltac:(split; assumption) ltac:(split; assumption)) as ([Fp Bp] & Ep & Pa & Pb).
  fcase_eqb (a + b)%float 0%float as H; simpl negb; cbv iota; [apply unitF_zero |].
  assert (S2 : 2 * Rmin (R_of a) (R_of b) <= R_of (a + b)%float).
  { rewrite Es. apply RN_ge; [apply fmt_double; fmt_tac | splitmm; lra]. }
  assert (Pm : R_of (a * b)%float <= Rmin (R_of a) (R_of b)) by (splitmm; lra).
  fsub (a + b)%float (a * b)%float in 0 2 as Ft Et Bt.
  assert (Tp : R_of (a * b)%float <= R_of (a + b - a * b)%float).
  { rewrite Et. apply RN_ge; [apply fmt_R_of | lra]. }
  assert (Tpos : 0 < R_of (a + b - a * b)%float).
  { destruct (Req_dec (R_of (a * b)%float) 0) as [Z | Z]; [| lra].
    rewrite Et, Z, Rminus_0_r, (RN_id _ (fmt_R_of _)). lra. }
  apply (div_unit _ _ Fp Ft); [lra | exact Tpos].
Qed.

Lemma EinsteinSum_F_range : rangeF EinsteinSum_F.
Proof.
  intros a b Ua Ub. pose proof (mul_ge_luk a b Ua Ub) as K. revert Ua Ub. startF.
  fadd a b in 0 2 as Fs Es Bs. fmul a b in 0 1 as Fp Ep Bp.
  fadd 1%float (a * b)%float in 1 2 as Fd Ed Bd.
  assert (L : R_of (a + b)%float <= R_of (1 + a * b)%float) by (rewrite Es, Ed; apply RN_le; lra).
  apply (div_unit _ _ Fs Fd); lra.
Qed.

(* the common core  t = RN(RN(a+b) - RN(a*b))  of AlgebraicSum / EinsteinProduct / HamacherProduct lies in [0,1] *)
Lemma AlgebraicSum_F_range : rangeF AlgebraicSum_F.
Proof.
  intros a b Ua Ub. pose proof (mul_ge_luk a b Ua Ub) as K.
  destruct (add_unit a b Ua Ub) as (Fs & Es & Bs).
  destruct (mul_unit a b Ua Ub) as ([Fp Bp] & Ep & Pa & Pb).
  revert Ua Ub. startF.
  assert (Pm : R_of (a * b)%float <= Rmax (R_of a) (R_of b)) by (splitmm; lra).
  fsub (a + b)%float (a * b)%float in 0 2 as Ft Et Bt.
  split; [exact Ft |]. split; [lra |].
  assert (Y : 1 <= 1 + R_of (a * b)%float <= 2) by lra.
  pose proof (RN_err_12 _ Y) as Err. apply Rabs_le_inv in Err.
  assert (L : R_of (a + b)%float <= RN (1 + R_of (a * b)%float)) by (rewrite Es; apply RN_le; lra).
  rewrite Et, <- RN_1_plus_half_ulp. apply RN_le. lra.
Qed.

Lemma EinsteinProduct_F_core a b : unitF a -> unitF b ->
  fin (EinsteinProduct_F a b) /\ 0 <= R_of (EinsteinProduct_F a b) <= R_of (a * b)%float.
Proof.
  intros Ua Ub. destruct (AlgebraicSum_F_range a b Ua Ub) as [Ft Bt]. unfold AlgebraicSum_F in Ft, Bt.
  destruct (mul_unit a b Ua Ub) as ([Fp Bp] & Ep & Pa & Pb).
  revert Ua Ub. startF.
  fsub 2%float (a + b - a * b)%float in 1 2 as Fd Ed Bd.
  assert (Q : 0 <= R_of (a * b)%float / R_of (2 - (a + b - a * b))%float <= R_of (a * b)%float).
  { split; [apply Rmult_le_pos; [lra | left; apply Rinv_0_lt_compat; lra] |].
    apply Rmult_le_reg_r with (R_of (2 - (a + b - a * b))%float); [lra |].
    unfold Rdiv. rewrite Rmult_assoc, Rinv_l by lra. nra. }
  assert (S : safe (R_of (a * b)%float / R_of (2 - (a + b - a * b))%float)) by (apply safe_4; lra).
  destruct (div_RN _ _ Fp Fd ltac:(lra) S) as [F E]. split; [exact F |]. rewrite E.
  apply RN_bounds; [apply fmt_0 | apply fmt_R_of | exact Q].
Qed.
Lemma EinsteinProduct_F_range : rangeF EinsteinProduct_F.
Proof.
  intros a b Ua Ub. destruct (EinsteinProduct_F_core a b Ua Ub) as [F B].
  destruct (mul_unit a b Ua Ub) as ([_ Bp] & _). split; [exact F | lra].
Qed.
Lemma EinsteinProduct_F_le_min : le_minF EinsteinProduct_F.
Proof.
  intros a b Ua Ub. destruct (EinsteinProduct_F_core a b Ua Ub) as [F B].
  destruct (mul_unit a b Ua Ub) as (_ & _ & Pa & Pb). splitmm; lra.
Qed.
Lemma EinsteinProduct_F_ident : identF EinsteinProduct_F 1.
Proof.
  intros a Ua. destruct (AlgebraicSum_F_range a 1%float Ua unitF_one) as [Ft Bt]. unfold AlgebraicSum_F in Ft, Bt.
  revert Ua. startF. destruct (mul_1_r a ltac:(fin_tac)) as [Fp Ep].
  fadd a 1%float in 1 2 as Fs Es Bs.
  assert (Y : 1 <= R_of a + 1 <= 2) by lra.
  pose proof (RN_err_12 _ Y) as Err. apply Rabs_le_inv in Err. pose proof bpow_m53_small as Sm.
  assert (S : safe (R_of (a + 1)%float - R_of (a * 1)%float)) by (apply safe_4; lra).
  destruct (sub_RN _ _ Fs Fp S) as [_ Et].
  assert (Tl : 1 - bpow radix2 (-53) <= R_of (a + 1 - a * 1)%float).
  { rewrite Et. apply RN_ge; [apply fmt_pred1 |]. rewrite Es, Lit1. lra. }
  fsub 2%float (a + 1 - a * 1)%float in 1 2 as Fd Ed Bd.
  assert (D1 : R_of (2 - (a + 1 - a * 1))%float = 1).
  { apply Rle_antisym; [| lra]. rewrite Ed, <- RN_1_plus_half_ulp. apply RN_le. lra. }
  destruct (div_R1 _ _ Fp Fd D1) as [F E]. split; [exact F | lra].
Qed.

(* the real value of a quotient of finite floats depends only on the real values of the operands
   (also when the operation overflows: both results are then infinite, with real value 0) *)
Lemma SF2R_overflow s : SF2R radix2 (binary_overflow prec emax mode_NE s) = 0.
Proof. destruct s; reflexivity. Qed.

Lemma div_R_congr n1 n2 d : fin n1 -> fin n2 -> fin d -> R_of n1 = R_of n2 -> R_of d <> 0 ->
  R_of (n1 / d)%float = R_of (n2 / d)%float.
Proof.
  unfold fin, R_of. intros F1 F2 Fd E Z. rewrite !div_equiv.
  generalize (Bdiv_correct prec emax Hprec Hmax mode_NE (Prim2B n1) (Prim2B d) Z)
             (Bdiv_correct prec emax Hprec Hmax mode_NE (Prim2B n2) (Prim2B d) Z).
  rewrite E. destruct (Rlt_bool _ _).
  - intros (E1 & _) (E2 & _). now rewrite E1, E2.
  - intros E1 E2. rewrite <- !SF2R_B2SF, E1, E2, !SF2R_overflow. reflexivity.
Qed.
Lemma HamacherSum_F_comm : commF HamacherSum_F.
Proof.
  startF. rewrite (mul_comm_f b a), (add_comm_f b a).
  fmul a b in 0 1 as Fp Ep Bp.
  fcase_eqb (a * b)%float 1%float as H; simpl negb; cbv iota; [reflexivity |].
  fadd a b in 0 2 as Fs Es Bs.
  (* 2*a and 2*b are exact *)
  assert (Da : fin (2 * a)%float /\ R_of (2 * a)%float = 2 * R_of a).
  { fmul 2%float a in 0 2 as F E B. split; [exact F |]. rewrite E, Lit2. apply RN_id, fmt_double, fmt_R_of. }
  assert (Db : fin (2 * b)%float /\ R_of (2 * b)%float = 2 * R_of b).
  { fmul 2%float b in 0 2 as F E B. split; [exact F |]. rewrite E, Lit2. apply RN_id, fmt_double, fmt_R_of. }
  destruct Da as [Fa2 Ea2], Db as [Fb2 Eb2].
  fmul (2 * a)%float b in 0 2 as Fq1 Eq1 Bq1. fmul (2 * b)%float a in 0 2 as Fq2 Eq2 Bq2.
  assert (Eq : R_of (2 * a * b)%float = R_of (2 * b * a)%float).
  { rewrite Eq1, Eq2, Ea2, Eb2. f_equal. ring. }
  fsub (a + b)%float (2 * a * b)%float in (-2) 2 as Fn1 En1 Bn1.
  fsub (a + b)%float (2 * b * a)%float in (-2) 2 as Fn2 En2 Bn2.
  assert (En : R_of (a + b - 2 * a * b)%float = R_of (a + b - 2 * b * a)%float) by (rewrite En1, En2, Eq; reflexivity).
  destruct (sub_pos 1%float (a * b)%float fin_one Fp ltac:(apply safe_4; lra) ltac:(lra)) as (Fd & Pd & _).
  apply div_R_congr; try assumption. lra.
Qed.

(* ------------------------------------------------------------------ 21. the statements on the GENERATED kernels at NumF m tbl *)
Lemma mono1_of T : commF T -> mono2F T -> mono1F T.
Proof. apply mono2_mono1. Qed.

Section Final.
  Variables (m : bool) (tbl : oracle).
  Local Notation NF := (NumF m tbl).

  (* -- the seven T-norms *)
  Theorem AlgebraicProduct_float : let T := @AlgebraicProduct_compute _ NF in
    rangeF T /\ commL T /\ mono1F T /\ mono2F T /\ identF T 1 /\ annihF T 0 /\ le_minF T.
  Proof.
    pose proof (AlgebraicProduct_Feq m tbl) as E.
    exact (conj (rangeF_ext _ _ E AlgebraicProduct_F_range) (conj (commL_ext _ _ E AlgebraicProduct_F_commL)
      (conj (mono1F_ext _ _ E (mono1_of _ (commL_commF _ AlgebraicProduct_F_commL) AlgebraicProduct_F_mono2))
      (conj (mono2F_ext _ _ E AlgebraicProduct_F_mono2) (conj (identF_ext _ _ _ E AlgebraicProduct_F_ident)
      (conj (annihF_ext _ _ _ E AlgebraicProduct_F_annih) (le_minF_ext _ _ E AlgebraicProduct_F_le_min))))))).
  Qed.
  Theorem AlgebraicProduct_assoc_refuted : not_assocF (@AlgebraicProduct_compute _ NF).
  Proof. exact (not_assocF_ext _ _ (AlgebraicProduct_Feq m tbl) AlgebraicProduct_F_assoc_refuted). Qed.

  Theorem BoundedDifference_float : let T := @BoundedDifference_compute _ NF in
    rangeF T /\ commL T /\ mono1F T /\ mono2F T /\ annihF T 0.
  Proof.
    pose proof (BoundedDifference_Feq m tbl) as E.
    exact (conj (rangeF_ext _ _ E BoundedDifference_F_range) (conj (commL_ext _ _ E BoundedDifference_F_commL)
      (conj (mono1F_ext _ _ E (mono1_of _ (commL_commF _ BoundedDifference_F_commL) BoundedDifference_F_mono2))
      (conj (mono2F_ext _ _ E BoundedDifference_F_mono2) (annihF_ext _ _ _ E BoundedDifference_F_annih))))).
  Qed.
  Theorem BoundedDifference_refuted : let T := @BoundedDifference_compute _ NF in
    not_identF T 1 /\ not_le_minF T /\ not_assocF T.
  Proof.
    pose proof (BoundedDifference_Feq m tbl) as E.
    exact (conj (not_identF_ext _ _ _ E BoundedDifference_F_ident_refuted)
      (conj (not_le_minF_ext _ _ E BoundedDifference_F_le_min_refuted)
            (not_assocF_ext _ _ E BoundedDifference_F_assoc_refuted))).
  Qed.

  Theorem DrasticProduct_float : let T := @DrasticProduct_compute _ NF in tnorm_laws_F T /\ mono1F T.
  Proof.
    pose proof (tnorm_laws_F_ext _ _ (DrasticProduct_Feq m tbl) DrasticProduct_F_laws) as L.
    exact (conj L (tnorm_laws_F_mono1 _ L)).
  Qed.

  Theorem EinsteinProduct_float : let T := @EinsteinProduct_compute _ NF in
    rangeF T /\ commL T /\ identF T 1 /\ annihF T 0 /\ le_minF T.
  Proof.
    pose proof (EinsteinProduct_Feq m tbl) as E.
    exact (conj (rangeF_ext _ _ E EinsteinProduct_F_range) (conj (commL_ext _ _ E EinsteinProduct_F_commL)
      (conj (identF_ext _ _ _ E EinsteinProduct_F_ident) (conj (annihF_ext _ _ _ E EinsteinProduct_F_annih)
      (le_minF_ext _ _ E EinsteinProduct_F_le_min))))).
  Qed.
  Theorem EinsteinProduct_refuted : let T := @EinsteinProduct_compute _ NF in not_mono2F T /\ not_assocF T.
  Proof.
    pose proof (EinsteinProduct_Feq m tbl) as E.
    exact (conj (not_mono2F_ext _ _ E EinsteinProduct_F_mono2_refuted)
                (not_assocF_ext _ _ E EinsteinProduct_F_assoc_refuted)).
  Qed.

  Theorem HamacherProduct_float : let T := @HamacherProduct_compute _ NF in
    rangeF T /\ commL T /\ annihF T 0.
  Proof.
    pose proof (HamacherProduct_Feq m tbl) as E.
    exact (conj (rangeF_ext _ _ E HamacherProduct_F_range) (conj (commL_ext _ _ E HamacherProduct_F_commL)
      (annihF_ext _ _ _ E HamacherProduct_F_annih))).
  Qed.
  Theorem HamacherProduct_refuted : let T := @HamacherProduct_compute _ NF in
    not_identF T 1 /\ not_le_minF T /\ not_mono2F T /\ not_assocF T.
  Proof.
    pose proof (HamacherProduct_Feq m tbl) as E.
    exact (conj (not_identF_ext _ _ _ E HamacherProduct_F_ident_refuted)
      (conj (not_le_minF_ext _ _ E HamacherProduct_F_le_min_refuted)
      (conj (not_mono2F_ext _ _ E HamacherProduct_F_mono2_refuted)
            (not_assocF_ext _ _ E HamacherProduct_F_assoc_refuted)))).
  Qed.

  Theorem Minimum_float : let T := @Minimum_compute _ NF in tnorm_laws_F T /\ mono1F T.
  Proof.
    pose proof (tnorm_laws_F_ext _ _ (Minimum_Feq m tbl) Minimum_F_laws) as L.
    exact (conj L (tnorm_laws_F_mono1 _ L)).
  Qed.

  Theorem NilpotentMinimum_float : let T := @NilpotentMinimum_compute _ NF in
    rangeF T /\ commF T /\ mono1F T /\ mono2F T /\ assocF T /\ annihF T 0 /\ le_minF T.
  Proof.
    pose proof (NilpotentMinimum_Feq m tbl) as E.
    exact (conj (rangeF_ext _ _ E NilpotentMinimum_F_range) (conj (commF_ext _ _ E NilpotentMinimum_F_comm)
      (conj (mono1F_ext _ _ E (mono1_of _ NilpotentMinimum_F_comm NilpotentMinimum_F_mono2))
      (conj (mono2F_ext _ _ E NilpotentMinimum_F_mono2) (conj (assocF_ext _ _ E NilpotentMinimum_F_assoc)
      (conj (annihF_ext _ _ _ E NilpotentMinimum_F_annih) (le_minF_ext _ _ E NilpotentMinimum_F_le_min))))))).
  Qed.
  Theorem NilpotentMinimum_ident_refuted : not_identF (@NilpotentMinimum_compute _ NF) 1.
  Proof. exact (not_identF_ext _ _ _ (NilpotentMinimum_Feq m tbl) NilpotentMinimum_F_ident_refuted). Qed.

  (* -- the nine S-norms *)
  Theorem AlgebraicSum_float : let S := @AlgebraicSum_compute _ NF in rangeF S /\ commL S /\ identF S 0.
  Proof.
    pose proof (AlgebraicSum_Feq m tbl) as E.
    exact (conj (rangeF_ext _ _ E AlgebraicSum_F_range) (conj (commL_ext _ _ E AlgebraicSum_F_commL)
      (identF_ext _ _ _ E AlgebraicSum_F_ident))).
  Qed.
  Theorem AlgebraicSum_refuted : let S := @AlgebraicSum_compute _ NF in
    not_annihF S 1 /\ not_ge_maxF S /\ not_mono2F S /\ not_assocF S.
  Proof.
    pose proof (AlgebraicSum_Feq m tbl) as E.
    exact (conj (not_annihF_ext _ _ _ E AlgebraicSum_F_annih_refuted)
      (conj (not_ge_maxF_ext _ _ E AlgebraicSum_F_ge_max_refuted)
      (conj (not_mono2F_ext _ _ E AlgebraicSum_F_mono2_refuted)
            (not_assocF_ext _ _ E AlgebraicSum_F_assoc_refuted)))).
  Qed.

  Theorem BoundedSum_float : let S := @BoundedSum_compute _ NF in
    rangeF S /\ commL S /\ mono1F S /\ mono2F S /\ identF S 0 /\ annihF S 1 /\ ge_maxF S.
  Proof.
    pose proof (BoundedSum_Feq m tbl) as E.
    exact (conj (rangeF_ext _ _ E BoundedSum_F_range) (conj (commL_ext _ _ E BoundedSum_F_commL)
      (conj (mono1F_ext _ _ E (mono1_of _ (commL_commF _ BoundedSum_F_commL) BoundedSum_F_mono2))
      (conj (mono2F_ext _ _ E BoundedSum_F_mono2) (conj (identF_ext _ _ _ E BoundedSum_F_ident)
      (conj (annihF_ext _ _ _ E BoundedSum_F_annih) (ge_maxF_ext _ _ E BoundedSum_F_ge_max))))))).
  Qed.
  Theorem BoundedSum_assoc_refuted : not_assocF (@BoundedSum_compute _ NF).
  Proof. exact (not_assocF_ext _ _ (BoundedSum_Feq m tbl) BoundedSum_F_assoc_refuted). Qed.

  Theorem DrasticSum_float : let S := @DrasticSum_compute _ NF in snorm_laws_F S /\ mono1F S.
  Proof.
    pose proof (snorm_laws_F_ext _ _ (DrasticSum_Feq m tbl) DrasticSum_F_laws) as L.
    exact (conj L (snorm_laws_F_mono1 _ L)).
  Qed.

  Theorem EinsteinSum_float : let S := @EinsteinSum_compute _ NF in
    rangeF S /\ commL S /\ identF S 0 /\ annihF S 1.
  Proof.
    pose proof (EinsteinSum_Feq m tbl) as E.
    exact (conj (rangeF_ext _ _ E EinsteinSum_F_range) (conj (commL_ext _ _ E EinsteinSum_F_commL)
      (conj (identF_ext _ _ _ E EinsteinSum_F_ident) (annihF_ext _ _ _ E EinsteinSum_F_annih)))).
  Qed.
  Theorem EinsteinSum_refuted : let S := @EinsteinSum_compute _ NF in
    not_ge_maxF S /\ not_mono2F S /\ not_assocF S.
  Proof.
    pose proof (EinsteinSum_Feq m tbl) as E.
    exact (conj (not_ge_maxF_ext _ _ E EinsteinSum_F_ge_max_refuted)
      (conj (not_mono2F_ext _ _ E EinsteinSum_F_mono2_refuted)
            (not_assocF_ext _ _ E EinsteinSum_F_assoc_refuted))).
  Qed.

  Theorem HamacherSum_float : let S := @HamacherSum_compute _ NF in commF S /\ identF S 0.
  Proof.
    pose proof (HamacherSum_Feq m tbl) as E.
    exact (conj (commF_ext _ _ E HamacherSum_F_comm) (identF_ext _ _ _ E HamacherSum_F_ident)).
  Qed.
  Theorem HamacherSum_refuted : let S := @HamacherSum_compute _ NF in
    not_rangeF S /\ not_annihF S 1 /\ not_ge_maxF S /\ not_mono2F S /\ not_assocF S.
  Proof.
    pose proof (HamacherSum_Feq m tbl) as E.
    exact (conj (not_rangeF_ext _ _ E HamacherSum_F_range_refuted)
      (conj (not_annihF_ext _ _ _ E HamacherSum_F_annih_refuted)
      (conj (not_ge_maxF_ext _ _ E HamacherSum_F_ge_max_refuted)
      (conj (not_mono2F_ext _ _ E HamacherSum_F_mono2_refuted)
            (not_assocF_ext _ _ E HamacherSum_F_assoc_refuted))))).
  Qed.

  Theorem Maximum_float : let S := @Maximum_compute _ NF in snorm_laws_F S /\ mono1F S.
  Proof.
    pose proof (snorm_laws_F_ext _ _ (Maximum_Feq m tbl) Maximum_F_laws) as L.
    exact (conj L (snorm_laws_F_mono1 _ L)).
  Qed.

  Theorem NilpotentMaximum_float : let S := @NilpotentMaximum_compute _ NF in snorm_laws_F S /\ mono1F S.
  Proof.
    pose proof (snorm_laws_F_ext _ _ (NilpotentMaximum_Feq m tbl) NilpotentMaximum_F_laws) as L.
    exact (conj L (snorm_laws_F_mono1 _ L)).
  Qed.

  Theorem NormalizedSum_float : let S := @NormalizedSum_compute _ NF in
    rangeF S /\ commL S /\ mono1F S /\ mono2F S /\ identF S 0 /\ annihF S 1 /\ ge_maxF S.
  Proof.
    pose proof (NormalizedSum_Feq m tbl) as E.
    exact (conj (rangeF_ext _ _ E NormalizedSum_F_range) (conj (commL_ext _ _ E NormalizedSum_F_commL)
      (conj (mono1F_ext _ _ E (mono1_of _ (commL_commF _ NormalizedSum_F_commL) NormalizedSum_F_mono2))
      (conj (mono2F_ext _ _ E NormalizedSum_F_mono2) (conj (identF_ext _ _ _ E NormalizedSum_F_ident)
      (conj (annihF_ext _ _ _ E NormalizedSum_F_annih) (ge_maxF_ext _ _ E NormalizedSum_F_ge_max))))))).
  Qed.
  (* in binary64, too, NormalizedSum computes exactly what BoundedSum computes *)
  Theorem NormalizedSum_is_BoundedSum_float : forall a b, unitF a -> unitF b ->
    fin (@NormalizedSum_compute _ NF a b) /\
    R_of (@NormalizedSum_compute _ NF a b) = R_of (@BoundedSum_compute _ NF a b).
  Proof.
    intros a b Ua Ub. rewrite NormalizedSum_Feq, BoundedSum_Feq. now apply NormalizedSum_F_BoundedSum.
  Qed.
  Theorem NormalizedSum_assoc_refuted : not_assocF (@NormalizedSum_compute _ NF).
  Proof. exact (not_assocF_ext _ _ (NormalizedSum_Feq m tbl) NormalizedSum_F_assoc_refuted). Qed.

  Theorem UnboundedSum_float : let S := @UnboundedSum_compute _ NF in
    (forall a b, unitF a -> unitF b -> fin (S a b) /\ 0 <= R_of (S a b) <= 2) /\
    commL S /\ mono1F S /\ mono2F S /\ identF S 0 /\ ge_maxF S.
  Proof.
    pose proof (UnboundedSum_Feq m tbl) as E.
    refine (conj _ (conj (commL_ext _ _ E UnboundedSum_F_commL)
      (conj (mono1F_ext _ _ E (mono1_of _ (commL_commF _ UnboundedSum_F_commL) UnboundedSum_F_mono2))
      (conj (mono2F_ext _ _ E UnboundedSum_F_mono2) (conj (identF_ext _ _ _ E UnboundedSum_F_ident)
      (ge_maxF_ext _ _ E UnboundedSum_F_ge_max)))))).
    intros a b Ua Ub. rewrite E. now apply UnboundedSum_F_range2.
  Qed.
  Theorem UnboundedSum_refuted : let S := @UnboundedSum_compute _ NF in not_rangeF S /\ not_assocF S.
  Proof.
    pose proof (UnboundedSum_Feq m tbl) as E.
    exact (conj (not_rangeF_ext _ _ E UnboundedSum_F_range_refuted)
                (not_assocF_ext _ _ E UnboundedSum_F_assoc_refuted)).
  Qed.

  (* -- De Morgan duality fails for each of the seven pairs *)
  Theorem dual_refuted :
    not_dualF (@AlgebraicSum_compute _ NF) (@AlgebraicProduct_compute _ NF) /\
    not_dualF (@BoundedSum_compute _ NF) (@BoundedDifference_compute _ NF) /\
    not_dualF (@DrasticSum_compute _ NF) (@DrasticProduct_compute _ NF) /\
    not_dualF (@EinsteinSum_compute _ NF) (@EinsteinProduct_compute _ NF) /\
    not_dualF (@HamacherSum_compute _ NF) (@HamacherProduct_compute _ NF) /\
    not_dualF (@Maximum_compute _ NF) (@Minimum_compute _ NF) /\
    not_dualF (@NilpotentMaximum_compute _ NF) (@NilpotentMinimum_compute _ NF).
  Proof.
    destruct dual_refuted_all as (D1 & D2 & D3 & D4 & D5 & D6 & D7).
    exact (conj (not_dualF_ext _ _ _ _ (AlgebraicSum_Feq m tbl) (AlgebraicProduct_Feq m tbl) D1)
      (conj (not_dualF_ext _ _ _ _ (BoundedSum_Feq m tbl) (BoundedDifference_Feq m tbl) D2)
      (conj (not_dualF_ext _ _ _ _ (DrasticSum_Feq m tbl) (DrasticProduct_Feq m tbl) D3)
      (conj (not_dualF_ext _ _ _ _ (EinsteinSum_Feq m tbl) (EinsteinProduct_Feq m tbl) D4)
      (conj (not_dualF_ext _ _ _ _ (HamacherSum_Feq m tbl) (HamacherProduct_Feq m tbl) D5)
      (conj (not_dualF_ext _ _ _ _ (Maximum_Feq m tbl) (Minimum_Feq m tbl) D6)
            (not_dualF_ext _ _ _ _ (NilpotentMaximum_Feq m tbl) (NilpotentMinimum_Feq m tbl) D7))))))).
  Qed.
End Final.
