(* FldEngineProofs.v — lemmas about Model/FldEngine.v (C18b): the export through the engine model. *)
From Coq Require Import ZArith Bool List String Ascii Lia.
From VF Require Import Num GenNorm GenHedge GenTerm Core NpSum NpLite Cascade Engine Pipeline CascadeProofs Batch BatchProofs Ops
  Fld FldProofs FldEngine.
Import ListNotations.
Local Notation length := List.length.
Local Open Scope list_scope.

Section Restart.
  Context {T : Type} {N : Num T}.

  Lemma restart_inputs_length (e : engine T) : length (e_inputs (restart e)) = length (e_inputs e).
  Proof. unfold restart. cbn. apply map_length. Qed.

  (* Engine.restart forgets the state: a second restart changes nothing *)
  Lemma restart_idem (e : engine T) : restart (restart e) = restart e.
  Proof.
    unfold restart. cbn [e_name e_inputs e_outputs e_blocks]. f_equal.
    - rewrite map_map. apply map_ext. intros iv. reflexivity.
    - rewrite map_map. apply map_ext. intros ov. reflexivity.
    - rewrite map_map. apply map_ext. intros b. unfold block_deactivated. cbn. f_equal.
      rewrite map_map. apply map_ext. intros r. reflexivity.
  Qed.

  Lemma header_line_restart x (e : engine T) : header_line x (restart e) = header_line x e.
  Proof.
    unfold header_line, header, header_names, restart. cbn [e_inputs e_outputs].
    rewrite !map_map. cbn. reflexivity.
  Qed.
End Restart.

Section Pipeline.
  Context {T : Type} {N : Num T}.
  Variable fmt : T -> string.

  (* ---- the export depends on the engine only through `restart e` *)
  Lemma engine_matrix_restart x (e : engine T) rows : engine_matrix x (restart e) rows = engine_matrix x e rows.
  Proof. unfold engine_matrix. rewrite restart_idem, restart_inputs_length. reflexivity. Qed.

  Theorem write_engine_restart x (e : engine T) rows : write_engine fmt x (restart e) rows = write_engine fmt x e rows.
  Proof.
    unfold write_engine, print_matrix. rewrite restart_inputs_length, engine_matrix_restart, header_line_restart. reflexivity.
  Qed.

  Theorem write_starts_from_restart x (e1 e2 : engine T) rows :
    restart e1 = restart e2 -> write_engine fmt x e1 rows = write_engine fmt x e2 rows.
  Proof. intros H. rewrite <- (write_engine_restart x e1), <- (write_engine_restart x e2), H. reflexivity. Qed.

  Lemma rows_matrix_restart x (e : engine T) rows : rows_matrix x (restart e) rows = rows_matrix x e rows.
  Proof.
    unfold rows_matrix, pipeline_rows, row_inputs_of. rewrite restart_idem, restart_inputs_length. reflexivity.
  Qed.
  Theorem write_engine_rows_restart x (e : engine T) rows :
    write_engine_rows fmt x (restart e) rows = write_engine_rows fmt x e rows.
  Proof.
    unfold write_engine_rows, print_matrix. rewrite restart_inputs_length, rows_matrix_restart, header_line_restart. reflexivity.
  Qed.

  (* state that does not survive: current input values, output values / previous values / fuzzy outputs, rule degrees *)
  Lemma restart_set_inputs (e : engine T) xs : length xs = length (e_inputs e) -> restart (set_inputs e xs) = restart e.
  Proof.
    intros Hl. unfold restart, set_inputs. cbn [e_name e_inputs e_outputs e_blocks]. f_equal.
    revert xs Hl. induction (e_inputs e) as [|iv ivs IH]; intros [|v xs] Hl; cbn in *; try discriminate; [reflexivity|].
    f_equal. apply IH. lia.
  Qed.

  (* ---- the rows model, directly *)
  Lemma process_rows_length (e : engine T) rows es : process_rows e rows = Ok es -> length es = length rows.
  Proof.
    revert e es. induction rows as [|r rows IH]; intros e es H; cbn [process_rows] in H.
    - injection H as <-. reflexivity.
    - destruct (process no_function (set_inputs e r)) as [e'|]; [|discriminate]. cbn [bind] in H.
      destruct (process_rows e' rows) as [rest|] eqn:E; [|discriminate]. cbn [bind] in H. injection H as <-.
      cbn. f_equal. exact (IH _ _ E).
  Qed.

  (* rows are processed in order, every row from the state left by the previous one; the first from the restarted engine *)
  Lemma pipeline_rows_cons (e : engine T) r rows :
    pipeline_rows e (r :: rows) =
    (do e' <- process no_function (set_inputs (restart e) r);
     do rest <- process_rows e' rows; Ok (e' :: rest)).
  Proof. reflexivity. Qed.

  Theorem rows_matrix_rows x (e : engine T) input_values m :
    rows_matrix x e input_values = Ok m -> (x_inputs x || x_outputs x) = true ->
    let rows := used_rows (length (e_inputs e)) input_values in
    exists es, pipeline_rows e rows = Ok es /\ length es = length rows /\ length m = length rows /\
      forall r, r < length rows ->
        nth r m [] = (if x_inputs x then row_inputs_of e (nth r rows []) else []) ++
                     (if x_outputs x then row_outputs_of (nth r es e) else []).
  Proof.
    intros H Hsel rows. unfold rows_matrix in H. fold rows in H.
    destruct (pipeline_rows e rows) as [es|] eqn:E; [|discriminate]. cbn [bind] in H. injection H as <-.
    pose proof (process_rows_length _ _ _ E) as Hl.
    exists es. split; [reflexivity|]. split; [exact Hl|].
    destruct (@table_rows T (fun _ => map (@row_outputs_of T) es) x (map (row_inputs_of e) rows)) as [H1 H2];
      [rewrite !map_length; exact Hl | exact Hsel |].
    rewrite map_length in H1. split; [exact H1|].
    intros r Hr. rewrite H2 by (rewrite map_length; exact Hr).
    rewrite (nth_indep (map (row_inputs_of e) rows) [] (row_inputs_of e []))  by (rewrite map_length; exact Hr).
    rewrite map_nth.
    rewrite (nth_indep (map (@row_outputs_of T) es) [] (row_outputs_of e)) by (rewrite map_length; lia).
    rewrite map_nth. reflexivity.
  Qed.

  (* ---- the batch model against the rows model *)
  Lemma columns_cols_of n (rows : list (list T)) : columns n rows = map (@Vec T) (cols_of nan n rows).
  Proof. unfold columns, cols_of. rewrite map_map. reflexivity. Qed.

  Lemma process_b_inputs (st st' : bstate T) : process_b st = Ok st' -> bs_inputs st' = bs_inputs st.
  Proof.
    unfold process_b. intros H.
    destruct (blocks_step_b st _ _ _) as [ro|]; [|discriminate]. cbn [bind] in H.
    destruct (defuzzify_outputs_b st _ _) as [outs|]; [|discriminate]. cbn [bind] in H.
    injection H as <-. reflexivity.
  Qed.

  Lemma row_inputs_clip (e : engine T) r : row_inputs_of e r = map2 iv_clip (e_inputs (restart e)) r.
  Proof.
    unfold row_inputs_of, set_inputs. cbn [e_inputs].
    generalize (e_inputs (restart e)) as ivs. intros ivs. revert r.
    induction ivs as [|iv ivs IH]; intros [|v r]; cbn; try reflexivity.
    f_equal. apply IH.
  Qed.

  Lemma map_seq_nth {A B : Type} (f : nat -> B) (g : A -> B) (l : list A) (d : A) :
    (forall i, i < length l -> f i = g (nth i l d)) -> map f (seq 0 (length l)) = map g l.
  Proof.
    intros H. apply (nth_ext _ _ (f 0) (g d)).
    - rewrite !map_length, seq_length. reflexivity.
    - intros i Hi. rewrite map_length, seq_length in Hi.
      rewrite (nth_indep _ (f 0) (f (nth i (seq 0 (length l)) 0))) by (rewrite map_length, seq_length; exact Hi).
      rewrite map_nth, seq_nth by exact Hi. rewrite map_nth. apply H. exact Hi.
  Qed.

  Lemma combine_app_fst {A : Type} (la lb : list (list A)) : length la = length lb ->
    map (fun io : list A * list A => fst io ++ []) (combine la lb) = la.
  Proof.
    revert lb. induction la as [|a la IH]; intros [|b lb] H; cbn in *; try discriminate; [reflexivity|].
    rewrite app_nil_r. f_equal. apply IH. lia.
  Qed.
  Lemma combine_app_snd {A : Type} (la lb : list (list A)) : length la = length lb ->
    map (fun io : list A * list A => [] ++ snd io) (combine la lb) = lb.
  Proof.
    revert lb. induction la as [|a la IH]; intros [|b lb] H; cbn in *; try discriminate; [reflexivity|].
    f_equal. apply IH. lia.
  Qed.

  (* Under the hypotheses of C02's batch_eq_rows (for the restarted engine and the rows the export reads) the matrix of the
     vectorised export is the matrix of the row-by-row export; failures agree.  `Forall (colshape k)`: there is an output variable and every output
     value of the batch is a (k,) vector (what the defuzzifiers return on k rows whose degrees depend on the inputs). *)
  Theorem engine_matrix_eq_rows x (e : engine T) input_values :
    let n := length (e_inputs e) in
    let rows := used_rows n input_values in
    let e0 := restart e in
    e_inputs e <> [] -> rows <> [] -> rect_rows n rows ->
    general_only e0 -> integral_simple e0 -> r_ok e0 (length rows) -> @zero_laws T N -> minmax_laws N ->
    match process_batch_vars e0 (columns n rows) with
    | Ok st =>
        bs_outputs st <> [] -> Forall (colshape (length rows)) (map (@bo_value T) (bs_outputs st)) ->
        engine_matrix x e input_values = rows_matrix x e input_values
    | Err er => engine_matrix x e input_values = Err er /\ rows_matrix x e input_values = Err er
    end.
  Proof.
    intros n rows e0 Hne Hrows Hrect Hg Hs Hr ZL ML.
    assert (Hn0 : length (e_inputs e0) = n) by apply restart_inputs_length.
    assert (Hne0 : e_inputs e0 <> []).
    { intros E. apply (f_equal (@length _)) in E. rewrite Hn0 in E. subst n. destruct (e_inputs e); [congruence|discriminate]. }
    assert (Hrect0 : rect_rows (length (e_inputs e0)) rows) by (rewrite Hn0; exact Hrect).
    pose proof (batch_eq_rows e0 rows Hne0 Hrows Hrect0 Hg Hs Hr ZL ML) as HB.
    assert (Hpv : process_batch_vars e0 (columns n rows) = process_batch e0 (Mat rows)).
    { rewrite columns_cols_of, <- Hn0. apply process_batch_vars_matrix; assumption. }
    unfold engine_matrix, rows_matrix, pipeline_rows. fold n rows e0. rewrite Hpv.
    destruct (process_batch e0 (Mat rows)) as [st|er] eqn:EB.
    - destruct HB as (es & Hes & Hl & Hrow). intros Hout Hshape. rewrite Hes. cbn [bind].
      (* inputs held by the batch *)
      assert (Hins : input_values_get st = Ok (Mat (map (row_inputs_of e) rows))).
      { unfold process_batch in EB. rewrite (input_values_set_matrix e0 rows Hne0 Hrows Hrect0) in EB. cbn [bind] in EB.
        unfold input_values_get. rewrite (process_b_inputs _ _ EB). cbn [init_bstate bs_inputs].
        rewrite (input_values_get_set e0 rows Hne0 Hrows Hrect0). f_equal. f_equal.
        unfold clip_rows. apply map_ext. intros r. symmetry. apply row_inputs_clip. }
      (* outputs held by the batch *)
      assert (Houts : output_values_get st = Ok (Mat (map (@row_outputs_of T) es))).
      { unfold output_values_get.
        assert (Hvne : map (@bo_value T) (bs_outputs st) <> []).
        { intros E. apply Hout. destruct (bs_outputs st); [reflexivity | discriminate]. }
        rewrite (stack_values_cols (length rows) _ Hshape Hvne). f_equal. f_equal.
        rewrite <- Hl. apply (map_seq_nth _ _ es e0). intros i Hi. rewrite Hl in Hi.
        specialize (Hrow i Hi). unfold batch_row, engine_row in Hrow.
        apply (f_equal (map fst)) in Hrow. rewrite !map_map in Hrow. cbn [fst] in Hrow.
        unfold row_outputs_of. rewrite map_map. exact Hrow. }
      assert (Hk : length input_values = length rows) by (unfold rows, used_rows; rewrite map_length; reflexivity).
      assert (Hb : broadcast_outputs (length input_values) (Mat (map (@row_outputs_of T) es)) = Ok (Mat (map (@row_outputs_of T) es))).
      { unfold broadcast_outputs. rewrite map_length, Hl, Hk, Nat.eqb_refl. reflexivity. }
      unfold table. destruct (x_inputs x), (x_outputs x); cbn [orb]; rewrite ?Hins, ?Houts; cbn [bind]; rewrite ?Hb; cbn [bind hstack_values].
      + rewrite !map_length, Hl, Nat.eqb_refl. reflexivity.
      + cbn [atleast_2d rows_of]. rewrite combine_app_fst by (rewrite !map_length; lia). reflexivity.
      + rewrite combine_app_snd by (rewrite !map_length; lia). reflexivity.
      + reflexivity.
    - rewrite HB. split; reflexivity.
  Qed.
End Pipeline.
