(* FllCheckedProofs.v — about Model/FllChecked.v (`import_checked`: the FLL importer including Rule.load and Function.load):
     import_checked_refines     import_checked t = Ok e -> import_ t = Ok e
     import_checked_error_classes / _no_internal_error   every failure is a SyntaxError, ValueError or KeyError
     import_checked_export      wf e -> checks_pass d e -> import_checked (export d e) = Ok (normalize d e)
     grammar_rule_check         a rule printed from a grammar tree (Spec/Grammar.v `Prints`) whose names resolve passes the check
   The unchecked pipeline's facts are reused: Proofs/FllProofs.v (round trip) and Proofs/RejectProofs.v, module FllReject
   (error classes of `import_`), C16 (RuleText.load_rule) and C17 (Formula.parse). *)
From Coq Require Import ZArith Bool List String Ascii Lia.
From VF Require Import Num GenNorm GenTerm GenOpTable Core Fll FllProofs FllChecked.
From VF Require ShuntingYard Antecedent Consequent RuleText Formula Grammar AntecedentProofs FormulaProofs RejectProofs.
Import ListNotations.
Local Open Scope string_scope.
Local Open Scope list_scope.

Notation "a +++ b" := (String.append a b) (at level 60, right associativity).

(* ================================================================================================ refinement *)
Lemma fold_block_refine {S : Type} (f f' : string -> string -> string -> S -> result S) lines s s' :
  (forall kraw k v a a', f' kraw k v a = Ok a' -> f kraw k v a = Ok a') ->
  fold_block f' lines s = Ok s' -> fold_block f lines s = Ok s'.
Proof.
  intros H. revert s. induction lines as [|l lines IH]; intros s; cbn [fold_block]; [auto|].
  destruct (String.eqb (clean_line l) ""); [apply IH|].
  destruct (key_value (clean_line l)) as [[[kraw k] v]|]; [|discriminate]. cbn [bind].
  destruct (f' kraw k v s) as [a'|] eqn:E; [|discriminate]. cbn [bind]. rewrite (H _ _ _ _ _ E). cbn [bind]. apply IH.
Qed.

Section Refine.
  Variable num : Type.
  Variable parse : string -> option num.
  Variables n_nan n_pinf n_ninf n_one n_zero : num.
  Local Notation PROC := (process parse n_nan n_pinf n_ninf n_one n_zero).
  Local Notation PROC' := (process_checked parse n_nan n_pinf n_ninf n_one n_zero).
  Local Notation LOOP := (engine_loop parse n_nan n_pinf n_ninf n_one n_zero).
  Local Notation LOOP' := (engine_loop_checked parse n_nan n_pinf n_ninf n_one n_zero).

  Lemma guarded_refine {A B : Type} (g : result A) (r : result B) b : (do _ <- g; r) = Ok b -> r = Ok b.
  Proof. destruct g; cbn [bind]; [auto|discriminate]. Qed.

  Lemma process_checked_refines comp blk e e' : PROC' comp blk e = Ok e' -> PROC comp blk e = Ok e'.
  Proof.
    unfold process_checked, process. destruct e as [nm de ins outs bs].
    destruct (String.eqb comp "Engine"); [auto|].
    destruct (String.eqb comp "InputVariable").
    { unfold import_input_checked, import_input. intros H.
      destruct (fold_block (input_line_checked parse n_nan n_one) blk (input_default n_pinf n_ninf)) as [v|] eqn:E; [|discriminate].
      apply (fold_block_refine (input_line parse n_nan n_one)) in E; [now rewrite E|].
      intros kraw k v0 a a'. unfold input_line_checked. apply guarded_refine. }
    destruct (String.eqb comp "OutputVariable").
    { unfold import_output_checked, import_output. intros H.
      destruct (fold_block (output_line_checked parse n_nan n_one) blk (output_default n_nan n_pinf n_ninf)) as [v|] eqn:E; [|discriminate].
      apply (fold_block_refine (output_line parse n_nan n_one)) in E; [now rewrite E|].
      intros kraw k v0 a a'. unfold output_line_checked. apply guarded_refine. }
    destruct (String.eqb comp "RuleBlock"); [|auto].
    unfold import_block_checked, import_block. intros H.
    destruct (fold_block (block_line_checked parse n_nan n_one n_zero (Build_fll_engine nm de ins outs bs)) blk (block_default num)) as [v|] eqn:E; [|discriminate].
    apply (fold_block_refine (block_line parse n_one n_zero)) in E; [now rewrite E|].
    intros kraw k v0 a a'. unfold block_line_checked. apply guarded_refine.
  Qed.

  Lemma loop_checked_refines lines : forall comp blk e e', LOOP' lines comp blk e = Ok e' -> LOOP lines comp blk e = Ok e'.
  Proof.
    induction lines as [|l lines IH]; intros comp blk e e'; cbn [engine_loop engine_loop_checked].
    - destruct (String.eqb comp ""); [auto|apply process_checked_refines].
    - destruct (String.eqb (clean_line l) ""); [apply IH|].
      destruct (key_value (clean_line l)) as [[[kraw k] v]|]; [|discriminate]. cbn [bind].
      destruct (is_header k); [|apply IH]. destruct (String.eqb comp ""); cbn [bind]; [apply IH|].
      destruct (PROC' comp blk e) as [e1|] eqn:E; [|discriminate]. rewrite (process_checked_refines _ _ _ _ E). cbn [bind]. apply IH.
  Qed.

  (* whatever the checked importer accepts, the importer of Model/Fll.v accepts with the same engine *)
  Theorem import_checked_refines lines e :
    import_checked parse n_nan n_pinf n_ninf n_one n_zero lines = Ok e ->
    import_ parse n_nan n_pinf n_ninf n_one n_zero lines = Ok e.
  Proof. apply loop_checked_refines. Qed.
End Refine.

(* ================================================================================================ error classes *)
Import RejectProofs.FllReject.

Section Classes.
  Variable num : Type.
  Variable parse : string -> option num.
  Variables n_nan n_pinf n_ninf n_one n_zero : num.

  (* Rule.load: SyntaxError (ValueError for a non-numeric weight); the TypeError of finding F6 only while the code has it *)
  Lemma ni_check_rule e value : ni (check_rule parse n_nan e value).
  Proof.
    unfold check_rule. intros x.
    destruct (RuleText.load_rule (is_float parse) (core_engine n_nan e) value) as [o|y] eqn:E; [discriminate|]. intros [= <-].
    destruct (RejectProofs.load_error_classes _ _ _ _ E) as [H|[H|[_ H]]]; auto. discriminate H.
  Qed.
  (* Function.load: SyntaxError *)
  Lemma ni_check_formula (t : fll_term num) : ni (check_formula t).
  Proof.
    unfold check_formula. destruct t; try apply ni_ok. intros x.
    destruct (Formula.parse_text op_table (fun _ : string => @None num) Antecedent.KW_AND Antecedent.KW_OR formula) as [o|y] eqn:E; [discriminate|].
    intros [= <-]. unfold Formula.parse_text in E. apply FormulaProofs.parse_rejects_cleanly in E. auto.
  Qed.
  Lemma ni_term_check kraw key value : ni (term_check parse n_nan n_one kraw key value).
  Proof. unfold term_check. destruct (String.eqb key "term"); [|apply ni_ok]. apply ni_bind; [apply ni_import_term|intros ?; apply ni_check_formula]. Qed.
  Lemma ni_rule_check e kraw key value : ni (rule_check parse n_nan n_one e kraw key value).
  Proof. unfold rule_check. destruct (String.eqb key "rule"); [|apply ni_ok]. apply ni_bind; [apply ni_import_rule|intros ?; apply ni_check_rule]. Qed.

  Lemma ni_process_checked comp blk e : ni (process_checked parse n_nan n_pinf n_ninf n_one n_zero comp blk e).
  Proof.
    unfold process_checked, import_input_checked, import_output_checked, import_block_checked. destruct e.
    repeat match goal with |- ni (if ?b then _ else _) => destruct b end.
    - apply ni_fold_block. intros; apply ni_engine_line.
    - apply ni_bind; [apply ni_bind; [apply ni_fold_block; intros; unfold input_line_checked; apply ni_bind; [apply ni_term_check|intros ?; apply ni_input_line]|intros []; apply ni_ok]|intros ?; apply ni_ok].
    - apply ni_bind; [apply ni_bind; [apply ni_fold_block; intros; unfold output_line_checked; apply ni_bind; [apply ni_term_check|intros ?; now apply ni_output_line]|intros []; apply ni_ok]|intros ?; apply ni_ok].
    - apply ni_bind; [apply ni_fold_block; intros; unfold block_line_checked; apply ni_bind; [apply ni_rule_check|intros ?; now apply ni_block_line]|intros ?; apply ni_ok].
    - apply ni_ok.
  Qed.
  Lemma ni_loop_checked lines : forall comp blk e, ni (engine_loop_checked parse n_nan n_pinf n_ninf n_one n_zero lines comp blk e).
  Proof.
    induction lines as [|line rest IH]; intros comp blk e; cbn [engine_loop_checked].
    - destruct (String.eqb comp ""); [apply ni_ok|apply ni_process_checked].
    - destruct (String.eqb (clean_line line) ""); [apply IH|].
      apply ni_bind; [apply ni_key_value|]. intros [[kraw key] value]. destruct (is_header key); [|apply IH].
      apply ni_bind; [destruct (String.eqb comp ""); [apply ni_ok|apply ni_process_checked]|intros ?; apply IH].
  Qed.

  Theorem import_checked_error_classes lines x : import_checked parse n_nan n_pinf n_ninf n_one n_zero lines = Err x ->
    x = ESyntax \/ x = EValue \/ x = ELookup.
  Proof. unfold import_checked. apply ni_loop_checked. Qed.
  Corollary import_checked_no_internal_error lines : import_checked parse n_nan n_pinf n_ninf n_one n_zero lines <> Err EInternal.
  Proof. intros H. destruct (import_checked_error_classes _ _ H) as [E|[E|E]]; discriminate. Qed.
End Classes.

(* ================================================================================================ the loop, generic in `process` *)
Section GLoop.
  Variable num : Type.
  Variable P : string -> list string -> fll_engine num -> result (fll_engine num).
  Fixpoint gloop (lines : list string) (component : string) (block : list string) (e : fll_engine num) : result (fll_engine num) :=
    match lines with
    | [] => if String.eqb component "" then Ok e else P component block e
    | line :: rest =>
        let l := clean_line line in
        if String.eqb l "" then gloop rest component block e else
        do k <- key_value l;
        let '(_, key, _) := k in
        if is_header key then
          do e' <- (if String.eqb component "" then Ok e else P component block e);
          gloop rest key [l] e'
        else gloop rest component (block ++ [l]) e
    end.
  Definition gprev (comp : string) (blk : list string) (e : fll_engine num) : result (fll_engine num) :=
    if String.eqb comp "" then Ok e else P comp blk e.

  Lemma gloop_header k v rest comp blk e : key_okb k = true -> value_okb v = true -> is_header k = true ->
    gloop (kv k v :: rest) comp blk e = do e' <- gprev comp blk e; gloop rest k [kv k v] e'.
  Proof.
    intros Hk Hv Hh. cbn [gloop]. rewrite (clean_kv0 k v Hk Hv). destruct (key_parts k Hk) as (K1 & _).
    destruct (String.eqb_spec (kv k v) "") as [E|_]; [now apply kv_nonempty in E|].
    rewrite key_value_kv by assumption. cbn [bind]. rewrite Hh. reflexivity.
  Qed.
  Lemma gloop_body ps rest comp blk e :
    Forall pair_ok ps -> Forall (fun p => is_header (fst p) = false) ps ->
    gloop (map iline ps ++ rest) comp blk e = gloop rest comp (blk ++ map kvline ps) e.
  Proof.
    intros H1 H2. revert blk. induction H1 as [|[k v] ps [Hk Hv] _ IH]; intros blk; [cbn; now rewrite app_nil_r|].
    inversion_clear H2 as [|? ? Hh Hr]. cbn [fst snd] in *. cbn [map Datatypes.app].
    change (iline (k, v)) with (indent +++ kv k v). cbn [gloop]. rewrite (clean_kv1 k v Hk Hv). destruct (key_parts k Hk) as (K1 & _).
    destruct (String.eqb_spec (kv k v) "") as [E|_]; [now apply kv_nonempty in E|].
    rewrite key_value_kv by assumption. cbn [bind]. rewrite Hh. rewrite IH by assumption.
    change (kvline (k, v)) with (kv k v). now rewrite <- app_assoc.
  Qed.
  Fixpoint grun (bs : list blk) (e : fll_engine num) : result (fll_engine num) :=
    match bs with
    | [] => Ok e
    | b :: r => do e' <- P (fst (fst b)) (blk_lines b) e; grun r e'
    end.
  Lemma grun_app a b e : grun (a ++ b) e = do e' <- grun a e; grun b e'.
  Proof.
    revert e. induction a as [|x a IH]; intros e; [reflexivity|]. cbn [Datatypes.app grun].
    destruct (P (fst (fst x)) (blk_lines x) e); cbn [bind]; [apply IH|reflexivity].
  Qed.
  Lemma gloop_blks bs comp lines e : Forall blk_ok bs ->
    gloop (flat_map render_blk bs ++ [""]) comp lines e = do e1 <- gprev comp lines e; grun bs e1.
  Proof.
    intros H. revert comp lines e. induction H as [|[[h n] ps] bs (Hk & Hh & Hn & Hp & Hnh) _ IH]; intros comp lines e.
    - cbn [flat_map Datatypes.app grun]. change (gloop [""] comp lines e) with (gprev comp lines e). now destruct (gprev comp lines e).
    - cbn [flat_map render_blk]. rewrite <- app_assoc. cbn [Datatypes.app]. rewrite gloop_header by assumption.
      destruct (gprev comp lines e) as [e'|x]; cbn [bind]; [|reflexivity].
      rewrite gloop_body by assumption. rewrite IH. unfold gprev at 1. rewrite (header_nonempty h Hh).
      cbn [grun fst blk_lines map kvline Datatypes.app]. reflexivity.
  Qed.
End GLoop.
Arguments gloop {num}. Arguments grun {num}. Arguments gprev {num}.
Arguments gloop_blks {num}. Arguments grun_app {num}.

(* ================================================================================================ exported engines pass the checks *)
Section CheckedRoundTrip.
  Variable num : Type.
  Variable fmt : nat -> num -> string.
  Variable parse : string -> option num.
  Variable round : nat -> num -> num.
  Variable close1 : num -> bool.
  Variables n_nan n_pinf n_ninf n_one n_zero : num.
  Hypothesis parse_fmt : forall d x, parse (fmt d x) = Some (round d x).
  Hypothesis fmt_token : forall d x, tokenb (fmt d x) = true.
  Variable d : nat.

  Local Notation PROC := (process parse n_nan n_pinf n_ninf n_one n_zero).
  Local Notation PROC' := (process_checked parse n_nan n_pinf n_ninf n_one n_zero).
  Local Notation normt := (normalize_term round close1 n_one d).
  Local Notation normi := (normalize_input round close1 n_one d).
  Local Notation normo := (normalize_output round close1 n_one d).
  Local Notation normb := (normalize_block round close1 n_one d).
  Local Notation NORMALIZE := (normalize round close1 n_one d).
  Local Notation tcheck := (term_check parse n_nan n_one).
  Local Notation rcheck := (rule_check parse n_nan n_one).

  Lemma loop_checked_gloop lines : forall comp blk e,
    engine_loop_checked parse n_nan n_pinf n_ninf n_one n_zero lines comp blk e = gloop PROC' lines comp blk e.
  Proof.
    induction lines as [|l lines IH]; intros comp blk e; cbn [engine_loop_checked gloop]; [reflexivity|].
    destruct (String.eqb (clean_line l) ""); [apply IH|].
    destruct (key_value (clean_line l)) as [[[kraw k] v]|]; [|reflexivity]. cbn [bind].
    destruct (is_header k); [|apply IH]. destruct (String.eqb comp ""); cbn [bind]; [apply IH|].
    destruct (PROC' comp blk e); cbn [bind]; [apply IH|reflexivity].
  Qed.

  Lemma fold_pairs_same {S : Type} (f f' : string -> string -> string -> S -> result S) ps s :
    Forall (fun p => forall a, f' (fst p) (fst p) (snd p) a = f (fst p) (fst p) (snd p) a) ps ->
    fold_pairs f' ps s = fold_pairs f ps s.
  Proof.
    intros H. revert s. induction H as [|[k v] ps Hp _ IH]; intros s; [reflexivity|]. cbn [fold_pairs fst snd] in *.
    rewrite Hp. destruct (f k k v s); cbn [bind]; [apply IH|reflexivity].
  Qed.

  (* what has to hold of the engine: every Function formula parses, every printed rule loads against the engine's variables *)
  Definition formulas_ok (ts : list (fll_term num)) : Prop := Forall (fun t => check_formula t = Ok tt) ts.
  Definition checks_pass (e : fll_engine num) : Prop :=
    Forall (fun v => formulas_ok (fi_terms v)) (fe_inputs e) /\ Forall (fun v => formulas_ok (fo_terms v)) (fe_outputs e)
    /\ Forall (fun b => Forall (fun r => check_rule parse n_nan (NORMALIZE e) (rule_text fmt close1 d r) = Ok tt) (fb_rules b)) (fe_blocks e).

  Lemma check_formula_norm t : check_formula (normt t) = check_formula t.
  Proof. now destruct t. Qed.

  Definition tc_ok (p : string * string) : Prop := tcheck (fst p) (fst p) (snd p) = Ok tt.
  Lemma tc_desc x : Forall tc_ok (desc_pairs x).
  Proof. unfold desc_pairs. destruct (String.eqb x ""); repeat constructor. Qed.
  Lemma tc_head en lo hi lk : Forall tc_ok (head_pairs num fmt d en lo hi lk).
  Proof. repeat constructor. Qed.
  Lemma tc_terms ts : Forall (fun t => wf_term close1 t = true) ts -> formulas_ok ts ->
    Forall tc_ok (map (term_pair num fmt close1 d) ts).
  Proof.
    intros W F. unfold formulas_ok in F. apply Forall_map. rewrite Forall_forall in *. intros t Ht. unfold tc_ok, term_pair, term_check. cbn [fst snd String.eqb Ascii.eqb Bool.eqb].
    rewrite (import_term_roundtrip num fmt parse round close1 n_nan n_one parse_fmt fmt_token d t (W t Ht)). cbn [bind].
    rewrite check_formula_norm. now apply F.
  Qed.
  Lemma tc_input v : wf_input close1 v = true -> formulas_ok (fi_terms v) -> Forall tc_ok (input_pairs num fmt close1 d v).
  Proof.
    intros W F. destruct (wf_input_parts num close1 v W) as (_ & _ & T). unfold input_pairs.
    repeat (apply Forall_app; split); auto using tc_desc, tc_head, tc_terms.
  Qed.
  Lemma tc_output v : wf_output close1 v = true -> formulas_ok (fo_terms v) -> Forall tc_ok (output_pairs num fmt close1 d v).
  Proof.
    intros W F. destruct (wf_output_parts num close1 v W) as (_ & _ & T). unfold output_pairs.
    repeat (apply Forall_app; split); auto using tc_desc, tc_head, tc_terms. repeat constructor.
  Qed.

  Lemma proc_input_same v E : wf_input close1 v = true -> formulas_ok (fi_terms v) ->
    PROC' "InputVariable" (blk_lines (input_blk num fmt close1 d v)) E = PROC "InputVariable" (blk_lines (input_blk num fmt close1 d v)) E.
  Proof.
    intros W F. destruct (wf_input_parts num close1 v W) as (N & _ & _). unfold process_checked, process. destruct E as [nm de ins outs bs].
    cbn [String.eqb Ascii.eqb Bool.eqb]. unfold import_input_checked, import_input, blk_lines, input_blk.
    assert (OK : Forall pair_ok (("InputVariable", fi_name v) :: input_pairs num fmt close1 d v)).
    { constructor; [split; [reflexivity|now apply token_value, ident_token]|]. now apply (input_pairs_ok num fmt close1 fmt_token d). }
    rewrite !fold_block_pairs by assumption. f_equal. f_equal. apply fold_pairs_same. constructor.
    - intros a. reflexivity.
    - eapply Forall_impl; [|apply (tc_input v W F)]. intros [k x] H a. unfold tc_ok in H. cbn [fst snd] in *.
      unfold input_line_checked. now rewrite H.
  Qed.
  Lemma proc_output_same v E : wf_output close1 v = true -> formulas_ok (fo_terms v) ->
    PROC' "OutputVariable" (blk_lines (output_blk num fmt close1 d v)) E = PROC "OutputVariable" (blk_lines (output_blk num fmt close1 d v)) E.
  Proof.
    intros W F. destruct (wf_output_parts num close1 v W) as (N & _ & _). unfold process_checked, process. destruct E as [nm de ins outs bs].
    cbn [String.eqb Ascii.eqb Bool.eqb]. unfold import_output_checked, import_output, blk_lines, output_blk.
    assert (OK : Forall pair_ok (("OutputVariable", fo_name v) :: output_pairs num fmt close1 d v)).
    { constructor; [split; [reflexivity|now apply token_value, ident_token]|]. now apply (output_pairs_ok num fmt close1 fmt_token d). }
    rewrite !fold_block_pairs by assumption. f_equal. f_equal. apply fold_pairs_same. constructor.
    - intros a. reflexivity.
    - eapply Forall_impl; [|apply (tc_output v W F)]. intros [k x] H a. unfold tc_ok in H. cbn [fst snd] in *.
      unfold output_line_checked. now rewrite H.
  Qed.

  Definition rc_ok (E : fll_engine num) (p : string * string) : Prop := rcheck E (fst p) (fst p) (snd p) = Ok tt.
  Lemma rc_desc E x : Forall (rc_ok E) (desc_pairs x).
  Proof. unfold desc_pairs. destruct (String.eqb x ""); repeat constructor. Qed.
  Lemma rc_rules E rs : Forall (fun r => wf_rule r = true) rs ->
    Forall (fun r => check_rule parse n_nan E (rule_text fmt close1 d r) = Ok tt) rs ->
    Forall (rc_ok E) (map (rule_pair num fmt close1 d) rs).
  Proof.
    intros W F. apply Forall_map. rewrite Forall_forall in *. intros r Hr. unfold rc_ok, rule_pair, rule_check. cbn [fst snd String.eqb Ascii.eqb Bool.eqb].
    rewrite (import_rule_roundtrip num fmt parse round close1 n_one parse_fmt fmt_token d r (W r Hr)). cbn [bind]. now apply F.
  Qed.
  Lemma proc_rb_same b E : wf_block b = true ->
    Forall (fun r => check_rule parse n_nan E (rule_text fmt close1 d r) = Ok tt) (fb_rules b) ->
    PROC' "RuleBlock" (blk_lines (rb_blk num fmt close1 d b)) E = PROC "RuleBlock" (blk_lines (rb_blk num fmt close1 d b)) E.
  Proof.
    intros W F. destruct (wf_block_parts num b W) as (N & D & R). unfold process_checked, process. destruct E as [nm de ins outs bs].
    cbn [String.eqb Ascii.eqb Bool.eqb]. unfold import_block_checked, import_block, blk_lines, rb_blk.
    assert (OK : Forall pair_ok (("RuleBlock", fb_name b) :: block_pairs num fmt close1 d b)).
    { constructor; [split; [reflexivity|exact N]|]. now apply (block_pairs_ok num fmt close1 fmt_token d). }
    rewrite !fold_block_pairs by assumption. f_equal. apply fold_pairs_same. constructor.
    - intros a. reflexivity.
    - assert (RC : Forall (rc_ok (Build_fll_engine nm de ins outs bs)) (block_pairs num fmt close1 d b)).
      { unfold block_pairs. repeat (apply Forall_app; split); auto using rc_desc, rc_rules. repeat constructor. }
      eapply Forall_impl; [|exact RC]. intros [k x] H a. unfold rc_ok in H. cbn [fst snd] in *.
      unfold block_line_checked. now rewrite H.
  Qed.
  Lemma check_rule_vars nm de ins outs bs bs' v :
    check_rule parse n_nan (Build_fll_engine nm de ins outs bs) v = check_rule parse n_nan (Build_fll_engine nm de ins outs bs') v.
  Proof. reflexivity. Qed.

  Lemma grun_inputs vs nm de ins outs bs : Forall (fun v => wf_input close1 v = true) vs -> Forall (fun v => formulas_ok (fi_terms v)) vs ->
    grun PROC' (map (input_blk num fmt close1 d) vs) (Build_fll_engine nm de ins outs bs) = Ok (Build_fll_engine nm de (ins ++ map normi vs) outs bs).
  Proof.
    intros H. revert ins. induction H as [|v vs W _ IH]; intros ins F; [cbn; now rewrite app_nil_r|].
    inversion_clear F as [|? ? Fv Fr]. cbn [map grun]. change (fst (fst (input_blk num fmt close1 d v))) with "InputVariable".
    rewrite proc_input_same by assumption.
    rewrite (run_input_blk num fmt parse round close1 n_nan n_pinf n_ninf n_one n_zero parse_fmt fmt_token d v nm de ins outs bs W).
    cbn [bind]. rewrite IH by assumption. now rewrite <- app_assoc.
  Qed.
  Lemma grun_outputs vs nm de ins outs bs : Forall (fun v => wf_output close1 v = true) vs -> Forall (fun v => formulas_ok (fo_terms v)) vs ->
    grun PROC' (map (output_blk num fmt close1 d) vs) (Build_fll_engine nm de ins outs bs) = Ok (Build_fll_engine nm de ins (outs ++ map normo vs) bs).
  Proof.
    intros H. revert outs. induction H as [|v vs W _ IH]; intros outs F; [cbn; now rewrite app_nil_r|].
    inversion_clear F as [|? ? Fv Fr]. cbn [map grun]. change (fst (fst (output_blk num fmt close1 d v))) with "OutputVariable".
    rewrite proc_output_same by assumption.
    rewrite (run_output_blk num fmt parse round close1 n_nan n_pinf n_ninf n_one n_zero parse_fmt fmt_token d v nm de ins outs bs W).
    cbn [bind]. rewrite IH by assumption. now rewrite <- app_assoc.
  Qed.
  Lemma grun_rbs xs nm de ins outs bs : Forall (fun b => wf_block b = true) xs ->
    Forall (fun b => Forall (fun r => check_rule parse n_nan (Build_fll_engine nm de ins outs []) (rule_text fmt close1 d r) = Ok tt) (fb_rules b)) xs ->
    grun PROC' (map (rb_blk num fmt close1 d) xs) (Build_fll_engine nm de ins outs bs) = Ok (Build_fll_engine nm de ins outs (bs ++ map normb xs)).
  Proof.
    intros H. revert bs. induction H as [|b xs W _ IH]; intros bs F; [cbn; now rewrite app_nil_r|].
    inversion_clear F as [|? ? Fb Fr]. cbn [map grun]. change (fst (fst (rb_blk num fmt close1 d b))) with "RuleBlock".
    rewrite proc_rb_same by assumption.
    rewrite (run_rb_blk num fmt parse round close1 n_nan n_pinf n_ninf n_one n_zero parse_fmt fmt_token d b nm de ins outs bs W).
    cbn [bind]. rewrite IH by assumption. now rewrite <- app_assoc.
  Qed.

  Theorem import_checked_export e : wf close1 e = true -> checks_pass e ->
    import_checked parse n_nan n_pinf n_ninf n_one n_zero (export fmt close1 d e) = Ok (NORMALIZE e).
  Proof.
    intros W (CI & CO & CB). destruct (wf_parts num close1 e W) as (_ & _ & WI & WO & WB).
    rewrite (export_blks num fmt close1 d e W). unfold import_checked. rewrite loop_checked_gloop.
    rewrite gloop_blks by now apply (all_blks_ok num fmt close1 fmt_token).
    unfold gprev. cbn [String.eqb bind]. unfold all_blks. cbn [grun]. change (fst (fst (engine_blk num e))) with "Engine".
    replace (PROC' "Engine" (blk_lines (engine_blk num e)) (engine_default num))
      with (PROC "Engine" (blk_lines (engine_blk num e)) (engine_default num)) by reflexivity.
    rewrite (run_engine_blk num parse close1 n_nan n_pinf n_ninf n_one n_zero e W). cbn [bind]. rewrite grun_app.
    rewrite grun_inputs by assumption. cbn [bind]. rewrite grun_app. rewrite grun_outputs by assumption. cbn [bind].
    rewrite grun_rbs; [destruct e; reflexivity|assumption|].
    destruct e as [nm de ins outs bs]. exact CB.
  Qed.
End CheckedRoundTrip.

(* ================================================================================================ rules printed from grammar trees *)
Lemma join_is_join_sp l : join " " l = ShuntingYard.join_sp l.
Proof. induction l as [|x [|y r] IH]; [reflexivity|reflexivity|]. cbn [join ShuntingYard.join_sp] in *. now rewrite IH. Qed.

Section Grammar.
  Variable num : Type.
  Variable fmt : nat -> num -> string.
  Variable parse : string -> option num.
  Variable close1 : num -> bool.
  Variable n_nan : num.
  Variable d : nat.

  (* the weight token of the printed rule *)
  Definition weight_token (r : fll_rule num) : option string :=
    if close1 (fr_weight r) then None else Some (fmt d (fr_weight r)).
  Lemma rule_tokens_toks r :
    rule_tokens num fmt close1 d r = RejectProofs.rule_toks (fr_antecedent r) (fr_consequent r) (weight_token r).
  Proof. unfold rule_tokens, RejectProofs.rule_toks, weight_token. now destruct (close1 (fr_weight r)). Qed.

  (* a rule whose antecedent is written according to the grammar of Spec/Grammar.v (C06) from a tree whose names resolve
     in the engine, and whose consequent loads, passes the importer's Rule.load (C16_grammar_rule_accepted) *)
  Theorem grammar_rule_check (E : fll_engine num) (r : fll_rule num) t x cs :
    RejectProofs.rule_shape (is_float parse) (fr_antecedent r) (fr_consequent r) (weight_token r) ->
    Grammar.Prints 0 t (fr_antecedent r) ->
    AntecedentProofs.names_ok (core_engine n_nan E) t ->
    AntecedentProofs.resolve (core_engine n_nan E) t = Some x ->
    Consequent.load (core_engine n_nan E) (fr_consequent r) = Ok cs ->
    check_rule parse n_nan E (rule_text fmt close1 d r) = Ok tt.
  Proof.
    intros S HP HN HR HC. unfold check_rule.
    rewrite (rule_text_tokens num fmt close1 d r (RejectProofs.sh_a S) (RejectProofs.sh_c S)).
    rewrite join_is_join_sp, rule_tokens_toks. unfold RuleText.load_rule.
    now rewrite (@RejectProofs.grammar_rule_accepted num (is_float parse) (core_engine n_nan E) RuleText.code_has_F6 t _ _ _ x cs S HP HN HR HC).
  Qed.
End Grammar.

(* ================================================================================================ under the bundled assumptions *)
Section FinalChecked.
  Variable num : Type.
  Variable fmt : nat -> num -> string.
  Variable parse : string -> option num.
  Variable round : nat -> num -> num.
  Variable close1 : num -> bool.
  Variables n_nan n_pinf n_ninf n_one n_zero : num.
  Hypothesis A : A_fmt fmt parse round close1 n_one.

  Theorem final_import_checked_export d e : wf close1 e = true -> checks_pass num fmt parse round close1 n_nan n_one d e ->
    import_checked parse n_nan n_pinf n_ninf n_one n_zero (export fmt close1 d e) = Ok (normalize round close1 n_one d e).
  Proof. destruct A as (A1 & A2 & A3 & A4 & A5). now apply import_checked_export. Qed.
End FinalChecked.
