(* TermFloat2 — the remaining IEEE-basic terms at the binary64 level (SShape, ZShape, PiShape, Concave, Arc,
   SemiEllipse, Constant): where the range law 0 <= mu x <= h of C03 is only true up to rounding, it is REFUTED
   here by a concrete binary64 witness (finite valid parameters of magnitude <= 2^100; vm_compute on the GENERATED
   kernel at NumF m tbl — these kernels read `square x` as x*x in both modes and call no oracle function). *)
From Coq Require Import ZArith Reals Bool Floats List.
From VF Require Import Num NumF GenTerm FloatLevel NormFloat TermFloat.
Import ListNotations.
Local Open Scope float_scope.

Section Witnesses.
  Variables (m : bool) (tbl : oracle).
  Local Notation NF := (NumF m tbl).

  (* Constant: the value, whatever x *)
  Lemma Constant_float v x : @Constant_membership _ NF v x = v.
  Proof. reflexivity. Qed.

  (* SShape / PiShape: after the repair of /repo (commit "fix: SShape membership": the lower quadratic branch is now
     guarded by `(x <= 0.5*(s+e)) & (x < e)`) neither proved nor refuted — no range violation in a search over 60 000
     parameter sets incl. adjacent-double widths.  The REPAIRED defect is documented on an explicit copy of the pre-fix
     kernel: start and end adjacent doubles whose sum rounds up, so that 0.5*(s+e) evaluates to e and x = e took the
     lower branch 2*((x-s)/(e-s))^2 = 2: membership 2*h instead of h (a gross error, not an ulp). *)
  Definition SShape_membership_pinned {T : Type} {N : Num T} (p_start p_end p_height : T) (v_x : T) : T :=
    let v_s := p_start in
    let v_e := p_end in
    let v_s_shape := (where_ (leb v_x p_start) (lit 0 0) (where_ (leb v_x (mul (lit 1 (-1)) (add v_s v_e))) (mul (lit 2 0) (square (div (sub v_x v_s) (sub v_e v_s)))) (where_ (ltb v_x v_e) (sub (lit 1 0) (mul (lit 2 0) (square (div (sub v_x v_e) (sub v_e v_s))))) (lit 1 0)))) in
    mul (mul p_height (where_ (isnan v_x) nan (lit 1 0))) v_s_shape.
  Lemma SShape_pinned_range_witness :
    @SShape_membership_pinned _ NF 0x1.0000000000001p+0 0x1.0000000000002p+0 1 0x1.0000000000002p+0 = 2%float.
  Proof. vm_compute. reflexivity. Qed.
  (* the repaired kernel answers h there *)
  Lemma SShape_fixed_at_witness :
    @SShape_membership _ NF 0x1.0000000000001p+0 0x1.0000000000002p+0 1 0x1.0000000000002p+0 = 1%float /\
    @PiShape_membership _ NF 0x1.0000000000001p+0 0x1.0000000000002p+0 2 3 1 0x1.0000000000002p+0 = 1%float.
  Proof. split; vm_compute; reflexivity. Qed.

  (* Concave(inflection -2, end 0.2), x the double below 0.2: (e - i) / ((2e - i) - x) = 2.2 / 2.1999999999999997 > 1 *)
  Lemma Concave_range_witness :
    @Concave_membership _ NF (-2) 0x1.999999999999ap-3 1 0x1.9999999999999p-3 = 0x1.0000000000001p+0%float.
  Proof. vm_compute. reflexivity. Qed.

  (* SemiEllipse(0.3, 1.5) at the centre 0.9: sqrt((x-s)*(e-x)) / ((e-s)/2) = 1 + 2^-52 *)
  Lemma SemiEllipse_range_witness :
    @SemiEllipse_membership _ NF 0x1.3333333333333p-2 1.5 1 0x1.ccccccccccccdp-1 = 0x1.0000000000001p+0%float.
  Proof. vm_compute. reflexivity. Qed.
  (* SemiEllipse(0, 2^-1074) at x = 0: the radius (e-s)/2 underflows to 0, 0/0 = NaN although x is not NaN *)
  Lemma SemiEllipse_nan_witness :
    PrimFloat.is_nan (@SemiEllipse_membership _ NF 0 0x1p-1074 1 0) = true.
  Proof. vm_compute. reflexivity. Qed.

  (* Arc with a radius below 2^-511: r*r is subnormal (here 1.5625 * 2^-1074 rounds to 2 * 2^-1074), and
     sqrt(r*r)/|r| = 1.13 at the centre.  (For |r| >= 2^-500 the search found no violation: sqrt(RN(r*r)) rounds to |r|.) *)
  Lemma Arc_range_witness :
    PrimFloat.ltb 1 (@Arc_membership _ NF 0x1.4p-537 0 1 0) = true /\
    @Arc_membership _ NF 0x1.4p-537 0 1 0 = 0x1.21a1851ff630ap+0%float.
  Proof. split; vm_compute; reflexivity. Qed.
End Witnesses.
