(* ShuntingYardProofs.v — completeness of Function.infix_to_postfix (Model/ShuntingYard.v) for the general infix
   grammar of Spec/Grammar.v Part A:   SPrints tbl 0 t toks -> infix_to_postfix tbl toks = Ok (spostfix t)
   for every table in which "(" ")" "," are not keys, every operator has a non-zero associativity and operators of equal
   precedence associate the same way (checked for the generated op_table by computation, `op_table_ok`).
   Also: the tokeniser lemma for rule antecedents (Spells toks text -> format_infix_tokens … text = toks). *)
From Coq Require Import ZArith Bool List String Ascii Lia.
From VF Require Import Num GenOpTable Core ShuntingYard Grammar.
Import ListNotations.
Set Implicit Arguments.
Local Open Scope string_scope.
Local Open Scope list_scope.

Lemma lookup_In tbl s e : lookup tbl s = Some e -> In e tbl /\ en_name e = s.
Proof.
  induction tbl as [|a tl IH]; cbn; [discriminate|].
  destruct (lookup tl s) as [e'|] eqn:L.
  - intros [= <-]. destruct (IH eq_refl) as [H1 H2]. auto.
  - destruct (String.eqb_spec (en_name a) s) as [E|NE]; [|discriminate]. intros [= <-]. auto.
Qed.

(* boolean form of the side conditions, for `vm_compute` on a concrete table *)
Definition table_okb (tbl : table) : bool :=
  match lookup tbl "(", lookup tbl ")", lookup tbl "," with
  | None, None, None =>
      forallb (fun e => en_is_function e || negb (Z.eqb (en_assoc e) 0)) tbl &&
      forallb (fun e => forallb (fun e' => en_is_function e || en_is_function e' || negb (Z.eqb (en_prec e) (en_prec e'))
                                           || Bool.eqb (Z.ltb 0 (en_assoc e)) (Z.ltb 0 (en_assoc e'))) tbl) tbl
  | _, _, _ => false
  end.

Section SYProofs.
  Variable tbl : table.
  Local Open Scope Z_scope.

  Record table_ok : Prop := {
    tok_lparen : lookup tbl "(" = None;
    tok_rparen : lookup tbl ")" = None;
    tok_comma : lookup tbl "," = None;
    tok_assoc : forall s e, op_tok tbl s e -> en_assoc e <> 0;
    tok_same : forall s e s' e', op_tok tbl s e -> op_tok tbl s' e' -> en_prec e = en_prec e' -> rassoc e = rassoc e' }.

  Lemma table_okb_ok : table_okb tbl = true -> table_ok.
  Proof.
    unfold table_okb. destruct (lookup tbl "(") eqn:L1; [discriminate|].
    destruct (lookup tbl ")") eqn:L2; [discriminate|]. destruct (lookup tbl ",") eqn:L3; [discriminate|].
    rewrite andb_true_iff, !forallb_forall. intros [HA HS]. split; auto.
    - intros s e [Hl Hf]. apply lookup_In in Hl as [Hin _]. specialize (HA _ Hin). rewrite Hf in HA. cbn in HA.
      apply negb_true_iff, Z.eqb_neq in HA. exact HA.
    - intros s e s' e' [Hl Hf] [Hl' Hf'] Hp. apply lookup_In in Hl as [Hin _]. apply lookup_In in Hl' as [Hin' _].
      specialize (HS _ Hin). rewrite forallb_forall in HS. specialize (HS _ Hin'). rewrite Hf, Hf' in HS. cbn in HS.
      apply orb_true_iff in HS as [HS|HS].
      + apply negb_true_iff, Z.eqb_neq in HS. contradiction.
      + apply Bool.eqb_prop in HS. exact HS.
  Qed.

  Hypothesis TOK : table_ok.

  Definition in_tbl (p : string) : Prop := exists e, lookup tbl p = Some e.
  Definition pend_ok (lvl : Z) (p : string) : Prop := exists e, lookup tbl p = Some e /\ lvl <= 2 * en_prec e.

  Lemma pend_in lvl p : pend_ok lvl p -> in_tbl p.
  Proof. intros (e & H & _). now exists e. Qed.

  Lemma in_tbl_not_paren p : in_tbl p -> String.eqb p "(" = false /\ String.eqb p ")" = false /\ String.eqb p "," = false.
  Proof.
    intros (e & H). repeat split; apply String.eqb_neq; intros ->.
    - now rewrite (tok_lparen TOK) in H. - now rewrite (tok_rparen TOK) in H. - now rewrite (tok_comma TOK) in H.
  Qed.

  (* the open segment of the stack: down to the nearest "(", only operators, each letting through (to its right)
     expressions of level >= lvl *)
  Fixpoint open_ok (lvl : Z) (st : list string) : Prop :=
    match st with
    | [] => True
    | top :: st' => top = "(" \/ (exists e, op_tok tbl top e /\ rlevel e <= lvl /\ open_ok lvl st')
    end.

  Lemma open_ok_mono l1 l2 st : l1 <= l2 -> open_ok l1 st -> open_ok l2 st.
  Proof.
    intros H. induction st as [|top st IH]; cbn; auto.
    intros [E|(e & He & Hl & Hr)]; [now left|right]. exists e. split; [exact He|]. split; [lia|auto].
  Qed.

  Lemma pops_pending o e top : op_tok tbl o e -> llevel e <= 2 * en_prec top -> pops e top = true.
  Proof.
    intros Ho. pose proof (@tok_assoc TOK o e Ho) as Hne. unfold llevel, rassoc, pops.
    destruct (Z.ltb_spec 0 (en_assoc e)); destruct (Z.ltb_spec (en_assoc e) 0);
      destruct (Z.leb_spec (en_prec e) (en_prec top)); destruct (Z.ltb_spec (en_prec e) (en_prec top));
      cbn [andb orb]; intros HH; try reflexivity; lia.
  Qed.

  Lemma not_pops_open o e o' e' : op_tok tbl o e -> op_tok tbl o' e' -> rlevel e' <= 2 * en_prec e -> pops e e' = false.
  Proof.
    intros Ho Ho' H. pose proof (@tok_assoc TOK o e Ho) as Hne.
    assert (Hsame : en_prec e = en_prec e' -> rassoc e = rassoc e') by (apply (@tok_same TOK o e o' e' Ho Ho')).
    unfold rlevel, rassoc, pops in *. revert H Hsame.
    destruct (Z.ltb_spec 0 (en_assoc e')); destruct (Z.ltb_spec 0 (en_assoc e)); destruct (Z.ltb_spec (en_assoc e) 0);
      destruct (Z.leb_spec (en_prec e) (en_prec e')); destruct (Z.ltb_spec (en_prec e) (en_prec e'));
      cbn [andb orb]; intros HH HS; try reflexivity; try lia;
      (assert (E : en_prec e = en_prec e') by lia; specialize (HS E); discriminate).
  Qed.

  Lemma pop_ops_pend o e pend st :
    op_tok tbl o e -> Forall (pend_ok (llevel e)) pend -> open_ok (2 * en_prec e) st ->
    pop_ops tbl e (pend ++ st) = (pend, st).
  Proof.
    intros Ho. induction pend as [|p pend IH]; cbn [app]; intros Hp Hst.
    - destruct st as [|top st]; cbn; [reflexivity|]. destruct Hst as [->|(e' & He' & Hl & _)].
      + now rewrite (tok_lparen TOK).
      + destruct He' as [Hl' Hf']. rewrite Hl'. now rewrite (@not_pops_open o e top e' Ho (conj Hl' Hf') Hl).
    - inversion Hp as [|? ? (te & Hte & Hlv) Hp']; subst. cbn. rewrite Hte, (@pops_pending o e te Ho Hlv), IH; auto.
  Qed.

  Lemma pop_until_lparen_pend pend st : Forall in_tbl pend -> pop_until_lparen (pend ++ "(" :: st) = (pend, "(" :: st).
  Proof.
    induction pend as [|p pend IH]; cbn [app]; intros H; [reflexivity|]. inversion H; subst. cbn.
    destruct (in_tbl_not_paren H2) as (-> & _). now rewrite IH.
  Qed.

  Lemma flush_stack_pend pend : Forall in_tbl pend -> flush_stack pend = Ok pend.
  Proof.
    induction pend as [|p pend IH]; intros H; [reflexivity|]. inversion H; subst. cbn.
    destruct (in_tbl_not_paren H2) as (-> & -> & _). cbn. now rewrite IH.
  Qed.

  (* ---- the six kinds of step *)
  Lemma step_operand s q st : operand tbl s -> step tbl s (q, st) = Ok (q ++ [s], st).
  Proof. intros [H1 H2]. unfold step. now rewrite H1, H2. Qed.

  Lemma step_fn f e q st : fn_tok tbl f e -> step tbl f (q, st) = Ok (q, f :: st).
  Proof. intros [H1 H2]. unfold step. now rewrite H1, H2. Qed.

  Lemma step_op o e q st : op_tok tbl o e ->
    step tbl o (q, st) = let '(ps, r) := pop_ops tbl e st in Ok (q ++ ps, o :: r).
  Proof.
    intros [H1 H2]. unfold step. rewrite H1, H2. cbn [negb].
    assert (in_tbl o) as Hin by now exists e. destruct (in_tbl_not_paren Hin) as (_ & _ & ->). reflexivity.
  Qed.

  Lemma step_lparen q st : step tbl "(" (q, st) = Ok (q, "(" :: st).
  Proof. unfold step. rewrite (tok_lparen TOK). reflexivity. Qed.

  Lemma step_comma q pend st : Forall in_tbl pend -> step tbl "," (q, pend ++ "(" :: st) = Ok (q ++ pend, "(" :: st).
  Proof. intros H. unfold step. rewrite (tok_comma TOK). cbn. now rewrite pop_until_lparen_pend. Qed.

  (* ")" when the "(" was not preceded by a function name *)
  Lemma step_rparen_plain q pend st lvl : Forall in_tbl pend -> open_ok lvl st ->
    step tbl ")" (q, pend ++ "(" :: st) = Ok (q ++ pend, st).
  Proof.
    intros H Hst. unfold step. rewrite (tok_rparen TOK). cbn. rewrite pop_until_lparen_pend by assumption.
    destruct st as [|top st]; [reflexivity|]. destruct Hst as [->|(e & [Hl Hf] & _)].
    - now rewrite (tok_lparen TOK).
    - now rewrite Hl, Hf.
  Qed.

  (* ")" closing the argument list of a function call *)
  Lemma step_rparen_call q pend f e st : Forall in_tbl pend -> fn_tok tbl f e ->
    step tbl ")" (q, pend ++ "(" :: f :: st) = Ok (q ++ pend ++ [f], st).
  Proof.
    intros H [Hl Hf]. unfold step. rewrite (tok_rparen TOK). cbn. rewrite pop_until_lparen_pend by assumption.
    now rewrite Hl, Hf.
  Qed.

  Lemma run_app ts1 ts2 s : run tbl (ts1 ++ ts2) s = match run tbl ts1 s with Ok s' => run tbl ts2 s' | Err x => Err x end.
  Proof. revert s; induction ts1 as [|t ts1 IH]; intros s; cbn; [reflexivity|]. destruct (step tbl t s); [apply IH|reflexivity]. Qed.

  Lemma run_words ws out st : Forall (operand tbl) ws -> run tbl ws (out, st) = Ok (out ++ ws, st).
  Proof.
    revert out; induction ws as [|w ws IH]; intros out H; cbn [run]; [now rewrite app_nil_r|].
    inversion H; subst. rewrite step_operand by assumption. rewrite IH by assumption. now rewrite <- app_assoc.
  Qed.

  Scheme SPrints_ind2 := Induction for SPrints Sort Prop
  with SPrintsArgs_ind2 := Induction for SPrintsArgs Sort Prop.
  Combined Scheme SPrints_mut from SPrints_ind2, SPrintsArgs_ind2.

  (* the invariant: the tokens of a sub-expression printed at level lvl extend the output by w and the stack by pending
     names pend (all of level >= lvl) with  w ++ pend = postfix t,  whenever the open segment of the stack is safe for lvl *)
  Definition Good (lvl : Z) (t : stree) (ts : list string) : Prop := forall out st, open_ok lvl st ->
    exists w pend, run tbl ts (out, st) = Ok (out ++ w, pend ++ st)
       /\ Forall (pend_ok lvl) pend /\ w ++ pend = spostfix t.
  Definition GoodArgs (args : list stree) (ts : list string) : Prop := forall out st0 pend0, Forall in_tbl pend0 ->
    exists w pend, run tbl ts (out, pend0 ++ "(" :: st0) = Ok (out ++ w, pend ++ "(" :: st0)
       /\ Forall in_tbl pend /\ w ++ pend = pend0 ++ flat_map spostfix args.

  Lemma Forall_pend_in lvl pend : Forall (pend_ok lvl) pend -> Forall in_tbl pend.
  Proof. apply Forall_impl. intros a. apply pend_in. Qed.

  Lemma sy_main : (forall lvl t ts, SPrints tbl lvl t ts -> Good lvl t ts) /\
                  (forall args ts, SPrintsArgs tbl args ts -> GoodArgs args ts).
  Proof.
    apply SPrints_mut.
    - (* leaf *) intros lvl ws Hws out st Hst. exists ws, []. cbn. rewrite run_words, !app_nil_r by assumption. auto.
    - (* leaf ending in a function name *) intros lvl ws f e Hws Hf Hl out st Hst.
      exists ws, [f]. rewrite run_app, run_words by assumption. cbn [run]. rewrite (@step_fn f e _ _ Hf).
      repeat split; auto. constructor; [|constructor]. exists e. destruct Hf. auto.
    - (* binary *) intros lvl o e l r tl tr Ho Hlvl Hl IHl Hr IHr out st Hst.
      assert (Hll : lvl <= llevel e) by (unfold llevel; destruct (rassoc e); lia).
      destruct (IHl out st) as (wl & pl & Rl & Fl & El); [eapply open_ok_mono; eauto|].
      rewrite run_app, Rl. cbn [run]. rewrite (@step_op o e _ _ Ho).
      rewrite (@pop_ops_pend o e pl st Ho Fl); [|eapply open_ok_mono; [|exact Hst]; lia].
      destruct (IHr ((out ++ wl) ++ pl) (o :: st)) as (wr & pr & Rr & Fr & Er).
      { cbn [open_ok]. right. exists e. split; [exact Ho|]. split; [lia|]. eapply open_ok_mono; [|exact Hst].
        unfold rlevel; destruct (rassoc e); lia. }
      rewrite Rr. exists (wl ++ pl ++ wr), (pr ++ [o]). split; [|split].
      + f_equal. f_equal; [now rewrite !app_assoc|now rewrite <- app_assoc].
      + apply Forall_app; split.
        * eapply Forall_impl; [|exact Fr]. intros a (ea & Ha & Hlv). exists ea. split; auto.
          unfold rlevel in Hlv. destruct (rassoc e); lia.
        * constructor; [|constructor]. exists e. destruct Ho. auto.
      + cbn. rewrite <- El, <- Er. now rewrite <- !app_assoc.
    - (* prefix *) intros lvl o e x tx Ho Hra Hlvl Hx IHx out st Hst.
      cbn [run]. rewrite (@step_op o e _ _ Ho).
      assert (Hpw : pop_ops tbl e st = ([], st)).
      { apply (@pop_ops_pend o e [] st Ho); [constructor|]. eapply open_ok_mono; eauto. }
      rewrite Hpw, app_nil_r.
      destruct (IHx out (o :: st)) as (w & pend & R & F & E).
      { cbn [open_ok]. right. exists e. split; [exact Ho|]. split; [unfold rlevel; rewrite Hra; lia|]. eapply open_ok_mono; eauto. }
      rewrite R. exists w, (pend ++ [o]). split; [|split].
      + f_equal. f_equal. now rewrite <- app_assoc.
      + apply Forall_app; split.
        * eapply Forall_impl; [|exact F]. intros a (ea & Ha & Hlv). exists ea. split; auto. lia.
        * constructor; [|constructor]. exists e. destruct Ho. auto.
      + cbn. now rewrite app_assoc, E.
    - (* call *) intros lvl f e a ta args targs Hf Ha IHa Hargs IHargs out st Hst.
      cbn [run]. rewrite (@step_fn f e _ _ Hf). cbn [run]. rewrite step_lparen.
      destruct (IHa out ("(" :: f :: st)) as (w & pend & R & F & E); [cbn [open_ok]; now left|].
      rewrite run_app, R.
      destruct (IHargs (out ++ w) (f :: st) pend (Forall_pend_in F)) as (w2 & pend2 & R2 & F2 & E2).
      rewrite run_app, R2. cbn [run]. rewrite (@step_rparen_call _ pend2 f e st F2 Hf).
      exists (w ++ w2 ++ pend2 ++ [f]), []. cbn [app]. rewrite !app_nil_r. split; [|split; [constructor|]].
      + f_equal. f_equal. now rewrite <- !app_assoc.
      + cbn. rewrite <- E. rewrite <- (app_assoc w pend). f_equal.
        rewrite (app_assoc w2), E2. now rewrite <- app_assoc.
    - (* parentheses *) intros lvl t ts Ht IH out st Hst.
      cbn [run]. rewrite step_lparen.
      destruct (IH out ("(" :: st)) as (w & pend & R & F & E); [cbn [open_ok]; now left|].
      rewrite run_app, R. cbn [run]. rewrite (@step_rparen_plain _ pend st lvl (Forall_pend_in F) Hst).
      exists (w ++ pend), []. cbn [app]. rewrite !app_nil_r, ?app_assoc. auto.
    - (* no more arguments *) intros out st0 pend0 H0. exists [], pend0. cbn. rewrite !app_nil_r. auto.
    - (* , argument … *) intros a ta args targs Ha IHa Hargs IHargs out st0 pend0 H0.
      cbn [run]. rewrite (@step_comma _ pend0 st0 H0).
      destruct (IHa (out ++ pend0) ("(" :: st0)) as (wa & penda & Ra & Fa & Ea); [cbn [open_ok]; now left|].
      rewrite run_app, Ra.
      destruct (IHargs ((out ++ pend0) ++ wa) st0 penda (Forall_pend_in Fa)) as (w' & pend & R' & F' & E').
      rewrite R'. exists (pend0 ++ wa ++ w'), pend. split; [|split; [exact F'|]].
      + f_equal. f_equal. now rewrite <- !app_assoc.
      + cbn. rewrite <- Ea. rewrite <- !app_assoc. f_equal. f_equal. exact E'.
  Qed.

  (* ---- completeness of the shunting-yard for the general grammar *)
  Theorem sy_complete t ts : SPrints tbl 0 t ts -> infix_to_postfix tbl ts = Ok (spostfix t).
  Proof.
    intros H. destruct (proj1 sy_main _ _ _ H [] [] I) as (w & pend & R & F & E).
    unfold infix_to_postfix. rewrite R. rewrite app_nil_r, (flush_stack_pend (Forall_pend_in F)). cbn. now rewrite E.
  Qed.

  Lemma SPrints_weaken l1 l2 t ts : l1 <= l2 -> SPrints tbl l2 t ts -> SPrints tbl l1 t ts.
  Proof.
    intros Hle H. revert l1 Hle. induction H; intros l1 Hle.
    - now constructor.
    - econstructor; eauto; lia.
    - econstructor; eauto; lia.
    - econstructor; eauto; lia.
    - econstructor; eauto.
    - now constructor.
  Qed.
End SYProofs.

(* ---- the generated table satisfies the side conditions: editing a precedence or an associativity in factory.py so that
        two operators of one precedence level associate differently, or registering a parenthesis, breaks this line *)
Lemma op_table_ok : table_ok op_table.
Proof. apply table_okb_ok. vm_compute. reflexivity. Qed.

Theorem sy_complete_op_table t ts : SPrints op_table 0 t ts -> infix_to_postfix op_table ts = Ok (spostfix t).
Proof. apply sy_complete. exact op_table_ok. Qed.

(* ================= the tokeniser (Function.format_infix + split) on rule-antecedent text ================= *)
Lemma append_empty_r s : String.append s "" = s.
Proof. induction s as [|c s IH]; cbn; [reflexivity|now rewrite IH]. Qed.
Lemma append_assoc' a b c : String.append (String.append a b) c = String.append a (String.append b c).
Proof. induction a as [|x a IH]; cbn; [reflexivity|now rewrite IH]. Qed.

Lemma find_none_all {A} (f : A -> bool) l : (forall x, In x l -> f x = false) -> find f l = None.
Proof. induction l as [|a l IH]; cbn; [reflexivity|]. intros H. rewrite (H a) by now left. apply IH. intros x Hx. apply H. now right. Qed.

Section Tokeniser.
  Variable keys : list string.
  (* every key starts with a character that is neither a blank nor allowed in names; "(" and ")" are keys that win *)
  Definition keys_okb : bool :=
    forallb (fun k => match k with String c _ => negb (name_char c) && negb (blank_char c) | EmptyString => true end) keys.
  Hypothesis KOK : keys_okb = true.
  Hypothesis key_lparen : forall text, first_match keys (String "("%char text) = Some "(".
  Hypothesis key_rparen : forall text, first_match keys (String ")"%char text) = Some ")".

  Lemma first_match_none c s : name_char c = true \/ blank_char c = true -> first_match keys (String c s) = None.
  Proof.
    intros Hc. unfold first_match. apply find_none_all. intros k Hk.
    unfold keys_okb in KOK. rewrite forallb_forall in KOK. specialize (KOK _ Hk).
    destruct k as [|c' r]; [reflexivity|]. cbn. destruct (Ascii.eqb_spec c' c) as [->|NE]; [|reflexivity].
    apply andb_true_iff in KOK as [K1 K2]. apply negb_true_iff in K1, K2. destruct Hc; congruence.
  Qed.

  Lemma scan_blanks ws rest : blanks ws -> scan keys (String.append ws rest) 0 "" = scan keys rest 0 "".
  Proof.
    unfold blanks. induction ws as [|c ws IH]; cbn [String.append list_ascii_of_string forallb]; [reflexivity|].
    intros H. apply andb_true_iff in H as [Hc Hws]. cbn [scan]. rewrite first_match_none by (now right).
    change (is_space c) with (blank_char c). rewrite Hc. cbn [emit String.eqb]. now apply IH.
  Qed.

  Lemma scan_name w text cur : forallb name_char (list_ascii_of_string w) = true ->
    scan keys (String.append w text) 0 cur = scan keys text 0 (String.append cur w).
  Proof.
    revert cur. induction w as [|c w IH]; intros cur; cbn [String.append list_ascii_of_string forallb].
    - intros _. now rewrite append_empty_r.
    - intros H. apply andb_true_iff in H as [Hc Hw]. cbn [scan]. rewrite first_match_none by (now left).
      change (is_space c) with (blank_char c).
      assert (Hb : blank_char c = false) by (unfold name_char in Hc; apply andb_true_iff in Hc as [Hc _]; now apply negb_true_iff in Hc).
      rewrite Hb. rewrite IH by assumption. now rewrite append_assoc'.
  Qed.

  Lemma scan_boundary text w : boundary text -> scan keys text 0 w = emit w (scan keys text 0 "").
  Proof.
    destruct text as [|c t]; cbn [boundary]; [intros _; cbn; now destruct (String.eqb w "")|].
    intros [Hb|[->| ->]].
    - cbn [scan]. rewrite first_match_none by (now right). change (is_space c) with (blank_char c). rewrite Hb. reflexivity.
    - cbn [scan]. rewrite key_lparen. reflexivity.
    - cbn [scan]. rewrite key_rparen. reflexivity.
  Qed.

  Theorem scan_spelled toks text : Spells toks text -> scan keys text 0 "" = toks.
  Proof.
    induction 1 as [ws Hws|ws rest text Hws _ IH|ws rest text Hws _ IH|ws w rest text Hws Hw Hb _ IH].
    - rewrite <- (append_empty_r ws), scan_blanks by assumption. reflexivity.
    - rewrite scan_blanks by assumption. cbn [String.append scan]. rewrite key_lparen. cbn. now rewrite IH.
    - rewrite scan_blanks by assumption. cbn [String.append scan]. rewrite key_rparen. cbn. now rewrite IH.
    - rewrite scan_blanks by assumption. destruct w as [|c w]; [discriminate|]. cbn [name_ok] in Hw.
      rewrite scan_name by assumption. cbn [String.append]. rewrite scan_boundary by assumption. cbn [emit String.eqb].
      now rewrite IH.
  Qed.
End Tokeniser.
