(* Proofs/ActivationProofs.v — the loops of Model/Activation.v, run on the concrete logged block, make
   exactly the trigger calls that Spec/Selection.v documents; what that does to every rule's degree and
   triggered flag; rejection of batches.  All statements are for blocks of any length.

   Structure
     1. lists, `list_set`
     2. the concrete state: frame facts for one rule
     3. one generic loop (`gloop`) of which the six first loops of the model are instances; its log is a
        pure function (`gtrace`) of the rules' static data
     4. the trigger-only second loops (heap pops, Proportional)
     5. pure traces = documented selections
     6. sorting: extract-min order = sorted arrangement (under the order laws `PosOrder`)
     7. the theorems per method, flags, degrees, frame, vectors
     8. the reals: PosOrder, Proportional sums to one      9. examples over R
     10. PosOrder for binary64, from the specification axioms of Coq's primitive floats (FloatAxioms) *)
From Coq Require Import ZArith Bool List Lia Arith Sorting.Sorted Sorting.Permutation Reals Lra Floats.
From VF Require Import Num NumR NumF Core Activation Selection.
Import ListNotations.
Set Implicit Arguments.

(* ------------------------------------------------------------------------------------------ *)
(* 1. lists                                                                                    *)
(* ------------------------------------------------------------------------------------------ *)
Section ListSet.
  Context {T : Type}.
  Lemma list_set_length (l : list (crule T)) i r : length (list_set l i r) = length l.
  Proof. revert i; induction l as [|x l IH]; intros [|i]; cbn; auto. Qed.
  Lemma list_set_eq (l : list (crule T)) i r : i < length l -> nth_error (list_set l i r) i = Some r.
  Proof. revert i; induction l as [|x l IH]; intros [|i] H; cbn in *; try lia; auto. apply IH; lia. Qed.
  Lemma list_set_neq (l : list (crule T)) i j r : i <> j -> nth_error (list_set l i r) j = nth_error l j.
  Proof.
    revert i j; induction l as [|x l IH]; intros [|i] [|j] H; cbn; auto; try congruence.
  Qed.
  Lemma list_set_twice (l : list (crule T)) i r r' : list_set (list_set l i r) i r' = list_set l i r'.
  Proof. revert i; induction l as [|x l IH]; intros [|i]; cbn; auto. now rewrite IH. Qed.
End ListSet.

(* ------------------------------------------------------------------------------------------ *)
(* 2. the concrete state                                                                       *)
(* ------------------------------------------------------------------------------------------ *)
Section State.
  Context {T : Type} {N : Num T}.
  Notation crule := (crule T). Notation cstate := (cstate T). Notation event := (event T).
  Notation rstatic := (rstatic T).

  Definition mk (x : rstatic) (d : T) (t : bool) : crule :=
    {| cr_static := x; cr_degree := d; cr_triggered := t |}.
  (* rule i replaced, events appended *)
  Definition upd (s : cstate) (i : nat) (r : crule) (evs : list event) : cstate :=
    {| cs_rules := list_set (cs_rules s) i r; cs_events := cs_events s ++ evs |}.
  Definition stat (s : cstate) (i : nat) : option rstatic := option_map (@cr_static T) (cget s i).

  Lemma cget_lt (s : cstate) i r : cget s i = Some r -> i < length (cs_rules s).
  Proof. unfold cget; intros H. apply nth_error_Some. congruence. Qed.
  Lemma cget_upd_eq (s : cstate) i (r : crule) evs : i < length (cs_rules s) -> cget (upd s i r evs) i = Some r.
  Proof. intros; unfold cget, upd; cbn. now apply list_set_eq. Qed.
  Lemma cget_upd_neq (s : cstate) i j (r : crule) evs : i <> j -> cget (upd s i r evs) j = cget s j.
  Proof. intros; unfold cget, upd; cbn. now apply list_set_neq. Qed.
  Lemma upd_upd (s : cstate) i (r : crule) evs (r' : crule) evs' : upd (upd s i r evs) i r' evs' = upd s i r' (evs ++ evs').
  Proof. unfold upd; cbn. now rewrite list_set_twice, app_assoc. Qed.
  Lemma length_upd (s : cstate) i (r : crule) evs : length (cs_rules (upd s i r evs)) = length (cs_rules s).
  Proof. apply list_set_length. Qed.

  (* the operations on a rule that exists *)
  Lemma deactivate_step (s : cstate) i (r : crule) : cget s i = Some r ->
    c_deactivate s i = upd s i (mk (cr_static r) zero false) [EvDeactivate i].
  Proof. intros H; unfold c_deactivate; now rewrite H. Qed.
  Lemma is_loaded_step (s : cstate) i (r : crule) : cget s i = Some r -> c_is_loaded s i = rs_loaded (cr_static r).
  Proof. intros H; unfold c_is_loaded; now rewrite H. Qed.
  Lemma activate_with_step (s : cstate) i (r : crule) : cget s i = Some r -> rs_loaded (cr_static r) = true ->
    c_activate_with s i =
      Ok (rs_value (cr_static r), upd s i (mk (cr_static r) (rs_value (cr_static r)) (cr_triggered r)) [EvEval i]).
  Proof. intros H L; unfold c_activate_with; now rewrite H, L. Qed.
  Lemma trigger_step (s : cstate) i (r : crule) : cget s i = Some r -> rs_loaded (cr_static r) = true ->
    c_trigger s i =
      Ok (upd s i (mk (cr_static r) (cr_degree r) (rs_enabled (cr_static r) && gtb (cr_degree r) zero))
              [EvTrigger i (cr_degree r)]).
  Proof. intros H L; unfold c_trigger; now rewrite H, L. Qed.
  Lemma set_degree_step (s : cstate) i (r : crule) d : cget s i = Some r ->
    c_set_degree s i d = upd s i (mk (cr_static r) d (cr_triggered r)) [].
  Proof. intros H; unfold c_set_degree; rewrite H. unfold upd, cset; cbn. now rewrite app_nil_r. Qed.
  Lemma degree_size_step (s : cstate) i (r : crule) : cget s i = Some r -> c_degree_size s i = rs_size (cr_static r).
  Proof. intros H; unfold c_degree_size; now rewrite H. Qed.
  Lemma degree_step (s : cstate) i (r : crule) : cget s i = Some r -> c_degree s i = cr_degree r.
  Proof. intros H; unfold c_degree; now rewrite H. Qed.

  (* ---- what a complete pass over the positions `l` does to a state *)
  Definition ev_index (e : event) : nat :=
    match e with EvDeactivate i | EvEval i | EvTrigger i _ => i end.
  Fixpoint find_trigger (j : nat) (evs : list event) : option T :=
    match evs with
    | [] => None
    | EvTrigger i d :: evs' => if Nat.eqb i j then Some d else find_trigger j evs'
    | _ :: evs' => find_trigger j evs'
    end.
  (* the rule after its deactivation, evaluation (when loaded) and possibly one trigger call at degree d *)
  Definition outcome (r : crule) (o : option T) : crule :=
    let x := cr_static r in
    mk x (match o with Some d => d | None => if rs_loaded x then rs_value x else zero end)
         (match o with Some d => rs_enabled x && gtb d zero | None => false end).

  Definition post (l : list nat) (s s' : cstate) (evs : list event) : Prop :=
    cs_events s' = cs_events s ++ evs /\
    length (cs_rules s') = length (cs_rules s) /\
    (forall j, ~ In j l -> cget s' j = cget s j) /\
    (forall j r, In j l -> cget s j = Some r -> cget s' j = Some (outcome r (find_trigger j evs))) /\
    Forall (fun e => In (ev_index e) l) evs.

  Lemma find_trigger_app j e1 e2 :
    find_trigger j (e1 ++ e2) = match find_trigger j e1 with Some d => Some d | None => find_trigger j e2 end.
  Proof.
    induction e1 as [|e e1 IH]; cbn; auto. destruct e; auto. destruct (Nat.eqb i j); auto.
  Qed.
  Lemma find_trigger_absent j evs : Forall (fun e => ev_index e <> j) evs -> find_trigger j evs = None.
  Proof.
    induction 1 as [|e evs H _ IH]; cbn; auto. destruct e; auto. cbn in H.
    destruct (Nat.eqb_spec i j); congruence.
  Qed.

  Lemma post_nil (s : cstate) : post [] s s [].
  Proof. unfold post. rewrite app_nil_r. repeat split; auto. intros j r []. Qed.

  (* one rule handled (state `upd s i r' e1`), then the rest of the positions *)
  Lemma post_cons i l (s : cstate) (r r' : crule) e1 (s' : cstate) e2 :
    cget s i = Some r -> ~ In i l ->
    r' = outcome r (find_trigger i e1) ->
    Forall (fun e => ev_index e = i) e1 ->
    post l (upd s i r' e1) s' e2 ->
    post (i :: l) s s' (e1 ++ e2).
  Proof.
    intros G NI -> F1 (E & L & U & C & F2).
    assert (Hi : i < length (cs_rules s)) by (eapply cget_lt; eauto).
    repeat split.
    - rewrite E. cbn. now rewrite app_assoc.
    - rewrite L. apply length_upd.
    - intros j NJ. cbn in NJ. rewrite U by tauto. apply cget_upd_neq. tauto.
    - intros j rj [<- | Hj] Gj.
      + rewrite U by assumption. rewrite cget_upd_eq by assumption. rewrite G in Gj; inversion Gj; subst rj.
        rewrite find_trigger_app.
        rewrite (@find_trigger_absent i e2).
        * now destruct (find_trigger i e1).
        * eapply Forall_impl; [|exact F2]. cbn. intros e He <-. contradiction.
      + assert (i <> j) by (intros ->; contradiction).
        rewrite (C j rj Hj) by (rewrite cget_upd_neq; assumption).
        rewrite find_trigger_app, (@find_trigger_absent j e1); auto.
        eapply Forall_impl; [|exact F1]. cbn. intros e He. congruence.
    - apply Forall_app; split.
      + eapply Forall_impl; [|exact F1]. cbn. intros e ->. now left.
      + eapply Forall_impl; [|exact F2]. cbn. intros e He. now right.
  Qed.
End State.
(* ------------------------------------------------------------------------------------------ *)
(* 3. one generic first loop                                                                   *)
(* ------------------------------------------------------------------------------------------ *)
Section GLoop.
  Context {T : Type} {N : Num T}.
  Notation crule := (crule T). Notation cstate := (cstate T). Notation event := (event T).
  Notation rstatic := (rstatic T).

  Section Generic.
    Context {S A : Type}.
    Variable ops : rule_ops T S.
    Variable check : bool.                       (* does the loop call assert_is_not_vector? *)
    Variable f : A -> nat -> T -> A * bool.      (* accumulator update and "trigger now?" for a loaded rule *)
    Fixpoint gloop (l : list nat) (a : A) (s : S) : result (A * S) :=
      match l with
      | [] => Ok (a, s)
      | i :: l' =>
          let s := op_deactivate ops s i in
          if op_is_loaded ops s i then
            do ds <- op_activate_with ops s i;
            let (d, s) := ds in
            do _ <- (if check then assert_is_not_vector ops s i else Ok tt);
            let (a', trig) := f a i d in
            if trig then do s <- op_trigger ops s i; gloop l' a' s else gloop l' a' s
          else gloop l' a s
      end.
  End Generic.

  (* the loops of the model are instances *)
  Definition f_general (a : unit) (i : nat) (d : T) : unit * bool := (a, true).
  Definition f_first (n : Z) (t : T) (a : Z) (i : nat) (d : T) : Z * bool :=
    if first_cond n t a d then ((a + 1)%Z, true) else (a, false).
  Definition f_threshold (c : comparator) (t : T) (a : unit) (i : nat) (d : T) : unit * bool := (a, cmp_apply c d t).
  Definition f_heap (key : T -> T) (h : list (T * nat)) (i : nat) (d : T) : list (T * nat) * bool :=
    if gtb d zero then (h ++ [(key d, i)], false) else (h, false).
  Definition f_prop (a : list nat * T) (i : nat) (d : T) : (list nat * T) * bool :=
    if gtb d zero then ((fst a ++ [i], add (snd a) d), false) else (a, false).

  Definition rmap {A B} (g : A -> B) (r : result A) : result B :=
    match r with Ok a => Ok (g a) | Err e => Err e end.

  Lemma general_loop_gloop S (ops : rule_ops T S) l s :
    general_loop ops l s = rmap snd (gloop ops false f_general l tt s).
  Proof.
    revert s; induction l as [|i l IH]; intros s; cbn; auto.
    destruct (op_is_loaded ops (op_deactivate ops s i) i); auto.
    destruct (op_activate_with ops (op_deactivate ops s i) i) as [[d s1]|e]; cbn; auto.
    destruct (op_trigger ops s1 i); cbn; auto.
  Qed.
  Lemma first_loop_gloop S (ops : rule_ops T S) n t l a s :
    first_loop ops n t l a s = rmap snd (gloop ops true (f_first n t) l a s).
  Proof.
    revert a s; induction l as [|i l IH]; intros a s; cbn; auto.
    destruct (op_is_loaded ops (op_deactivate ops s i) i); auto.
    destruct (op_activate_with ops (op_deactivate ops s i) i) as [[d s1]|e]; cbn; auto.
    destruct (assert_is_not_vector ops s1 i); cbn; auto.
    unfold f_first. destruct (first_cond n t a d); auto.
    destruct (op_trigger ops s1 i); cbn; auto.
  Qed.
  Lemma threshold_loop_gloop S (ops : rule_ops T S) c t l s :
    threshold_loop ops c t l s = rmap snd (gloop ops true (f_threshold c t) l tt s).
  Proof.
    revert s; induction l as [|i l IH]; intros s; cbn; auto.
    destruct (op_is_loaded ops (op_deactivate ops s i) i); auto.
    destruct (op_activate_with ops (op_deactivate ops s i) i) as [[d s1]|e]; cbn; auto.
    destruct (assert_is_not_vector ops s1 i); cbn; auto.
    destruct (cmp_apply c d t); auto.
    destruct (op_trigger ops s1 i); cbn; auto.
  Qed.
  Lemma heap_collect_gloop S (ops : rule_ops T S) key l h s :
    heap_collect ops key l h s = gloop ops true (f_heap key) l h s.
  Proof.
    revert h s; induction l as [|i l IH]; intros h s; cbn; auto.
    destruct (op_is_loaded ops (op_deactivate ops s i) i); auto.
    destruct (op_activate_with ops (op_deactivate ops s i) i) as [[d s1]|e]; cbn; auto.
    destruct (assert_is_not_vector ops s1 i); cbn; auto.
    unfold f_heap. destruct (gtb d zero); auto.
  Qed.
  Lemma prop_collect_gloop S (ops : rule_ops T S) l acc sum s :
    prop_collect ops l acc sum s = rmap (fun r => (fst (fst r), snd (fst r), snd r)) (gloop ops true f_prop l (acc, sum) s).
  Proof.
    revert acc sum s; induction l as [|i l IH]; intros acc sum s; cbn; auto.
    destruct (op_is_loaded ops (op_deactivate ops s i) i); auto.
    destruct (op_activate_with ops (op_deactivate ops s i) i) as [[d s1]|e]; cbn; auto.
    destruct (assert_is_not_vector ops s1 i); cbn; auto.
    unfold f_prop. destruct (gtb d zero); cbn; auto.
  Qed.

  (* ---- the log and the accumulator of the generic loop as pure functions of the static data *)
  Section Pure.
    Context {A : Type}.
    Variable f : A -> nat -> T -> A * bool.
    Fixpoint gtrace (xs : list (nat * rstatic)) (a : A) : list event :=
      match xs with
      | [] => []
      | (i, x) :: xs' =>
          EvDeactivate i ::
          if rs_loaded x then
            EvEval i ::
            (if snd (f a i (rs_value x)) then EvTrigger i (rs_value x) :: gtrace xs' (fst (f a i (rs_value x)))
             else gtrace xs' (fst (f a i (rs_value x))))
          else gtrace xs' a
      end.
    Fixpoint gacc (xs : list (nat * rstatic)) (a : A) : A :=
      match xs with
      | [] => a
      | (i, x) :: xs' => if rs_loaded x then gacc xs' (fst (f a i (rs_value x))) else gacc xs' a
      end.
  End Pure.

  Definition scalar_xs (xs : list (nat * rstatic)) : Prop :=
    forall i x, In (i, x) xs -> rs_loaded x = true -> rs_size x <= 1.
  Definition has_vector (xs : list (nat * rstatic)) : Prop :=
    exists i x, In (i, x) xs /\ rs_loaded x = true /\ 1 < rs_size x.
  Definition agrees (s : cstate) (xs : list (nat * rstatic)) : Prop :=
    forall i x, In (i, x) xs -> stat s i = Some x.

  Lemma agrees_upd (s : cstate) i (r : crule) evs xs :
    ~ In i (map fst xs) -> agrees s xs -> agrees (upd s i r evs) xs.
  Proof.
    intros NI H j x Hj. unfold stat. rewrite cget_upd_neq; [now apply H|].
    intros ->. apply NI. exact (in_map fst _ _ Hj).
  Qed.

  Lemma gloop_spec A (check : bool) (f : A -> nat -> T -> A * bool) xs : forall a (s : cstate),
    NoDup (map fst xs) -> agrees s xs -> (check = true -> scalar_xs xs) ->
    exists s', gloop cops check f (map fst xs) a s = Ok (gacc f xs a, s') /\
               post (map fst xs) s s' (gtrace f xs a).
  Proof.
    induction xs as [|[i x] xs IH]; intros a s ND AG SC.
    - exists s. split; [reflexivity | apply post_nil].
    - cbn [map fst] in *. inversion ND as [|? ? NI ND']; subst.
      assert (AG' : agrees s xs) by (intros j y Hj; apply AG; now right).
      assert (SC' : check = true -> scalar_xs xs) by (intros C j y Hj Ly; apply (SC C j y); [now right | exact Ly]).
      destruct (cget s i) as [r|] eqn:G.
      2:{ specialize (AG i x (or_introl eq_refl)). unfold stat in AG. rewrite G in AG. discriminate. }
      assert (X : cr_static r = x).
      { specialize (AG i x (or_introl eq_refl)). unfold stat in AG. rewrite G in AG. now inversion AG. }
      assert (Hi : i < length (cs_rules s)) by (eapply cget_lt; eauto).
      cbn [gloop op_deactivate op_is_loaded op_activate_with op_trigger cops].
      rewrite (deactivate_step _ _ G), X.
      set (s1 := upd s i (mk x zero false) [EvDeactivate i]).
      assert (G1 : cget s1 i = Some (mk x zero false)) by (apply cget_upd_eq; assumption).
      rewrite (is_loaded_step _ _ G1). cbn [cr_static mk gtrace gacc].
      destruct (rs_loaded x) eqn:L.
      + rewrite (activate_with_step _ _ G1) by exact L. cbn [bind cr_static cr_triggered mk].
        unfold s1. rewrite upd_upd. cbn [app].
        set (s2 := upd s i (mk x (rs_value x) false) [EvDeactivate i; EvEval i]).
        assert (G2 : cget s2 i = Some (mk x (rs_value x) false)) by (apply cget_upd_eq; assumption).
        assert (CK : (if check then assert_is_not_vector cops s2 i else Ok tt) = Ok tt).
        { destruct check; auto. unfold assert_is_not_vector. cbn [op_degree_size cops].
          rewrite (degree_size_step _ _ G2). cbn [cr_static mk].
          assert (rs_size x <= 1) by (apply (SC eq_refl i x); [now left | exact L]).
          destruct (Nat.ltb_spec 1 (rs_size x)); auto; lia. }
        rewrite CK. cbn [bind].
        destruct (f a i (rs_value x)) as [a' trig] eqn:F. cbn [fst snd].
        destruct trig.
        * rewrite (trigger_step _ _ G2) by exact L. cbn [bind cr_static cr_degree mk].
          unfold s2. rewrite upd_upd. cbn [app].
          set (r3 := mk x (rs_value x) (rs_enabled x && gtb (rs_value x) zero)).
          set (e3 := [EvDeactivate i; EvEval i; EvTrigger i (rs_value x)] : list event).
          destruct (IH a' (upd s i r3 e3) ND') as (s' & RUN & P); auto using agrees_upd.
          exists s'. split; [exact RUN|].
          change (post (i :: map fst xs) s s' (e3 ++ gtrace f xs a')).
          eapply post_cons; [exact G | exact NI | | | exact P].
          -- unfold outcome, e3, r3. cbn. rewrite Nat.eqb_refl, X. reflexivity.
          -- unfold e3. repeat constructor.
        * set (r3 := mk x (rs_value x) false).
          set (e3 := [EvDeactivate i; EvEval i] : list event).
          destruct (IH a' (upd s i r3 e3) ND') as (s' & RUN & P); auto using agrees_upd.
          exists s'. split; [exact RUN|].
          change (post (i :: map fst xs) s s' (e3 ++ gtrace f xs a')).
          eapply post_cons; [exact G | exact NI | | | exact P].
          -- unfold outcome, e3, r3. cbn. rewrite X, L. reflexivity.
          -- unfold e3. repeat constructor.
      + set (r3 := mk x zero false).
        destruct (IH a s1 ND') as (s' & RUN & P); auto using agrees_upd.
        { apply agrees_upd; auto. }
        exists s'. split; [exact RUN|].
        change (post (i :: map fst xs) s s' ([EvDeactivate i] ++ gtrace f xs a)).
        eapply post_cons; [exact G | exact NI | | | exact P].
        -- unfold outcome. cbn. rewrite X, L. reflexivity.
        -- repeat constructor.
  Qed.

  Lemma gloop_rejects A (f : A -> nat -> T -> A * bool) xs : forall a (s : cstate),
    NoDup (map fst xs) -> agrees s xs -> has_vector xs ->
    gloop cops true f (map fst xs) a s = Err EValue.
  Proof.
    induction xs as [|[i x] xs IH]; intros a s ND AG (j & y & IN & LY & SZ).
    - destruct IN.
    - cbn [map fst] in *. inversion ND as [|? ? NI ND']; subst.
      assert (AG' : agrees s xs) by (intros k z Hk; apply AG; now right).
      destruct (cget s i) as [r|] eqn:G.
      2:{ specialize (AG i x (or_introl eq_refl)). unfold stat in AG. rewrite G in AG. discriminate. }
      assert (X : cr_static r = x).
      { specialize (AG i x (or_introl eq_refl)). unfold stat in AG. rewrite G in AG. now inversion AG. }
      assert (Hi : i < length (cs_rules s)) by (eapply cget_lt; eauto).
      cbn [gloop op_deactivate op_is_loaded op_activate_with op_trigger cops].
      rewrite (deactivate_step _ _ G), X.
      set (s1 := upd s i (mk x zero false) [EvDeactivate i]).
      assert (G1 : cget s1 i = Some (mk x zero false)) by (apply cget_upd_eq; assumption).
      rewrite (is_loaded_step _ _ G1). cbn [cr_static mk].
      destruct (rs_loaded x) eqn:L.
      + rewrite (activate_with_step _ _ G1) by exact L. cbn [bind cr_static cr_triggered mk].
        unfold s1. rewrite upd_upd. cbn [app].
        set (s2 := upd s i (mk x (rs_value x) false) [EvDeactivate i; EvEval i]).
        assert (G2 : cget s2 i = Some (mk x (rs_value x) false)) by (apply cget_upd_eq; assumption).
        unfold assert_is_not_vector. cbn [op_degree_size cops].
        rewrite (degree_size_step _ _ G2). cbn [cr_static mk].
        destruct (Nat.ltb_spec 1 (rs_size x)) as [BIG|SMALL]; [reflexivity|]. cbn [bind].
        assert (HV : has_vector xs).
        { exists j, y. repeat split; auto. destruct IN as [E|IN]; auto. inversion E; subst. lia. }
        destruct (f a i (rs_value x)) as [a' trig]. destruct trig.
        * rewrite (trigger_step _ _ G2) by exact L. cbn [bind cr_static cr_degree mk].
          unfold s2. rewrite upd_upd. apply IH; auto using agrees_upd.
        * unfold s2. apply IH; auto using agrees_upd.
      + assert (HV : has_vector xs).
        { exists j, y. repeat split; auto. destruct IN as [E|IN]; auto. inversion E; subst. congruence. }
        apply IH; auto. apply agrees_upd; auto.
  Qed.
End GLoop.
(* ------------------------------------------------------------------------------------------ *)
(* 4. the trigger-only second loops                                                            *)
(* ------------------------------------------------------------------------------------------ *)
Section Phase2.
  Context {T : Type} {N : Num T}.
  Notation crule := (crule T). Notation cstate := (cstate T). Notation event := (event T).
  Notation rstatic := (rstatic T).

  (* the positions popped by the `while` loop of Highest/Lowest, in order *)
  Fixpoint pop_order (fuel : nat) (n a : Z) (heap : list (T * nat)) : list nat :=
    match fuel with
    | O => []
    | Datatypes.S fuel' =>
        match extract_min heap with
        | None => []
        | Some (m, rest) => if (a <? n)%Z then snd m :: pop_order fuel' n (a + 1)%Z rest else []
        end
    end.
  Fixpoint step_all {S} (step : S -> nat -> result S) (tl : list nat) (s : S) : result S :=
    match tl with
    | [] => Ok s
    | i :: tl' => do s <- step s i; step_all step tl' s
    end.
  Lemma heap_pop_loop_step_all S (ops : rule_ops T S) fuel : forall n a heap s,
    heap_pop_loop ops fuel n a heap s = step_all (op_trigger ops) (pop_order fuel n a heap) s.
  Proof.
    induction fuel as [|fuel IH]; intros n a heap s; cbn; auto.
    destruct (extract_min heap) as [[m rest]|]; auto.
    destruct (a <? n)%Z; auto. cbn. destruct (op_trigger ops s (snd m)); cbn; auto.
  Qed.
  Definition prop_step {S} (ops : rule_ops T S) (sum : T) (s : S) (i : nat) : result S :=
    op_trigger ops (op_set_degree ops s i (div (op_degree ops s i) sum)) i.
  Lemma prop_trigger_step_all S (ops : rule_ops T S) sum acc : forall s,
    prop_trigger ops acc sum s = step_all (prop_step ops sum) acc s.
  Proof.
    induction acc as [|i acc IH]; intros s; cbn; auto. unfold prop_step at 1.
    destruct (op_trigger ops _ i); cbn; auto.
  Qed.

  (* a step that rescales the stored degree by g and triggers *)
  Definition triggered_rule (g : T -> T) (r : crule) : crule :=
    mk (cr_static r) (g (cr_degree r)) (rs_enabled (cr_static r) && gtb (g (cr_degree r)) zero).
  Definition is_trigger_step (g : T -> T) (step : cstate -> nat -> result cstate) : Prop :=
    forall s i r, cget s i = Some r -> rs_loaded (cr_static r) = true ->
      step s i = Ok (upd s i (triggered_rule g r) [EvTrigger i (g (cr_degree r))]).

  Lemma c_trigger_is_step : is_trigger_step (fun d => d) c_trigger.
  Proof. intros s i r G L. now rewrite (trigger_step _ _ G L). Qed.
  Lemma prop_step_is_step sum : is_trigger_step (fun d => div d sum) (prop_step cops sum).
  Proof.
    intros s i r G L. unfold prop_step. cbn [op_trigger op_set_degree op_degree cops].
    rewrite (set_degree_step _ _ _ G), (degree_step _ _ G).
    assert (Hi : i < length (cs_rules s)) by (eapply cget_lt; eauto).
    erewrite trigger_step; [|apply cget_upd_eq; assumption|exact L].
    rewrite upd_upd. reflexivity.
  Qed.

  Lemma step_all_spec g step (ST : is_trigger_step g step) tl : forall s,
    NoDup tl ->
    (forall j, In j tl -> exists r, cget s j = Some r /\ rs_loaded (cr_static r) = true) ->
    exists s', step_all step tl s = Ok s' /\
      cs_events s' = cs_events s ++ map (fun j => EvTrigger j (g (c_degree s j))) tl /\
      length (cs_rules s') = length (cs_rules s) /\
      (forall j, ~ In j tl -> cget s' j = cget s j) /\
      (forall j r, In j tl -> cget s j = Some r -> cget s' j = Some (triggered_rule g r)).
  Proof.
    induction tl as [|i tl IH]; intros s ND LD.
    - exists s. cbn. rewrite app_nil_r. repeat split; auto. intros j r [].
    - inversion ND as [|? ? NI ND']; subst.
      destruct (LD i (or_introl eq_refl)) as (r & G & L).
      assert (Hi : i < length (cs_rules s)) by (eapply cget_lt; eauto).
      cbn [step_all]. rewrite (ST s i r G L). cbn [bind].
      set (s1 := upd s i (triggered_rule g r) [EvTrigger i (g (cr_degree r))]).
      assert (OTH : forall j, j <> i -> cget s1 j = cget s j).
      { intros j Hj. unfold s1. apply cget_upd_neq. congruence. }
      destruct (IH s1 ND') as (s' & RUN & E & LEN & U & C).
      { intros j Hj. rewrite OTH; [apply LD; now right|]. intros ->; contradiction. }
      exists s'. split; [exact RUN|]. repeat split.
      + rewrite E. unfold s1 at 1. cbn [cs_events upd map]. rewrite <- app_assoc. cbn [app].
        rewrite (degree_step _ _ G). do 2 f_equal.
        apply map_ext_in. intros j Hj. unfold c_degree. rewrite OTH; auto. intros ->; contradiction.
      + rewrite LEN. apply length_upd.
      + intros j NJ. cbn in NJ. rewrite U by tauto. apply OTH. intros ->. tauto.
      + intros j rj [<-|Hj] Gj.
        * rewrite U by assumption. unfold s1. rewrite cget_upd_eq by assumption. congruence.
        * apply C; auto. rewrite OTH; auto. intros ->; contradiction.
  Qed.

  Lemma find_trigger_map_in (h : nat -> T) j tl : In j tl ->
    find_trigger j (map (fun k => EvTrigger k (h k)) tl) = Some (h j).
  Proof.
    induction tl as [|k tl IH]; intros []; cbn.
    - subst. now rewrite Nat.eqb_refl.
    - destruct (Nat.eqb_spec k j); [now subst | auto].
  Qed.
  Lemma find_trigger_map_notin (h : nat -> T) j tl : ~ In j tl ->
    find_trigger j (map (fun k => EvTrigger k (h k)) tl) = None.
  Proof.
    induction tl as [|k tl IH]; intros NI; cbn; auto.
    destruct (Nat.eqb_spec k j); [subst; exfalso; apply NI; now left|]. apply IH. intros H; apply NI; now right.
  Qed.

  (* a first loop that triggers nothing, followed by trigger steps on some of its loaded positions *)
  Lemma post_two_phase g step (ST : is_trigger_step g step) l (s s1 : cstate) evs1 tl (value : nat -> T) :
    post l s s1 evs1 -> triggers_of evs1 = [] ->
    NoDup tl -> incl tl l ->
    (forall j, In j tl -> exists r, cget s j = Some r /\ rs_loaded (cr_static r) = true /\ rs_value (cr_static r) = value j) ->
    exists s', step_all step tl s1 = Ok s' /\
               post l s s' (evs1 ++ map (fun j => EvTrigger j (g (value j))) tl).
  Proof.
    intros (E1 & L1 & U1 & C1 & F1) NT ND INC LD.
    assert (NOTRIG : forall j, find_trigger j evs1 = None).
    { intros j. clear - NT. induction evs1 as [|e evs IH]; cbn in *; auto. destruct e; auto. discriminate. }
    assert (S1 : forall j, In j tl -> exists r, cget s j = Some r /\ rs_loaded (cr_static r) = true /\
                   rs_value (cr_static r) = value j /\ cget s1 j = Some (mk (cr_static r) (value j) false)).
    { intros j Hj. destruct (LD j Hj) as (r & G & L & V). exists r. repeat split; auto.
      rewrite (C1 j r (INC j Hj) G), NOTRIG. unfold outcome. now rewrite L, V. }
    destruct (@step_all_spec g step ST tl s1 ND) as (s' & RUN & E & LEN & U & C).
    { intros j Hj. destruct (S1 j Hj) as (r & _ & L & _ & G1). eexists; split; [exact G1|exact L]. }
    exists s'. split; [exact RUN|]. repeat split.
    - rewrite E, E1, <- app_assoc. do 2 f_equal. apply map_ext_in. intros j Hj.
      destruct (S1 j Hj) as (r & _ & _ & _ & G1). now rewrite (degree_step _ _ G1).
    - congruence.
    - intros j NJ. destruct (in_dec Nat.eq_dec j tl) as [Hj|Hj]; [elim NJ; now apply INC|].
      rewrite U by assumption. now apply U1.
    - intros j r Hj G. rewrite find_trigger_app, NOTRIG.
      destruct (in_dec Nat.eq_dec j tl) as [Hjt|Hjt].
      + rewrite find_trigger_map_in by assumption.
        destruct (S1 j Hjt) as (r' & G' & L & V & G1). rewrite G in G'; inversion G'; subst r'.
        rewrite (C j _ Hjt G1). unfold triggered_rule, outcome. reflexivity.
      + rewrite find_trigger_map_notin by assumption. rewrite U by assumption.
        rewrite (C1 j r Hj G), NOTRIG. reflexivity.
    - apply Forall_app; split; auto. apply Forall_forall. intros e He.
      apply in_map_iff in He as (j & <- & Hj). cbn. now apply INC.
  Qed.
End Phase2.
(* ------------------------------------------------------------------------------------------ *)
(* 5. the pure traces against the documented selections                                        *)
(* ------------------------------------------------------------------------------------------ *)
Section Traces.
  Context {T : Type} {N : Num T}.
  Notation crule := (crule T). Notation cstate := (cstate T). Notation event := (event T).
  Notation rstatic := (rstatic T).
  Notation entry := (nat * T)%type.

  (* (position, degree) of the loaded rules among xs *)
  Fixpoint ld (xs : list (nat * rstatic)) : list entry :=
    match xs with
    | [] => []
    | (i, x) :: xs' => if rs_loaded x then (i, rs_value x) :: ld xs' else ld xs'
    end.
  Lemma ld_app xs ys : ld (xs ++ ys) = ld xs ++ ld ys.
  Proof. induction xs as [|[i x] xs IH]; cbn; auto. destruct (rs_loaded x); cbn; now rewrite IH. Qed.
  Lemma ld_rev xs : ld (rev xs) = rev (ld xs).
  Proof.
    induction xs as [|[i x] xs IH]; cbn; auto. rewrite ld_app, IH. cbn.
    destruct (rs_loaded x); cbn; auto. now rewrite app_nil_r.
  Qed.
  Lemma ld_in i v xs : In (i, v) (ld xs) -> exists x, In (i, x) xs /\ rs_loaded x = true /\ rs_value x = v.
  Proof.
    induction xs as [|[k x] xs IH]; cbn; [tauto|]. destruct (rs_loaded x) eqn:L.
    - intros [E|H]; [inversion E; subst; eauto | destruct (IH H) as (y & ? & ? & ?); eauto].
    - intros H; destruct (IH H) as (y & ? & ? & ?); eauto.
  Qed.
  Lemma ld_fst_incl xs : incl (map fst (ld xs)) (map fst xs).
  Proof.
    induction xs as [|[k x] xs IH]; cbn; [apply incl_refl|]. destruct (rs_loaded x); cbn.
    - intros j [<-|H]; [now left | right; now apply IH].
    - intros j H; right; now apply IH.
  Qed.
  Lemma ld_fst_nodup xs : NoDup (map fst xs) -> NoDup (map fst (ld xs)).
  Proof.
    induction xs as [|[k x] xs IH]; cbn; auto. intros ND; inversion ND; subst.
    destruct (rs_loaded x); cbn; auto. constructor; auto. intros H. now apply ld_fst_incl in H.
  Qed.
  (* ... and of a whole block *)
  Lemma ld_block (b : list crule) k :
    ld (combine (seq k (length b)) (map (@cr_static T) b)) =
    loaded_from (fun r => rs_loaded (cr_static r)) (fun r => rs_value (cr_static r)) k b.
  Proof.
    revert k; induction b as [|r b IH]; intros k; cbn; auto. now rewrite IH.
  Qed.

  Lemma triggers_of_app (e1 e2 : list event) : triggers_of (e1 ++ e2) = triggers_of e1 ++ triggers_of e2.
  Proof. induction e1 as [|e e1 IH]; cbn; auto. destruct e; cbn; now rewrite ?IH. Qed.
  Lemma triggers_of_map (h : nat -> T) tl :
    triggers_of (map (fun j => EvTrigger j (h j)) tl) = map (fun j => (j, h j)) tl.
  Proof. induction tl as [|j tl IH]; cbn; now rewrite ?IH. Qed.
  Lemma evals_of_app (e1 e2 : list event) : evals_of (e1 ++ e2) = evals_of e1 ++ evals_of e2.
  Proof. induction e1 as [|e e1 IH]; cbn; auto. destruct e; cbn; now rewrite ?IH. Qed.
  Lemma deactivations_of_app (e1 e2 : list event) :
    deactivations_of (e1 ++ e2) = deactivations_of e1 ++ deactivations_of e2.
  Proof. induction e1 as [|e e1 IH]; cbn; auto. destruct e; cbn; now rewrite ?IH. Qed.
  Lemma evals_of_map (h : nat -> T) tl : evals_of (map (fun j => EvTrigger j (h j)) tl) = [].
  Proof. induction tl; cbn; auto. Qed.
  Lemma deactivations_of_map (h : nat -> T) tl : deactivations_of (map (fun j => EvTrigger j (h j)) tl) = [].
  Proof. induction tl; cbn; auto. Qed.

  (* every first loop deactivates every rule and evaluates exactly the loaded ones, in iteration order *)
  Lemma gtrace_deactivations A (f : A -> nat -> T -> A * bool) xs : forall a,
    deactivations_of (gtrace f xs a) = map fst xs.
  Proof.
    induction xs as [|[i x] xs IH]; intros a; cbn; auto. f_equal.
    destruct (rs_loaded x); cbn; auto. destruct (snd (f a i (rs_value x))); cbn; auto.
  Qed.
  Lemma gtrace_evals A (f : A -> nat -> T -> A * bool) xs : forall a,
    evals_of (gtrace f xs a) = map fst (ld xs).
  Proof.
    induction xs as [|[i x] xs IH]; intros a; cbn; auto.
    destruct (rs_loaded x); cbn; auto. f_equal. destruct (snd (f a i (rs_value x))); cbn; auto.
  Qed.

  (* ---- order of the calls on one rule: never evaluated before it was deactivated, never triggered
     before it was evaluated (D, E: the positions deactivated / evaluated so far) *)
  Definition mem (i : nat) (l : list nat) : bool := existsb (Nat.eqb i) l.
  Fixpoint ordered (D E : list nat) (evs : list event) : bool :=
    match evs with
    | [] => true
    | EvDeactivate i :: evs' => ordered (i :: D) E evs'
    | EvEval i :: evs' => mem i D && ordered D (i :: E) evs'
    | EvTrigger i _ :: evs' => mem i E && ordered D E evs'
    end.
  Lemma mem_head i l : mem i (i :: l) = true.
  Proof. unfold mem. cbn. now rewrite Nat.eqb_refl. Qed.
  Lemma mem_in i l : In i l -> mem i l = true.
  Proof. intros H. unfold mem. apply existsb_exists. exists i. split; auto. apply Nat.eqb_refl. Qed.
  Lemma gtrace_ordered A (f : A -> nat -> T -> A * bool) xs : forall a D E, ordered D E (gtrace f xs a) = true.
  Proof.
    induction xs as [|[i x] xs IH]; intros a D E; cbn [gtrace ordered]; auto.
    destruct (rs_loaded x); [|apply IH]. cbn [ordered]. rewrite mem_head. cbn [andb].
    destruct (snd (f a i (rs_value x))); [|apply IH]. cbn [ordered]. rewrite mem_head. apply IH.
  Qed.
  Lemma ordered_then_triggers (h : nat -> T) tl (e1 : list event) : forall D E,
    ordered D E e1 = true -> (forall j, In j tl -> In j (evals_of e1) \/ In j E) ->
    ordered D E (e1 ++ map (fun j => EvTrigger j (h j)) tl) = true.
  Proof.
    induction e1 as [|e e1 IH]; intros D E O H; cbn [app].
    - clear O. induction tl as [|j tl IHt]; cbn; auto. rewrite mem_in.
      + apply IHt. intros k Hk. apply H. now right.
      + destruct (H j (or_introl eq_refl)) as [[]|]; auto.
    - destruct e; cbn [ordered evals_of] in *.
      + apply IH; auto.
      + apply andb_true_iff in O as (M & O). rewrite M. cbn [andb]. apply IH; auto.
        intros j Hj. destruct (H j Hj) as [[<-|]|]; auto; right; [now left | now right].
      + apply andb_true_iff in O as (M & O). rewrite M. cbn [andb]. apply IH; auto.
  Qed.

  (* ---- General *)
  Lemma general_triggers xs : triggers_of (gtrace f_general xs tt) = select AGeneral (ld xs).
  Proof. induction xs as [|[i x] xs IH]; cbn; auto. destruct (rs_loaded x); cbn; now rewrite ?IH. Qed.

  (* ---- First / Last: with `a` rules already triggered, n - a more may be *)
  Lemma first_triggers n t xs : forall a,
    triggers_of (gtrace (f_first n t) xs a) = firstn (Z.to_nat (n - a)) (filter (reaches t) (ld xs)).
  Proof.
    induction xs as [|[i x] xs IH]; intros a; cbn [gtrace ld triggers_of].
    - now rewrite firstn_nil.
    - destruct (rs_loaded x); [|apply IH]. cbn [triggers_of filter].
      change (reaches t (i, rs_value x)) with (gtb (rs_value x) zero && geb (rs_value x) t).
      destruct (Z.ltb_spec a n) as [LT|GE].
      + destruct (gtb (rs_value x) zero && geb (rs_value x) t) eqn:R.
        * assert (F : f_first n t a i (rs_value x) = ((a + 1)%Z, true)).
          { unfold f_first, first_cond. now rewrite (proj2 (Z.ltb_lt _ _) LT), R. }
          rewrite F. cbn [fst snd triggers_of]. rewrite IH.
          replace (Z.to_nat (n - a)) with (Datatypes.S (Z.to_nat (n - (a + 1)))) by lia.
          reflexivity.
        * assert (F : f_first n t a i (rs_value x) = (a, false)).
          { unfold f_first, first_cond. now rewrite (proj2 (Z.ltb_lt _ _) LT), R. }
          rewrite F. cbn [fst snd]. apply IH.
      + assert (F : f_first n t a i (rs_value x) = (a, false)).
        { unfold f_first, first_cond. now rewrite (proj2 (Z.ltb_ge _ _) GE). }
        rewrite F. cbn [fst snd]. rewrite IH. replace (Z.to_nat (n - a)) with O by lia. reflexivity.
  Qed.
  Lemma first_selects_pure n t xs :
    triggers_of (gtrace (f_first n t) xs 0%Z) = select (AFirst n t) (ld xs).
  Proof. rewrite first_triggers. cbn. unfold take. now rewrite Z.sub_0_r. Qed.
  Lemma last_selects_pure n t xs :
    triggers_of (gtrace (f_first n t) (rev xs) 0%Z) = select (ALast n t) (ld xs).
  Proof. rewrite first_triggers, ld_rev. cbn. unfold take. now rewrite Z.sub_0_r. Qed.

  (* ---- Threshold *)
  Lemma cmp_apply_holds c (a t : T) : cmp_apply c a t = cmp_holds c a t.
  Proof. destruct c; reflexivity. Qed.
  Lemma threshold_triggers c t xs :
    triggers_of (gtrace (f_threshold c t) xs tt) = select (AThreshold c t) (ld xs).
  Proof.
    induction xs as [|[i x] xs IH]; cbn [gtrace ld triggers_of]; auto.
    destruct (rs_loaded x); [|apply IH]. cbn [triggers_of select filter f_threshold fst snd].
    rewrite cmp_apply_holds. destruct (cmp_holds c (rs_value x) t); cbn [triggers_of]; now rewrite IH.
  Qed.

  (* ---- the collecting loops trigger nothing and accumulate the positive loaded degrees *)
  Lemma heap_trace_no_trigger key xs : forall h, triggers_of (gtrace (f_heap key) xs h) = [].
  Proof.
    induction xs as [|[i x] xs IH]; intros h; cbn; auto. destruct (rs_loaded x); cbn; auto.
    unfold f_heap. destruct (gtb (rs_value x) zero); cbn; auto.
  Qed.
  Lemma prop_trace_no_trigger xs : forall a, triggers_of (gtrace f_prop xs a) = [].
  Proof.
    induction xs as [|[i x] xs IH]; intros a; cbn; auto. destruct (rs_loaded x); cbn; auto.
    unfold f_prop. destruct (gtb (rs_value x) zero); cbn; auto.
  Qed.
  Definition heap_of (key : T -> T) (l : list entry) : list (T * nat) := map (fun p => (key (snd p), fst p)) l.
  Lemma heap_acc key xs : forall h,
    gacc (f_heap key) xs h = h ++ heap_of key (filter positive (ld xs)).
  Proof.
    induction xs as [|[i x] xs IH]; intros h; cbn [gacc ld]; [now rewrite app_nil_r|].
    destruct (rs_loaded x); [|apply IH]. cbn [filter].
    change (positive (i, rs_value x)) with (gtb (rs_value x) zero).
    unfold f_heap at 2. destruct (gtb (rs_value x) zero); cbn [fst]; rewrite IH; auto.
    cbn. now rewrite <- app_assoc.
  Qed.
  Lemma prop_acc xs : forall acc sum,
    gacc f_prop xs (acc, sum) =
      (acc ++ map fst (filter positive (ld xs)), fold_left add (map snd (filter positive (ld xs))) sum).
  Proof.
    induction xs as [|[i x] xs IH]; intros acc sum; cbn [gacc ld]; [now rewrite app_nil_r|].
    destruct (rs_loaded x); [|apply IH]. cbn [filter].
    change (positive (i, rs_value x)) with (gtb (rs_value x) zero).
    unfold f_prop at 2. destruct (gtb (rs_value x) zero); cbn [fst snd]; rewrite IH; auto.
    cbn. now rewrite <- app_assoc.
  Qed.
End Traces.
(* ------------------------------------------------------------------------------------------ *)
(* 6. sorting: the extract-min order of the heap is the documented sorted arrangement          *)
(* ------------------------------------------------------------------------------------------ *)

(* generic facts about strict orders given as boolean relations *)
Section Orders.
  Context {E : Type}.
  Variable lt : E -> E -> bool.
  Variable Q : E -> Prop.           (* the elements on which lt is a total order *)
  Variable idx : E -> nat.          (* distinct elements have distinct idx *)
  Hypothesis asym : forall p q, lt p q = true -> lt q p = false.
  Hypothesis trans : forall p q r, lt p q = true -> lt q r = true -> lt p r = true.
  Hypothesis total : forall p q, Q p -> Q q -> idx p <> idx q -> lt p q = false -> lt q p = true.

  Lemma sorted_unique (l1 : list E) : forall l2,
    StronglySorted (fun p q => lt p q = true) l1 -> StronglySorted (fun p q => lt p q = true) l2 ->
    Permutation l1 l2 -> l1 = l2.
  Proof.
    induction l1 as [|x l1 IH]; intros l2 S1 S2 P.
    - apply Permutation_nil in P. now subst.
    - destruct l2 as [|y l2]; [apply Permutation_sym, Permutation_nil in P; discriminate|].
      inversion S1 as [|? ? S1' F1]; inversion S2 as [|? ? S2' F2]; subst.
      assert (x = y).
      { assert (Hx : In x (y :: l2)) by (eapply Permutation_in; [exact P | now left]).
        assert (Hy : In y (x :: l1)) by (eapply Permutation_in; [apply Permutation_sym; exact P | now left]).
        destruct Hx as [->|Hx]; auto. destruct Hy as [->|Hy]; auto.
        rewrite Forall_forall in F1, F2. specialize (F1 _ Hy). specialize (F2 _ Hx).
        rewrite (asym F1) in F2. discriminate. }
      subst y. f_equal. apply IH; auto. eapply Permutation_cons_inv; eauto.
  Qed.

  (* insertion sort *)
  Fixpoint ins (x : E) (l : list E) : list E :=
    match l with [] => [x] | y :: l' => if lt y x then y :: ins x l' else x :: l end.
  Fixpoint isort (l : list E) : list E := match l with [] => [] | x :: l' => ins x (isort l') end.
  Lemma ins_perm x l : Permutation (x :: l) (ins x l).
  Proof.
    induction l as [|y l IH]; cbn; auto. destruct (lt y x); auto.
    eapply perm_trans; [apply perm_swap|]. now constructor.
  Qed.
  Lemma isort_perm l : Permutation l (isort l).
  Proof. induction l as [|x l IH]; cbn; auto. eapply perm_trans; [|apply ins_perm]. now constructor. Qed.
  Lemma ins_sorted x l :
    Q x -> Forall Q l -> ~ In (idx x) (map idx l) ->
    StronglySorted (fun p q => lt p q = true) l -> StronglySorted (fun p q => lt p q = true) (ins x l).
  Proof.
    intros Qx QL NI S. induction S as [|y l S IH F]; cbn.
    - repeat constructor.
    - inversion QL as [|? ? Qy QL']; subst. cbn in NI.
      destruct (lt y x) eqn:YX.
      + constructor; [apply IH; auto|].
        eapply Permutation_Forall; [apply ins_perm|]. constructor; auto.
      + assert (XY : lt x y = true) by (apply total; auto).
        constructor; [constructor; auto|]. constructor; auto.
        eapply Forall_impl; [|exact F]. cbn. intros z. now apply trans.
  Qed.
  Lemma isort_sorted l : Forall Q l -> NoDup (map idx l) -> StronglySorted (fun p q => lt p q = true) (isort l).
  Proof.
    induction l as [|x l IH]; cbn; intros QL ND; [constructor|].
    inversion QL; inversion ND; subst. apply ins_sorted; auto.
    - eapply Permutation_Forall; [apply isort_perm|]; auto.
    - intros H. eapply Permutation_in in H; [|apply Permutation_sym, Permutation_map, isort_perm]. contradiction.
  Qed.
End Orders.

Section HeapOrder.
  Context {T : Type} {N : Num T}.
  Notation entry := (nat * T)%type.
  Notation hentry := (T * nat)%type.

  (* the selection sort the model performs *)
  Fixpoint pop_all (fuel : nat) (heap : list hentry) : list hentry :=
    match fuel with
    | O => []
    | Datatypes.S fuel' =>
        match extract_min heap with None => [] | Some (m, rest) => m :: pop_all fuel' rest end
    end.
  Lemma pop_order_pop_all fuel : forall n a heap,
    pop_order fuel n a heap = map snd (firstn (Z.to_nat (n - a)) (pop_all fuel heap)).
  Proof.
    induction fuel as [|fuel IH]; intros n a heap; cbn [pop_order pop_all].
    - now rewrite firstn_nil.
    - destruct (extract_min heap) as [[m rest]|]; [|now rewrite firstn_nil].
      destruct (Z.ltb_spec a n).
      + replace (Z.to_nat (n - a)) with (Datatypes.S (Z.to_nat (n - (a + 1)))) by lia.
        cbn. now rewrite IH.
      + replace (Z.to_nat (n - a)) with O by lia. reflexivity.
  Qed.

  Lemma extract_min_perm (h : list hentry) : forall m rest,
    extract_min h = Some (m, rest) -> Permutation h (m :: rest).
  Proof.
    induction h as [|x h IH]; intros m rest; cbn; [discriminate|].
    destruct (extract_min h) as [[m' rest']|] eqn:E.
    - specialize (IH _ _ eq_refl). destruct (key_lt m' x); intros H; inversion H; subst; auto.
      eapply perm_trans; [apply perm_skip; exact IH|]. apply perm_swap.
    - intros H; inversion H; subst. destruct h; [auto|]. cbn in E.
      destruct (extract_min h) as [[? ?]|]; [destruct (key_lt _ _)|]; discriminate.
  Qed.
  Lemma extract_min_none (h : list hentry) : extract_min h = None -> h = [].
  Proof.
    destruct h as [|x h]; auto. cbn. destruct (extract_min h) as [[? ?]|]; [destruct (key_lt _ _)|]; discriminate.
  Qed.
  Lemma pop_all_perm fuel : forall h, length h = fuel -> Permutation h (pop_all fuel h).
  Proof.
    induction fuel as [|fuel IH]; intros h L; cbn.
    - destruct h; [auto|discriminate].
    - destruct (extract_min h) as [[m rest]|] eqn:E.
      + pose proof (extract_min_perm _ E) as P. eapply perm_trans; [exact P|]. constructor.
        apply IH. apply Permutation_length in P. cbn in P. lia.
      + apply extract_min_none in E. subst. discriminate.
  Qed.

  Section WithLaws.
    Variable Q : hentry -> Prop.
    Hypothesis asym : forall p q, key_lt p q = true -> key_lt q p = false.
    Hypothesis trans : forall p q r, key_lt p q = true -> key_lt q r = true -> key_lt p r = true.
    Hypothesis total : forall p q, Q p -> Q q -> snd p <> snd q -> key_lt p q = false -> key_lt q p = true.

    Lemma extract_min_least (h : list hentry) : forall m rest,
      Forall Q h -> NoDup (map snd h) -> extract_min h = Some (m, rest) ->
      Forall (fun z => key_lt m z = true) rest.
    Proof.
      induction h as [|x h IH]; intros m rest QH ND; cbn; [discriminate|].
      inversion QH as [|? ? Qx QH']; inversion ND as [|? ? NI ND']; subst.
      destruct (extract_min h) as [[m' rest']|] eqn:E.
      - specialize (IH _ _ QH' ND' eq_refl). pose proof (extract_min_perm _ E) as P.
        destruct (key_lt m' x) eqn:MX; intros H; inversion H; subst.
        + constructor; auto.
        + assert (Qm : Q m') by (rewrite Forall_forall in QH'; apply QH'; eapply Permutation_in; [apply Permutation_sym; exact P|now left]).
          assert (NE : snd m' <> snd m).
          { intros EQ. apply NI. rewrite <- EQ. apply in_map. eapply Permutation_in; [apply Permutation_sym; exact P|now left]. }
          assert (XM : key_lt m m' = true) by (apply total; auto).
          eapply Permutation_Forall; [apply Permutation_sym; exact P|]. constructor; auto.
          eapply Forall_impl; [|exact IH]. cbn. intros z. now apply trans.
      - intros H; inversion H; subst. constructor.
    Qed.
    Lemma pop_all_sorted fuel : forall h, length h = fuel -> Forall Q h -> NoDup (map snd h) ->
      StronglySorted (fun p q => key_lt p q = true) (pop_all fuel h).
    Proof.
      induction fuel as [|fuel IH]; intros h L QH ND; cbn; [constructor|].
      destruct (extract_min h) as [[m rest]|] eqn:E; [|constructor].
      pose proof (extract_min_perm _ E) as P.
      assert (QR : Forall Q (m :: rest)) by (eapply Permutation_Forall; eauto).
      assert (NR : NoDup (map snd (m :: rest))) by (eapply Permutation_NoDup; [apply Permutation_map; exact P|auto]).
      inversion QR; inversion NR; subst.
      assert (LR : length rest = fuel) by (apply Permutation_length in P; cbn in P; lia).
      constructor; [apply IH; auto|].
      eapply Permutation_Forall; [apply pop_all_perm; exact LR|].
      eapply extract_min_least; [exact QH | exact ND | exact E].
    Qed.
  End WithLaws.
End HeapOrder.

(* ---- the order laws under which `ltb`/`eqb` sort: they hold for the reals, and for IEEE doubles on
   non-NaN values (`eqb a a = true`); positive degrees are never NaN *)
Record PosOrder {T : Type} (N : Num T) : Prop := {
  po_pos_ord : forall a, ltb zero a = true -> eqb a a = true;
  po_eq_sym : forall a b, eqb a b = eqb b a;
  po_eq_trans : forall a b c, eqb a b = true -> eqb b c = true -> eqb a c = true;
  po_lt_eq_l : forall a b c, eqb a b = true -> ltb a c = ltb b c;
  po_lt_eq_r : forall a b c, eqb a b = true -> ltb c a = ltb c b;
  po_lt_asym : forall a b, ltb a b = true -> ltb b a = false;
  po_lt_trans : forall a b c, ltb a b = true -> ltb b c = true -> ltb a c = true;
  po_total : forall a b, eqb a a = true -> eqb b b = true -> eqb a b = false -> ltb a b = false -> ltb b a = true;
  po_eq_not_lt : forall a b, eqb a b = true -> ltb a b = false;
  po_neg_lt : forall a b, ltb (neg a) (neg b) = ltb b a;
  po_neg_eq : forall a b, eqb (neg a) (neg b) = eqb a b
}.

Section KeyLaws.
  Context {T : Type} {N : Num T}.
  Hypothesis PO : PosOrder N.
  Notation entry := (nat * T)%type.
  Notation hentry := (T * nat)%type.
  Definition ordinary (p : hentry) : Prop := eqb (fst p) (fst p) = true.

  Lemma key_lt_asym (p q : hentry) : key_lt p q = true -> key_lt q p = false.
  Proof.
    destruct p as [a i], q as [b j]; unfold key_lt; cbn [fst snd]. rewrite (po_eq_sym PO b a).
    destruct (eqb a b).
    - intros H. apply Nat.ltb_lt in H. apply Nat.ltb_ge. lia.
    - apply (po_lt_asym PO).
  Qed.
  Lemma key_lt_trans (p q r : hentry) : key_lt p q = true -> key_lt q r = true -> key_lt p r = true.
  Proof.
    destruct p as [a i], q as [b j], r as [c k]; unfold key_lt; cbn [fst snd].
    destruct (eqb a b) eqn:AB, (eqb b c) eqn:BC.
    - rewrite (po_eq_trans PO _ _ _ AB BC). intros H1 H2. apply Nat.ltb_lt in H1, H2. apply Nat.ltb_lt. lia.
    - intros _ H. destruct (eqb a c) eqn:AC.
      + rewrite (po_eq_sym PO) in AB. rewrite (po_eq_trans PO _ _ _ AB AC) in BC. discriminate.
      + now rewrite (po_lt_eq_l PO _ _ c AB).
    - intros H _. destruct (eqb a c) eqn:AC.
      + rewrite (po_eq_sym PO) in BC. rewrite (po_eq_trans PO _ _ _ AC BC) in AB. discriminate.
      + now rewrite <- (po_lt_eq_r PO _ _ a BC).
    - intros H1 H2. destruct (eqb a c) eqn:AC.
      + rewrite (po_lt_eq_l PO _ _ b AC) in H1. rewrite (po_lt_asym PO _ _ H1) in H2. discriminate.
      + eapply (po_lt_trans PO); eauto.
  Qed.
  Lemma key_lt_total (p q : hentry) :
    ordinary p -> ordinary q -> snd p <> snd q -> key_lt p q = false -> key_lt q p = true.
  Proof.
    destruct p as [a i], q as [b j]; unfold key_lt, ordinary; cbn [fst snd]. intros Oa Ob NE.
    rewrite (po_eq_sym PO b a). destruct (eqb a b) eqn:AB.
    - intros H. apply Nat.ltb_ge in H. apply Nat.ltb_lt. lia.
    - now apply (po_total PO).
  Qed.

  (* the documented orders are the tuple comparison of the heap keys *)
  Definition hk (key : T -> T) (p : entry) : hentry := (key (snd p), fst p).
  Lemma before_desc_key (p q : entry) : before_desc p q = key_lt (hk neg p) (hk neg q).
  Proof.
    destruct p as [i a], q as [j b]; unfold before_desc, key_lt, hk; cbn [fst snd].
    rewrite (po_neg_eq PO), (po_neg_lt PO). destruct (eqb a b) eqn:AB.
    - rewrite (po_eq_sym PO) in AB. now rewrite (po_eq_not_lt PO _ _ AB).
    - now rewrite andb_false_l, orb_false_r.
  Qed.
  Lemma before_asc_key (p q : entry) : before_asc p q = key_lt (hk (fun d => d) p) (hk (fun d => d) q).
  Proof.
    destruct p as [i a], q as [j b]; unfold before_asc, key_lt, hk; cbn [fst snd].
    destruct (eqb a b) eqn:AB.
    - now rewrite (po_eq_not_lt PO _ _ AB).
    - now rewrite andb_false_l, orb_false_r.
  Qed.

  Lemma sort_by_isort before (l : list entry) : sort_by before l = isort before l.
  Proof.
    induction l as [|x l IH]; cbn; auto. rewrite IH. generalize (isort before l). intros m.
    induction m as [|y m IHm]; cbn; auto. now rewrite IHm.
  Qed.

  Section OneKey.
    Variable key : T -> T.
    Variable before : entry -> entry -> bool.
    Hypothesis before_key : forall p q, before p q = key_lt (hk key p) (hk key q).
    Hypothesis key_ord : forall a, ltb zero a = true -> eqb (key a) (key a) = true.

    Let Qe (p : entry) : Prop := positive p = true.

    Lemma sort_by_sorted (l : list entry) : Forall Qe l -> NoDup (map fst l) ->
      StronglySorted (fun p q => before p q = true) (sort_by before l).
    Proof.
      intros QL ND. rewrite sort_by_isort.
      apply (@isort_sorted entry before Qe fst); auto.
      - intros p q r. rewrite !before_key. apply key_lt_trans.
      - intros p q Hp Hq NE. rewrite !before_key. apply key_lt_total; auto; unfold ordinary, hk; cbn; now apply key_ord.
    Qed.
    Lemma sort_by_perm (l : list entry) : Permutation l (sort_by before l).
    Proof. rewrite sort_by_isort. apply isort_perm. Qed.

    (* popping the heap built from l yields the keys of l in documented order *)
    Lemma pop_all_sort_by (l : list entry) : Forall Qe l -> NoDup (map fst l) ->
      pop_all (length l) (heap_of key l) = heap_of key (sort_by before l).
    Proof.
      intros QL ND.
      assert (HL : length (heap_of key l) = length l) by apply map_length.
      assert (HS : map snd (heap_of key l) = map fst l).
      { unfold heap_of. rewrite map_map. reflexivity. }
      apply (@sorted_unique hentry key_lt key_lt_asym).
      - apply pop_all_sorted with (Q := ordinary); [exact key_lt_trans | exact key_lt_total | exact HL | | ].
        + apply Forall_forall. intros z Hz. apply in_map_iff in Hz as (p & <- & Hp).
          rewrite Forall_forall in QL. unfold ordinary. cbn. apply key_ord. apply QL, Hp.
        + now rewrite HS.
      - assert (SS := sort_by_sorted QL ND). clear - SS before_key.
        induction SS as [|p m SS IH F]; cbn; constructor; auto.
        apply Forall_forall. intros z Hz. apply in_map_iff in Hz as (q & <- & Hq).
        rewrite Forall_forall in F. specialize (F _ Hq). now rewrite before_key in F.
      - eapply perm_trans; [apply Permutation_sym, pop_all_perm; exact HL|].
        apply Permutation_map, sort_by_perm.
    Qed.
  End OneKey.

  Lemma neg_ord a : ltb zero a = true -> eqb (neg a) (neg a) = true.
  Proof. intros H. rewrite (po_neg_eq PO). now apply (po_pos_ord PO). Qed.

  Theorem sort_by_is_sorted_arrangement_desc (l : list entry) :
    Forall (fun p => positive p = true) l -> NoDup (map fst l) ->
    sorted_arrangement before_desc l (sort_by before_desc l).
  Proof.
    intros QL ND. split; [apply sort_by_perm|].
    eapply sort_by_sorted; eauto using before_desc_key, neg_ord.
  Qed.
  Theorem sort_by_is_sorted_arrangement_asc (l : list entry) :
    Forall (fun p => positive p = true) l -> NoDup (map fst l) ->
    sorted_arrangement before_asc l (sort_by before_asc l).
  Proof.
    intros QL ND. split; [apply sort_by_perm|].
    eapply sort_by_sorted; eauto using before_asc_key, (po_pos_ord PO).
  Qed.
  (* there is only one sorted arrangement *)
  Theorem sorted_arrangement_unique_desc (l l1 l2 : list entry) :
    sorted_arrangement before_desc l l1 -> sorted_arrangement before_desc l l2 -> l1 = l2.
  Proof.
    intros [P1 S1] [P2 S2]. apply (@sorted_unique entry before_desc); auto.
    - intros p q. rewrite !before_desc_key. apply key_lt_asym.
    - eapply perm_trans; [apply Permutation_sym; exact P1 | exact P2].
  Qed.
  Theorem sorted_arrangement_unique_asc (l l1 l2 : list entry) :
    sorted_arrangement before_asc l l1 -> sorted_arrangement before_asc l l2 -> l1 = l2.
  Proof.
    intros [P1 S1] [P2 S2]. apply (@sorted_unique entry before_asc); auto.
    - intros p q. rewrite !before_asc_key. apply key_lt_asym.
    - eapply perm_trans; [apply Permutation_sym; exact P1 | exact P2].
  Qed.
End KeyLaws.
(* ------------------------------------------------------------------------------------------ *)
(* 7. the theorems                                                                             *)
(* ------------------------------------------------------------------------------------------ *)
Section Theorems.
  Context {T : Type} {N : Num T}.
  Notation crule := (crule T). Notation cstate := (cstate T). Notation event := (event T).
  Notation rstatic := (rstatic T).
  Notation entry := (nat * T)%type.

  Definition init (b : list crule) : cstate := {| cs_rules := b; cs_events := [] |}.
  Definition xs_from (k : nat) (b : list crule) : list (nat * rstatic) :=
    combine (seq k (length b)) (map (@cr_static T) b).
  Definition xs_of (b : list crule) : list (nat * rstatic) := xs_from 0 b.
  (* the (position, degree) list the documented selections are read on *)
  Definition loaded_degrees (b : list crule) : list entry :=
    loaded_from (fun r : crule => rs_loaded (cr_static r)) (fun r : crule => rs_value (cr_static r)) 0 b.
  Definition selection (m : activation T) (b : list crule) : list entry := select m (loaded_degrees b).
  (* scalar mode: no loaded rule has a degree with more than one element *)
  Definition scalar_block (b : list crule) : Prop :=
    forall r, In r b -> rs_loaded (cr_static r) = true -> rs_size (cr_static r) <= 1.
  Definition vector_block (b : list crule) : Prop :=
    exists r, In r b /\ rs_loaded (cr_static r) = true /\ 1 < rs_size (cr_static r).
  Definition value_at (b : list crule) (j : nat) : T :=
    match nth_error b j with Some r => rs_value (cr_static r) | None => zero end.

  Lemma xs_fst k b : map fst (xs_from k b) = seq k (length b).
  Proof.
    unfold xs_from. revert k; induction b as [|r b IH]; intros k; cbn; auto. now rewrite IH.
  Qed.
  Lemma xs_in k b j x : In (j, x) (xs_from k b) ->
    k <= j /\ exists r, nth_error b (j - k) = Some r /\ cr_static r = x.
  Proof.
    unfold xs_from. revert k; induction b as [|r b IH]; intros k; cbn; [tauto|].
    intros [E|H].
    - inversion E; subst. split; [lia|]. rewrite Nat.sub_diag. cbn. eauto.
    - destruct (IH _ H) as (LE & r' & G & X). split; [lia|]. exists r'.
      replace (j - k) with (Datatypes.S (j - Datatypes.S k)) by lia. auto.
  Qed.
  Lemma in_xs k b j r : nth_error b j = Some r -> In (k + j, cr_static r) (xs_from k b).
  Proof.
    unfold xs_from. revert k j; induction b as [|r' b IH]; intros k [|j]; cbn; try discriminate.
    - intros H; inversion H; subst. left. f_equal. lia.
    - intros H. right. replace (k + Datatypes.S j) with (Datatypes.S k + j) by lia. now apply IH.
  Qed.
  Lemma xs_nodup b : NoDup (map fst (xs_of b)).
  Proof. unfold xs_of. rewrite xs_fst. apply seq_NoDup. Qed.
  Lemma xs_agrees b : agrees (init b) (xs_of b).
  Proof.
    intros j x H. apply xs_in in H as (_ & r & G & X). rewrite Nat.sub_0_r in G.
    unfold stat, cget, init; cbn. rewrite G. cbn. now rewrite X.
  Qed.
  Lemma xs_scalar b : scalar_block b -> scalar_xs (xs_of b).
  Proof.
    intros SB j x H L. apply xs_in in H as (_ & r & G & X). subst x.
    apply SB; auto. eapply nth_error_In; eauto.
  Qed.
  Lemma xs_vector b : vector_block b -> has_vector (xs_of b).
  Proof.
    intros (r & IN & L & SZ). apply In_nth_error in IN as (j & G).
    exists j, (cr_static r). split; auto. apply (in_xs 0 _ _ G).
  Qed.
  Lemma xs_ld b : ld (xs_of b) = loaded_degrees b.
  Proof. apply ld_block. Qed.
  Lemma xs_value b j v : In (j, v) (ld (xs_of b)) ->
    exists r, cget (init b) j = Some r /\ rs_loaded (cr_static r) = true /\ rs_value (cr_static r) = value_at b j /\ v = value_at b j.
  Proof.
    intros H. apply ld_in in H as (x & IN & L & V). apply xs_in in IN as (_ & r & G & X).
    rewrite Nat.sub_0_r in G. subst x. exists r. unfold cget, init, value_at; cbn. rewrite G. auto.
  Qed.

  (* statements about a reversed iteration order *)
  Lemma agrees_rev (s : cstate) (xs : list (nat * rstatic)) : agrees s xs -> agrees s (rev xs).
  Proof. intros H j x IN. apply H. now apply in_rev. Qed.
  Lemma scalar_rev (xs : list (nat * rstatic)) : scalar_xs xs -> scalar_xs (rev xs).
  Proof. intros H j x IN L. apply (H j x); auto. now apply in_rev. Qed.
  Lemma vector_rev (xs : list (nat * rstatic)) : has_vector xs -> has_vector (rev xs).
  Proof. intros (j & x & IN & H). exists j, x. split; auto. now apply in_rev in IN. Qed.
  Lemma nodup_rev (xs : list (nat * rstatic)) : NoDup (map fst xs) -> NoDup (map fst (rev xs)).
  Proof. intros H. rewrite map_rev. apply NoDup_rev. exact H. Qed.
  Lemma post_same_set l l' (s s' : cstate) evs :
    (forall j, In j l <-> In j l') -> post l s s' evs -> post l' s s' evs.
  Proof.
    intros EQ (E & L & U & C & F). repeat split; auto.
    - intros j NJ. apply U. now rewrite EQ.
    - intros j r Hj. apply C. now rewrite EQ.
    - eapply Forall_impl; [|exact F]. cbn. intros e. apply EQ.
  Qed.

  (* ---- what a successful scalar run looks like *)
  Definition order_of {X} (m : activation T) (l : list X) : list X :=
    match m with ALast _ _ => rev l | _ => l end.
  Record good_run (m : activation T) (b : list crule) (s' : cstate) : Prop := {
    gr_run : run m b = Ok s';
    gr_post : post (seq 0 (length b)) (init b) s' (cs_events s');
    gr_triggers : triggers_of (cs_events s') = selection m b;
    gr_deactivations : deactivations_of (cs_events s') = order_of m (seq 0 (length b));
    gr_evals : evals_of (cs_events s') = map fst (order_of m (loaded_degrees b));
    gr_ordered : ordered [] [] (cs_events s') = true
  }.

  Lemma run_unfold m b : run m b = activate_on cops m (map fst (xs_of b)) (init b).
  Proof. unfold run, activate, xs_of. now rewrite xs_fst. Qed.

  (* single-loop methods *)
  Lemma single_loop_good m b A (f : A -> nat -> T -> A * bool) (check : bool) (a : A) :
    (forall s, activate_on cops m (map fst (xs_of b)) s =
               rmap snd (gloop cops check f (map fst (order_of m (xs_of b))) a s)) ->
    (forall xs, triggers_of (gtrace f (order_of m xs) a) = select m (ld xs)) ->
    scalar_block b -> exists s', good_run m b s'.
  Proof.
    intros RUN TR SB.
    assert (ORD : forall j, In j (map fst (order_of m (xs_of b))) <-> In j (seq 0 (length b))).
    { intros j. unfold xs_of. rewrite <- (xs_fst 0 b). destruct m; cbn; try tauto.
      rewrite map_rev. symmetry. apply in_rev. }
    destruct (@gloop_spec T N A check f (order_of m (xs_of b)) a (init b)) as (s' & G & P).
    - destruct m; cbn; auto using xs_nodup, nodup_rev.
    - destruct m; cbn; auto using xs_agrees, agrees_rev.
    - intros _. destruct m; cbn; auto using xs_scalar, scalar_rev.
    - assert (EV : cs_events s' = gtrace f (order_of m (xs_of b)) a) by (destruct P as (E & _); exact E).
      exists s'. split.
      + rewrite run_unfold, RUN, G. reflexivity.
      + rewrite EV. eapply post_same_set; [exact ORD | exact P].
      + rewrite EV, TR. unfold selection. now rewrite xs_ld.
      + rewrite EV, gtrace_deactivations. unfold xs_of. destruct m; cbn; rewrite ?map_rev, xs_fst; auto.
      + rewrite EV, gtrace_evals. rewrite <- xs_ld. destruct m; cbn; auto. now rewrite ld_rev.
      + rewrite EV. apply gtrace_ordered.
  Qed.

  Theorem General_good b : scalar_block b -> exists s', good_run AGeneral b s'.
  Proof.
    apply single_loop_good with (f := f_general) (check := false) (a := tt).
    - intros s. apply general_loop_gloop.
    - intros xs. apply general_triggers.
  Qed.
  Theorem First_good n t b : scalar_block b -> exists s', good_run (AFirst n t) b s'.
  Proof.
    apply single_loop_good with (f := f_first n t) (check := true) (a := 0%Z).
    - intros s. apply first_loop_gloop.
    - intros xs. apply first_selects_pure.
  Qed.
  Theorem Last_good n t b : scalar_block b -> exists s', good_run (ALast n t) b s'.
  Proof.
    apply single_loop_good with (f := f_first n t) (check := true) (a := 0%Z).
    - intros s. cbn [activate_on order_of]. rewrite <- map_rev. apply first_loop_gloop.
    - intros xs. apply last_selects_pure.
  Qed.
  Theorem Threshold_good c t b : scalar_block b -> exists s', good_run (AThreshold c t) b s'.
  Proof.
    apply single_loop_good with (f := f_threshold c t) (check := true) (a := tt).
    - intros s. apply threshold_loop_gloop.
    - intros xs. apply threshold_triggers.
  Qed.

  (* ---- two-loop methods *)
  Lemma in_firstn {X} k (l : list X) x : In x (firstn k l) -> In x l.
  Proof. revert k; induction l as [|y l IH]; intros [|k]; cbn; try tauto. intros [?|?]; eauto. Qed.
  Lemma nodup_firstn {X} k (l : list X) : NoDup l -> NoDup (firstn k l).
  Proof.
    revert k; induction l as [|x l IH]; intros [|k] ND; cbn; try constructor.
    - inversion ND; subst. intros H. apply in_firstn in H. contradiction.
    - inversion ND; subst. now apply IH.
  Qed.
  Lemma nodup_filter_fst (p : entry -> bool) (l : list entry) : NoDup (map fst l) -> NoDup (map fst (filter p l)).
  Proof.
    induction l as [|x l IH]; cbn; auto. intros ND; inversion ND; subst.
    destruct (p x); cbn; auto. constructor; auto. intros H. apply in_map_iff in H as (y & E & Hy).
    apply filter_In in Hy as (Hy & _). rewrite <- E in *. now apply (in_map fst) in Hy.
  Qed.
  Lemma positive_values b (P : list entry) : incl P (ld (xs_of b)) ->
    map (fun j => (j, value_at b j)) (map fst P) = P.
  Proof.
    intros INC. rewrite map_map. rewrite <- (map_id P) at 2. apply map_ext_in.
    intros [j v] H. cbn. apply INC, xs_value in H as (_ & _ & _ & _ & ->). reflexivity.
  Qed.
  Lemma two_phase_good m b A (f : A -> nat -> T -> A * bool) (a : A) g step (ST : is_trigger_step g step)
      (tl : list nat) :
    (forall s s1, gloop cops true f (map fst (xs_of b)) a s = Ok (gacc f (xs_of b) a, s1) ->
                  activate_on cops m (map fst (xs_of b)) s = step_all step tl s1) ->
    (forall xs a, triggers_of (gtrace f xs a) = []) ->
    (forall X (l : list X), order_of m l = l) ->
    NoDup tl -> incl tl (map fst (ld (xs_of b))) ->
    map (fun j => (j, g (value_at b j))) tl = select m (ld (xs_of b)) ->
    scalar_block b -> exists s', good_run m b s'.
  Proof.
    intros RUN NT M ND INC SEL SB.
    destruct (@gloop_spec T N A true f (xs_of b) a (init b)) as (s1 & G & P);
      auto using xs_nodup, xs_agrees, xs_scalar.
    destruct (@post_two_phase T N g step ST _ _ _ _ tl (value_at b) P (NT _ _) ND) as (s' & R2 & P2).
    - intros j Hj. apply INC in Hj. now apply ld_fst_incl.
    - intros j Hj. apply INC in Hj. apply in_map_iff in Hj as ([j' v] & <- & H). cbn.
      apply xs_value in H as (r & ? & ? & ? & _). eauto.
    - assert (EV : cs_events s' = gtrace f (xs_of b) a ++ map (fun j => EvTrigger j (g (value_at b j))) tl)
        by (destruct P2 as (E & _); exact E).
      exists s'. split.
      + rewrite run_unfold, (RUN _ _ G). exact R2.
      + rewrite EV. unfold xs_of in P2. rewrite xs_fst in P2. exact P2.
      + rewrite EV, triggers_of_app, NT, triggers_of_map. cbn [app]. rewrite SEL. unfold selection. now rewrite xs_ld.
      + rewrite EV, deactivations_of_app, gtrace_deactivations, deactivations_of_map, app_nil_r, M.
        unfold xs_of. now rewrite xs_fst.
      + rewrite EV, evals_of_app, gtrace_evals, evals_of_map, app_nil_r, M. now rewrite xs_ld.
      + rewrite EV. apply ordered_then_triggers; [apply gtrace_ordered|].
        intros j Hj. left. rewrite gtrace_evals. now apply INC.
  Qed.

  Theorem Proportional_good b : scalar_block b -> exists s', good_run AProportional b s'.
  Proof.
    set (P := filter positive (ld (xs_of b))).
    apply two_phase_good with (f := f_prop) (a := ([], zero)) (g := fun d => div d (sum_degrees P))
      (step := prop_step cops (sum_degrees P)) (tl := map fst P).
    - apply prop_step_is_step.
    - intros s s1 G. cbn [activate_on]. unfold prop_activate. rewrite prop_collect_gloop, G.
      rewrite prop_acc. cbn. apply prop_trigger_step_all.
    - intros xs a. apply prop_trace_no_trigger.
    - reflexivity.
    - apply nodup_filter_fst, ld_fst_nodup, xs_nodup.
    - intros j H. apply in_map_iff in H as (p & <- & Hp). apply in_map. now apply filter_In in Hp as (? & _).
    - cbn [select]. fold P. unfold normalise. rewrite map_map.
      apply map_ext_in. intros [j v] H. cbn. unfold P in H. apply filter_In in H as (H & _).
      apply xs_value in H as (_ & _ & _ & _ & ->). reflexivity.
  Qed.

  (* Highest / Lowest for any numeric reading: the trigger calls are the first n pops of the heap *)
  Lemma heap_good_pops m key n b :
    (forall l s, activate_on cops m l s = heap_activate cops key n l s) ->
    (forall X (l : list X), order_of m l = l) ->
    let P := filter positive (ld (xs_of b)) in
    let tl := map snd (firstn (Z.to_nat n) (pop_all (length P) (heap_of key P))) in
    map (fun j => (j, value_at b j)) tl = select m (ld (xs_of b)) ->
    scalar_block b -> exists s', good_run m b s'.
  Proof.
    intros RUN M P tl SEL.
    assert (HS : map snd (heap_of key P) = map fst P) by (unfold heap_of; now rewrite map_map).
    assert (NDP : NoDup (map fst P)) by apply nodup_filter_fst, ld_fst_nodup, xs_nodup.
    assert (PERM : Permutation (map fst P) (map snd (pop_all (length P) (heap_of key P)))).
    { rewrite <- HS. apply Permutation_map, pop_all_perm. apply map_length. }
    apply two_phase_good with (f := f_heap key) (a := []) (g := fun d => d) (step := c_trigger) (tl := tl).
    - apply c_trigger_is_step.
    - intros s s1 G. rewrite RUN. unfold heap_activate. rewrite heap_collect_gloop, G.
      rewrite heap_acc. cbn [bind fst snd app]. fold P.
      rewrite heap_pop_loop_step_all, pop_order_pop_all. unfold heap_of at 1. rewrite map_length, Z.sub_0_r.
      reflexivity.
    - intros xs a. apply heap_trace_no_trigger.
    - exact M.
    - unfold tl. rewrite <- firstn_map. apply nodup_firstn. eapply Permutation_NoDup; eauto.
    - intros j H. unfold tl in H. rewrite <- firstn_map in H. apply in_firstn in H.
      eapply Permutation_in in H; [|apply Permutation_sym; exact PERM].
      apply in_map_iff in H as (p & <- & Hp). apply in_map. now apply filter_In in Hp as (? & _).
    - exact SEL.
  Qed.
End Theorems.

Section SortedTheorems.
  Context {T : Type} {N : Num T}.
  Hypothesis PO : PosOrder N.
  Notation crule := (crule T).
  Notation entry := (nat * T)%type.

  Lemma heap_good_sorted m key before n (b : list crule) :
    (forall l s, activate_on cops m l s = heap_activate cops key n l s) ->
    (forall X (l : list X), order_of m l = l) ->
    (forall l, select m l = take n (sort_by before (filter positive l))) ->
    (forall p q, before p q = key_lt (hk key p) (hk key q)) ->
    (forall a, ltb zero a = true -> eqb (key a) (key a) = true) ->
    scalar_block b -> exists s', good_run m b s'.
  Proof.
    intros RUN M SEL BK KO. apply heap_good_pops with (key := key) (n := n); auto.
    set (P := filter positive (ld (xs_of b))).
    assert (QP : Forall (fun p => positive p = true) P).
    { apply Forall_forall. intros p Hp. now apply filter_In in Hp as (_ & ?). }
    assert (NDP : NoDup (map fst P)) by apply nodup_filter_fst, ld_fst_nodup, xs_nodup.
    rewrite (pop_all_sort_by PO key before BK KO QP NDP).
    unfold heap_of. rewrite firstn_map, !map_map. cbn [snd fst].
    rewrite <- map_map with (f := fst) (g := fun j => (j, value_at b j)).
    rewrite positive_values; [now rewrite SEL|].
    intros p Hp. apply in_firstn in Hp.
    eapply Permutation_in in Hp; [|apply Permutation_sym, sort_by_perm].
    now apply filter_In in Hp as (? & _).
  Qed.

  Theorem Highest_good n (b : list crule) : scalar_block b -> exists s', good_run (AHighest n) b s'.
  Proof.
    apply heap_good_sorted with (key := neg) (before := before_desc) (n := n); auto.
    - apply (before_desc_key PO).
    - apply (neg_ord PO).
  Qed.
  Theorem Lowest_good n (b : list crule) : scalar_block b -> exists s', good_run (ALowest n) b s'.
  Proof.
    apply heap_good_sorted with (key := fun d => d) (before := before_asc) (n := n); auto.
    - apply (before_asc_key PO).
    - apply (po_pos_ord PO).
  Qed.
End SortedTheorems.

Section Consequences.
  Context {T : Type} {N : Num T}.
  Notation crule := (crule T). Notation cstate := (cstate T). Notation event := (event T).
  Notation entry := (nat * T)%type.

  (* the degree of the first trigger call for position j in a list of calls *)
  Fixpoint lookup (j : nat) (l : list entry) : option T :=
    match l with
    | [] => None
    | (i, d) :: l' => if Nat.eqb i j then Some d else lookup j l'
    end.
  Lemma find_trigger_lookup j (evs : list event) : find_trigger j evs = lookup j (triggers_of evs).
  Proof. induction evs as [|e evs IH]; cbn; auto. destruct e; cbn; auto. now rewrite IH. Qed.
  Lemma lookup_in j d (l : list entry) : lookup j l = Some d -> In (j, d) l.
  Proof.
    induction l as [|[i v] l IH]; cbn; [discriminate|]. destruct (Nat.eqb_spec i j).
    - intros H; inversion H; subst. now left.
    - intros H; right; auto.
  Qed.
  Lemma lookup_none j (l : list entry) : lookup j l = None <-> ~ In j (map fst l).
  Proof.
    induction l as [|[i v] l IH]; cbn; [tauto|]. destruct (Nat.eqb_spec i j).
    - split; [discriminate|]. intros H; exfalso; apply H; now left.
    - rewrite IH. tauto.
  Qed.
  Lemma lookup_nodup j d (l : list entry) : NoDup (map fst l) -> In (j, d) l -> lookup j l = Some d.
  Proof.
    induction l as [|[i v] l IH]; cbn; [tauto|]. intros ND; inversion ND; subst.
    intros [E|H].
    - inversion E; subst. now rewrite Nat.eqb_refl.
    - destruct (Nat.eqb_spec i j); auto. subst. exfalso. apply H1. now apply (in_map fst) in H.
  Qed.

  (* the positions a method selects are positions of loaded rules *)
  Lemma select_fst_incl m (l : list entry) : incl (map fst (select m l)) (map fst l).
  Proof.
    assert (F : forall p (l : list entry), incl (map fst (filter p l)) (map fst l)).
    { intros p l0 j H. apply in_map_iff in H as (x & <- & Hx). apply in_map. now apply filter_In in Hx as (? & _). }
    assert (K : forall n (l : list entry), incl (map fst (take n l)) (map fst l)).
    { intros n l0 j H. apply in_map_iff in H as (x & <- & Hx). apply in_map. unfold take in Hx. now apply in_firstn in Hx. }
    assert (S : forall before (l : list entry), incl (map fst (sort_by before l)) (map fst l)).
    { intros before l0 j H. eapply Permutation_in; [apply Permutation_sym, Permutation_map, sort_by_perm | exact H]. }
    destruct m; cbn [select].
    - apply incl_refl.
    - eapply incl_tran; [apply K | apply F].
    - eapply incl_tran; [apply K|]. eapply incl_tran; [apply F|]. rewrite map_rev. intros j H. now apply in_rev.
    - eapply incl_tran; [apply K|]. eapply incl_tran; [apply S | apply F].
    - eapply incl_tran; [apply K|]. eapply incl_tran; [apply S | apply F].
    - unfold normalise. rewrite map_map. cbn [fst]. apply F.
    - apply F.
  Qed.
  Lemma loaded_degrees_in (b : list crule) j v : In (j, v) (loaded_degrees b) ->
    exists r, nth_error b j = Some r /\ rs_loaded (cr_static r) = true /\ rs_value (cr_static r) = v.
  Proof.
    rewrite <- xs_ld. intros H. apply xs_value in H as (r & G & L & V & ->). exists r. auto.
  Qed.
  Lemma loaded_degrees_nodup (b : list crule) : NoDup (map fst (loaded_degrees b)).
  Proof. rewrite <- xs_ld. apply ld_fst_nodup, xs_nodup. Qed.

  Section OneRun.
    Variables (m : activation T) (b : list crule) (s' : cstate).
    Hypothesis GR : good_run m b s'.

    Theorem run_selects : trigger_calls (run m b) = selection m b.
    Proof. rewrite (gr_run GR). cbn. apply (gr_triggers GR). Qed.

    Theorem run_length : length (cs_rules s') = length b.
    Proof. destruct (gr_post GR) as (_ & L & _). exact L. Qed.

    (* every rule afterwards, as a function of the documented selection *)
    Theorem run_final_rule j r : nth_error b j = Some r ->
      nth_error (cs_rules s') j = Some (outcome r (lookup j (selection m b))).
    Proof.
      intros G. destruct (gr_post GR) as (_ & _ & _ & C & _).
      rewrite <- (gr_triggers GR), <- find_trigger_lookup. apply C; auto.
      apply in_seq. split; [lia|]. cbn. apply nth_error_Some. congruence.
    Qed.

    Theorem run_triggered_flag_iff j r' : nth_error (cs_rules s') j = Some r' ->
      (cr_triggered r' = true <->
       (exists d, In (j, d) (selection m b)) /\ rs_enabled (cr_static r') = true /\ gtb (cr_degree r') zero = true).
    Proof.
      intros G'. assert (Hj : j < length b) by (rewrite <- run_length; apply nth_error_Some; congruence).
      destruct (nth_error b j) as [r|] eqn:G; [|apply nth_error_None in G; lia].
      rewrite (run_final_rule _ G) in G'. inversion G'; subst r'. clear G'.
      unfold outcome. cbn [cr_triggered cr_static cr_degree mk].
      destruct (lookup j (selection m b)) as [d|] eqn:LK.
      - rewrite andb_true_iff. split.
        + intros [? ?]. split; [|tauto]. exists d. now apply lookup_in.
        + tauto.
      - split; [discriminate|]. intros ((d & H) & _). apply lookup_none in LK. elim LK. now apply (in_map fst) in H.
    Qed.

    (* a rule outside the selection gets no trigger call and keeps only its evaluated degree *)
    Theorem run_unselected_untouched j r : nth_error b j = Some r ->
      (forall d, ~ In (j, d) (selection m b)) ->
      (forall d, ~ In (j, d) (triggers_of (cs_events s'))) /\
      nth_error (cs_rules s') j =
        Some (mk (cr_static r) (if rs_loaded (cr_static r) then rs_value (cr_static r) else zero) false).
    Proof.
      intros G NS. split; [now rewrite (gr_triggers GR)|].
      rewrite (run_final_rule _ G). destruct (lookup j (selection m b)) as [d|] eqn:LK; auto.
      apply lookup_in in LK. elim (NS _ LK).
    Qed.

    (* an unloaded rule is deactivated and nothing else *)
    Theorem run_unloaded_untouched j r : nth_error b j = Some r -> rs_loaded (cr_static r) = false ->
      In j (deactivations_of (cs_events s')) /\ ~ In j (evals_of (cs_events s')) /\
      (forall d, ~ In (j, d) (triggers_of (cs_events s'))) /\
      nth_error (cs_rules s') j = Some (mk (cr_static r) zero false).
    Proof.
      intros G L.
      assert (NL : ~ In j (map fst (loaded_degrees b))).
      { intros H. apply in_map_iff in H as ([j' v] & <- & H). apply loaded_degrees_in in H as (r' & G' & L' & _).
        cbn in *. rewrite G in G'. inversion G'; subst. congruence. }
      assert (NS : forall d, ~ In (j, d) (selection m b)).
      { intros d H. apply NL. apply (select_fst_incl m). now apply (in_map fst) in H. }
      repeat split.
      - rewrite (gr_deactivations GR).
        assert (In j (seq 0 (length b))) by (apply in_seq; split; [lia|]; cbn; apply nth_error_Some; congruence).
        destruct m; cbn; auto. now apply -> in_rev.
      - rewrite (gr_evals GR). intros H. apply NL. destruct m; cbn in H; auto.
        rewrite map_rev in H. now apply in_rev in H.
      - apply (run_unselected_untouched _ G NS).
      - destruct (run_unselected_untouched _ G NS) as (_ & F). now rewrite L in F.
    Qed.

    (* every rule is deactivated exactly once, every loaded rule is evaluated exactly once, in iteration order *)
    Theorem run_deactivates_all : Permutation (deactivations_of (cs_events s')) (seq 0 (length b)).
    Proof. rewrite (gr_deactivations GR). destruct m; cbn; auto. apply Permutation_sym, Permutation_rev. Qed.
    Theorem run_evaluates_loaded : Permutation (evals_of (cs_events s')) (map fst (loaded_degrees b)).
    Proof.
      rewrite (gr_evals GR). destruct m; cbn; auto. apply Permutation_map, Permutation_sym, Permutation_rev.
    Qed.
  End OneRun.

  (* Proportional stores degree / sum in every selected rule *)
  Theorem proportional_degrees (b : list crule) s' j v r' :
    good_run AProportional b s' ->
    In (j, v) (filter positive (loaded_degrees b)) -> nth_error (cs_rules s') j = Some r' ->
    cr_degree r' = div v (sum_degrees (filter positive (loaded_degrees b))).
  Proof.
    intros GR IN G'.
    assert (IN' := IN). apply filter_In in IN' as (IN' & _). apply loaded_degrees_in in IN' as (r & G & _).
    rewrite (run_final_rule GR _ G) in G'. inversion G'; subst r'. clear G'.
    unfold selection. cbn [select].
    set (P := filter positive (loaded_degrees b)) in *.
    assert (LK : lookup j (normalise P) = Some (div v (sum_degrees P))).
    { apply lookup_nodup.
      - unfold normalise. rewrite map_map. cbn [fst]. apply nodup_filter_fst, loaded_degrees_nodup.
      - unfold normalise. apply in_map_iff. exists (j, v). auto. }
    rewrite LK. reflexivity.
  Qed.

  (* ---- batches *)
  Theorem rejects_vectors m (b : list crule) : vector_block b -> m <> AGeneral -> run m b = Err EValue.
  Proof.
    intros VB NG. rewrite run_unfold.
    pose proof (xs_vector VB) as HV. pose proof (xs_nodup b) as ND. pose proof (xs_agrees b) as AG.
    destruct m; cbn [activate_on]; try congruence.
    - rewrite first_loop_gloop, gloop_rejects; auto.
    - rewrite <- map_rev, first_loop_gloop, gloop_rejects; auto using nodup_rev, agrees_rev, vector_rev.
    - unfold heap_activate. rewrite heap_collect_gloop, gloop_rejects; auto.
    - unfold heap_activate. rewrite heap_collect_gloop, gloop_rejects; auto.
    - unfold prop_activate. rewrite prop_collect_gloop, gloop_rejects; auto.
    - rewrite threshold_loop_gloop, gloop_rejects; auto.
  Qed.
  (* General never looks at the size *)
  Theorem general_accepts_vectors (b : list crule) : exists s', run AGeneral b = Ok s'.
  Proof.
    rewrite run_unfold. cbn [activate_on]. rewrite general_loop_gloop.
    destruct (@gloop_spec T N unit false f_general (xs_of b) tt (init b)) as (s' & G & _);
      auto using xs_nodup, xs_agrees; [discriminate|].
    exists s'. now rewrite G.
  Qed.
End Consequences.
(* ------------------------------------------------------------------------------------------ *)
(* 8. the reals                                                                                *)
(* ------------------------------------------------------------------------------------------ *)
Section Reals.
  Local Open Scope R_scope.
  Lemma NumR_PosOrder : PosOrder NumR.
  Proof.
    constructor; intros; unR;
      repeat match goal with
      | H : context [Rltb ?a ?b] |- _ => destruct (Rltb_spec a b)
      | H : context [Rleb ?a ?b] |- _ => destruct (Rleb_spec a b)
      | H : context [Reqb ?a ?b] |- _ => destruct (Reqb_spec a b)
      end; splitR; try reflexivity; try discriminate; try (exfalso; lra); try (subst; exfalso; lra).
  Qed.

  Notation entryR := (nat * R)%type.
  Definition total_degree (l : list entryR) : R := fold_right Rplus 0 (map snd l).

  Lemma fold_left_Rplus (l : list R) a : fold_left Rplus l a = a + fold_right Rplus 0 l.
  Proof. revert a; induction l as [|x l IH]; intros a; cbn; [lra|]. rewrite IH. lra. Qed.
  Lemma positive_R (p : entryR) : positive p = true -> 0 < snd p.
  Proof. unfold positive. unR. destruct (Rltb_spec 0 (snd p)); [auto|discriminate]. Qed.
  Lemma total_positive (l : list entryR) : l <> [] -> Forall (fun p => positive p = true) l -> 0 < total_degree l.
  Proof.
    unfold total_degree. intros NE F. destruct l as [|p l]; [congruence|]. clear NE.
    inversion F as [|? ? Hp F']; subst. apply positive_R in Hp. cbn.
    assert (0 <= fold_right Rplus 0 (map snd l)); [|lra].
    clear - F'. induction F' as [|q l Hq _ IH]; cbn; [lra|]. apply positive_R in Hq. lra.
  Qed.
  Lemma total_scaled (l : list entryR) s : total_degree (map (fun p => (fst p, snd p / s)) l) = total_degree l / s.
  Proof. unfold total_degree. induction l as [|p l IH]; cbn in *; [lra|]. rewrite IH. lra. Qed.

  (* Proportional: the degrees handed to the consequents add up to one *)
  Theorem proportional_sums_to_one (b : list (crule R)) :
    filter positive (loaded_degrees b) <> [] ->
    total_degree (selection AProportional b) = 1.
  Proof.
    intros NE. unfold selection. cbn [select]. set (P := filter positive (loaded_degrees b)) in *.
    assert (POS : 0 < total_degree P).
    { apply total_positive; auto. apply Forall_forall. intros p Hp. now apply filter_In in Hp as (_ & ?). }
    unfold normalise. change (@div R NumR) with Rdiv. rewrite total_scaled.
    unfold sum_degrees. change (@add R NumR) with Rplus. rewrite fold_left_Rplus.
    change (@zero R NumR) with (Rlit 0 0). unfold Rlit. cbn [Z.leb Z.compare Z.mul Z.pow].
    fold (total_degree P). field. lra.
  Qed.
End Reals.
(* ------------------------------------------------------------------------------------------ *)
(* 9. examples over R (non-vacuity): ties, a zero, a disabled and an unloaded rule             *)
(* ------------------------------------------------------------------------------------------ *)
Definition rule_ex {T} (loaded enabled : bool) (v stale : T) : crule T :=
  {| cr_static := {| rs_loaded := loaded; rs_enabled := enabled; rs_value := v; rs_size := 1 |};
     cr_degree := stale; cr_triggered := true |}.
Section ExamplesR.
  Local Open Scope R_scope.
  (* positions:   0: 1/2    1: 0    2: 1 (disabled)    3: 1/2 (tie with 0)    4: 1 (unloaded)    5: 1/4 *)
  Definition block_R : list (crule R) :=
    [rule_ex true true (1/2) 7; rule_ex true true 0 7; rule_ex true false 1 7;
     rule_ex true true (1/2) 7; rule_ex false true 1 7; rule_ex true true (1/4) 7].

  Lemma Rltb_true a b : a < b -> Rltb a b = true.
  Proof. intros; destruct (Rltb_spec a b); auto; lra. Qed.
  Lemma Rltb_false a b : ~ a < b -> Rltb a b = false.
  Proof. intros; destruct (Rltb_spec a b); auto; lra. Qed.
  Lemma Rleb_true a b : a <= b -> Rleb a b = true.
  Proof. intros; destruct (Rleb_spec a b); auto; lra. Qed.
  Lemma Rleb_false a b : ~ a <= b -> Rleb a b = false.
  Proof. intros; destruct (Rleb_spec a b); auto; lra. Qed.
  Lemma Reqb_true a b : a = b -> Reqb a b = true.
  Proof. intros; destruct (Reqb_spec a b); auto; lra. Qed.
  Lemma Reqb_false a b : a <> b -> Reqb a b = false.
  Proof. intros; destruct (Reqb_spec a b); auto; lra. Qed.
  Ltac decideR := repeat (cbn [filter andb orb negb firstn insert_by sort_by fst snd map app rev Nat.ltb Nat.leb];
    match goal with
    | |- context [Rltb ?a ?b] => first [rewrite (@Rltb_true a b) by lra | rewrite (@Rltb_false a b) by lra]
    | |- context [Rleb ?a ?b] => first [rewrite (@Rleb_true a b) by lra | rewrite (@Rleb_false a b) by lra]
    | |- context [Reqb ?a ?b] => first [rewrite (@Reqb_true a b) by lra | rewrite (@Reqb_false a b) by lra]
    end).
  Ltac selR := unfold selection, loaded_degrees, block_R, rule_ex; cbn [loaded_from rs_loaded rs_value cr_static select];
    unfold take, reaches, positive, before_desc, before_asc; cbn [Z.to_nat Pos.to_nat Pos.iter_op Nat.add];
    unR; decideR; cbn [filter andb orb negb firstn insert_by sort_by fst snd map app rev Nat.ltb Nat.leb].

  Lemma block_R_scalar : scalar_block block_R.
  Proof. intros r H _. repeat (destruct H as [<-|H]; [cbn; auto|]). destruct H. Qed.

  Lemma sel_R_first : selection (AFirst 2 (1/2)) block_R = [(0%nat, 1/2); (2%nat, 1)].
  Proof. selR. reflexivity. Qed.
  Lemma sel_R_last : selection (ALast 2 (1/2)) block_R = [(3%nat, 1/2); (2%nat, 1)].
  Proof. selR. reflexivity. Qed.
  Lemma sel_R_highest : selection (AHighest 3) block_R = [(2%nat, 1); (0%nat, 1/2); (3%nat, 1/2)].
  Proof. selR. reflexivity. Qed.
  Lemma sel_R_lowest : selection (ALowest 2) block_R = [(5%nat, 1/4); (0%nat, 1/2)].
  Proof. selR. reflexivity. Qed.

  Lemma example_R_first :
    selection (AFirst 2 (1/2)) block_R = [(0%nat, 1/2); (2%nat, 1)] /\
    selection (ALast 2 (1/2)) block_R = [(3%nat, 1/2); (2%nat, 1)] /\
    trigger_calls (run (AFirst 2 (1/2)) block_R) = [(0%nat, 1/2); (2%nat, 1)].
  Proof.
    split; [apply sel_R_first | split; [apply sel_R_last|]].
    destruct (First_good 2 (1/2) block_R_scalar) as (s' & GR). rewrite (run_selects GR). apply sel_R_first.
  Qed.
  Lemma example_R_highest :
    selection (AHighest 3) block_R = [(2%nat, 1); (0%nat, 1/2); (3%nat, 1/2)] /\
    selection (ALowest 2) block_R = [(5%nat, 1/4); (0%nat, 1/2)] /\
    trigger_calls (run (AHighest 3) block_R) = [(2%nat, 1); (0%nat, 1/2); (3%nat, 1/2)].
  Proof.
    split; [apply sel_R_highest | split; [apply sel_R_lowest|]].
    destruct (Highest_good NumR_PosOrder 3 block_R_scalar) as (s' & GR). rewrite (run_selects GR). apply sel_R_highest.
  Qed.
End ExamplesR.
(* ------------------------------------------------------------------------------------------ *)
(* 10. the order laws hold for binary64 (from the specification axioms of Coq's primitive floats) *)
(* ------------------------------------------------------------------------------------------ *)
Section FloatOrder.
  Local Open Scope Z_scope.
  (* a non-NaN value as a triple of integers ordered lexicographically *)
  Definition rk (x : spec_float) : option (Z * Z * Z) :=
    match x with
    | S754_nan => None
    | S754_infinity true => Some (-2, 0, 0)
    | S754_infinity false => Some (2, 0, 0)
    | S754_zero _ => Some (0, 0, 0)
    | S754_finite true m e => Some (-1, - e, Zneg m)
    | S754_finite false m e => Some (1, e, Zpos m)
    end.
  Definition lex3 (p q : Z * Z * Z) : comparison :=
    let '(a1, b1, c1) := p in let '(a2, b2, c2) := q in
    match a1 ?= a2 with Eq => match b1 ?= b2 with Eq => c1 ?= c2 | c => c end | c => c end.
  Definition ocmp (p q : option (Z * Z * Z)) : option comparison :=
    match p, q with Some p, Some q => Some (lex3 p q) | _, _ => None end.

  Lemma SFcompare_rk x y : SFcompare x y = ocmp (rk x) (rk y).
  Proof.
    destruct x as [sx|sx| |sx mx ex], y as [sy|sy| |sy my ey]; try destruct sx; try destruct sy; cbn; try reflexivity.
    rewrite Z.compare_opp, (Z.compare_antisym ex ey). destruct (ex ?= ey); cbn; reflexivity.
  Qed.
  Definition neg3 (p : Z * Z * Z) : Z * Z * Z := let '(a, b, c) := p in (- a, - b, - c).
  Lemma rk_opp x : rk (SFopp x) = option_map neg3 (rk x).
  Proof. destruct x as [s|s| |s m e]; try destruct s; cbn; try reflexivity. now rewrite Z.opp_involutive. Qed.

  Definition key (x : float) : option (Z * Z * Z) := rk (Prim2SF x).
  Definition is_lt (c : option comparison) : bool := match c with Some Lt => true | _ => false end.
  Definition is_eq (c : option comparison) : bool := match c with Some Eq => true | _ => false end.
  Lemma ltb_key x y : PrimFloat.ltb x y = is_lt (ocmp (key x) (key y)).
  Proof. rewrite ltb_spec. unfold SFltb, key. now rewrite SFcompare_rk. Qed.
  Lemma eqb_key x y : PrimFloat.eqb x y = is_eq (ocmp (key x) (key y)).
  Proof. rewrite eqb_spec. unfold SFeqb, key. now rewrite SFcompare_rk. Qed.
  Lemma key_opp x : key (- x)%float = option_map neg3 (key x).
  Proof. unfold key. now rewrite opp_spec, rk_opp. Qed.

  Lemma is_lt_iff a1 b1 c1 a2 b2 c2 :
    is_lt (Some (lex3 (a1, b1, c1) (a2, b2, c2))) = true <->
    (a1 < a2 \/ (a1 = a2 /\ (b1 < b2 \/ (b1 = b2 /\ c1 < c2)))).
  Proof.
    unfold lex3, is_lt.
    destruct (Z.compare_spec a1 a2), (Z.compare_spec b1 b2), (Z.compare_spec c1 c2);
      split; intros; try discriminate; try reflexivity; try lia.
  Qed.
  Lemma is_eq_iff a1 b1 c1 a2 b2 c2 :
    is_eq (Some (lex3 (a1, b1, c1) (a2, b2, c2))) = true <-> (a1 = a2 /\ b1 = b2 /\ c1 = c2).
  Proof.
    unfold lex3, is_eq.
    destruct (Z.compare_spec a1 a2), (Z.compare_spec b1 b2), (Z.compare_spec c1 c2);
      split; intros; try discriminate; try reflexivity; try lia.
  Qed.

  Ltac prep := intros; rewrite ?ltb_key, ?eqb_key, ?key_opp in *;
    repeat match goal with
    | H : context [key ?x] |- _ => let k := fresh "k" in let E := fresh "E" in remember (key x) as k eqn:E; clear E
    | |- context [key ?x] => let k := fresh "k" in let E := fresh "E" in remember (key x) as k eqn:E; clear E
    end;
    repeat match goal with k : option (Z * Z * Z) |- _ => destruct k as [[[? ?] ?]|] end;
    cbn [ocmp option_map neg3] in *; try reflexivity; try (exfalso; cbn in *; discriminate).
  Ltac props := repeat match goal with
    | H : ?b = false |- _ => apply not_true_iff_false in H
    | H : context [is_lt (Some (lex3 _ _)) = true] |- _ => rewrite is_lt_iff in H
    | H : context [is_eq (Some (lex3 _ _)) = true] |- _ => rewrite is_eq_iff in H
    end;
    try match goal with
    | |- _ = false => apply not_true_iff_false
    | |- _ = true => idtac
    | |- _ = _ => apply eq_iff_eq_true
    end; rewrite ?is_lt_iff, ?is_eq_iff.

  Lemma NumF_PosOrder sm tbl : PosOrder (NumF sm tbl).
  Proof.
    assert (Z0 : key (@zero float (NumF sm tbl)) = Some (0, 0, 0)) by (vm_compute; reflexivity).
    constructor; cbn [ltb eqb neg NumF].
    - intros a H. rewrite ltb_key, Z0 in H. rewrite eqb_key. destruct (key a) as [[[? ?] ?]|]; cbn [ocmp] in *; [|discriminate].
      props. lia.
    - prep; props; lia.
    - prep; props; lia.
    - prep; props; lia.
    - prep; props; lia.
    - prep; props; lia.
    - prep; props; lia.
    - prep; props; lia.
    - prep; props; lia.
    - prep; props; lia.
    - prep; props; lia.
  Qed.
End FloatOrder.
