(* Proofs/ActivationProofs.v — the loops of Model/Activation.v, run on the concrete logged block, make
   exactly the trigger calls that Spec/Selection.v documents; what that does to every rule's degree and
   triggered flag; rejection of batches.  All statements are for blocks of any length.

   Structure
     1. lists, `list_set`
     2. the concrete state: frame facts for one rule
     3. one generic loop (`gloop`) of which the six first loops of the model are instances; its log is a
        pure function (`gtrace`) of the rules' static data
     4. the trigger-only second loops (heap pops, Proportional)
     5. pure traces = documented selections
     6. sorting: extract-min order = sorted arrangement (under the order laws `PosOrder`, which hold in R)
     7. the theorems per method, flags, degrees, frame, vectors *)
From Coq Require Import ZArith Bool List Lia Arith Sorting.Sorted Sorting.Permutation.
From VF Require Import Num Core Activation Selection.
Import ListNotations.
Set Implicit Arguments.

(* ------------------------------------------------------------------------------------------ *)
(* 1. lists                                                                                    *)
(* ------------------------------------------------------------------------------------------ *)
Section ListSet.
  Context {T : Type}.
  Lemma list_set_length (l : list (crule T)) i r : length (list_set l i r) = length l.
  Proof. revert i; induction l as [|x l IH]; intros [|i]; cbn; auto. Qed.
  Lemma list_set_eq (l : list (crule T)) i r : i < length l -> nth_error (list_set l i r) i = Some r.
  Proof. revert i; induction l as [|x l IH]; intros [|i] H; cbn in *; try lia; auto. apply IH; lia. Qed.
  Lemma list_set_neq (l : list (crule T)) i j r : i <> j -> nth_error (list_set l i r) j = nth_error l j.
  Proof.
    revert i j; induction l as [|x l IH]; intros [|i] [|j] H; cbn; auto; try congruence.
  Qed.
  Lemma list_set_twice (l : list (crule T)) i r r' : list_set (list_set l i r) i r' = list_set l i r'.
  Proof. revert i; induction l as [|x l IH]; intros [|i]; cbn; auto. now rewrite IH. Qed.
End ListSet.

(* ------------------------------------------------------------------------------------------ *)
(* 2. the concrete state                                                                       *)
(* ------------------------------------------------------------------------------------------ *)
Section State.
  Context {T : Type} {N : Num T}.
  Notation crule := (crule T). Notation cstate := (cstate T). Notation event := (event T).
  Notation rstatic := (rstatic T).

  Definition mk (x : rstatic) (d : T) (t : bool) : crule :=
    {| cr_static := x; cr_degree := d; cr_triggered := t |}.
  (* rule i replaced, events appended *)
  Definition upd (s : cstate) (i : nat) (r : crule) (evs : list event) : cstate :=
    {| cs_rules := list_set (cs_rules s) i r; cs_events := cs_events s ++ evs |}.
  Definition stat (s : cstate) (i : nat) : option rstatic := option_map (@cr_static T) (cget s i).

  Lemma cget_lt (s : cstate) i r : cget s i = Some r -> i < length (cs_rules s).
  Proof. unfold cget; intros H. apply nth_error_Some. congruence. Qed.
  Lemma cget_upd_eq (s : cstate) i (r : crule) evs : i < length (cs_rules s) -> cget (upd s i r evs) i = Some r.
  Proof. intros; unfold cget, upd; cbn. now apply list_set_eq. Qed.
  Lemma cget_upd_neq (s : cstate) i j (r : crule) evs : i <> j -> cget (upd s i r evs) j = cget s j.
  Proof. intros; unfold cget, upd; cbn. now apply list_set_neq. Qed.
  Lemma upd_upd (s : cstate) i (r : crule) evs (r' : crule) evs' : upd (upd s i r evs) i r' evs' = upd s i r' (evs ++ evs').
  Proof. unfold upd; cbn. now rewrite list_set_twice, app_assoc. Qed.
  Lemma length_upd (s : cstate) i (r : crule) evs : length (cs_rules (upd s i r evs)) = length (cs_rules s).
  Proof. apply list_set_length. Qed.

  (* the operations on a rule that exists *)
  Lemma deactivate_step (s : cstate) i (r : crule) : cget s i = Some r ->
    c_deactivate s i = upd s i (mk (cr_static r) zero false) [EvDeactivate i].
  Proof. intros H; unfold c_deactivate; now rewrite H. Qed.
  Lemma is_loaded_step (s : cstate) i (r : crule) : cget s i = Some r -> c_is_loaded s i = rs_loaded (cr_static r).
  Proof. intros H; unfold c_is_loaded; now rewrite H. Qed.
  Lemma activate_with_step (s : cstate) i (r : crule) : cget s i = Some r -> rs_loaded (cr_static r) = true ->
    c_activate_with s i =
      Ok (rs_value (cr_static r), upd s i (mk (cr_static r) (rs_value (cr_static r)) (cr_triggered r)) [EvEval i]).
  Proof. intros H L; unfold c_activate_with; now rewrite H, L. Qed.
  Lemma trigger_step (s : cstate) i (r : crule) : cget s i = Some r -> rs_loaded (cr_static r) = true ->
    c_trigger s i =
      Ok (upd s i (mk (cr_static r) (cr_degree r) (rs_enabled (cr_static r) && gtb (cr_degree r) zero))
              [EvTrigger i (cr_degree r)]).
  Proof. intros H L; unfold c_trigger; now rewrite H, L. Qed.
  Lemma set_degree_step (s : cstate) i (r : crule) d : cget s i = Some r ->
    c_set_degree s i d = upd s i (mk (cr_static r) d (cr_triggered r)) [].
  Proof. intros H; unfold c_set_degree; rewrite H. unfold upd, cset; cbn. now rewrite app_nil_r. Qed.
  Lemma degree_size_step (s : cstate) i (r : crule) : cget s i = Some r -> c_degree_size s i = rs_size (cr_static r).
  Proof. intros H; unfold c_degree_size; now rewrite H. Qed.
  Lemma degree_step (s : cstate) i (r : crule) : cget s i = Some r -> c_degree s i = cr_degree r.
  Proof. intros H; unfold c_degree; now rewrite H. Qed.

  (* ---- what a complete pass over the positions `l` does to a state *)
  Definition ev_index (e : event) : nat :=
    match e with EvDeactivate i | EvEval i | EvTrigger i _ => i end.
  Fixpoint find_trigger (j : nat) (evs : list event) : option T :=
    match evs with
    | [] => None
    | EvTrigger i d :: evs' => if Nat.eqb i j then Some d else find_trigger j evs'
    | _ :: evs' => find_trigger j evs'
    end.
  (* the rule after its deactivation, evaluation (when loaded) and possibly one trigger call at degree d *)
  Definition outcome (r : crule) (o : option T) : crule :=
    let x := cr_static r in
    mk x (match o with Some d => d | None => if rs_loaded x then rs_value x else zero end)
         (match o with Some d => rs_enabled x && gtb d zero | None => false end).

  Definition post (l : list nat) (s s' : cstate) (evs : list event) : Prop :=
    cs_events s' = cs_events s ++ evs /\
    length (cs_rules s') = length (cs_rules s) /\
    (forall j, ~ In j l -> cget s' j = cget s j) /\
    (forall j r, In j l -> cget s j = Some r -> cget s' j = Some (outcome r (find_trigger j evs))) /\
    Forall (fun e => In (ev_index e) l) evs.

  Lemma find_trigger_app j e1 e2 :
    find_trigger j (e1 ++ e2) = match find_trigger j e1 with Some d => Some d | None => find_trigger j e2 end.
  Proof.
    induction e1 as [|e e1 IH]; cbn; auto. destruct e; auto. destruct (Nat.eqb i j); auto.
  Qed.
  Lemma find_trigger_absent j evs : Forall (fun e => ev_index e <> j) evs -> find_trigger j evs = None.
  Proof.
    induction 1 as [|e evs H _ IH]; cbn; auto. destruct e; auto. cbn in H.
    destruct (Nat.eqb_spec i j); congruence.
  Qed.

  Lemma post_nil (s : cstate) : post [] s s [].
  Proof. unfold post. rewrite app_nil_r. repeat split; auto. intros j r []. Qed.

  (* one rule handled (state `upd s i r' e1`), then the rest of the positions *)
  Lemma post_cons i l (s : cstate) (r r' : crule) e1 (s' : cstate) e2 :
    cget s i = Some r -> ~ In i l ->
    r' = outcome r (find_trigger i e1) ->
    Forall (fun e => ev_index e = i) e1 ->
    post l (upd s i r' e1) s' e2 ->
    post (i :: l) s s' (e1 ++ e2).
  Proof.
    intros G NI -> F1 (E & L & U & C & F2).
    assert (Hi : i < length (cs_rules s)) by (eapply cget_lt; eauto).
    repeat split.
    - rewrite E. cbn. now rewrite app_assoc.
    - rewrite L. apply length_upd.
    - intros j NJ. cbn in NJ. rewrite U by tauto. apply cget_upd_neq. tauto.
    - intros j rj [<- | Hj] Gj.
      + rewrite U by assumption. rewrite cget_upd_eq by assumption. rewrite G in Gj; inversion Gj; subst rj.
        rewrite find_trigger_app.
        rewrite (@find_trigger_absent i e2).
        * now destruct (find_trigger i e1).
        * eapply Forall_impl; [|exact F2]. cbn. intros e He <-. contradiction.
      + assert (i <> j) by (intros ->; contradiction).
        rewrite (C j rj Hj) by (rewrite cget_upd_neq; assumption).
        rewrite find_trigger_app, (@find_trigger_absent j e1); auto.
        eapply Forall_impl; [|exact F1]. cbn. intros e He. congruence.
    - apply Forall_app; split.
      + eapply Forall_impl; [|exact F1]. cbn. intros e ->. now left.
      + eapply Forall_impl; [|exact F2]. cbn. intros e He. now right.
  Qed.
End State.
(* ------------------------------------------------------------------------------------------ *)
(* 3. one generic first loop                                                                   *)
(* ------------------------------------------------------------------------------------------ *)
Section GLoop.
  Context {T : Type} {N : Num T}.
  Notation crule := (crule T). Notation cstate := (cstate T). Notation event := (event T).
  Notation rstatic := (rstatic T).

  Section Generic.
    Context {S A : Type}.
    Variable ops : rule_ops T S.
    Variable check : bool.                       (* does the loop call assert_is_not_vector? *)
    Variable f : A -> nat -> T -> A * bool.      (* accumulator update and "trigger now?" for a loaded rule *)
    Fixpoint gloop (l : list nat) (a : A) (s : S) : result (A * S) :=
      match l with
      | [] => Ok (a, s)
      | i :: l' =>
          let s := op_deactivate ops s i in
          if op_is_loaded ops s i then
            do ds <- op_activate_with ops s i;
            let (d, s) := ds in
            do _ <- (if check then assert_is_not_vector ops s i else Ok tt);
            let (a', trig) := f a i d in
            if trig then do s <- op_trigger ops s i; gloop l' a' s else gloop l' a' s
          else gloop l' a s
      end.
  End Generic.

  (* the loops of the model are instances *)
  Definition f_general (a : unit) (i : nat) (d : T) : unit * bool := (a, true).
  Definition f_first (n : Z) (t : T) (a : Z) (i : nat) (d : T) : Z * bool :=
    if first_cond n t a d then ((a + 1)%Z, true) else (a, false).
  Definition f_threshold (c : comparator) (t : T) (a : unit) (i : nat) (d : T) : unit * bool := (a, cmp_apply c d t).
  Definition f_heap (key : T -> T) (h : list (T * nat)) (i : nat) (d : T) : list (T * nat) * bool :=
    if gtb d zero then (h ++ [(key d, i)], false) else (h, false).
  Definition f_prop (a : list nat * T) (i : nat) (d : T) : (list nat * T) * bool :=
    if gtb d zero then ((fst a ++ [i], add (snd a) d), false) else (a, false).

  Definition rmap {A B} (g : A -> B) (r : result A) : result B :=
    match r with Ok a => Ok (g a) | Err e => Err e end.

  Lemma general_loop_gloop S (ops : rule_ops T S) l s :
    general_loop ops l s = rmap snd (gloop ops false f_general l tt s).
  Proof.
    revert s; induction l as [|i l IH]; intros s; cbn; auto.
    destruct (op_is_loaded ops (op_deactivate ops s i) i); auto.
    destruct (op_activate_with ops (op_deactivate ops s i) i) as [[d s1]|e]; cbn; auto.
    destruct (op_trigger ops s1 i); cbn; auto.
  Qed.
  Lemma first_loop_gloop S (ops : rule_ops T S) n t l a s :
    first_loop ops n t l a s = rmap snd (gloop ops true (f_first n t) l a s).
  Proof.
    revert a s; induction l as [|i l IH]; intros a s; cbn; auto.
    destruct (op_is_loaded ops (op_deactivate ops s i) i); auto.
    destruct (op_activate_with ops (op_deactivate ops s i) i) as [[d s1]|e]; cbn; auto.
    destruct (assert_is_not_vector ops s1 i); cbn; auto.
    unfold f_first. destruct (first_cond n t a d); auto.
    destruct (op_trigger ops s1 i); cbn; auto.
  Qed.
  Lemma threshold_loop_gloop S (ops : rule_ops T S) c t l s :
    threshold_loop ops c t l s = rmap snd (gloop ops true (f_threshold c t) l tt s).
  Proof.
    revert s; induction l as [|i l IH]; intros s; cbn; auto.
    destruct (op_is_loaded ops (op_deactivate ops s i) i); auto.
    destruct (op_activate_with ops (op_deactivate ops s i) i) as [[d s1]|e]; cbn; auto.
    destruct (assert_is_not_vector ops s1 i); cbn; auto.
    destruct (cmp_apply c d t); auto.
    destruct (op_trigger ops s1 i); cbn; auto.
  Qed.
  Lemma heap_collect_gloop S (ops : rule_ops T S) key l h s :
    heap_collect ops key l h s = gloop ops true (f_heap key) l h s.
  Proof.
    revert h s; induction l as [|i l IH]; intros h s; cbn; auto.
    destruct (op_is_loaded ops (op_deactivate ops s i) i); auto.
    destruct (op_activate_with ops (op_deactivate ops s i) i) as [[d s1]|e]; cbn; auto.
    destruct (assert_is_not_vector ops s1 i); cbn; auto.
    unfold f_heap. destruct (gtb d zero); auto.
  Qed.
  Lemma prop_collect_gloop S (ops : rule_ops T S) l acc sum s :
    prop_collect ops l acc sum s = rmap (fun r => (fst (fst r), snd (fst r), snd r)) (gloop ops true f_prop l (acc, sum) s).
  Proof.
    revert acc sum s; induction l as [|i l IH]; intros acc sum s; cbn; auto.
    destruct (op_is_loaded ops (op_deactivate ops s i) i); auto.
    destruct (op_activate_with ops (op_deactivate ops s i) i) as [[d s1]|e]; cbn; auto.
    destruct (assert_is_not_vector ops s1 i); cbn; auto.
    unfold f_prop. destruct (gtb d zero); cbn; auto.
  Qed.

  (* ---- the log and the accumulator of the generic loop as pure functions of the static data *)
  Section Pure.
    Context {A : Type}.
    Variable f : A -> nat -> T -> A * bool.
    Fixpoint gtrace (xs : list (nat * rstatic)) (a : A) : list event :=
      match xs with
      | [] => []
      | (i, x) :: xs' =>
          EvDeactivate i ::
          if rs_loaded x then
            EvEval i ::
            (if snd (f a i (rs_value x)) then EvTrigger i (rs_value x) :: gtrace xs' (fst (f a i (rs_value x)))
             else gtrace xs' (fst (f a i (rs_value x))))
          else gtrace xs' a
      end.
    Fixpoint gacc (xs : list (nat * rstatic)) (a : A) : A :=
      match xs with
      | [] => a
      | (i, x) :: xs' => if rs_loaded x then gacc xs' (fst (f a i (rs_value x))) else gacc xs' a
      end.
  End Pure.

  Definition scalar_xs (xs : list (nat * rstatic)) : Prop :=
    forall i x, In (i, x) xs -> rs_loaded x = true -> rs_size x <= 1.
  Definition has_vector (xs : list (nat * rstatic)) : Prop :=
    exists i x, In (i, x) xs /\ rs_loaded x = true /\ 1 < rs_size x.
  Definition agrees (s : cstate) (xs : list (nat * rstatic)) : Prop :=
    forall i x, In (i, x) xs -> stat s i = Some x.

  Lemma agrees_upd (s : cstate) i (r : crule) evs xs :
    ~ In i (map fst xs) -> agrees s xs -> agrees (upd s i r evs) xs.
  Proof.
    intros NI H j x Hj. unfold stat. rewrite cget_upd_neq; [now apply H|].
    intros ->. apply NI. exact (in_map fst _ _ Hj).
  Qed.

  Lemma gloop_spec A (check : bool) (f : A -> nat -> T -> A * bool) xs : forall a (s : cstate),
    NoDup (map fst xs) -> agrees s xs -> (check = true -> scalar_xs xs) ->
    exists s', gloop cops check f (map fst xs) a s = Ok (gacc f xs a, s') /\
               post (map fst xs) s s' (gtrace f xs a).
  Proof.
    induction xs as [|[i x] xs IH]; intros a s ND AG SC.
    - exists s. split; [reflexivity | apply post_nil].
    - cbn [map fst] in *. inversion ND as [|? ? NI ND']; subst.
      assert (AG' : agrees s xs) by (intros j y Hj; apply AG; now right).
      assert (SC' : check = true -> scalar_xs xs) by (intros C j y Hj Ly; apply (SC C j y); [now right | exact Ly]).
      destruct (cget s i) as [r|] eqn:G.
      2:{ specialize (AG i x (or_introl eq_refl)). unfold stat in AG. rewrite G in AG. discriminate. }
      assert (X : cr_static r = x).
      { specialize (AG i x (or_introl eq_refl)). unfold stat in AG. rewrite G in AG. now inversion AG. }
      assert (Hi : i < length (cs_rules s)) by (eapply cget_lt; eauto).
      cbn [gloop op_deactivate op_is_loaded op_activate_with op_trigger cops].
      rewrite (deactivate_step _ _ G), X.
      set (s1 := upd s i (mk x zero false) [EvDeactivate i]).
      assert (G1 : cget s1 i = Some (mk x zero false)) by (apply cget_upd_eq; assumption).
      rewrite (is_loaded_step _ _ G1). cbn [cr_static mk gtrace gacc].
      destruct (rs_loaded x) eqn:L.
      + rewrite (activate_with_step _ _ G1) by exact L. cbn [bind cr_static cr_triggered mk].
        unfold s1. rewrite upd_upd. cbn [app].
        set (s2 := upd s i (mk x (rs_value x) false) [EvDeactivate i; EvEval i]).
        assert (G2 : cget s2 i = Some (mk x (rs_value x) false)) by (apply cget_upd_eq; assumption).
        assert (CK : (if check then assert_is_not_vector cops s2 i else Ok tt) = Ok tt).
        { destruct check; auto. unfold assert_is_not_vector. cbn [op_degree_size cops].
          rewrite (degree_size_step _ _ G2). cbn [cr_static mk].
          assert (rs_size x <= 1) by (apply (SC eq_refl i x); [now left | exact L]).
          destruct (Nat.ltb_spec 1 (rs_size x)); auto; lia. }
        rewrite CK. cbn [bind].
        destruct (f a i (rs_value x)) as [a' trig] eqn:F. cbn [fst snd].
        destruct trig.
        * rewrite (trigger_step _ _ G2) by exact L. cbn [bind cr_static cr_degree mk].
          unfold s2. rewrite upd_upd. cbn [app].
          set (r3 := mk x (rs_value x) (rs_enabled x && gtb (rs_value x) zero)).
          set (e3 := [EvDeactivate i; EvEval i; EvTrigger i (rs_value x)] : list event).
          destruct (IH a' (upd s i r3 e3) ND') as (s' & RUN & P); auto using agrees_upd.
          exists s'. split; [exact RUN|].
          change (post (i :: map fst xs) s s' (e3 ++ gtrace f xs a')).
          eapply post_cons; [exact G | exact NI | | | exact P].
          -- unfold outcome, e3, r3. cbn. rewrite Nat.eqb_refl, X. reflexivity.
          -- unfold e3. repeat constructor.
        * set (r3 := mk x (rs_value x) false).
          set (e3 := [EvDeactivate i; EvEval i] : list event).
          destruct (IH a' (upd s i r3 e3) ND') as (s' & RUN & P); auto using agrees_upd.
          exists s'. split; [exact RUN|].
          change (post (i :: map fst xs) s s' (e3 ++ gtrace f xs a')).
          eapply post_cons; [exact G | exact NI | | | exact P].
          -- unfold outcome, e3, r3. cbn. rewrite X, L. reflexivity.
          -- unfold e3. repeat constructor.
      + set (r3 := mk x zero false).
        destruct (IH a s1 ND') as (s' & RUN & P); auto using agrees_upd.
        { apply agrees_upd; auto. }
        exists s'. split; [exact RUN|].
        change (post (i :: map fst xs) s s' ([EvDeactivate i] ++ gtrace f xs a)).
        eapply post_cons; [exact G | exact NI | | | exact P].
        -- unfold outcome. cbn. rewrite X, L. reflexivity.
        -- repeat constructor.
  Qed.

  Lemma gloop_rejects A (f : A -> nat -> T -> A * bool) xs : forall a (s : cstate),
    NoDup (map fst xs) -> agrees s xs -> has_vector xs ->
    gloop cops true f (map fst xs) a s = Err EValue.
  Proof.
    induction xs as [|[i x] xs IH]; intros a s ND AG (j & y & IN & LY & SZ).
    - destruct IN.
    - cbn [map fst] in *. inversion ND as [|? ? NI ND']; subst.
      assert (AG' : agrees s xs) by (intros k z Hk; apply AG; now right).
      destruct (cget s i) as [r|] eqn:G.
      2:{ specialize (AG i x (or_introl eq_refl)). unfold stat in AG. rewrite G in AG. discriminate. }
      assert (X : cr_static r = x).
      { specialize (AG i x (or_introl eq_refl)). unfold stat in AG. rewrite G in AG. now inversion AG. }
      assert (Hi : i < length (cs_rules s)) by (eapply cget_lt; eauto).
      cbn [gloop op_deactivate op_is_loaded op_activate_with op_trigger cops].
      rewrite (deactivate_step _ _ G), X.
      set (s1 := upd s i (mk x zero false) [EvDeactivate i]).
      assert (G1 : cget s1 i = Some (mk x zero false)) by (apply cget_upd_eq; assumption).
      rewrite (is_loaded_step _ _ G1). cbn [cr_static mk].
      destruct (rs_loaded x) eqn:L.
      + rewrite (activate_with_step _ _ G1) by exact L. cbn [bind cr_static cr_triggered mk].
        unfold s1. rewrite upd_upd. cbn [app].
        set (s2 := upd s i (mk x (rs_value x) false) [EvDeactivate i; EvEval i]).
        assert (G2 : cget s2 i = Some (mk x (rs_value x) false)) by (apply cget_upd_eq; assumption).
        unfold assert_is_not_vector. cbn [op_degree_size cops].
        rewrite (degree_size_step _ _ G2). cbn [cr_static mk].
        destruct (Nat.ltb_spec 1 (rs_size x)) as [BIG|SMALL]; [reflexivity|]. cbn [bind].
        assert (HV : has_vector xs).
        { exists j, y. repeat split; auto. destruct IN as [E|IN]; auto. inversion E; subst. lia. }
        destruct (f a i (rs_value x)) as [a' trig]. destruct trig.
        * rewrite (trigger_step _ _ G2) by exact L. cbn [bind cr_static cr_degree mk].
          unfold s2. rewrite upd_upd. apply IH; auto using agrees_upd.
        * unfold s2. apply IH; auto using agrees_upd.
      + assert (HV : has_vector xs).
        { exists j, y. repeat split; auto. destruct IN as [E|IN]; auto. inversion E; subst. congruence. }
        apply IH; auto. apply agrees_upd; auto.
  Qed.
End GLoop.
(* ------------------------------------------------------------------------------------------ *)
(* 4. the trigger-only second loops                                                            *)
(* ------------------------------------------------------------------------------------------ *)
Section Phase2.
  Context {T : Type} {N : Num T}.
  Notation crule := (crule T). Notation cstate := (cstate T). Notation event := (event T).
  Notation rstatic := (rstatic T).

  (* the positions popped by the `while` loop of Highest/Lowest, in order *)
  Fixpoint pop_order (fuel : nat) (n a : Z) (heap : list (T * nat)) : list nat :=
    match fuel with
    | O => []
    | Datatypes.S fuel' =>
        match extract_min heap with
        | None => []
        | Some (m, rest) => if (a <? n)%Z then snd m :: pop_order fuel' n (a + 1)%Z rest else []
        end
    end.
  Fixpoint step_all {S} (step : S -> nat -> result S) (tl : list nat) (s : S) : result S :=
    match tl with
    | [] => Ok s
    | i :: tl' => do s <- step s i; step_all step tl' s
    end.
  Lemma heap_pop_loop_step_all S (ops : rule_ops T S) fuel : forall n a heap s,
    heap_pop_loop ops fuel n a heap s = step_all (op_trigger ops) (pop_order fuel n a heap) s.
  Proof.
    induction fuel as [|fuel IH]; intros n a heap s; cbn; auto.
    destruct (extract_min heap) as [[m rest]|]; auto.
    destruct (a <? n)%Z; auto. cbn. destruct (op_trigger ops s (snd m)); cbn; auto.
  Qed.
  Definition prop_step {S} (ops : rule_ops T S) (sum : T) (s : S) (i : nat) : result S :=
    op_trigger ops (op_set_degree ops s i (div (op_degree ops s i) sum)) i.
  Lemma prop_trigger_step_all S (ops : rule_ops T S) sum acc : forall s,
    prop_trigger ops acc sum s = step_all (prop_step ops sum) acc s.
  Proof.
    induction acc as [|i acc IH]; intros s; cbn; auto. unfold prop_step at 1.
    destruct (op_trigger ops _ i); cbn; auto.
  Qed.

  (* a step that rescales the stored degree by g and triggers *)
  Definition triggered_rule (g : T -> T) (r : crule) : crule :=
    mk (cr_static r) (g (cr_degree r)) (rs_enabled (cr_static r) && gtb (g (cr_degree r)) zero).
  Definition is_trigger_step (g : T -> T) (step : cstate -> nat -> result cstate) : Prop :=
    forall s i r, cget s i = Some r -> rs_loaded (cr_static r) = true ->
      step s i = Ok (upd s i (triggered_rule g r) [EvTrigger i (g (cr_degree r))]).

  Lemma c_trigger_is_step : is_trigger_step (fun d => d) c_trigger.
  Proof. intros s i r G L. now rewrite (trigger_step _ _ G L). Qed.
  Lemma prop_step_is_step sum : is_trigger_step (fun d => div d sum) (prop_step cops sum).
  Proof.
    intros s i r G L. unfold prop_step. cbn [op_trigger op_set_degree op_degree cops].
    rewrite (set_degree_step _ _ _ G), (degree_step _ _ G).
    assert (Hi : i < length (cs_rules s)) by (eapply cget_lt; eauto).
    erewrite trigger_step; [|apply cget_upd_eq; assumption|exact L].
    rewrite upd_upd. reflexivity.
  Qed.

  Lemma step_all_spec g step (ST : is_trigger_step g step) tl : forall s,
    NoDup tl ->
    (forall j, In j tl -> exists r, cget s j = Some r /\ rs_loaded (cr_static r) = true) ->
    exists s', step_all step tl s = Ok s' /\
      cs_events s' = cs_events s ++ map (fun j => EvTrigger j (g (c_degree s j))) tl /\
      length (cs_rules s') = length (cs_rules s) /\
      (forall j, ~ In j tl -> cget s' j = cget s j) /\
      (forall j r, In j tl -> cget s j = Some r -> cget s' j = Some (triggered_rule g r)).
  Proof.
    induction tl as [|i tl IH]; intros s ND LD.
    - exists s. cbn. rewrite app_nil_r. repeat split; auto. intros j r [].
    - inversion ND as [|? ? NI ND']; subst.
      destruct (LD i (or_introl eq_refl)) as (r & G & L).
      assert (Hi : i < length (cs_rules s)) by (eapply cget_lt; eauto).
      cbn [step_all]. rewrite (ST s i r G L). cbn [bind].
      set (s1 := upd s i (triggered_rule g r) [EvTrigger i (g (cr_degree r))]).
      assert (OTH : forall j, j <> i -> cget s1 j = cget s j).
      { intros j Hj. unfold s1. apply cget_upd_neq. congruence. }
      destruct (IH s1 ND') as (s' & RUN & E & LEN & U & C).
      { intros j Hj. rewrite OTH; [apply LD; now right|]. intros ->; contradiction. }
      exists s'. split; [exact RUN|]. repeat split.
      + rewrite E. unfold s1 at 1. cbn [cs_events upd map]. rewrite <- app_assoc. cbn [app].
        rewrite (degree_step _ _ G). do 2 f_equal.
        apply map_ext_in. intros j Hj. unfold c_degree. rewrite OTH; auto. intros ->; contradiction.
      + rewrite LEN. apply length_upd.
      + intros j NJ. cbn in NJ. rewrite U by tauto. apply OTH. intros ->. tauto.
      + intros j rj [<-|Hj] Gj.
        * rewrite U by assumption. unfold s1. rewrite cget_upd_eq by assumption. congruence.
        * apply C; auto. rewrite OTH; auto. intros ->; contradiction.
  Qed.

  Lemma find_trigger_map_in (h : nat -> T) j tl : In j tl ->
    find_trigger j (map (fun k => EvTrigger k (h k)) tl) = Some (h j).
  Proof.
    induction tl as [|k tl IH]; intros []; cbn.
    - subst. now rewrite Nat.eqb_refl.
    - destruct (Nat.eqb_spec k j); [now subst | auto].
  Qed.
  Lemma find_trigger_map_notin (h : nat -> T) j tl : ~ In j tl ->
    find_trigger j (map (fun k => EvTrigger k (h k)) tl) = None.
  Proof.
    induction tl as [|k tl IH]; intros NI; cbn; auto.
    destruct (Nat.eqb_spec k j); [subst; exfalso; apply NI; now left|]. apply IH. intros H; apply NI; now right.
  Qed.

  (* a first loop that triggers nothing, followed by trigger steps on some of its loaded positions *)
  Lemma post_two_phase g step (ST : is_trigger_step g step) l (s s1 : cstate) evs1 tl (value : nat -> T) :
    post l s s1 evs1 -> triggers_of evs1 = [] ->
    NoDup tl -> incl tl l ->
    (forall j, In j tl -> exists r, cget s j = Some r /\ rs_loaded (cr_static r) = true /\ rs_value (cr_static r) = value j) ->
    exists s', step_all step tl s1 = Ok s' /\
               post l s s' (evs1 ++ map (fun j => EvTrigger j (g (value j))) tl).
  Proof.
    intros (E1 & L1 & U1 & C1 & F1) NT ND INC LD.
    assert (NOTRIG : forall j, find_trigger j evs1 = None).
    { intros j. clear - NT. induction evs1 as [|e evs IH]; cbn in *; auto. destruct e; auto. discriminate. }
    assert (S1 : forall j, In j tl -> exists r, cget s j = Some r /\ rs_loaded (cr_static r) = true /\
                   rs_value (cr_static r) = value j /\ cget s1 j = Some (mk (cr_static r) (value j) false)).
    { intros j Hj. destruct (LD j Hj) as (r & G & L & V). exists r. repeat split; auto.
      rewrite (C1 j r (INC j Hj) G), NOTRIG. unfold outcome. now rewrite L, V. }
    destruct (@step_all_spec g step ST tl s1 ND) as (s' & RUN & E & LEN & U & C).
    { intros j Hj. destruct (S1 j Hj) as (r & _ & L & _ & G1). eexists; split; [exact G1|exact L]. }
    exists s'. split; [exact RUN|]. repeat split.
    - rewrite E, E1, <- app_assoc. do 2 f_equal. apply map_ext_in. intros j Hj.
      destruct (S1 j Hj) as (r & _ & _ & _ & G1). now rewrite (degree_step _ _ G1).
    - congruence.
    - intros j NJ. destruct (in_dec Nat.eq_dec j tl) as [Hj|Hj]; [elim NJ; now apply INC|].
      rewrite U by assumption. now apply U1.
    - intros j r Hj G. rewrite find_trigger_app, NOTRIG.
      destruct (in_dec Nat.eq_dec j tl) as [Hjt|Hjt].
      + rewrite find_trigger_map_in by assumption.
        destruct (S1 j Hjt) as (r' & G' & L & V & G1). rewrite G in G'; inversion G'; subst r'.
        rewrite (C j _ Hjt G1). unfold triggered_rule, outcome. reflexivity.
      + rewrite find_trigger_map_notin by assumption. rewrite U by assumption.
        rewrite (C1 j r Hj G), NOTRIG. reflexivity.
    - apply Forall_app; split; auto. apply Forall_forall. intros e He.
      apply in_map_iff in He as (j & <- & Hj). cbn. now apply INC.
  Qed.
End Phase2.
