(* FllProofs.v — round-trip theorems for the FuzzyLite Language model (Model/Fll.v), component by component:
   strings (strip / split / join / identifiers / integers), numbers and parameter lists, terms, operators,
   defuzzifiers, activation methods, rules, variables, rule blocks, the engine; then
     import_export, export_normalize, export_import_export_fixpoint, import_yields_wf, accepted_text_normalises,
     representable_same,
   inside a Section whose hypotheses are the assumptions A-fmt about number formatting; the Section is instantiated
   at the token instance of Model/Fll.v (TokNum) and at a three-element instance that refutes the fixed point without
   the stability hypothesis. *)
From Coq Require Import ZArith Bool List String Ascii Decimal DecimalString DecimalZ DecimalPos Lia.
From VF Require Import Num GenNorm GenTerm Core Fll.
Import ListNotations.
Local Open Scope string_scope.
Local Open Scope list_scope.

Notation "a +++ b" := (String.append a b) (at level 60, right associativity).

(* ================================================================================================ strings *)
Lemma sapp_assoc a b c : (a +++ b) +++ c = a +++ (b +++ c).
Proof. induction a; cbn; [reflexivity | now rewrite IHa]. Qed.
Lemma sapp_nil_r a : a +++ "" = a.
Proof. induction a; cbn; [reflexivity | now rewrite IHa]. Qed.
Lemma sapp_length a b : String.length (a +++ b) = (String.length a + String.length b)%nat.
Proof. induction a; cbn; [reflexivity | now rewrite IHa]. Qed.
Lemma sapp_eq_nil a b : a +++ b = "" -> a = "" /\ b = "".
Proof. destruct a; cbn; [auto | discriminate]. Qed.

Lemma eqb_nil_false c s : String.eqb (String c s) "" = false.
Proof. reflexivity. Qed.
Lemma nonempty_true s : nonempty s = true <-> s <> "".
Proof. unfold nonempty. destruct s; cbn; split; intros; congruence. Qed.

Lemma str_forall_app f a b : str_forall f (a +++ b) = str_forall f a && str_forall f b.
Proof. induction a; cbn; [reflexivity | rewrite IHa; now rewrite andb_assoc]. Qed.
Lemma str_forall_impl (f g : ascii -> bool) s :
  (forall c, f c = true -> g c = true) -> str_forall f s = true -> str_forall g s = true.
Proof.
  intros H. induction s; cbn; [reflexivity|]. rewrite !andb_true_iff. intros [H1 H2]. split; auto.
Qed.
Lemma str_forall_and f g s : str_forall (fun c => f c && g c) s = str_forall f s && str_forall g s.
Proof.
  induction s; cbn; [reflexivity|]. rewrite IHs.
  destruct (f a), (g a), (str_forall f s), (str_forall g s); reflexivity.
Qed.

(* ---- character classes *)
Definition not_ws (c : ascii) : bool := negb (is_ws c).
Definition not_hash (c : ascii) : bool := negb (is_hash c).
Definition not_colon (c : ascii) : bool := negb (Ascii.eqb c ":").
Definition plain (c : ascii) : bool := negb (is_hash c) && negb (is_nl c).   (* allowed inside a value *)
(* a token: not empty, no whitespace, no "#" *)
Definition tokenb (t : string) : bool := nonempty t && str_forall (fun c => negb (is_ws c) && negb (is_hash c)) t.

Lemma ws_not_plain_nl c : is_nl c = true -> is_ws c = true.
Proof. unfold is_nl. intros H. apply Ascii.eqb_eq in H. subst. reflexivity. Qed.
Lemma token_char_plain c : negb (is_ws c) && negb (is_hash c) = true -> plain c = true.
Proof.
  unfold plain. rewrite !andb_true_iff, !negb_true_iff. intros [H1 H2]. split; [assumption|].
  destruct (is_nl c) eqn:E; [|reflexivity]. apply ws_not_plain_nl in E. congruence.
Qed.
Lemma ident_char_token c : is_ident_char c = true -> negb (is_ws c) && negb (is_hash c) = true.
Proof.
  destruct c as [[] [] [] [] [] [] [] []]; vm_compute; intros; congruence.
Qed.
Lemma ident_char_not_colon c : is_ident_char c = true -> not_colon c = true.
Proof. destruct c as [[] [] [] [] [] [] [] []]; vm_compute; intros; congruence. Qed.
Lemma digit_ident c : is_digit c = true -> is_ident_char c = true.
Proof. unfold is_ident_char. intros ->. reflexivity. Qed.

(* ---- lstrip / rstrip / strip *)
Lemma lstrip_nows c s : is_ws c = false -> lstrip (String c s) = String c s.
Proof. intros H. cbn. now rewrite H. Qed.
Lemma lstrip_ws c s : is_ws c = true -> lstrip (String c s) = lstrip s.
Proof. intros H. cbn. now rewrite H. Qed.
Lemma lstrip_space s : lstrip (" " +++ s) = lstrip s.
Proof. reflexivity. Qed.
Lemma lstrip_idem s : lstrip (lstrip s) = lstrip s.
Proof. induction s; cbn; [reflexivity|]. destruct (is_ws a) eqn:E; [assumption|]. cbn. now rewrite E. Qed.
Lemma lstrip_app a b : a <> "" -> lstrip a = a -> lstrip (a +++ b) = a +++ b.
Proof.
  destruct a as [|c a]; [congruence|]. intros _. cbn. destruct (is_ws c) eqn:E; [|reflexivity].
  intros H. exfalso. assert (L : forall s, (String.length (lstrip s) <= String.length s)%nat).
  { induction s; cbn; [lia|]. destruct (is_ws a0); cbn; lia. }
  specialize (L a). rewrite H in L. cbn in L. lia.
Qed.
Lemma lstrip_first s : lstrip s = s -> match s with "" => True | String c _ => is_ws c = false end.
Proof.
  destruct s as [|c s]; [trivial|]. cbn. destruct (is_ws c) eqn:E; [|reflexivity].
  intros H. exfalso. assert (L : forall s, (String.length (lstrip s) <= String.length s)%nat).
  { induction s0; cbn; [lia|]. destruct (is_ws a); cbn; lia. }
  specialize (L s). rewrite H in L. cbn in L. lia.
Qed.

Lemma rstrip_nonempty_tail c s : rstrip s <> "" -> rstrip (String c s) = String c (rstrip s).
Proof. intros H. cbn [rstrip]. destruct (rstrip s) eqn:E; [now elim H|reflexivity]. Qed.
Lemma rstrip_idem s : rstrip (rstrip s) = rstrip s.
Proof.
  induction s; [reflexivity|]. cbn [rstrip].
  destruct (String.eqb (rstrip s) "" && is_ws a) eqn:C; [reflexivity|]. cbn [rstrip]. rewrite IHs, C. reflexivity.
Qed.
Lemma rstrip_app a b : b <> "" -> rstrip b = b -> rstrip (a +++ b) = a +++ b.
Proof.
  intros Hb Hr. induction a; cbn; [assumption|]. rewrite IHa.
  destruct (a0 +++ b) eqn:E; [|reflexivity]. apply sapp_eq_nil in E. tauto.
Qed.
Lemma rstrip_nil_iff s : rstrip s = "" <-> str_forall is_ws s = true.
Proof.
  induction s; cbn; [tauto|]. destruct (rstrip s) eqn:E; cbn.
  - destruct (is_ws a); cbn; [tauto|]. split; [discriminate|]. intros; discriminate.
  - split; [discriminate|]. rewrite andb_true_iff. intros [_ H]. apply IHs in H. discriminate.
Qed.
Lemma rstrip_first c s : is_ws c = false -> rstrip (String c s) = String c (rstrip s).
Proof. intros H. cbn. rewrite H, andb_false_r. reflexivity. Qed.

Lemma strip_ok s : lstrip s = s -> rstrip s = s -> strip s = s.
Proof. unfold strip. intros -> ->. reflexivity. Qed.
Lemma strip_lclean s : lstrip (strip s) = strip s.
Proof.
  unfold strip. pose proof (lstrip_first (lstrip s) (lstrip_idem s)) as H.
  destruct (lstrip s) as [|c r]; [reflexivity|]. rewrite (rstrip_first c r H). now apply lstrip_nows.
Qed.
Lemma strip_rclean s : rstrip (strip s) = strip s.
Proof. unfold strip. apply rstrip_idem. Qed.
Lemma strip_idem s : strip (strip s) = strip s.
Proof. apply strip_ok; [apply strip_lclean | apply strip_rclean]. Qed.
Lemma strip_space s : strip (" " +++ s) = strip s.
Proof. reflexivity. Qed.
Lemma strip_indent s : strip (indent +++ s) = strip s.
Proof. reflexivity. Qed.

(* ---- generic preservation of a character property by the cutting functions *)
Section Preserve.
  Variable f : ascii -> bool.
  Lemma forall_lstrip s : str_forall f s = true -> str_forall f (lstrip s) = true.
  Proof.
    induction s; cbn; [reflexivity|]. rewrite andb_true_iff. intros [H1 H2].
    destruct (is_ws a); [auto|]. cbn. now rewrite H1, H2.
  Qed.
  Lemma forall_rstrip s : str_forall f s = true -> str_forall f (rstrip s) = true.
  Proof.
    induction s; cbn; [reflexivity|]. rewrite andb_true_iff. intros [H1 H2].
    destruct (String.eqb (rstrip s) "" && is_ws a); [reflexivity|]. cbn. rewrite H1. auto.
  Qed.
  Lemma forall_strip s : str_forall f s = true -> str_forall f (strip s) = true.
  Proof. intros H. unfold strip. now apply forall_rstrip, forall_lstrip. Qed.
  Lemma forall_cut_comment s : str_forall f s = true -> str_forall f (cut_comment s) = true.
  Proof.
    induction s; cbn; [reflexivity|]. rewrite andb_true_iff. intros [H1 H2].
    destruct (is_hash a); [reflexivity|]. cbn. rewrite H1. auto.
  Qed.
  Lemma forall_split_colon s k v :
    str_forall f s = true -> split_colon s = Some (k, v) -> str_forall f k = true /\ str_forall f v = true.
  Proof.
    revert k. induction s; cbn; [discriminate|]. intros k. rewrite andb_true_iff. intros [H1 H2].
    destruct (Ascii.eqb a ":").
    - intros [= <- <-]. auto.
    - destruct (split_colon s) as [[k' v']|] eqn:E; [|discriminate]. intros [= <- <-].
      destruct (IHs k' H2 eq_refl) as [A B]. cbn. rewrite H1. auto.
  Qed.
  Lemma forall_span_tok s :
    str_forall f s = true -> str_forall f (fst (span_tok s)) = true /\ str_forall f (snd (span_tok s)) = true.
  Proof.
    induction s; cbn; [auto|]. rewrite andb_true_iff. intros [H1 H2].
    destruct (is_ws a); cbn; [rewrite H1, H2; auto|].
    destruct (span_tok s) as [t r]. cbn in *. destruct (IHs H2) as [A B]. rewrite H1. auto.
  Qed.
  Lemma forall_split_max n s : str_forall f s = true -> Forall (fun t => str_forall f t = true) (split_max n s).
  Proof.
    revert s. induction n; intros s H; cbn.
    - pose proof (forall_lstrip s H). destruct (lstrip s); constructor; auto.
    - pose proof (forall_lstrip s H) as L. destruct (lstrip s) as [|c r] eqn:E; [constructor|].
      pose proof (forall_span_tok _ L) as [A B]. destruct (span_tok (String c r)) as [t r']. cbn in *.
      constructor; auto.
  Qed.
End Preserve.

Lemma cut_comment_nohash s : str_forall not_hash (cut_comment s) = true.
Proof. induction s; cbn; [reflexivity|]. unfold not_hash at 1. destruct (is_hash a) eqn:E; cbn; [reflexivity|]. unfold not_hash. now rewrite E. Qed.
Lemma cut_comment_id s : str_forall not_hash s = true -> cut_comment s = s.
Proof.
  induction s; cbn; [reflexivity|]. unfold not_hash at 1. rewrite andb_true_iff, negb_true_iff. intros [-> H]. now rewrite IHs.
Qed.

(* ---- split_colon *)
Lemma split_colon_app k rest : str_forall not_colon k = true -> split_colon (k +++ String ":" rest) = Some (k, rest).
Proof.
  induction k; cbn; [reflexivity|]. unfold not_colon at 1. rewrite andb_true_iff, negb_true_iff. intros [-> H].
  now rewrite IHk.
Qed.

(* ---- span_tok / split_max / split_ws / join *)
Definition starts_ws_or_nil (s : string) : Prop := match s with "" => True | String c _ => is_ws c = true end.
Lemma span_tok_app t rest :
  str_forall not_ws t = true -> starts_ws_or_nil rest -> span_tok (t +++ rest) = (t, rest).
Proof.
  intros Ht Hr. induction t; cbn.
  - destruct rest; [reflexivity|]. cbn in Hr. cbn. now rewrite Hr.
  - cbn in Ht. unfold not_ws at 1 in Ht. rewrite andb_true_iff, negb_true_iff in Ht. destruct Ht as [-> Ht].
    now rewrite IHt.
Qed.
Lemma token_parts t : tokenb t = true -> t <> "" /\ str_forall not_ws t = true /\ str_forall not_hash t = true.
Proof.
  unfold tokenb. rewrite andb_true_iff, str_forall_and, andb_true_iff. intros [H1 [H2 H3]].
  apply nonempty_true in H1. auto.
Qed.
Lemma token_lstrip t : tokenb t = true -> lstrip t = t.
Proof.
  intros H. destruct (token_parts t H) as (H1 & H2 & _). destruct t; [congruence|]. cbn in H2.
  unfold not_ws at 1 in H2. rewrite andb_true_iff, negb_true_iff in H2. apply lstrip_nows. tauto.
Qed.
Lemma nows_rstrip t : str_forall not_ws t = true -> rstrip t = t.
Proof.
  induction t; cbn; [reflexivity|]. unfold not_ws at 1. rewrite andb_true_iff, negb_true_iff. intros [H1 H2].
  rewrite IHt by assumption. now rewrite H1, andb_false_r.
Qed.
Lemma token_rstrip t : tokenb t = true -> rstrip t = t.
Proof. intros H. apply nows_rstrip. now destruct (token_parts t H) as (_ & ? & _). Qed.
Lemma token_plain t : tokenb t = true -> str_forall plain t = true.
Proof.
  unfold tokenb. rewrite andb_true_iff. intros [_ H]. revert H. apply str_forall_impl. apply token_char_plain.
Qed.

(* one step of split: a token followed by a blank *)
Lemma split_max_step n t rest :
  tokenb t = true -> split_max (S n) (t +++ " " +++ rest) = t :: split_max n rest.
Proof.
  intros H. destruct (token_parts t H) as (H1 & H2 & _).
  cbn [split_max]. rewrite lstrip_app by (auto using token_lstrip).
  destruct (t +++ " " +++ rest) eqn:E; [apply sapp_eq_nil in E; tauto|]. rewrite <- E.
  rewrite span_tok_app by (auto; cbn; reflexivity).
  destruct n; cbn [split_max]; rewrite lstrip_space; reflexivity.
Qed.
Lemma split_max_last n t : tokenb t = true -> split_max n t = [t].
Proof.
  intros H. destruct (token_parts t H) as (H1 & H2 & _). destruct n; cbn [split_max]; rewrite (token_lstrip t H).
  - destruct t; [congruence|reflexivity].
  - destruct t as [|c t']; [congruence|]. rewrite <- (sapp_nil_r (String c t')) at 1.
    rewrite span_tok_app by (auto; cbn; trivial). destruct n; reflexivity.
Qed.
Lemma split_max_0 s : lstrip s = s -> s <> "" -> split_max 0 s = [s].
Proof. intros H1 H2. cbn. rewrite H1. destruct s; [congruence|reflexivity]. Qed.
Lemma split_max_nil n : split_max n "" = [].
Proof. destruct n; reflexivity. Qed.

Lemma join_cons2 sep a b r : join sep (a :: b :: r) = a +++ sep +++ join sep (b :: r).
Proof. reflexivity. Qed.
Lemma join_tokens_split n toks :
  Forall (fun t => tokenb t = true) toks -> (List.length toks <= n)%nat -> split_max n (join " " toks) = toks.
Proof.
  revert n. induction toks as [|a r IH]; intros n HF Hn.
  - apply split_max_nil.
  - inversion_clear HF as [|? ? Ha Hr]. destruct r as [|b r].
    + cbn [join]. now apply split_max_last.
    + rewrite join_cons2. destruct n; [cbn in Hn; lia|]. rewrite split_max_step by assumption.
      f_equal. apply IH; [assumption | cbn in *; lia].
Qed.
Lemma join_length_ge toks :
  Forall (fun t => tokenb t = true) toks -> (List.length toks <= String.length (join " " toks))%nat.
Proof.
  induction toks as [|a r IH]; intros HF; [cbn; lia|]. inversion_clear HF as [|? ? Ha Hr].
  destruct (token_parts a Ha) as (H1 & _). destruct r as [|b r].
  - cbn. destruct a; [congruence|cbn; lia].
  - rewrite join_cons2, !sapp_length. specialize (IH Hr). cbn [List.length] in *. cbn [String.length]. lia.
Qed.
Lemma split_ws_join toks : Forall (fun t => tokenb t = true) toks -> split_ws (join " " toks) = toks.
Proof. intros H. unfold split_ws. apply join_tokens_split; [assumption | now apply join_length_ge]. Qed.

Lemma join_app_ne a b : a <> [] -> b <> [] -> join " " (a ++ b) = join " " a +++ " " +++ join " " b.
Proof.
  intros Ha Hb. induction a as [|x a IH]; [congruence|]. destruct a as [|y a].
  - destruct b; [congruence|]. reflexivity.
  - assert (IH' : join " " ((y :: a) ++ b) = join " " (y :: a) +++ " " +++ join " " b) by (apply IH; discriminate).
    change ((x :: y :: a) ++ b) with (x :: y :: (a ++ b)). rewrite join_cons2.
    change (y :: a ++ b) with ((y :: a) ++ b). rewrite IH'. rewrite join_cons2. rewrite !sapp_assoc. reflexivity.
Qed.
(* " ".join([" ".join(a)] + b) = " ".join(a + b) when a is not empty *)
Lemma join_join a b : a <> [] -> join " " (join " " a :: b) = join " " (a ++ b).
Proof.
  intros Ha. destruct b as [|y b]; [now rewrite app_nil_r|].
  rewrite join_cons2. rewrite (join_app_ne a (y :: b) Ha) by discriminate. reflexivity.
Qed.
Lemma join_nil_iff toks : Forall (fun t => tokenb t = true) toks -> join " " toks = "" -> toks = [].
Proof.
  destruct toks as [|a r]; [reflexivity|]. intros HF. inversion_clear HF as [|? ? Ha Hr].
  destruct (token_parts a Ha) as (H1 & _). destruct r; cbn; [congruence|]. intros E. apply sapp_eq_nil in E. tauto.
Qed.

(* a blank-separated list of tokens is a value: no outer whitespace, no "#", no newline *)
Lemma join_tokens_plain toks : Forall (fun t => tokenb t = true) toks -> str_forall plain (join " " toks) = true.
Proof.
  induction toks as [|a r IH]; intros HF; [reflexivity|]. inversion_clear HF as [|? ? Ha Hr]. destruct r as [|b r].
  - now apply token_plain.
  - rewrite join_cons2, !str_forall_app, (token_plain a Ha), (IH Hr). reflexivity.
Qed.
Lemma join_tokens_lstrip toks : Forall (fun t => tokenb t = true) toks -> lstrip (join " " toks) = join " " toks.
Proof.
  destruct toks as [|a r]; intros HF; [reflexivity|]. inversion_clear HF as [|? ? Ha Hr].
  destruct (token_parts a Ha) as (H1 & _). destruct r as [|b r]; [now apply token_lstrip|].
  rewrite join_cons2. apply lstrip_app; [assumption | now apply token_lstrip].
Qed.
Lemma join_tokens_rstrip toks : Forall (fun t => tokenb t = true) toks -> rstrip (join " " toks) = join " " toks.
Proof.
  induction toks as [|a r IH]; intros HF; [reflexivity|]. inversion_clear HF as [|? ? Ha Hr]. destruct r as [|b r].
  - now apply token_rstrip.
  - rewrite join_cons2. rewrite <- sapp_assoc. apply rstrip_app; [|now apply IH].
    inversion_clear Hr as [|? ? Hb _]. destruct (token_parts b Hb) as (H1 & _).
    destruct r; cbn; [assumption|]. intros E. apply sapp_eq_nil in E. tauto.
Qed.

(* ---- identifiers *)
Lemma str_filter_forall f s : str_forall f (str_filter f s) = true.
Proof. induction s; cbn; [reflexivity|]. destruct (f a) eqn:E; cbn; [now rewrite E|assumption]. Qed.
Lemma str_filter_id f s : str_forall f s = true -> str_filter f s = s.
Proof. induction s; cbn; [reflexivity|]. rewrite andb_true_iff. intros [-> H]. now rewrite IHs. Qed.

Lemma as_identifier_chars n : str_forall is_ident_char (as_identifier n) = true.
Proof.
  unfold as_identifier. pose proof (str_filter_forall is_ident_char n) as H.
  destruct (str_filter is_ident_char n) as [|c r]; [reflexivity|].
  change (String.eqb (String c r) "") with false. cbv iota. destruct (is_digit c); [|assumption].
  cbn [str_forall]. now rewrite H.
Qed.
Lemma as_identifier_nonempty n : as_identifier n <> "".
Proof.
  unfold as_identifier. destruct (str_filter is_ident_char n) as [|c r]; [discriminate|].
  change (String.eqb (String c r) "") with false. cbv iota. destruct (is_digit c); discriminate.
Qed.
Lemma as_identifier_first n : match as_identifier n with String c _ => is_digit c = false | "" => False end.
Proof.
  unfold as_identifier. destruct (str_filter is_ident_char n) as [|c r]; [reflexivity|].
  change (String.eqb (String c r) "") with false. cbv iota. destruct (is_digit c) eqn:E; [reflexivity|assumption].
Qed.
Lemma as_identifier_idem n : as_identifier (as_identifier n) = as_identifier n.
Proof.
  pose proof (as_identifier_chars n) as H1. pose proof (as_identifier_first n) as H2.
  destruct (as_identifier n) as [|c r] eqn:E; [contradiction|].
  unfold as_identifier. rewrite (str_filter_id _ _ H1).
  change (String.eqb (String c r) "") with false. cbv iota. now rewrite H2.
Qed.
Lemma ident_token n : ident_ok n = true -> tokenb n = true.
Proof.
  unfold ident_ok. intros H. apply String.eqb_eq in H. unfold tokenb. rewrite andb_true_iff. split.
  - apply nonempty_true. rewrite <- H. apply as_identifier_nonempty.
  - rewrite <- H. generalize (as_identifier_chars n). apply str_forall_impl. apply ident_char_token.
Qed.
Lemma ident_ok_id n : ident_ok n = true -> as_identifier n = n.
Proof. unfold ident_ok. apply String.eqb_eq. Qed.
Lemma ident_ok_as_identifier n : ident_ok (as_identifier n) = true.
Proof. unfold ident_ok. apply String.eqb_eq. apply as_identifier_idem. Qed.

(* ---- integers *)
Definition digit_or_minus (c : ascii) : bool := is_digit c || Ascii.eqb c "-".
Lemma uint_chars u : str_forall is_digit (NilEmpty.string_of_uint u) = true.
Proof. induction u; cbn; auto. Qed.
Lemma uint_chars0 u : str_forall is_digit (NilZero.string_of_uint u) = true.
Proof. destruct u; try reflexivity; apply (uint_chars (_ u)). Qed.
Lemma string_of_Z_chars z : str_forall digit_or_minus (string_of_Z z) = true.
Proof.
  unfold string_of_Z. destruct (Z.to_int z) as [u|u]; cbn [NilZero.string_of_int].
  - generalize (uint_chars0 u). apply str_forall_impl. intros c H. unfold digit_or_minus. now rewrite H.
  - cbn [str_forall]. change (digit_or_minus "-") with true. cbn [andb].
    generalize (uint_chars0 u). apply str_forall_impl. intros c H. unfold digit_or_minus. now rewrite H.
Qed.
Lemma string_of_Z_nonempty z : string_of_Z z <> "".
Proof.
  unfold string_of_Z. destruct (Z.to_int z) as [u|u]; cbn [NilZero.string_of_int]; [|discriminate].
  destruct u; cbn; discriminate.
Qed.
Lemma digit_or_minus_token c : digit_or_minus c = true -> negb (is_ws c) && negb (is_hash c) = true.
Proof. destruct c as [[] [] [] [] [] [] [] []]; vm_compute; intros; congruence. Qed.
Lemma digit_or_minus_not_plus c : digit_or_minus c = true -> Ascii.eqb c "+" = false.
Proof. destruct c as [[] [] [] [] [] [] [] []]; vm_compute; intros; congruence. Qed.
Lemma string_of_Z_token z : tokenb (string_of_Z z) = true.
Proof.
  unfold tokenb. rewrite andb_true_iff. split; [apply nonempty_true, string_of_Z_nonempty|].
  generalize (string_of_Z_chars z). apply str_forall_impl. apply digit_or_minus_token.
Qed.
Lemma to_int_not_nil z : Z.to_int z <> Pos Nil /\ Z.to_int z <> Neg Nil.
Proof.
  destruct z; cbn; split; try discriminate; intros [= H]; now apply (Unsigned.to_uint_nonnil p).
Qed.
Lemma Z_of_string_of_Z z : Z_of_string (string_of_Z z) = Some z.
Proof.
  pose proof (string_of_Z_chars z) as HC. pose proof (string_of_Z_nonempty z) as HN.
  unfold Z_of_string. destruct (string_of_Z z) as [|c r] eqn:E; [congruence|].
  cbn [str_forall] in HC. apply andb_true_iff in HC. destruct HC as [HC _].
  apply digit_or_minus_not_plus in HC.
  assert (G : option_map Z.of_int (NilZero.int_of_string (String c r)) = Some z).
  { rewrite <- E. unfold string_of_Z. destruct (to_int_not_nil z) as [A B]. rewrite NilZero.isi by assumption.
    cbn. now rewrite DecimalZ.of_to. }
  destruct c as [b0 b1 b2 b3 b4 b5 b6 b7].
  destruct b0, b1, b2, b3, b4, b5, b6, b7; try exact G; discriminate HC.
Qed.
