(* FllProofs.v — round-trip theorems for the FuzzyLite Language model (Model/Fll.v), component by component:
   strings (strip / split / join / identifiers / integers), numbers and parameter lists, terms, operators,
   defuzzifiers, activation methods, rules, variables, rule blocks, the engine; then
     import_export, export_normalize, export_import_export_fixpoint, import_yields_wf, accepted_text_normalises,
     representable_same,
   inside a Section whose hypotheses are the assumptions A-fmt about number formatting; the Section is instantiated
   at the token instance of Model/Fll.v (TokNum) and at a three-element instance that refutes the fixed point without
   the stability hypothesis. *)
From Coq Require Import ZArith Bool List String Ascii Decimal DecimalString DecimalZ DecimalPos Lia.
From VF Require Import Num GenNorm GenTerm Core Fll.
Import ListNotations.
Local Open Scope string_scope.
Local Open Scope list_scope.

Notation "a +++ b" := (String.append a b) (at level 60, right associativity).

(* ================================================================================================ strings *)
Lemma sapp_assoc a b c : (a +++ b) +++ c = a +++ (b +++ c).
Proof. induction a; cbn; [reflexivity | now rewrite IHa]. Qed.
Lemma sapp_nil_r a : a +++ "" = a.
Proof. induction a; cbn; [reflexivity | now rewrite IHa]. Qed.
Lemma sapp_length a b : String.length (a +++ b) = (String.length a + String.length b)%nat.
Proof. induction a; cbn; [reflexivity | now rewrite IHa]. Qed.
Lemma sapp_eq_nil a b : a +++ b = "" -> a = "" /\ b = "".
Proof. destruct a; cbn; [auto | discriminate]. Qed.

Lemma eqb_nil_false c s : String.eqb (String c s) "" = false.
Proof. reflexivity. Qed.
Lemma nonempty_true s : nonempty s = true <-> s <> "".
Proof. unfold nonempty. destruct s; cbn; split; intros; congruence. Qed.

Lemma str_forall_app f a b : str_forall f (a +++ b) = str_forall f a && str_forall f b.
Proof. induction a; cbn; [reflexivity | rewrite IHa; now rewrite andb_assoc]. Qed.
Lemma str_forall_impl (f g : ascii -> bool) s :
  (forall c, f c = true -> g c = true) -> str_forall f s = true -> str_forall g s = true.
Proof.
  intros H. induction s; cbn; [reflexivity|]. rewrite !andb_true_iff. intros [H1 H2]. split; auto.
Qed.
Lemma str_forall_and f g s : str_forall (fun c => f c && g c) s = str_forall f s && str_forall g s.
Proof.
  induction s; cbn; [reflexivity|]. rewrite IHs.
  destruct (f a), (g a), (str_forall f s), (str_forall g s); reflexivity.
Qed.

(* ---- character classes *)
Definition not_ws (c : ascii) : bool := negb (is_ws c).
Definition not_hash (c : ascii) : bool := negb (is_hash c).
Definition not_colon (c : ascii) : bool := negb (Ascii.eqb c ":").
Definition plain (c : ascii) : bool := negb (is_hash c) && negb (is_nl c).   (* allowed inside a value *)
(* a token: not empty, no whitespace, no "#" *)
Definition tokenb (t : string) : bool := nonempty t && str_forall (fun c => negb (is_ws c) && negb (is_hash c)) t.

Lemma ws_not_plain_nl c : is_nl c = true -> is_ws c = true.
Proof. unfold is_nl. intros H. apply Ascii.eqb_eq in H. subst. reflexivity. Qed.
Lemma token_char_plain c : negb (is_ws c) && negb (is_hash c) = true -> plain c = true.
Proof.
  unfold plain. rewrite !andb_true_iff, !negb_true_iff. intros [H1 H2]. split; [assumption|].
  destruct (is_nl c) eqn:E; [|reflexivity]. apply ws_not_plain_nl in E. congruence.
Qed.
Lemma ident_char_token c : is_ident_char c = true -> negb (is_ws c) && negb (is_hash c) = true.
Proof.
  destruct c as [[] [] [] [] [] [] [] []]; vm_compute; intros; congruence.
Qed.
Lemma ident_char_not_colon c : is_ident_char c = true -> not_colon c = true.
Proof. destruct c as [[] [] [] [] [] [] [] []]; vm_compute; intros; congruence. Qed.
Lemma digit_ident c : is_digit c = true -> is_ident_char c = true.
Proof. unfold is_ident_char. intros ->. reflexivity. Qed.

(* ---- lstrip / rstrip / strip *)
Lemma lstrip_nows c s : is_ws c = false -> lstrip (String c s) = String c s.
Proof. intros H. cbn. now rewrite H. Qed.
Lemma lstrip_ws c s : is_ws c = true -> lstrip (String c s) = lstrip s.
Proof. intros H. cbn. now rewrite H. Qed.
Lemma lstrip_space s : lstrip (" " +++ s) = lstrip s.
Proof. reflexivity. Qed.
Lemma lstrip_idem s : lstrip (lstrip s) = lstrip s.
Proof. induction s; cbn; [reflexivity|]. destruct (is_ws a) eqn:E; [assumption|]. cbn. now rewrite E. Qed.
Lemma lstrip_app a b : a <> "" -> lstrip a = a -> lstrip (a +++ b) = a +++ b.
Proof.
  destruct a as [|c a]; [congruence|]. intros _. cbn. destruct (is_ws c) eqn:E; [|reflexivity].
  intros H. exfalso. assert (L : forall s, (String.length (lstrip s) <= String.length s)%nat).
  { induction s; cbn; [lia|]. destruct (is_ws a0); cbn; lia. }
  specialize (L a). rewrite H in L. cbn in L. lia.
Qed.
Lemma lstrip_first s : lstrip s = s -> match s with "" => True | String c _ => is_ws c = false end.
Proof.
  destruct s as [|c s]; [trivial|]. cbn. destruct (is_ws c) eqn:E; [|reflexivity].
  intros H. exfalso. assert (L : forall s, (String.length (lstrip s) <= String.length s)%nat).
  { induction s0; cbn; [lia|]. destruct (is_ws a); cbn; lia. }
  specialize (L s). rewrite H in L. cbn in L. lia.
Qed.

Lemma rstrip_nonempty_tail c s : rstrip s <> "" -> rstrip (String c s) = String c (rstrip s).
Proof. intros H. cbn [rstrip]. destruct (rstrip s) eqn:E; [now elim H|reflexivity]. Qed.
Lemma rstrip_idem s : rstrip (rstrip s) = rstrip s.
Proof.
  induction s; [reflexivity|]. cbn [rstrip].
  destruct (String.eqb (rstrip s) "" && is_ws a) eqn:C; [reflexivity|]. cbn [rstrip]. rewrite IHs, C. reflexivity.
Qed.
Lemma rstrip_app a b : b <> "" -> rstrip b = b -> rstrip (a +++ b) = a +++ b.
Proof.
  intros Hb Hr. induction a; cbn; [assumption|]. rewrite IHa.
  destruct (a0 +++ b) eqn:E; [|reflexivity]. apply sapp_eq_nil in E. tauto.
Qed.
Lemma rstrip_nil_iff s : rstrip s = "" <-> str_forall is_ws s = true.
Proof.
  induction s; cbn; [tauto|]. destruct (rstrip s) eqn:E; cbn.
  - destruct (is_ws a); cbn; [tauto|]. split; [discriminate|]. intros; discriminate.
  - split; [discriminate|]. rewrite andb_true_iff. intros [_ H]. apply IHs in H. discriminate.
Qed.
Lemma rstrip_first c s : is_ws c = false -> rstrip (String c s) = String c (rstrip s).
Proof. intros H. cbn. rewrite H, andb_false_r. reflexivity. Qed.

Lemma strip_ok s : lstrip s = s -> rstrip s = s -> strip s = s.
Proof. unfold strip. intros -> ->. reflexivity. Qed.
Lemma strip_lclean s : lstrip (strip s) = strip s.
Proof.
  unfold strip. pose proof (lstrip_first (lstrip s) (lstrip_idem s)) as H.
  destruct (lstrip s) as [|c r]; [reflexivity|]. rewrite (rstrip_first c r H). now apply lstrip_nows.
Qed.
Lemma strip_rclean s : rstrip (strip s) = strip s.
Proof. unfold strip. apply rstrip_idem. Qed.
Lemma strip_idem s : strip (strip s) = strip s.
Proof. apply strip_ok; [apply strip_lclean | apply strip_rclean]. Qed.
Lemma strip_space s : strip (" " +++ s) = strip s.
Proof. reflexivity. Qed.
Lemma strip_indent s : strip (indent +++ s) = strip s.
Proof. reflexivity. Qed.

(* ---- generic preservation of a character property by the cutting functions *)
Section Preserve.
  Variable f : ascii -> bool.
  Lemma forall_lstrip s : str_forall f s = true -> str_forall f (lstrip s) = true.
  Proof.
    induction s; cbn; [reflexivity|]. rewrite andb_true_iff. intros [H1 H2].
    destruct (is_ws a); [auto|]. cbn. now rewrite H1, H2.
  Qed.
  Lemma forall_rstrip s : str_forall f s = true -> str_forall f (rstrip s) = true.
  Proof.
    induction s; cbn; [reflexivity|]. rewrite andb_true_iff. intros [H1 H2].
    destruct (String.eqb (rstrip s) "" && is_ws a); [reflexivity|]. cbn. rewrite H1. auto.
  Qed.
  Lemma forall_strip s : str_forall f s = true -> str_forall f (strip s) = true.
  Proof. intros H. unfold strip. now apply forall_rstrip, forall_lstrip. Qed.
  Lemma forall_cut_comment s : str_forall f s = true -> str_forall f (cut_comment s) = true.
  Proof.
    induction s; cbn; [reflexivity|]. rewrite andb_true_iff. intros [H1 H2].
    destruct (is_hash a); [reflexivity|]. cbn. rewrite H1. auto.
  Qed.
  Lemma forall_split_colon s k v :
    str_forall f s = true -> split_colon s = Some (k, v) -> str_forall f k = true /\ str_forall f v = true.
  Proof.
    revert k. induction s; cbn; [discriminate|]. intros k. rewrite andb_true_iff. intros [H1 H2].
    destruct (Ascii.eqb a ":").
    - intros [= <- <-]. auto.
    - destruct (split_colon s) as [[k' v']|] eqn:E; [|discriminate]. intros [= <- <-].
      destruct (IHs k' H2 eq_refl) as [A B]. cbn. rewrite H1. auto.
  Qed.
  Lemma forall_span_tok s :
    str_forall f s = true -> str_forall f (fst (span_tok s)) = true /\ str_forall f (snd (span_tok s)) = true.
  Proof.
    induction s; cbn; [auto|]. rewrite andb_true_iff. intros [H1 H2].
    destruct (is_ws a); cbn; [rewrite H1, H2; auto|].
    destruct (span_tok s) as [t r]. cbn in *. destruct (IHs H2) as [A B]. rewrite H1. auto.
  Qed.
  Lemma forall_split_max n s : str_forall f s = true -> Forall (fun t => str_forall f t = true) (split_max n s).
  Proof.
    revert s. induction n; intros s H; cbn.
    - pose proof (forall_lstrip s H). destruct (lstrip s); constructor; auto.
    - pose proof (forall_lstrip s H) as L. destruct (lstrip s) as [|c r] eqn:E; [constructor|].
      pose proof (forall_span_tok _ L) as [A B]. destruct (span_tok (String c r)) as [t r']. cbn in *.
      constructor; auto.
  Qed.
End Preserve.

Lemma cut_comment_nohash s : str_forall not_hash (cut_comment s) = true.
Proof. induction s; cbn; [reflexivity|]. unfold not_hash at 1. destruct (is_hash a) eqn:E; cbn; [reflexivity|]. unfold not_hash. now rewrite E. Qed.
Lemma cut_comment_id s : str_forall not_hash s = true -> cut_comment s = s.
Proof.
  induction s; cbn; [reflexivity|]. unfold not_hash at 1. rewrite andb_true_iff, negb_true_iff. intros [-> H]. now rewrite IHs.
Qed.

(* ---- split_colon *)
Lemma split_colon_app k rest : str_forall not_colon k = true -> split_colon (k +++ String ":" rest) = Some (k, rest).
Proof.
  induction k; cbn; [reflexivity|]. unfold not_colon at 1. rewrite andb_true_iff, negb_true_iff. intros [-> H].
  now rewrite IHk.
Qed.

(* ---- span_tok / split_max / split_ws / join *)
Definition starts_ws_or_nil (s : string) : Prop := match s with "" => True | String c _ => is_ws c = true end.
Lemma span_tok_app t rest :
  str_forall not_ws t = true -> starts_ws_or_nil rest -> span_tok (t +++ rest) = (t, rest).
Proof.
  intros Ht Hr. induction t; cbn.
  - destruct rest; [reflexivity|]. cbn in Hr. cbn. now rewrite Hr.
  - cbn in Ht. unfold not_ws at 1 in Ht. rewrite andb_true_iff, negb_true_iff in Ht. destruct Ht as [-> Ht].
    now rewrite IHt.
Qed.
Lemma token_parts t : tokenb t = true -> t <> "" /\ str_forall not_ws t = true /\ str_forall not_hash t = true.
Proof.
  unfold tokenb. rewrite andb_true_iff, str_forall_and, andb_true_iff. intros [H1 [H2 H3]].
  apply nonempty_true in H1. auto.
Qed.
Lemma token_lstrip t : tokenb t = true -> lstrip t = t.
Proof.
  intros H. destruct (token_parts t H) as (H1 & H2 & _). destruct t; [congruence|]. cbn in H2.
  unfold not_ws at 1 in H2. rewrite andb_true_iff, negb_true_iff in H2. apply lstrip_nows. tauto.
Qed.
Lemma nows_rstrip t : str_forall not_ws t = true -> rstrip t = t.
Proof.
  induction t; cbn; [reflexivity|]. unfold not_ws at 1. rewrite andb_true_iff, negb_true_iff. intros [H1 H2].
  rewrite IHt by assumption. now rewrite H1, andb_false_r.
Qed.
Lemma token_rstrip t : tokenb t = true -> rstrip t = t.
Proof. intros H. apply nows_rstrip. now destruct (token_parts t H) as (_ & ? & _). Qed.
Lemma token_plain t : tokenb t = true -> str_forall plain t = true.
Proof.
  unfold tokenb. rewrite andb_true_iff. intros [_ H]. revert H. apply str_forall_impl. apply token_char_plain.
Qed.

(* one step of split: a token followed by a blank *)
Lemma split_max_step n t rest :
  tokenb t = true -> split_max (S n) (t +++ " " +++ rest) = t :: split_max n rest.
Proof.
  intros H. destruct (token_parts t H) as (H1 & H2 & _).
  cbn [split_max]. rewrite lstrip_app by (auto using token_lstrip).
  destruct (t +++ " " +++ rest) eqn:E; [apply sapp_eq_nil in E; tauto|]. rewrite <- E.
  rewrite span_tok_app by (auto; cbn; reflexivity).
  destruct n; cbn [split_max]; rewrite lstrip_space; reflexivity.
Qed.
Lemma split_max_last n t : tokenb t = true -> split_max n t = [t].
Proof.
  intros H. destruct (token_parts t H) as (H1 & H2 & _). destruct n; cbn [split_max]; rewrite (token_lstrip t H).
  - destruct t; [congruence|reflexivity].
  - destruct t as [|c t']; [congruence|]. rewrite <- (sapp_nil_r (String c t')) at 1.
    rewrite span_tok_app by (auto; cbn; trivial). destruct n; reflexivity.
Qed.
Lemma split_max_0 s : lstrip s = s -> s <> "" -> split_max 0 s = [s].
Proof. intros H1 H2. cbn. rewrite H1. destruct s; [congruence|reflexivity]. Qed.
Lemma split_max_nil n : split_max n "" = [].
Proof. destruct n; reflexivity. Qed.

Lemma join_cons2 sep a b r : join sep (a :: b :: r) = a +++ sep +++ join sep (b :: r).
Proof. reflexivity. Qed.
Lemma join_tokens_split n toks :
  Forall (fun t => tokenb t = true) toks -> (List.length toks <= n)%nat -> split_max n (join " " toks) = toks.
Proof.
  revert n. induction toks as [|a r IH]; intros n HF Hn.
  - apply split_max_nil.
  - inversion_clear HF as [|? ? Ha Hr]. destruct r as [|b r].
    + cbn [join]. now apply split_max_last.
    + rewrite join_cons2. destruct n; [cbn in Hn; lia|]. rewrite split_max_step by assumption.
      f_equal. apply IH; [assumption | cbn in *; lia].
Qed.
Lemma join_length_ge toks :
  Forall (fun t => tokenb t = true) toks -> (List.length toks <= String.length (join " " toks))%nat.
Proof.
  induction toks as [|a r IH]; intros HF; [cbn; lia|]. inversion_clear HF as [|? ? Ha Hr].
  destruct (token_parts a Ha) as (H1 & _). destruct r as [|b r].
  - cbn. destruct a; [congruence|cbn; lia].
  - rewrite join_cons2, !sapp_length. specialize (IH Hr). cbn [List.length] in *. cbn [String.length]. lia.
Qed.
Lemma split_ws_join toks : Forall (fun t => tokenb t = true) toks -> split_ws (join " " toks) = toks.
Proof. intros H. unfold split_ws. apply join_tokens_split; [assumption | now apply join_length_ge]. Qed.

Lemma join_app_ne a b : a <> [] -> b <> [] -> join " " (a ++ b) = join " " a +++ " " +++ join " " b.
Proof.
  intros Ha Hb. induction a as [|x a IH]; [congruence|]. destruct a as [|y a].
  - destruct b; [congruence|]. reflexivity.
  - assert (IH' : join " " ((y :: a) ++ b) = join " " (y :: a) +++ " " +++ join " " b) by (apply IH; discriminate).
    change ((x :: y :: a) ++ b) with (x :: y :: (a ++ b)). rewrite join_cons2.
    change (y :: a ++ b) with ((y :: a) ++ b). rewrite IH'. rewrite join_cons2. rewrite !sapp_assoc. reflexivity.
Qed.
(* " ".join([" ".join(a)] + b) = " ".join(a + b) when a is not empty *)
Lemma join_join a b : a <> [] -> join " " (join " " a :: b) = join " " (a ++ b).
Proof.
  intros Ha. destruct b as [|y b]; [now rewrite app_nil_r|].
  rewrite join_cons2. rewrite (join_app_ne a (y :: b) Ha) by discriminate. reflexivity.
Qed.
Lemma join_nil_iff toks : Forall (fun t => tokenb t = true) toks -> join " " toks = "" -> toks = [].
Proof.
  destruct toks as [|a r]; [reflexivity|]. intros HF. inversion_clear HF as [|? ? Ha Hr].
  destruct (token_parts a Ha) as (H1 & _). destruct r; cbn; [congruence|]. intros E. apply sapp_eq_nil in E. tauto.
Qed.

(* a blank-separated list of tokens is a value: no outer whitespace, no "#", no newline *)
Lemma join_tokens_plain toks : Forall (fun t => tokenb t = true) toks -> str_forall plain (join " " toks) = true.
Proof.
  induction toks as [|a r IH]; intros HF; [reflexivity|]. inversion_clear HF as [|? ? Ha Hr]. destruct r as [|b r].
  - now apply token_plain.
  - rewrite join_cons2, !str_forall_app, (token_plain a Ha), (IH Hr). reflexivity.
Qed.
Lemma join_tokens_lstrip toks : Forall (fun t => tokenb t = true) toks -> lstrip (join " " toks) = join " " toks.
Proof.
  destruct toks as [|a r]; intros HF; [reflexivity|]. inversion_clear HF as [|? ? Ha Hr].
  destruct (token_parts a Ha) as (H1 & _). destruct r as [|b r]; [now apply token_lstrip|].
  rewrite join_cons2. apply lstrip_app; [assumption | now apply token_lstrip].
Qed.
Lemma join_tokens_rstrip toks : Forall (fun t => tokenb t = true) toks -> rstrip (join " " toks) = join " " toks.
Proof.
  induction toks as [|a r IH]; intros HF; [reflexivity|]. inversion_clear HF as [|? ? Ha Hr]. destruct r as [|b r].
  - now apply token_rstrip.
  - rewrite join_cons2. rewrite <- sapp_assoc. apply rstrip_app; [|now apply IH].
    inversion_clear Hr as [|? ? Hb _]. destruct (token_parts b Hb) as (H1 & _).
    destruct r; cbn; [assumption|]. intros E. apply sapp_eq_nil in E. tauto.
Qed.

(* ---- identifiers *)
Lemma str_filter_forall f s : str_forall f (str_filter f s) = true.
Proof. induction s; cbn; [reflexivity|]. destruct (f a) eqn:E; cbn; [now rewrite E|assumption]. Qed.
Lemma str_filter_id f s : str_forall f s = true -> str_filter f s = s.
Proof. induction s; cbn; [reflexivity|]. rewrite andb_true_iff. intros [-> H]. now rewrite IHs. Qed.

Lemma as_identifier_chars n : str_forall is_ident_char (as_identifier n) = true.
Proof.
  unfold as_identifier. pose proof (str_filter_forall is_ident_char n) as H.
  destruct (str_filter is_ident_char n) as [|c r]; [reflexivity|].
  change (String.eqb (String c r) "") with false. cbv iota. destruct (is_digit c); [|assumption].
  change (str_forall is_ident_char (String "_" (String c r))) with (is_ident_char "_" && str_forall is_ident_char (String c r)).
  now rewrite H.
Qed.
Lemma as_identifier_nonempty n : as_identifier n <> "".
Proof.
  unfold as_identifier. destruct (str_filter is_ident_char n) as [|c r]; [discriminate|].
  change (String.eqb (String c r) "") with false. cbv iota. destruct (is_digit c); discriminate.
Qed.
Lemma as_identifier_first n : match as_identifier n with String c _ => is_digit c = false | "" => False end.
Proof.
  unfold as_identifier. destruct (str_filter is_ident_char n) as [|c r]; [reflexivity|].
  change (String.eqb (String c r) "") with false. cbv iota. destruct (is_digit c) eqn:E; [reflexivity|assumption].
Qed.
Lemma as_identifier_idem n : as_identifier (as_identifier n) = as_identifier n.
Proof.
  pose proof (as_identifier_chars n) as H1. pose proof (as_identifier_first n) as H2.
  destruct (as_identifier n) as [|c r] eqn:E; [contradiction|].
  unfold as_identifier. rewrite (str_filter_id _ _ H1).
  change (String.eqb (String c r) "") with false. cbv iota. now rewrite H2.
Qed.
Lemma ident_token n : ident_ok n = true -> tokenb n = true.
Proof.
  unfold ident_ok. intros H. apply String.eqb_eq in H. unfold tokenb. rewrite andb_true_iff. split.
  - apply nonempty_true. rewrite <- H. apply as_identifier_nonempty.
  - rewrite <- H. generalize (as_identifier_chars n). apply str_forall_impl. apply ident_char_token.
Qed.
Lemma ident_ok_id n : ident_ok n = true -> as_identifier n = n.
Proof. unfold ident_ok. apply String.eqb_eq. Qed.
Lemma ident_ok_as_identifier n : ident_ok (as_identifier n) = true.
Proof. unfold ident_ok. apply String.eqb_eq. apply as_identifier_idem. Qed.

(* ---- integers *)
Definition digit_or_minus (c : ascii) : bool := is_digit c || Ascii.eqb c "-".
Lemma uint_chars u : str_forall is_digit (NilEmpty.string_of_uint u) = true.
Proof. induction u; cbn; auto. Qed.
Lemma uint_chars0 u : str_forall is_digit (NilZero.string_of_uint u) = true.
Proof. destruct u; try reflexivity; apply (uint_chars (_ u)). Qed.
Lemma string_of_Z_chars z : str_forall digit_or_minus (string_of_Z z) = true.
Proof.
  unfold string_of_Z. destruct (Z.to_int z) as [u|u]; cbn [NilZero.string_of_int].
  - generalize (uint_chars0 u). apply str_forall_impl. intros c H. unfold digit_or_minus. now rewrite H.
  - cbn [str_forall]. change (digit_or_minus "-") with true. cbn [andb].
    generalize (uint_chars0 u). apply str_forall_impl. intros c H. unfold digit_or_minus. now rewrite H.
Qed.
Lemma string_of_Z_nonempty z : string_of_Z z <> "".
Proof.
  unfold string_of_Z. destruct (Z.to_int z) as [u|u]; cbn [NilZero.string_of_int]; [|discriminate].
  destruct u; cbn; discriminate.
Qed.
Lemma digit_or_minus_token c : digit_or_minus c = true -> negb (is_ws c) && negb (is_hash c) = true.
Proof. destruct c as [[] [] [] [] [] [] [] []]; vm_compute; intros; congruence. Qed.
Lemma digit_or_minus_not_plus c : digit_or_minus c = true -> Ascii.eqb c "+" = false.
Proof. destruct c as [[] [] [] [] [] [] [] []]; vm_compute; intros; congruence. Qed.
Lemma string_of_Z_token z : tokenb (string_of_Z z) = true.
Proof.
  unfold tokenb. rewrite andb_true_iff. split; [apply nonempty_true, string_of_Z_nonempty|].
  generalize (string_of_Z_chars z). apply str_forall_impl. apply digit_or_minus_token.
Qed.
Lemma to_int_not_nil z : Z.to_int z <> Pos Nil /\ Z.to_int z <> Neg Nil.
Proof.
  destruct z; cbn; split; try discriminate; intros [= H]; now apply (Unsigned.to_uint_nonnil p).
Qed.
Lemma Z_of_string_of_Z z : Z_of_string (string_of_Z z) = Some z.
Proof.
  pose proof (string_of_Z_chars z) as HC. pose proof (string_of_Z_nonempty z) as HN.
  unfold Z_of_string. destruct (string_of_Z z) as [|c r] eqn:E; [congruence|].
  cbn [str_forall] in HC. apply andb_true_iff in HC. destruct HC as [HC _].
  apply digit_or_minus_not_plus in HC.
  assert (G : option_map Z.of_int (NilZero.int_of_string (String c r)) = Some z).
  { rewrite <- E. unfold string_of_Z. destruct (to_int_not_nil z) as [A B]. rewrite NilZero.isi by assumption.
    cbn. now rewrite DecimalZ.of_to. }
  destruct c as [b0 b1 b2 b3 b4 b5 b6 b7].
  destruct b0, b1, b2, b3, b4, b5, b6, b7; try exact G; discriminate HC.
Qed.

(* ================================================================================================ lines *)
(* keys: not empty, no colon, no "#"/newline, no outer whitespace *)
Definition key_okb (k : string) : bool :=
  nonempty k && str_forall not_colon k && str_forall plain k && String.eqb (lstrip k) k && String.eqb (rstrip k) k.
Definition value_okb (v : string) : bool :=
  str_forall plain v && String.eqb (lstrip v) v && String.eqb (rstrip v) v.

Lemma key_parts k : key_okb k = true ->
  k <> "" /\ str_forall not_colon k = true /\ str_forall plain k = true /\ lstrip k = k /\ rstrip k = k.
Proof.
  unfold key_okb. rewrite !andb_true_iff, !String.eqb_eq, nonempty_true. tauto.
Qed.
Lemma value_parts v : value_okb v = true -> str_forall plain v = true /\ lstrip v = v /\ rstrip v = v.
Proof. unfold value_okb. rewrite !andb_true_iff, !String.eqb_eq. tauto. Qed.
Lemma value_okb_intro v : str_forall plain v = true -> lstrip v = v -> rstrip v = v -> value_okb v = true.
Proof. intros A B C. unfold value_okb. rewrite A, B, C, !String.eqb_refl. reflexivity. Qed.
Lemma plain_not_hash s : str_forall plain s = true -> str_forall not_hash s = true.
Proof. apply str_forall_impl. intros c. unfold plain, not_hash. rewrite andb_true_iff. tauto. Qed.
Lemma value_strip v : value_okb v = true -> strip v = v.
Proof. intros H. destruct (value_parts v H) as (_ & A & B). now apply strip_ok. Qed.
Lemma token_value t : tokenb t = true -> value_okb t = true.
Proof. intros H. apply value_okb_intro; auto using token_plain, token_lstrip, token_rstrip. Qed.
Lemma tokens_value toks : Forall (fun t => tokenb t = true) toks -> value_okb (join " " toks) = true.
Proof. intros H. apply value_okb_intro; auto using join_tokens_plain, join_tokens_lstrip, join_tokens_rstrip. Qed.

Lemma kv_nonempty k v : k <> "" -> kv k v <> "".
Proof. unfold kv. intros Hk. destruct (String.eqb v ""); intros E; apply sapp_eq_nil in E; tauto. Qed.
Lemma kv_plain k v : str_forall plain k = true -> str_forall plain v = true -> str_forall plain (kv k v) = true.
Proof.
  intros Hk Hv. unfold kv. destruct (String.eqb v ""); rewrite !str_forall_app, Hk; [reflexivity|].
  rewrite Hv. reflexivity.
Qed.
Lemma kv_strip k v : key_okb k = true -> value_okb v = true -> strip (kv k v) = kv k v.
Proof.
  intros Hk Hv. destruct (key_parts k Hk) as (K1 & K2 & K3 & K4 & K5). destruct (value_parts v Hv) as (V1 & V2 & V3).
  apply strip_ok.
  - unfold kv. destruct (String.eqb v ""); now apply lstrip_app.
  - unfold kv. destruct (String.eqb_spec v "") as [E|NE].
    + apply rstrip_app; [discriminate|reflexivity].
    + change (k +++ ": " +++ v) with (k +++ (": " +++ v)). rewrite <- sapp_assoc. now apply rstrip_app.
Qed.
Lemma clean_kv (ind : bool) k v : key_okb k = true -> value_okb v = true ->
  clean_line ((if ind then indent else "") +++ kv k v) = kv k v.
Proof.
  intros Hk Hv. destruct (key_parts k Hk) as (K1 & K2 & K3 & K4 & K5). destruct (value_parts v Hv) as (V1 & V2 & V3).
  unfold clean_line. rewrite cut_comment_id.
  - destruct ind; [rewrite strip_indent|cbn [String.append]]; now apply kv_strip.
  - apply plain_not_hash. rewrite str_forall_app, kv_plain by assumption. now destruct ind.
Qed.
Lemma clean_kv0 k v : key_okb k = true -> value_okb v = true -> clean_line (kv k v) = kv k v.
Proof. intros Hk Hv. exact (clean_kv false k v Hk Hv). Qed.
Lemma clean_kv1 k v : key_okb k = true -> value_okb v = true -> clean_line (indent +++ kv k v) = kv k v.
Proof. intros Hk Hv. exact (clean_kv true k v Hk Hv). Qed.
Lemma key_value_kv k v : key_okb k = true -> value_okb v = true -> key_value (kv k v) = Ok (k, k, v).
Proof.
  intros Hk Hv. destruct (key_parts k Hk) as (K1 & K2 & K3 & K4 & K5).
  unfold key_value. rewrite (clean_kv0 k v Hk Hv). unfold kv. destruct (String.eqb_spec v "") as [E|NE].
  - change (k +++ ":") with (k +++ String ":" ""). rewrite split_colon_app by assumption. subst v.
    rewrite (strip_ok k K4 K5). reflexivity.
  - change (k +++ ": " +++ v) with (k +++ String ":" (" " +++ v)). rewrite split_colon_app by assumption.
    rewrite (strip_ok k K4 K5), strip_space, (value_strip v Hv). reflexivity.
Qed.

(* a block as a list of (key, value) pairs *)
Definition kvline (p : string * string) : string := kv (fst p) (snd p).
Definition iline (p : string * string) : string := indent +++ kvline p.
Definition pair_ok (p : string * string) : Prop := key_okb (fst p) = true /\ value_okb (snd p) = true.

Section Fold.
  Variable S : Type.
  Variable f : string -> string -> string -> S -> result S.
  Fixpoint fold_pairs (ps : list (string * string)) (s : S) : result S :=
    match ps with [] => Ok s | (k, v) :: r => do s' <- f k k v s; fold_pairs r s' end.
  Lemma fold_block_pairs ps s : Forall pair_ok ps -> fold_block f (map kvline ps) s = fold_pairs ps s.
  Proof.
    revert s. induction ps as [|[k v] r IH]; intros s HF; [reflexivity|]. inversion_clear HF as [|? ? [Hk Hv] Hr].
    cbn [map fold_block fold_pairs]. change (kvline (k, v)) with (kv k v). cbn [fst snd] in *.
    rewrite (clean_kv0 k v Hk Hv). destruct (key_parts k Hk) as (K1 & _).
    destruct (String.eqb_spec (kv k v) "") as [E|_]; [now apply kv_nonempty in E|].
    rewrite key_value_kv by assumption. cbn [bind]. destruct (f k k v s); cbn [bind]; [now apply IH|reflexivity].
  Qed.
  Lemma fold_pairs_app a b s : fold_pairs (a ++ b) s = do s' <- fold_pairs a s; fold_pairs b s'.
  Proof.
    revert s. induction a as [|[k v] r IH]; intros s; [reflexivity|]. simpl.
    destruct (f k k v s); simpl; [apply IH|reflexivity].
  Qed.
End Fold.
Arguments fold_pairs {S} f ps s.
Arguments fold_block_pairs {S} f ps s _.
Arguments fold_pairs_app {S} f a b s.

(* ================================================================================================ list helpers *)
Lemma firstn_exact {A} (l r : list A) : firstn (List.length l) (l ++ r) = l.
Proof. induction l; cbn; [now destruct r|now rewrite IHl]. Qed.
Lemma nth_exact {A} (l : list A) x dflt : nth (List.length l) (l ++ [x]) dflt = x.
Proof. induction l; cbn; auto. Qed.
Lemma last_app1 {A} (l : list A) x dflt : last (l ++ [x]) dflt = x.
Proof. apply last_last. Qed.
Lemma removelast_app1 {A} (l : list A) x : removelast (l ++ [x]) = l.
Proof. apply removelast_last. Qed.
Lemma even_app1 {A} (l : list A) x : Nat.even (List.length (l ++ [x])) = negb (Nat.even (List.length l)).
Proof. rewrite app_length. cbn [List.length]. rewrite Nat.add_1_r, Nat.even_succ, <- Nat.negb_even. reflexivity. Qed.

(* the generated term table: class names are tokens (checked by computation on every build) *)
Definition row_name (r : string * nat * bool * bool * bool) : string := fst (fst (fst (fst r))).
Lemma term_table_names : forallb (fun r => tokenb (row_name r)) term_table = true.
Proof. vm_compute. reflexivity. Qed.
Lemma lookup_term_spec cls r : lookup_term cls = Some r -> row_name r = cls /\ tokenb cls = true.
Proof.
  unfold lookup_term. intros H. apply find_some in H. destruct H as [HI HE]. apply String.eqb_eq in HE.
  split; [exact HE|]. pose proof term_table_names as T. rewrite forallb_forall in T. specialize (T r HI).
  unfold row_name in T. now rewrite HE in T.
Qed.

(* ================================================================================================ the round trip *)
Section RoundTrip.
  Variable num : Type.
  Variable fmt : nat -> num -> string.
  Variable parse : string -> option num.
  Variable round : nat -> num -> num.
  Variable close1 : num -> bool.
  Variables n_nan n_pinf n_ninf n_one n_zero : num.
  (* A-fmt: printing then parsing rounds; printing does not see the rounding; printed numbers are tokens *)
  Hypothesis parse_fmt : forall d x, parse (fmt d x) = Some (round d x).
  Hypothesis fmt_round : forall d x, fmt d (round d x) = fmt d x.
  Hypothesis round_idem : forall d x, round d (round d x) = round d x.
  Hypothesis fmt_token : forall d x, tokenb (fmt d x) = true.
  Hypothesis close1_one : close1 n_one = true.
  Variable d : nat.

  Local Notation tok := (fun t : string => tokenb t = true).
  Local Notation normh := (norm_h round close1 n_one d).
  Local Notation hpart := (height_part fmt close1 d).

  (* ---- numbers *)
  Lemma fmt_tokens xs : Forall tok (map (fmt d) xs).
  Proof. induction xs; constructor; auto. Qed.
  Lemma hpart_tokens h : Forall tok (hpart h).
  Proof. unfold height_part. destruct (close1 h); repeat constructor; auto. Qed.
  Lemma parse_all_fmt xs : parse_all parse (map (fmt d) xs) = Ok (map (round d) xs).
  Proof. induction xs as [|x r IH]; [reflexivity|]. cbn [map parse_all]. rewrite parse_fmt, IH. reflexivity. Qed.
  Lemma parse_num_fmt x : parse_num parse (fmt d x) = Ok (round d x).
  Proof. unfold parse_num. now rewrite parse_fmt. Qed.
  Lemma hpart_map h : hpart h = map (fmt d) (if close1 h then [] else [h]).
  Proof. unfold height_part. now destruct (close1 h). Qed.
  Lemma params_split ps h :
    split_ws (join " " (map (fmt d) ps ++ hpart h)) = map (fmt d) (ps ++ (if close1 h then [] else [h])).
  Proof. rewrite hpart_map, <- map_app. apply split_ws_join. apply fmt_tokens. Qed.

  (* ---- Term._parse after Term._parameters *)
  Lemma shape_params_roundtrip ps h arity hh :
    List.length ps = arity -> (hh = true \/ close1 h = true) ->
    parse_shape_params parse n_one arity hh (join " " (map (fmt d) ps ++ hpart h))
    = Ok (map (round d) ps, if hh then normh h else n_one).
  Proof.
    intros HL HH. unfold parse_shape_params. rewrite params_split, parse_all_fmt. cbn [bind]. unfold norm_h.
    assert (L : List.length (map (round d) ps) = arity) by now rewrite map_length.
    destruct (close1 h) eqn:C.
    - rewrite app_nil_r. destruct hh; cbn [andb].
      + rewrite L, Nat.eqb_refl. rewrite app_length, L. cbn [List.length]. rewrite Nat.eqb_refl.
        rewrite <- L. now rewrite firstn_exact, nth_exact.
      + rewrite L, Nat.add_0_r, Nat.eqb_refl. rewrite <- L, firstn_all. reflexivity.
    - destruct HH as [->|HH]; [|congruence]. cbn [andb]. rewrite map_app. cbn [map].
      rewrite app_length, L. cbn [List.length].
      replace (Nat.eqb (arity + 1) arity) with false by (symmetry; apply Nat.eqb_neq; lia).
      rewrite app_length, L. cbn [List.length]. rewrite Nat.eqb_refl.
      rewrite <- L. now rewrite firstn_exact, nth_exact.
  Qed.

  (* ---- values made of a token, a blank and a clean rest *)
  Lemma value_prefix a rest :
    tokenb a = true -> rest <> "" -> str_forall plain rest = true -> rstrip rest = rest ->
    value_okb (a +++ " " +++ rest) = true.
  Proof.
    intros Ha Hne Hp Hr. destruct (token_parts a Ha) as (A1 & _). apply value_okb_intro.
    - rewrite !str_forall_app, (token_plain a Ha), Hp. reflexivity.
    - apply lstrip_app; [assumption|now apply token_lstrip].
    - rewrite <- sapp_assoc. now apply rstrip_app.
  Qed.
  Lemma join2 a b : join " " [a; b] = a +++ " " +++ b.
  Proof. reflexivity. Qed.
  Lemma join3 a b c : join " " [a; b; c] = a +++ " " +++ b +++ " " +++ c.
  Proof. reflexivity. Qed.
  Lemma split2_params n a b p : tokenb a = true -> tokenb b = true ->
    split_max (S (S n)) (a +++ " " +++ b +++ " " +++ p) = a :: b :: split_max n p.
  Proof. intros Ha Hb. now rewrite !split_max_step. Qed.
  Lemma split2_noparams a b : tokenb a = true -> tokenb b = true -> split_max 2 (a +++ " " +++ b) = [a; b].
  Proof. intros Ha Hb. rewrite split_max_step by assumption. now rewrite split_max_last. Qed.

  (* ---- terms *)
  Local Notation tparams := (term_params fmt close1 d).
  Local Notation normt := (normalize_term round close1 n_one d).
  Local Notation imp_term := (import_term parse n_nan n_one).
  Definition term_value (t : fll_term num) : string :=
    join " " (filter nonempty [as_identifier (ft_name t); ft_class t; tparams t]).

  Lemma nonempty_ident n : nonempty (as_identifier n) = true.
  Proof. apply nonempty_true, as_identifier_nonempty. Qed.
  Lemma term_value_cases t : ft_class t <> "" ->
    term_value t = if nonempty (tparams t) then as_identifier (ft_name t) +++ " " +++ ft_class t +++ " " +++ tparams t
                   else as_identifier (ft_name t) +++ " " +++ ft_class t.
  Proof.
    intros Hc. unfold term_value. cbn [filter]. rewrite nonempty_ident.
    replace (nonempty (ft_class t)) with true by (symmetry; now apply nonempty_true).
    destruct (nonempty (tparams t)); reflexivity.
  Qed.
  Lemma term_line_kv t : ft_class t <> "" -> term_line fmt close1 d t = kv "term" (term_value t).
  Proof.
    intros Hc. unfold term_line. fold (term_value t) . unfold term_value. cbn [filter]. rewrite nonempty_ident.
    replace (nonempty (ft_class t)) with true by (symmetry; now apply nonempty_true).
    set (l := if nonempty (tparams t) then [tparams t] else []).
    replace (as_identifier (ft_name t) :: ft_class t :: (if nonempty (tparams t) then [tparams t] else []))
      with (as_identifier (ft_name t) :: ft_class t :: l) by reflexivity.
    rewrite join_cons2. unfold kv.
    destruct (String.eqb_spec (join " " (as_identifier (ft_name t) :: ft_class t :: l)) "") as [E|_]; [|reflexivity].
    rewrite join_cons2 in E. apply sapp_eq_nil in E. destruct E as [E _]. now apply as_identifier_nonempty in E.
  Qed.

  Lemma flatten_length (xy : list (num * num)) : Nat.even (List.length (flatten_xy xy)) = true.
  Proof. induction xy as [|[x y] r IH]; [reflexivity|]. cbn [flatten_xy List.length]. exact IH. Qed.
  Lemma pairs_flatten (xy : list (num * num)) :
    pairs_of (map (round d) (flatten_xy xy)) = map (fun p => (round d (fst p), round d (snd p))) xy.
  Proof. induction xy as [|[x y] r IH]; [reflexivity|]. cbn [flatten_xy map pairs_of fst snd]. now rewrite IH. Qed.

  (* the parameters of a term: "" or a clean text *)
  Lemma tokens_params_ok L : Forall tok L -> L <> [] ->
    join " " L <> "" /\ str_forall plain (join " " L) = true /\ rstrip (join " " L) = join " " L /\ lstrip (join " " L) = join " " L.
  Proof.
    intros HL Hne. repeat split; auto using join_tokens_plain, join_tokens_rstrip, join_tokens_lstrip.
    intros E. now apply join_nil_iff in E.
  Qed.
  Lemma nonempty_join L : Forall tok L -> nonempty (join " " L) = match L with [] => false | _ => true end.
  Proof.
    intros HL. destruct L as [|a r]; [reflexivity|]. apply nonempty_true. intros E. now apply join_nil_iff in E.
  Qed.

  Lemma discrete_params xy h :
    tparams (FDiscrete "" xy h) =
    match xy with
    | [] => if close1 h then "" else " " +++ fmt d h
    | _ => join " " (map (fmt d) (flatten_xy xy ++ (if close1 h then [] else [h])))
    end.
  Proof.
    cbn [term_params]. destruct xy as [|[x y] r].
    - cbn [flatten_xy map join]. unfold height_part. destruct (close1 h); reflexivity.
    - rewrite join_join by (cbn; discriminate). rewrite hpart_map, <- map_app. reflexivity.
  Qed.

  Lemma params_ok t : wf_term close1 t = true -> nonempty (tparams t) = true ->
    str_forall plain (tparams t) = true /\ rstrip (tparams t) = tparams t.
  Proof.
    intros W Hne. destruct t as [n c ps h|n xy h|n cs h|n f h].
    - cbn [term_params] in *. assert (HL : Forall tok (map (fmt d) ps ++ hpart h)) by (apply Forall_app; auto using fmt_tokens, hpart_tokens).
      rewrite nonempty_join in Hne by assumption. destruct (map (fmt d) ps ++ hpart h) eqn:E; [discriminate|].
      rewrite <- E in *. destruct (tokens_params_ok _ HL) as (_ & A & B & _); [congruence|auto].
    - change (tparams (FDiscrete n xy h)) with (tparams (FDiscrete "" xy h)) in *. rewrite discrete_params in *.
      destruct xy as [|p r].
      + destruct (close1 h); [discriminate|]. split.
        * rewrite str_forall_app. cbn [str_forall]. now rewrite (token_plain _ (fmt_token d h)).
        * change (" " +++ fmt d h) with (" " +++ fmt d h). apply rstrip_app; [|now apply token_rstrip].
          now destruct (token_parts _ (fmt_token d h)).
      + assert (HL : Forall tok (map (fmt d) (flatten_xy (p :: r) ++ (if close1 h then [] else [h])))) by apply fmt_tokens.
        destruct (tokens_params_ok _ HL) as (_ & A & B & _); [destruct p; cbn; discriminate|auto].
    - cbn [term_params] in *. assert (HL : Forall tok (map (fmt d) cs ++ hpart h)) by (apply Forall_app; auto using fmt_tokens, hpart_tokens).
      rewrite nonempty_join in Hne by assumption. destruct (map (fmt d) cs ++ hpart h) eqn:E; [discriminate|].
      rewrite <- E in *. destruct (tokens_params_ok _ HL) as (_ & A & B & _); [congruence|auto].
    - cbn [term_params] in *. unfold wf_term in W. rewrite !andb_true_iff in W. destruct W as [_ [W _]].
      unfold value_ok in W. rewrite !andb_true_iff, !String.eqb_eq in W. tauto.
  Qed.

  Lemma wf_term_class t : wf_term close1 t = true -> tokenb (ft_class t) = true.
  Proof.
    intros W. destruct t as [n c ps h|n xy h|n cs h|n f h]; try reflexivity.
    unfold wf_term in W. rewrite !andb_true_iff in W. destruct W as [_ [_ W]]. cbn [ft_class].
    destruct (lookup_term c) as [r|] eqn:L; [|discriminate]. now destruct (lookup_term_spec c r L).
  Qed.
  Lemma wf_term_name t : wf_term close1 t = true -> ident_ok (ft_name t) = true.
  Proof. unfold wf_term. rewrite andb_true_iff. tauto. Qed.

  Lemma term_value_ok t : wf_term close1 t = true -> value_okb (term_value t) = true.
  Proof.
    intros W. pose proof (wf_term_class t W) as HC. pose proof (wf_term_name t W) as HN.
    destruct (token_parts _ HC) as (C1 & _).
    rewrite term_value_cases by assumption. rewrite (ident_ok_id _ HN). pose proof (ident_token _ HN) as TN.
    destruct (nonempty (tparams t)) eqn:E.
    - destruct (params_ok t W E) as [A B]. apply nonempty_true in E. apply value_prefix; auto.
      + intros X. apply sapp_eq_nil in X. tauto.
      + rewrite !str_forall_app, (token_plain _ HC), A. reflexivity.
      + rewrite <- sapp_assoc. now apply rstrip_app.
    - apply value_prefix; auto using token_plain, token_rstrip.
  Qed.

  Lemma import_term_roundtrip t : wf_term close1 t = true -> imp_term "term" (term_value t) = Ok (normt t).
  Proof.
    intros W. pose proof (wf_term_class t W) as HC. pose proof (wf_term_name t W) as HN.
    destruct (token_parts _ HC) as (C1 & _). pose proof (ident_token _ HN) as TN.
    unfold import_term. cbn [String.eqb Ascii.eqb Bool.eqb negb].
    rewrite term_value_cases by assumption. rewrite (ident_ok_id _ HN).
    destruct t as [n c ps h|n xy h|n cs h|n f h]; cbn [ft_name ft_class] in *.
    - (* a class of the generated table *)
      unfold wf_term in W. cbn [ft_name] in W. rewrite !andb_true_iff, negb_true_iff in W. destruct W as [_ [SP W]].
      destruct (lookup_term c) as [r|] eqn:L; [|discriminate]. rewrite andb_true_iff, Nat.eqb_eq, orb_true_iff in W.
      destruct W as [HL HH]. unfold is_special_class in SP. rewrite !orb_false_iff in SP. destruct SP as [[S1 S2] S3].
      cbn [term_params]. assert (HT : Forall tok (map (fmt d) ps ++ hpart h)) by (apply Forall_app; auto using fmt_tokens, hpart_tokens).
      rewrite nonempty_join by assumption. destruct (map (fmt d) ps ++ hpart h) as [|x l] eqn:E.
      + rewrite split2_noparams by assumption. rewrite (ident_ok_id _ HN). unfold construct_term. rewrite S1, S2, S3, L.
        apply app_eq_nil in E. destruct E as [E1 E2]. apply map_eq_nil in E1. subst ps. cbn [List.length] in HL. rewrite <- HL.
        cbn [repeat normalize_term map]. rewrite L. unfold norm_h. unfold height_part in E2.
        destruct (close1 h); [|discriminate]. now destruct (row_height r).
      + rewrite <- E in HT |- *. destruct (tokens_params_ok _ HT) as (P1 & _ & _ & P4); [congruence|].
        rewrite split2_params by assumption. rewrite split_max_0 by assumption. rewrite (ident_ok_id _ HN).
        unfold construct_term. rewrite S1, S2, S3, L. rewrite shape_params_roundtrip by auto. cbn [bind fst snd normalize_term].
        now rewrite L.
    - (* Discrete *)
      change (tparams (FDiscrete n xy h)) with (tparams (FDiscrete "" xy h)). rewrite discrete_params.
      cbn [normalize_term]. unfold norm_h. destruct xy as [|p r].
      + destruct (close1 h) eqn:C.
        * cbn [nonempty String.eqb negb]. rewrite split2_noparams by auto. now rewrite (ident_ok_id _ HN).
        * change (nonempty (" " +++ fmt d h)) with true. cbv iota.
          rewrite split2_params by auto. cbn [split_max]. rewrite lstrip_space, (token_lstrip _ (fmt_token d h)).
          destruct (fmt d h) eqn:F; [now destruct (token_parts _ (fmt_token d h))|]. rewrite <- F.
          rewrite (ident_ok_id _ HN). unfold construct_term. cbn [String.eqb Ascii.eqb Bool.eqb].
          unfold configure_discrete. replace (split_ws (fmt d h)) with [fmt d h]
            by (symmetry; apply (split_ws_join [fmt d h]); repeat constructor; auto).
          cbn [List.length Nat.even last removelast parse_all]. rewrite parse_num_fmt. reflexivity.
      + set (L := map (fmt d) (flatten_xy (p :: r) ++ (if close1 h then [] else [h]))).
        assert (HT : Forall tok L) by apply fmt_tokens.
        destruct (tokens_params_ok _ HT) as (P1 & _ & _ & P4); [unfold L; destruct p; cbn; discriminate|].
        replace (nonempty (join " " L)) with true by (symmetry; now apply nonempty_true). cbv iota.
        rewrite split2_params by auto. rewrite split_max_0 by assumption. rewrite (ident_ok_id _ HN).
        unfold construct_term. cbn [String.eqb Ascii.eqb Bool.eqb]. unfold configure_discrete.
        rewrite (split_ws_join L HT). unfold L. destruct (close1 h) eqn:C.
        * rewrite app_nil_r, map_length, flatten_length, parse_all_fmt. cbn [bind]. now rewrite pairs_flatten.
        * rewrite map_app. cbn [map]. rewrite even_app1, map_length, flatten_length. cbn [negb].
          rewrite last_app1, removelast_app1, parse_num_fmt, parse_all_fmt. cbn [bind]. now rewrite pairs_flatten.
    - (* Linear *)
      cbn [term_params normalize_term]. assert (HT : Forall tok (map (fmt d) cs ++ hpart h)) by (apply Forall_app; auto using fmt_tokens, hpart_tokens).
      rewrite nonempty_join by assumption. destruct (map (fmt d) cs ++ hpart h) as [|x l] eqn:E.
      + rewrite split2_noparams by auto. rewrite (ident_ok_id _ HN). unfold construct_term. cbn [String.eqb Ascii.eqb Bool.eqb].
        apply app_eq_nil in E. destruct E as [E1 E2]. apply map_eq_nil in E1. subst cs. unfold height_part in E2.
        destruct (close1 h); [reflexivity|discriminate].
      + rewrite <- E in HT |- *. destruct (tokens_params_ok _ HT) as (P1 & _ & _ & P4); [congruence|].
        rewrite split2_params by auto. rewrite split_max_0 by assumption. rewrite (ident_ok_id _ HN).
        unfold construct_term. cbn [String.eqb Ascii.eqb Bool.eqb]. rewrite params_split, parse_all_fmt. cbn [bind].
        rewrite map_app. now destruct (close1 h).
    - (* Function *)
      cbn [term_params normalize_term]. unfold wf_term in W. rewrite !andb_true_iff in W. destruct W as [_ [W1 W2]].
      rewrite W2. unfold value_ok in W1. rewrite !andb_true_iff, !String.eqb_eq in W1. destruct W1 as [[_ V2] _].
      apply nonempty_true in W2. rewrite split2_params by auto. rewrite split_max_0 by assumption. rewrite (ident_ok_id _ HN).
      reflexivity.
  Qed.

  (* ---- booleans, ranges, operators *)
  Lemma import_bool_fmt b : import_bool (fmt_bool b) = Ok b.
  Proof. now destruct b. Qed.
  Lemma import_range_fmt lo hi :
    import_range parse (join_nonempty [fmt d lo; fmt d hi]) = Ok (round d lo, round d hi).
  Proof.
    assert (N : forall x, nonempty (fmt d x) = true) by (intros x; apply nonempty_true; now destruct (token_parts _ (fmt_token d x))).
    unfold join_nonempty. cbn [filter]. rewrite !N.
    unfold import_range. rewrite (split_ws_join [fmt d lo; fmt d hi]) by (repeat constructor; auto).
    now rewrite !parse_num_fmt.
  Qed.
  Lemma import_tnorm_text n : import_tnorm (tnorm_text n) = Ok n.
  Proof. destruct n as [n|]; [destruct n|]; reflexivity. Qed.
  Lemma import_snorm_text n : import_snorm (snorm_text n) = Ok n.
  Proof. destruct n as [n|]; [destruct n|]; reflexivity. Qed.

  (* ---- defuzzifiers *)
  Lemma join_nonempty2 a b : a <> "" -> join_nonempty [a; b] = if nonempty b then a +++ " " +++ b else a.
  Proof.
    intros Ha. unfold join_nonempty. cbn [filter]. rewrite (proj2 (nonempty_true a) Ha). now destruct (nonempty b).
  Qed.
  Lemma integral_name_token k : tokenb (integral_name k) = true.
  Proof. now destruct k. Qed.
  Lemma find_integral k : find_named integral_name all_integral (integral_name k) = Some k.
  Proof. now destruct k. Qed.
  Lemma blank_or_none_app a rest : tokenb a = true -> String.eqb a "none" = false ->
    String.eqb (a +++ " " +++ rest) "" || String.eqb (a +++ " " +++ rest) "none" = false.
  Proof.
    intros Ha Hn. destruct (token_parts a Ha) as (A1 & A2 & _). apply orb_false_iff. split.
    - apply String.eqb_neq. intros E. apply sapp_eq_nil in E. tauto.
    - apply String.eqb_neq. intros E.
      assert (H : split_max 1 (a +++ " " +++ rest) = split_max 1 "none") by now rewrite E.
      rewrite split_max_step in H by assumption. cbn in H. injection H as H _. subst a. discriminate.
  Qed.
  Lemma import_defuzzifier_text f : import_defuzzifier (defuzzifier_text f) = Ok f.
  Proof.
    destruct f as [f|]; [|reflexivity]. unfold defuzzifier_text.
    destruct f as [k r|a t].
    - cbn [defuzzifier_class defuzzifier_params]. rewrite join_nonempty2 by (now destruct k).
      destruct (Z.eqb_spec r default_resolution) as [->|NE].
      + now destruct k.
      + rewrite (proj2 (nonempty_true _) (string_of_Z_nonempty r)). unfold import_defuzzifier.
        rewrite blank_or_none_app by (now destruct k).
        rewrite split_max_step by apply integral_name_token. rewrite split_max_0
          by (auto using token_lstrip, string_of_Z_token, string_of_Z_nonempty).
        unfold construct_defuzzifier. rewrite find_integral. cbn [bind configure_defuzzifier].
        unfold parse_int. now rewrite Z_of_string_of_Z.
    - destruct a, t; reflexivity.
  Qed.

  (* ---- activation methods *)
  Local Notation imp_act := (import_activation parse n_zero).
  Lemma two_tokens_join a b : tokenb a = true -> tokenb b = true -> two_tokens (a +++ " " +++ b) = Ok (a, b).
  Proof.
    intros Ha Hb. unfold two_tokens. change (a +++ " " +++ b) with (join " " [a; b]).
    rewrite (split_ws_join [a; b]) by (repeat constructor; auto). reflexivity.
  Qed.
  Lemma comparator_token c : tokenb (comparator_name c) = true.
  Proof. now destruct c. Qed.
  Lemma find_comparator c : find_named comparator_name all_comparators (comparator_name c) = Some c.
  Proof. now destruct c. Qed.
  Lemma import_activation_text a : imp_act (activation_text fmt d a) = Ok (option_map (normalize_activation round d) a).
  Proof.
    destruct a as [a|]; [|reflexivity]. unfold activation_text, import_activation.
    destruct a as [|n t|n t|n|n| |c t]; cbn [activation_class activation_params option_map normalize_activation]; try reflexivity.
    - rewrite join_nonempty2 by discriminate.
      assert (T : tokenb (string_of_Z n) = true) by apply string_of_Z_token. destruct (token_parts _ T) as (T1 & _).
      replace (nonempty (string_of_Z n +++ " " +++ fmt d t)) with true
        by (symmetry; apply nonempty_true; intros E; apply sapp_eq_nil in E; tauto).
      rewrite blank_or_none_app by reflexivity. rewrite split_max_step by reflexivity.
      rewrite split_max_0 by (try apply lstrip_app; auto using token_lstrip; intros E; apply sapp_eq_nil in E; tauto).
      cbn [construct_activation String.eqb Ascii.eqb Bool.eqb bind configure_activation].
      rewrite two_tokens_join by auto. cbn [bind fst snd]. unfold parse_int. rewrite Z_of_string_of_Z. cbn [bind].
      now rewrite parse_num_fmt.
    - rewrite join_nonempty2 by discriminate.
      assert (T : tokenb (string_of_Z n) = true) by apply string_of_Z_token. destruct (token_parts _ T) as (T1 & _).
      replace (nonempty (string_of_Z n +++ " " +++ fmt d t)) with true
        by (symmetry; apply nonempty_true; intros E; apply sapp_eq_nil in E; tauto).
      rewrite blank_or_none_app by reflexivity. rewrite split_max_step by reflexivity.
      rewrite split_max_0 by (try apply lstrip_app; auto using token_lstrip; intros E; apply sapp_eq_nil in E; tauto).
      cbn [construct_activation String.eqb Ascii.eqb Bool.eqb bind configure_activation].
      rewrite two_tokens_join by auto. cbn [bind fst snd]. unfold parse_int. rewrite Z_of_string_of_Z. cbn [bind].
      now rewrite parse_num_fmt.
    - rewrite join_nonempty2 by discriminate.
      assert (T : tokenb (string_of_Z n) = true) by apply string_of_Z_token. destruct (token_parts _ T) as (T1 & _).
      rewrite (proj2 (nonempty_true _) T1). rewrite blank_or_none_app by reflexivity. rewrite split_max_step by reflexivity.
      rewrite split_max_0 by auto using token_lstrip.
      cbn [construct_activation String.eqb Ascii.eqb Bool.eqb bind configure_activation].
      unfold parse_int. now rewrite Z_of_string_of_Z.
    - rewrite join_nonempty2 by discriminate.
      assert (T : tokenb (string_of_Z n) = true) by apply string_of_Z_token. destruct (token_parts _ T) as (T1 & _).
      rewrite (proj2 (nonempty_true _) T1). rewrite blank_or_none_app by reflexivity. rewrite split_max_step by reflexivity.
      rewrite split_max_0 by auto using token_lstrip.
      cbn [construct_activation String.eqb Ascii.eqb Bool.eqb bind configure_activation].
      unfold parse_int. now rewrite Z_of_string_of_Z.
    - rewrite join_nonempty2 by discriminate.
      pose proof (comparator_token c) as T. destruct (token_parts _ T) as (T1 & _).
      replace (nonempty (comparator_name c +++ " " +++ fmt d t)) with true
        by (symmetry; apply nonempty_true; intros E; apply sapp_eq_nil in E; tauto).
      rewrite blank_or_none_app by reflexivity. rewrite split_max_step by reflexivity.
      rewrite split_max_0 by (try apply lstrip_app; auto using token_lstrip; intros E; apply sapp_eq_nil in E; tauto).
      cbn [construct_activation String.eqb Ascii.eqb Bool.eqb bind configure_activation].
      rewrite two_tokens_join by auto. cbn [bind fst snd]. rewrite find_comparator. now rewrite parse_num_fmt.
  Qed.

  (* ---- rules *)
  Lemma join_cons_ne x l : l <> [] -> join " " (x :: l) = x +++ " " +++ join " " l.
  Proof. destruct l; [congruence|reflexivity]. Qed.
  Lemma join_inner P A S : A <> [] -> join " " (P ++ join " " A :: S) = join " " (P ++ A ++ S).
  Proof.
    intros HA. induction P as [|x P IH]; [cbn [Datatypes.app]; exact (join_join A S HA)|].
    cbn [Datatypes.app]. rewrite !join_cons_ne; [now rewrite IH| |].
    - destruct P, A; cbn; congruence.
    - destruct P; cbn; discriminate.
  Qed.
  Definition rule_tokens (r : fll_rule num) : list string :=
    "if" :: fr_antecedent r ++ "then" :: fr_consequent r
    ++ (if close1 (fr_weight r) then [] else ["with"; fmt d (fr_weight r)]).
  Lemma rule_text_tokens r : fr_antecedent r <> [] -> fr_consequent r <> [] ->
    rule_text fmt close1 d r = join " " (rule_tokens r).
  Proof.
    intros HA HC. unfold rule_text, rule_tokens.
    set (A := fr_antecedent r) in *. set (C := fr_consequent r) in *.
    set (W := if close1 (fr_weight r) then [] else ["with"; fmt d (fr_weight r)]).
    transitivity (join " " (["if"] ++ A ++ "then" :: join " " C :: W)).
    - exact (join_inner ["if"] A ("then" :: join " " C :: W) HA).
    - transitivity (join " " (("if" :: A ++ ["then"]) ++ join " " C :: W)).
      + f_equal. cbn [Datatypes.app]. now rewrite <- app_assoc.
      + rewrite (join_inner _ C W HC). f_equal. cbn [Datatypes.app]. now rewrite <- app_assoc.
  Qed.

  Lemma wf_rule_parts (r : fll_rule num) : wf_rule r = true ->
    fr_antecedent r <> [] /\ fr_consequent r <> [] /\
    Forall (fun t => tokenb t = true /\ String.eqb t "then" = false) (fr_antecedent r) /\
    Forall (fun t => tokenb t = true /\ String.eqb t "with" = false) (fr_consequent r).
  Proof.
    unfold wf_rule. rewrite !andb_true_iff, !forallb_forall. intros [[[A B] C] D]. repeat split.
    - destruct (fr_antecedent r); [discriminate|congruence].
    - destruct (fr_consequent r); [discriminate|congruence].
    - apply Forall_forall. intros t Ht. specialize (C t Ht). rewrite andb_true_iff, negb_true_iff in C. exact C.
    - apply Forall_forall. intros t Ht. specialize (D t Ht). rewrite andb_true_iff, negb_true_iff in D. exact D.
  Qed.
  Lemma rule_tokens_tok (r : fll_rule num) : wf_rule r = true -> Forall tok (rule_tokens r).
  Proof.
    intros W. destruct (wf_rule_parts r W) as (_ & _ & A & C). unfold rule_tokens. constructor; [reflexivity|].
    apply Forall_app. split; [eapply Forall_impl; [|exact A]; cbv beta; tauto|]. constructor; [reflexivity|].
    apply Forall_app. split; [eapply Forall_impl; [|exact C]; cbv beta; tauto|].
    destruct (close1 (fr_weight r)); repeat constructor; auto.
  Qed.

  Local Notation fsm := (rule_fsm parse).
  Lemma fsm_if A rest ante cq w :
    Forall (fun t => tokenb t = true /\ String.eqb t "then" = false) A ->
    fsm (A ++ rest) SIf ante cq w = fsm rest SIf (ante ++ A) cq w.
  Proof.
    intros H. revert ante. induction H as [|t A [_ Ht] _ IH]; intros ante; [now rewrite app_nil_r|].
    cbn [Datatypes.app rule_fsm]. rewrite Ht, IH, <- app_assoc. reflexivity.
  Qed.
  Lemma fsm_then C rest ante cq w :
    Forall (fun t => tokenb t = true /\ String.eqb t "with" = false) C ->
    fsm (C ++ rest) SThen ante cq w = fsm rest SThen ante (cq ++ C) w.
  Proof.
    intros H. revert cq. induction H as [|t C [_ Ht] _ IH]; intros cq; [now rewrite app_nil_r|].
    cbn [Datatypes.app rule_fsm]. rewrite Ht, IH, <- app_assoc. reflexivity.
  Qed.
  Local Notation normr := (normalize_rule round close1 n_one d).
  Lemma import_rule_roundtrip r : wf_rule r = true ->
    import_rule parse n_one "rule" (rule_text fmt close1 d r) = Ok (normr r).
  Proof.
    intros W. destruct (wf_rule_parts r W) as (HA & HC & FA & FC). pose proof (rule_tokens_tok r W) as HT.
    unfold import_rule. cbn [String.eqb Ascii.eqb Bool.eqb negb]. unfold parse_rule.
    rewrite rule_text_tokens by assumption.
    rewrite cut_comment_id by (apply plain_not_hash, join_tokens_plain, HT). rewrite split_ws_join by assumption.
    unfold rule_tokens. cbn [rule_fsm String.eqb Ascii.eqb Bool.eqb]. rewrite fsm_if by assumption.
    cbn [rule_fsm String.eqb Ascii.eqb Bool.eqb Datatypes.app]. rewrite fsm_then by assumption. cbn [Datatypes.app].
    unfold normalize_rule, norm_h. destruct (close1 (fr_weight r)).
    - cbn [rule_fsm bind]. destruct (fr_antecedent r); [congruence|]. destruct (fr_consequent r); [congruence|]. reflexivity.
    - cbn [rule_fsm String.eqb Ascii.eqb Bool.eqb]. rewrite parse_fmt. cbn [rule_fsm bind].
      destruct (fr_antecedent r); [congruence|]. destruct (fr_consequent r); [congruence|]. reflexivity.
  Qed.
  Lemma rule_text_ok r : wf_rule r = true -> value_okb (rule_text fmt close1 d r) = true.
  Proof.
    intros W. destruct (wf_rule_parts r W) as (HA & HC & _). rewrite rule_text_tokens by assumption.
    apply tokens_value, rule_tokens_tok, W.
  Qed.

  (* ---- blocks as (key, value) pairs *)
  Definition desc_pairs (desc : string) : list (string * string) :=
    if String.eqb desc "" then [] else [("description", desc)].
  Definition term_pair (t : fll_term num) : string * string := ("term", term_value t).
  Definition head_pairs (enabled : bool) (lo hi : num) (lock : bool) : list (string * string) :=
    [("enabled", fmt_bool enabled); ("range", join_nonempty [fmt d lo; fmt d hi]); ("lock-range", fmt_bool lock)].
  Definition input_pairs (v : fll_input num) : list (string * string) :=
    desc_pairs (fi_description v) ++ head_pairs (fi_enabled v) (fi_min v) (fi_max v) (fi_lock_range v)
    ++ map term_pair (fi_terms v).
  Definition output_pairs (v : fll_output num) : list (string * string) :=
    desc_pairs (fo_description v) ++ head_pairs (fo_enabled v) (fo_min v) (fo_max v) (fo_lock_range v)
    ++ [("aggregation", snorm_text (fo_aggregation v)); ("defuzzifier", defuzzifier_text (fo_defuzzifier v));
        ("default", fmt d (fo_default v)); ("lock-previous", fmt_bool (fo_lock_previous v))]
    ++ map term_pair (fo_terms v).
  Definition rule_pair (r : fll_rule num) : string * string := ("rule", rule_text fmt close1 d r).
  Definition block_pairs (b : fll_block num) : list (string * string) :=
    desc_pairs (fb_description b)
    ++ [("enabled", fmt_bool (fb_enabled b)); ("conjunction", tnorm_text (fb_conjunction b));
        ("disjunction", snorm_text (fb_disjunction b)); ("implication", tnorm_text (fb_implication b));
        ("activation", activation_text fmt d (fb_activation b))]
    ++ map rule_pair (fb_rules b).

  Lemma description_lines_pairs desc : description_lines desc = map iline (desc_pairs desc).
  Proof. unfold description_lines, desc_pairs. now destruct (String.eqb desc ""). Qed.
  Lemma term_lines_pairs ts : Forall (fun t => wf_term close1 t = true) ts ->
    term_lines fmt close1 d ts = map iline (map term_pair ts).
  Proof.
    intros H. unfold term_lines. rewrite map_map. apply map_ext_in. intros t Ht. rewrite Forall_forall in H.
    unfold iline, kvline, term_pair. cbn [fst snd]. rewrite term_line_kv; [reflexivity|].
    pose proof (wf_term_class t (H t Ht)) as C. now destruct (token_parts _ C).
  Qed.
  Lemma wf_input_parts (v : fll_input num) : wf_input close1 v = true ->
    ident_ok (fi_name v) = true /\ value_okb (fi_description v) = true /\ Forall (fun t => wf_term close1 t = true) (fi_terms v).
  Proof. unfold wf_input. rewrite !andb_true_iff, forallb_forall, Forall_forall. tauto. Qed.
  Lemma wf_output_parts (v : fll_output num) : wf_output close1 v = true ->
    ident_ok (fo_name v) = true /\ value_okb (fo_description v) = true /\ Forall (fun t => wf_term close1 t = true) (fo_terms v).
  Proof. unfold wf_output. rewrite !andb_true_iff, forallb_forall, Forall_forall. tauto. Qed.
  Lemma wf_block_parts (b : fll_block num) : wf_block b = true ->
    value_okb (fb_name b) = true /\ value_okb (fb_description b) = true /\ Forall (fun r => wf_rule r = true) (fb_rules b).
  Proof. unfold wf_block. rewrite !andb_true_iff, forallb_forall, Forall_forall. tauto. Qed.

  Lemma export_input_pairs v : wf_input close1 v = true ->
    export_input fmt close1 d v = kv "InputVariable" (fi_name v) :: map iline (input_pairs v).
  Proof.
    intros W. destruct (wf_input_parts v W) as (_ & _ & T). unfold export_input, variable_head, input_pairs, head_pairs.
    rewrite description_lines_pairs, term_lines_pairs by assumption. rewrite !map_app. cbn [Datatypes.app map]. 
    rewrite <- ?app_assoc. reflexivity.
  Qed.
  Lemma export_output_pairs v : wf_output close1 v = true ->
    export_output fmt close1 d v = kv "OutputVariable" (fo_name v) :: map iline (output_pairs v).
  Proof.
    intros W. destruct (wf_output_parts v W) as (_ & _ & T). unfold export_output, variable_head, output_pairs, head_pairs.
    rewrite description_lines_pairs, term_lines_pairs by assumption. rewrite !map_app. cbn [Datatypes.app map].
    rewrite <- ?app_assoc. reflexivity.
  Qed.
  Lemma export_block_pairs b :
    export_block fmt close1 d b = kv "RuleBlock" (fb_name b) :: map iline (block_pairs b).
  Proof.
    unfold export_block, block_pairs. rewrite description_lines_pairs. rewrite !map_app. cbn [Datatypes.app map].
    rewrite <- ?app_assoc. rewrite map_map. reflexivity.
  Qed.

  (* ---- every pair is a clean `key: value` *)
  Lemma desc_pairs_ok desc : value_okb desc = true -> Forall pair_ok (desc_pairs desc).
  Proof. intros H. unfold desc_pairs. destruct (String.eqb desc ""); repeat constructor; auto. Qed.
  Lemma fmt_bool_ok b : value_okb (fmt_bool b) = true.
  Proof. now destruct b. Qed.
  Lemma range_value_ok lo hi : value_okb (join_nonempty [fmt d lo; fmt d hi]) = true.
  Proof.
    assert (N : forall x, nonempty (fmt d x) = true) by (intros x; apply nonempty_true; now destruct (token_parts _ (fmt_token d x))).
    unfold join_nonempty. cbn [filter]. rewrite !N. apply tokens_value. repeat constructor; auto.
  Qed.
  Lemma head_pairs_ok en lo hi lk : Forall pair_ok (head_pairs en lo hi lk).
  Proof. unfold head_pairs. repeat constructor; cbn [fst snd]; auto using fmt_bool_ok, range_value_ok. Qed.
  Lemma term_pairs_ok ts : Forall (fun t => wf_term close1 t = true) ts -> Forall pair_ok (map term_pair ts).
  Proof. intros H. apply Forall_map. eapply Forall_impl; [|exact H]. intros t W. split; [reflexivity|]. now apply term_value_ok. Qed.
  Lemma rule_pairs_ok rs : Forall (fun r => wf_rule r = true) rs -> Forall pair_ok (map rule_pair rs).
  Proof. intros H. apply Forall_map. eapply Forall_impl; [|exact H]. intros r W. split; [reflexivity|]. now apply rule_text_ok. Qed.
  Lemma tnorm_text_ok n : value_okb (tnorm_text n) = true.
  Proof. destruct n as [n|]; [destruct n|]; reflexivity. Qed.
  Lemma snorm_text_ok n : value_okb (snorm_text n) = true.
  Proof. destruct n as [n|]; [destruct n|]; reflexivity. Qed.
  Lemma defuzzifier_text_ok f : value_okb (defuzzifier_text f) = true.
  Proof.
    destruct f as [[k r|a t]|]; [| destruct a, t; reflexivity | reflexivity].
    unfold defuzzifier_text. cbn [defuzzifier_class defuzzifier_params]. rewrite join_nonempty2 by (now destruct k).
    destruct (Z.eqb r default_resolution); [now destruct k|].
    rewrite (proj2 (nonempty_true _) (string_of_Z_nonempty r)).
    apply value_prefix; auto using integral_name_token, string_of_Z_nonempty, token_plain, token_rstrip, string_of_Z_token.
  Qed.
  Lemma activation_text_ok a : value_okb (activation_text fmt d a) = true.
  Proof.
    destruct a as [a|]; [|reflexivity]. unfold activation_text.
    assert (P : forall c p, tokenb c = true -> Forall tok p -> value_okb (join_nonempty [c; join " " p]) = true).
    { intros c p Hc Hp. destruct (token_parts _ Hc) as (C1 & _). rewrite join_nonempty2 by assumption.
      rewrite nonempty_join by assumption. destruct p as [|x p]; [now apply token_value|].
      destruct (tokens_params_ok _ Hp) as (A & B & C & _); [discriminate|]. now apply value_prefix. }
    destruct a as [|n t|n t|n|n| |c t]; cbn [activation_class activation_params].
    - apply (P "General" []); [reflexivity|constructor].
    - apply (P "First" [string_of_Z n; fmt d t]); [reflexivity|repeat constructor; auto using string_of_Z_token].
    - apply (P "Last" [string_of_Z n; fmt d t]); [reflexivity|repeat constructor; auto using string_of_Z_token].
    - apply (P "Highest" [string_of_Z n]); [reflexivity|repeat constructor; auto using string_of_Z_token].
    - apply (P "Lowest" [string_of_Z n]); [reflexivity|repeat constructor; auto using string_of_Z_token].
    - apply (P "Proportional" []); [reflexivity|constructor].
    - apply (P "Threshold" [comparator_name c; fmt d t]); [reflexivity|repeat constructor; auto using comparator_token].
  Qed.
  Lemma input_pairs_ok v : wf_input close1 v = true -> Forall pair_ok (input_pairs v).
  Proof.
    intros W. destruct (wf_input_parts v W) as (_ & D & T). unfold input_pairs.
    repeat (apply Forall_app; split); auto using desc_pairs_ok, head_pairs_ok, term_pairs_ok.
  Qed.
  Lemma output_pairs_ok v : wf_output close1 v = true -> Forall pair_ok (output_pairs v).
  Proof.
    intros W. destruct (wf_output_parts v W) as (_ & D & T). unfold output_pairs.
    repeat (apply Forall_app; split); auto using desc_pairs_ok, head_pairs_ok, term_pairs_ok.
    repeat constructor; cbn [fst snd]; auto using snorm_text_ok, defuzzifier_text_ok, fmt_bool_ok, token_value.
  Qed.
  Lemma block_pairs_ok b : wf_block b = true -> Forall pair_ok (block_pairs b).
  Proof.
    intros W. destruct (wf_block_parts b W) as (_ & D & R). unfold block_pairs.
    repeat (apply Forall_app; split); auto using desc_pairs_ok, rule_pairs_ok.
    repeat constructor; cbn [fst snd]; auto using snorm_text_ok, tnorm_text_ok, activation_text_ok, fmt_bool_ok.
  Qed.

  (* ---- the importer's dispatch on the pairs of a block *)
  Local Notation in_line := (input_line parse n_nan n_one).
  Local Notation out_line := (output_line parse n_nan n_one).
  Local Notation rb_line := (block_line parse n_one n_zero).
  Local Notation normi := (normalize_input round close1 n_one d).
  Local Notation normo := (normalize_output round close1 n_one d).
  Local Notation normb := (normalize_block round close1 n_one d).

  Lemma fold_terms_input ts nm de en lo hi lk ts0 : Forall (fun t => wf_term close1 t = true) ts ->
    fold_pairs in_line (map term_pair ts) (Build_fll_input nm de en lo hi lk ts0)
    = Ok (Build_fll_input nm de en lo hi lk (ts0 ++ map normt ts)).
  Proof.
    intros H. revert ts0. induction H as [|t ts W _ IH]; intros ts0; [cbn; now rewrite app_nil_r|].
    cbn [map fold_pairs term_pair]. unfold input_line at 1. cbn [String.eqb Ascii.eqb Bool.eqb].
    rewrite import_term_roundtrip by assumption. cbn [bind]. rewrite IH, <- app_assoc. reflexivity.
  Qed.
  Lemma fold_desc_input x nm en lo hi lk ts :
    fold_pairs in_line (desc_pairs x) (Build_fll_input nm "" en lo hi lk ts) = Ok (Build_fll_input nm x en lo hi lk ts).
  Proof. unfold desc_pairs. destruct (String.eqb_spec x "") as [->|_]; reflexivity. Qed.
  Lemma fold_input v : wf_input close1 v = true ->
    fold_pairs in_line (("InputVariable", fi_name v) :: input_pairs v) (input_default n_pinf n_ninf) = Ok (normi v).
  Proof.
    intros W. destruct (wf_input_parts v W) as (_ & _ & T). destruct v as [nm de en lo hi lk ts]. cbn [fi_name fi_description fi_enabled fi_min fi_max fi_lock_range fi_terms] in *.
    unfold input_pairs. cbn [fold_pairs]. unfold input_default, input_line at 1. cbn [String.eqb Ascii.eqb Bool.eqb bind].
    cbn [fi_name fi_description fi_enabled fi_min fi_max fi_lock_range fi_terms].
    rewrite fold_pairs_app, fold_desc_input. cbn [bind]. rewrite fold_pairs_app. unfold head_pairs. cbn [fold_pairs]. unfold input_line at 1 2 3.
    cbn [String.eqb Ascii.eqb Bool.eqb]. rewrite !import_bool_fmt, import_range_fmt. cbn [bind fst snd].
    rewrite fold_terms_input by assumption. reflexivity.
  Qed.

  Lemma fold_terms_output ts nm de en lo hi lk ag df dv lp ts0 : Forall (fun t => wf_term close1 t = true) ts ->
    fold_pairs out_line (map term_pair ts) (Build_fll_output nm de en lo hi lk ag df dv lp ts0)
    = Ok (Build_fll_output nm de en lo hi lk ag df dv lp (ts0 ++ map normt ts)).
  Proof.
    intros H. revert ts0. induction H as [|t ts W _ IH]; intros ts0; [cbn; now rewrite app_nil_r|].
    cbn [map fold_pairs term_pair]. unfold output_line at 1. cbn [String.eqb Ascii.eqb Bool.eqb].
    rewrite import_term_roundtrip by assumption. cbn [bind]. rewrite IH, <- app_assoc. reflexivity.
  Qed.
  Lemma fold_desc_output x nm en lo hi lk ag df dv lp ts :
    fold_pairs out_line (desc_pairs x) (Build_fll_output nm "" en lo hi lk ag df dv lp ts)
    = Ok (Build_fll_output nm x en lo hi lk ag df dv lp ts).
  Proof. unfold desc_pairs. destruct (String.eqb_spec x "") as [->|_]; reflexivity. Qed.
  Lemma fold_output v : wf_output close1 v = true ->
    fold_pairs out_line (("OutputVariable", fo_name v) :: output_pairs v) (output_default n_nan n_pinf n_ninf) = Ok (normo v).
  Proof.
    intros W. destruct (wf_output_parts v W) as (_ & _ & T). destruct v as [nm de en lo hi lk ag df dv lp ts].
    cbn [fo_name fo_description fo_enabled fo_min fo_max fo_lock_range fo_aggregation fo_defuzzifier fo_default fo_lock_previous fo_terms] in *.
    unfold output_pairs. cbn [fold_pairs]. unfold output_default, output_line at 1. cbn [String.eqb Ascii.eqb Bool.eqb bind].
    cbn [fo_name fo_description fo_enabled fo_min fo_max fo_lock_range fo_aggregation fo_defuzzifier fo_default fo_lock_previous fo_terms].
    rewrite fold_pairs_app, fold_desc_output. cbn [bind]. rewrite fold_pairs_app. unfold head_pairs. cbn [fold_pairs]. unfold output_line at 1 2 3.
    cbn [String.eqb Ascii.eqb Bool.eqb]. rewrite !import_bool_fmt, import_range_fmt. cbn [bind fst snd].
    rewrite fold_pairs_app. cbn [fold_pairs]. unfold output_line at 1 2 3 4. cbn [String.eqb Ascii.eqb Bool.eqb].
    rewrite import_snorm_text, import_defuzzifier_text, parse_num_fmt, import_bool_fmt. cbn [bind].
    rewrite fold_terms_output by assumption. reflexivity.
  Qed.

  Lemma fold_rules rs nm de en cj dj im ac rs0 : Forall (fun r => wf_rule r = true) rs ->
    fold_pairs rb_line (map rule_pair rs) (Build_fll_block nm de en cj dj im ac rs0)
    = Ok (Build_fll_block nm de en cj dj im ac (rs0 ++ map normr rs)).
  Proof.
    intros H. revert rs0. induction H as [|r rs W _ IH]; intros rs0; [cbn; now rewrite app_nil_r|].
    cbn [map fold_pairs rule_pair]. unfold block_line at 1. cbn [String.eqb Ascii.eqb Bool.eqb].
    rewrite import_rule_roundtrip by assumption. cbn [bind]. rewrite IH, <- app_assoc. reflexivity.
  Qed.
  Lemma fold_desc_block x nm en cj dj im ac rs :
    fold_pairs rb_line (desc_pairs x) (Build_fll_block nm "" en cj dj im ac rs) = Ok (Build_fll_block nm x en cj dj im ac rs).
  Proof. unfold desc_pairs. destruct (String.eqb_spec x "") as [->|_]; reflexivity. Qed.
  Lemma fold_block_rb b : wf_block b = true ->
    fold_pairs rb_line (("RuleBlock", fb_name b) :: block_pairs b) (block_default num) = Ok (normb b).
  Proof.
    intros W. destruct (wf_block_parts b W) as (_ & _ & R). destruct b as [nm de en cj dj im ac rs].
    cbn [fb_name fb_description fb_enabled fb_conjunction fb_disjunction fb_implication fb_activation fb_rules] in *.
    unfold block_pairs. cbn [fold_pairs]. unfold block_default, block_line at 1. cbn [String.eqb Ascii.eqb Bool.eqb bind].
    cbn [fb_name fb_description fb_enabled fb_conjunction fb_disjunction fb_implication fb_activation fb_rules].
    rewrite fold_pairs_app, fold_desc_block. cbn [bind]. rewrite fold_pairs_app. cbn [fold_pairs]. unfold block_line at 1 2 3 4 5.
    cbn [String.eqb Ascii.eqb Bool.eqb]. rewrite import_bool_fmt, !import_tnorm_text, import_snorm_text, import_activation_text.
    cbn [bind]. rewrite fold_rules by assumption. reflexivity.
  Qed.

  (* ---- FllImporter.engine: grouping lines into blocks *)
  Local Notation LOOP := (engine_loop parse n_nan n_pinf n_ninf n_one n_zero).
  Local Notation PROC := (process parse n_nan n_pinf n_ninf n_one n_zero).
  Definition prev (comp : string) (blk : list string) (e : fll_engine num) : result (fll_engine num) :=
    if String.eqb comp "" then Ok e else PROC comp blk e.

  Lemma loop_header k v rest comp blk e : key_okb k = true -> value_okb v = true -> is_header k = true ->
    LOOP (kv k v :: rest) comp blk e = do e' <- prev comp blk e; LOOP rest k [kv k v] e'.
  Proof.
    intros Hk Hv Hh. cbn [engine_loop]. rewrite (clean_kv0 k v Hk Hv). destruct (key_parts k Hk) as (K1 & _).
    destruct (String.eqb_spec (kv k v) "") as [E|_]; [now apply kv_nonempty in E|].
    rewrite key_value_kv by assumption. cbn [bind]. rewrite Hh. reflexivity.
  Qed.
  Lemma loop_body ps rest comp blk e :
    Forall pair_ok ps -> Forall (fun p => is_header (fst p) = false) ps ->
    LOOP (map iline ps ++ rest) comp blk e = LOOP rest comp (blk ++ map kvline ps) e.
  Proof.
    intros H1 H2. revert blk. induction H1 as [|[k v] ps [Hk Hv] _ IH]; intros blk; [cbn; now rewrite app_nil_r|].
    inversion_clear H2 as [|? ? Hh Hr]. cbn [fst snd] in *. cbn [map Datatypes.app].
    change (iline (k, v)) with (indent +++ kv k v). cbn [engine_loop]. rewrite (clean_kv1 k v Hk Hv). destruct (key_parts k Hk) as (K1 & _).
    destruct (String.eqb_spec (kv k v) "") as [E|_]; [now apply kv_nonempty in E|].
    rewrite key_value_kv by assumption. cbn [bind]. rewrite Hh. rewrite IH by assumption.
    change (kvline (k, v)) with (kv k v). now rewrite <- app_assoc.
  Qed.
  Lemma loop_end comp blk e : LOOP [""] comp blk e = prev comp blk e.
  Proof. reflexivity. Qed.

  (* a block: header key, name, body pairs *)
  Definition blk : Type := (string * string * list (string * string))%type.
  Definition render_blk (b : blk) : list string := let '(h, n, ps) := b in kv h n :: map iline ps.
  Definition blk_lines (b : blk) : list string := let '(h, n, ps) := b in map kvline ((h, n) :: ps).
  Definition blk_ok (b : blk) : Prop :=
    let '(h, n, ps) := b in
    key_okb h = true /\ is_header h = true /\ value_okb n = true /\ Forall pair_ok ps
    /\ Forall (fun p => is_header (fst p) = false) ps.
  Fixpoint run_blks (bs : list blk) (e : fll_engine num) : result (fll_engine num) :=
    match bs with
    | [] => Ok e
    | b :: r => do e' <- PROC (fst (fst b)) (blk_lines b) e; run_blks r e'
    end.
  Lemma run_blks_app a b e : run_blks (a ++ b) e = do e' <- run_blks a e; run_blks b e'.
  Proof.
    revert e. induction a as [|x a IH]; intros e; [reflexivity|]. cbn [Datatypes.app run_blks].
    destruct (PROC (fst (fst x)) (blk_lines x) e); cbn [bind]; [apply IH|reflexivity].
  Qed.
  Lemma header_nonempty h : is_header h = true -> String.eqb h "" = false.
  Proof. destruct h; [discriminate|reflexivity]. Qed.
  Lemma loop_blks bs comp lines e : Forall blk_ok bs ->
    LOOP (flat_map render_blk bs ++ [""]) comp lines e = do e1 <- prev comp lines e; run_blks bs e1.
  Proof.
    intros H. revert comp lines e. induction H as [|[[h n] ps] bs (Hk & Hh & Hn & Hp & Hnh) _ IH]; intros comp lines e.
    - cbn [flat_map Datatypes.app run_blks]. rewrite loop_end. now destruct (prev comp lines e).
    - cbn [flat_map render_blk]. rewrite <- app_assoc. cbn [Datatypes.app]. rewrite loop_header by assumption.
      destruct (prev comp lines e) as [e'|x]; cbn [bind]; [|reflexivity].
      rewrite loop_body by assumption. rewrite IH. unfold prev at 1. rewrite (header_nonempty h Hh).
      cbn [run_blks fst blk_lines map kvline Datatypes.app]. reflexivity.
  Qed.

  (* ---- the blocks of an engine *)
  Definition engine_blk (e : fll_engine num) : blk := ("Engine", fe_name e, desc_pairs (fe_description e)).
  Definition input_blk (v : fll_input num) : blk := ("InputVariable", fi_name v, input_pairs v).
  Definition output_blk (v : fll_output num) : blk := ("OutputVariable", fo_name v, output_pairs v).
  Definition rb_blk (b : fll_block num) : blk := ("RuleBlock", fb_name b, block_pairs b).
  Definition all_blks (e : fll_engine num) : list blk :=
    engine_blk e :: map input_blk (fe_inputs e) ++ map output_blk (fe_outputs e) ++ map rb_blk (fe_blocks e).

  Lemma wf_parts (e : fll_engine num) : wf close1 e = true ->
    value_okb (fe_name e) = true /\ value_okb (fe_description e) = true
    /\ Forall (fun v => wf_input close1 v = true) (fe_inputs e)
    /\ Forall (fun v => wf_output close1 v = true) (fe_outputs e)
    /\ Forall (fun b => wf_block b = true) (fe_blocks e).
  Proof. unfold wf. rewrite !andb_true_iff, !forallb_forall, !Forall_forall. tauto. Qed.

  Lemma flat_map_blks {A} (f : A -> list string) (g : A -> blk) (l : list A) (P : A -> Prop) :
    (forall a, P a -> f a = render_blk (g a)) -> Forall P l -> flat_map f l = flat_map render_blk (map g l).
  Proof. intros H HF. induction HF as [|a l Pa _ IH]; [reflexivity|]. cbn [flat_map map]. now rewrite H, IH. Qed.
  Lemma export_blks e : wf close1 e = true -> export fmt close1 d e = flat_map render_blk (all_blks e) ++ [""].
  Proof.
    intros W. destruct (wf_parts e W) as (_ & _ & WI & WO & WB). unfold export, all_blks.
    cbn [flat_map render_blk engine_blk]. rewrite !flat_map_app. rewrite description_lines_pairs.
    rewrite (flat_map_blks (export_input fmt close1 d) input_blk (fe_inputs e) _ (fun v W => export_input_pairs v W) WI).
    rewrite (flat_map_blks (export_output fmt close1 d) output_blk (fe_outputs e) _ (fun v W => export_output_pairs v W) WO).
    rewrite (flat_map_blks (export_block fmt close1 d) rb_blk (fe_blocks e) (fun _ => True) (fun b _ => export_block_pairs b))
      by (apply Forall_forall; auto).
    cbn [Datatypes.app]. rewrite <- !app_assoc. reflexivity.
  Qed.

  Lemma nonheader_desc x : Forall (fun p : string * string => is_header (fst p) = false) (desc_pairs x).
  Proof. unfold desc_pairs. destruct (String.eqb x ""); repeat constructor. Qed.
  Lemma nonheader_head en lo hi lk : Forall (fun p : string * string => is_header (fst p) = false) (head_pairs en lo hi lk).
  Proof. repeat constructor. Qed.
  Lemma nonheader_terms ts : Forall (fun p : string * string => is_header (fst p) = false) (map term_pair ts).
  Proof. apply Forall_map. apply Forall_forall. reflexivity. Qed.
  Lemma nonheader_rules rs : Forall (fun p : string * string => is_header (fst p) = false) (map rule_pair rs).
  Proof. apply Forall_map. apply Forall_forall. reflexivity. Qed.

  Lemma engine_blk_ok e : wf close1 e = true -> blk_ok (engine_blk e).
  Proof.
    intros W. destruct (wf_parts e W) as (N & D & _). unfold blk_ok, engine_blk.
    repeat split; auto using desc_pairs_ok, nonheader_desc.
  Qed.
  Lemma input_blk_ok v : wf_input close1 v = true -> blk_ok (input_blk v).
  Proof.
    intros W. destruct (wf_input_parts v W) as (N & D & T). unfold blk_ok, input_blk.
    repeat split; auto using input_pairs_ok, token_value, ident_token.
    unfold input_pairs. repeat (apply Forall_app; split); auto using nonheader_desc, nonheader_head, nonheader_terms.
  Qed.
  Lemma output_blk_ok v : wf_output close1 v = true -> blk_ok (output_blk v).
  Proof.
    intros W. destruct (wf_output_parts v W) as (N & D & T). unfold blk_ok, output_blk.
    repeat split; auto using output_pairs_ok, token_value, ident_token.
    unfold output_pairs. repeat (apply Forall_app; split); auto using nonheader_desc, nonheader_head, nonheader_terms.
    all: repeat constructor.
  Qed.
  Lemma rb_blk_ok b : wf_block b = true -> blk_ok (rb_blk b).
  Proof.
    intros W. destruct (wf_block_parts b W) as (N & D & R). unfold blk_ok, rb_blk.
    repeat split; auto using block_pairs_ok.
    unfold block_pairs. repeat (apply Forall_app; split); auto using nonheader_desc, nonheader_rules.
    all: repeat constructor.
  Qed.
  Lemma all_blks_ok e : wf close1 e = true -> Forall blk_ok (all_blks e).
  Proof.
    intros W. destruct (wf_parts e W) as (_ & _ & WI & WO & WB). unfold all_blks. constructor; [now apply engine_blk_ok|].
    repeat (apply Forall_app; split); apply Forall_map.
    - eapply Forall_impl; [|exact WI]. apply input_blk_ok.
    - eapply Forall_impl; [|exact WO]. apply output_blk_ok.
    - eapply Forall_impl; [|exact WB]. apply rb_blk_ok.
  Qed.

  (* ---- processing each kind of block *)
  Lemma run_engine_blk e :
    wf close1 e = true ->
    PROC "Engine" (blk_lines (engine_blk e)) (engine_default num)
    = Ok (Build_fll_engine (fe_name e) (fe_description e) [] [] []).
  Proof.
    intros W. destruct (wf_parts e W) as (N & D & _). unfold process, engine_default. cbn [String.eqb Ascii.eqb Bool.eqb].
    unfold blk_lines, engine_blk. rewrite fold_block_pairs by (constructor; [split; [reflexivity|exact N]|now apply desc_pairs_ok]).
    cbn [fold_pairs engine_line String.eqb Ascii.eqb Bool.eqb bind]. unfold desc_pairs.
    destruct (String.eqb_spec (fe_description e) "") as [->|_]; reflexivity.
  Qed.
  Lemma run_input_blk v nm de ins outs bs : wf_input close1 v = true ->
    PROC "InputVariable" (blk_lines (input_blk v)) (Build_fll_engine nm de ins outs bs)
    = Ok (Build_fll_engine nm de (ins ++ [normi v]) outs bs).
  Proof.
    intros W. destruct (wf_input_parts v W) as (N & D & T). unfold process. cbn [String.eqb Ascii.eqb Bool.eqb].
    unfold import_input, blk_lines, input_blk.
    rewrite fold_block_pairs by (constructor; [split; [reflexivity|now apply token_value, ident_token]|now apply input_pairs_ok]).
    rewrite fold_input by assumption. cbn [bind]. destruct v as [n' de' en lo hi lk ts]. cbn [normalize_input fi_name] in *.
    now rewrite (ident_ok_id _ N).
  Qed.
  Lemma run_output_blk v nm de ins outs bs : wf_output close1 v = true ->
    PROC "OutputVariable" (blk_lines (output_blk v)) (Build_fll_engine nm de ins outs bs)
    = Ok (Build_fll_engine nm de ins (outs ++ [normo v]) bs).
  Proof.
    intros W. destruct (wf_output_parts v W) as (N & D & T). unfold process. cbn [String.eqb Ascii.eqb Bool.eqb].
    unfold import_output, blk_lines, output_blk.
    rewrite fold_block_pairs by (constructor; [split; [reflexivity|now apply token_value, ident_token]|now apply output_pairs_ok]).
    rewrite fold_output by assumption. cbn [bind]. destruct v as [n' de' en lo hi lk ag df dv lp ts]. cbn [normalize_output fo_name] in *.
    now rewrite (ident_ok_id _ N).
  Qed.
  Lemma run_rb_blk b nm de ins outs bs : wf_block b = true ->
    PROC "RuleBlock" (blk_lines (rb_blk b)) (Build_fll_engine nm de ins outs bs)
    = Ok (Build_fll_engine nm de ins outs (bs ++ [normb b])).
  Proof.
    intros W. destruct (wf_block_parts b W) as (N & D & R). unfold process. cbn [String.eqb Ascii.eqb Bool.eqb].
    unfold import_block, blk_lines, rb_blk.
    rewrite fold_block_pairs by (constructor; [split; [reflexivity|exact N]|now apply block_pairs_ok]).
    rewrite fold_block_rb by assumption. reflexivity.
  Qed.

  Lemma run_inputs vs nm de ins outs bs : Forall (fun v => wf_input close1 v = true) vs ->
    run_blks (map input_blk vs) (Build_fll_engine nm de ins outs bs) = Ok (Build_fll_engine nm de (ins ++ map normi vs) outs bs).
  Proof.
    intros H. revert ins. induction H as [|v vs W _ IH]; intros ins; [cbn; now rewrite app_nil_r|].
    cbn [map run_blks]. change (fst (fst (input_blk v))) with "InputVariable". rewrite run_input_blk by assumption.
    cbn [bind]. rewrite IH, <- app_assoc. reflexivity.
  Qed.
  Lemma run_outputs vs nm de ins outs bs : Forall (fun v => wf_output close1 v = true) vs ->
    run_blks (map output_blk vs) (Build_fll_engine nm de ins outs bs) = Ok (Build_fll_engine nm de ins (outs ++ map normo vs) bs).
  Proof.
    intros H. revert outs. induction H as [|v vs W _ IH]; intros outs; [cbn; now rewrite app_nil_r|].
    cbn [map run_blks]. change (fst (fst (output_blk v))) with "OutputVariable". rewrite run_output_blk by assumption.
    cbn [bind]. rewrite IH, <- app_assoc. reflexivity.
  Qed.
  Lemma run_rbs xs nm de ins outs bs : Forall (fun b => wf_block b = true) xs ->
    run_blks (map rb_blk xs) (Build_fll_engine nm de ins outs bs) = Ok (Build_fll_engine nm de ins outs (bs ++ map normb xs)).
  Proof.
    intros H. revert bs. induction H as [|b xs W _ IH]; intros bs; [cbn; now rewrite app_nil_r|].
    cbn [map run_blks]. change (fst (fst (rb_blk b))) with "RuleBlock". rewrite run_rb_blk by assumption.
    cbn [bind]. rewrite IH, <- app_assoc. reflexivity.
  Qed.

  (* ================================================================================================ main theorems *)
  Local Notation IMPORT := (import_ parse n_nan n_pinf n_ninf n_one n_zero).
  Local Notation EXPORT := (export fmt close1 d).
  Local Notation NORMALIZE := (normalize round close1 n_one d).

  Theorem import_export e : wf close1 e = true -> IMPORT (EXPORT e) = Ok (NORMALIZE e).
  Proof.
    intros W. destruct (wf_parts e W) as (_ & _ & WI & WO & WB).
    rewrite export_blks by assumption. unfold import_. rewrite loop_blks by now apply all_blks_ok.
    unfold prev. cbn [String.eqb bind]. unfold all_blks. cbn [run_blks]. change (fst (fst (engine_blk e))) with "Engine".
    rewrite run_engine_blk by assumption. cbn [bind]. rewrite run_blks_app.
    rewrite run_inputs by assumption. cbn [bind]. rewrite run_blks_app. rewrite run_outputs by assumption. cbn [bind].
    rewrite run_rbs by assumption. destruct e. reflexivity.
  Qed.

  (* ================================================================================================ export of the normal form *)
  Local Notation stable_h' := (stable_h round close1 d).
  Lemma map_fmt_round xs : map (fmt d) (map (round d) xs) = map (fmt d) xs.
  Proof. rewrite map_map. apply map_ext. intros x. apply fmt_round. Qed.
  Lemma hpart_one : hpart n_one = [].
  Proof. unfold height_part. now rewrite close1_one. Qed.
  Lemma hpart_normh h : stable_h' h -> hpart (normh h) = hpart h.
  Proof.
    unfold stable_h, norm_h, height_part. intros S. destruct (close1 h) eqn:C.
    - now rewrite close1_one.
    - rewrite (S eq_refl), fmt_round. reflexivity.
  Qed.
  Lemma flatten_round (xy : list (num * num)) :
    map (fmt d) (flatten_xy (map (fun p => (round d (fst p), round d (snd p))) xy)) = map (fmt d) (flatten_xy xy).
  Proof. induction xy as [|[x y] r IH]; [reflexivity|]. cbn [map flatten_xy fst snd]. now rewrite !fmt_round, IH. Qed.

  Lemma term_params_normalize t : wf_term close1 t = true -> stable_term round close1 d t -> tparams (normt t) = tparams t.
  Proof.
    intros W S. destruct t as [n c ps h|n xy h|n cs h|n f h]; cbn [normalize_term term_params stable_term] in *.
    - rewrite map_fmt_round. unfold wf_term in W. rewrite !andb_true_iff in W. destruct W as [_ [_ W]].
      destruct (lookup_term c) as [r|]; [|discriminate]. rewrite andb_true_iff, orb_true_iff in W. destruct W as [_ W].
      destruct (row_height r); [now rewrite hpart_normh|]. destruct W as [W|W]; [discriminate|].
      rewrite hpart_one. unfold height_part. now rewrite W.
    - rewrite flatten_round. now rewrite hpart_normh.
    - rewrite hpart_one, app_nil_r, map_app, map_fmt_round. unfold height_part. destruct (close1 h); [reflexivity|].
      cbn [map]. now rewrite fmt_round.
    - reflexivity.
  Qed.
  Lemma term_line_normalize t : wf_term close1 t = true -> stable_term round close1 d t ->
    term_line fmt close1 d (normt t) = term_line fmt close1 d t.
  Proof.
    intros W S. unfold term_line. rewrite term_params_normalize by assumption. now destruct t.
  Qed.
  Lemma term_lines_normalize ts : Forall (fun t => wf_term close1 t = true) ts -> Forall (stable_term round close1 d) ts ->
    term_lines fmt close1 d (map normt ts) = term_lines fmt close1 d ts.
  Proof.
    intros W S. unfold term_lines. rewrite map_map. induction W as [|t ts Wt _ IH]; [reflexivity|].
    inversion_clear S as [|? ? St Sr]. cbn [map]. rewrite term_line_normalize by assumption. now rewrite IH.
  Qed.
  Lemma activation_text_normalize a : activation_text fmt d (option_map (normalize_activation round d) a) = activation_text fmt d a.
  Proof.
    destruct a as [a|]; [|reflexivity]. destruct a; cbn [option_map normalize_activation activation_text activation_class activation_params];
      rewrite ?fmt_round; reflexivity.
  Qed.
  Lemma rule_line_normalize r : stable_h' (fr_weight r) -> rule_line fmt close1 d (normr r) = rule_line fmt close1 d r.
  Proof.
    intros S. unfold rule_line, rule_text, normalize_rule. cbn [fr_antecedent fr_consequent fr_weight].
    pose proof (hpart_normh (fr_weight r) S) as H. unfold height_part in H. unfold norm_h in *.
    destruct (close1 (fr_weight r)) eqn:C.
    - now rewrite close1_one.
    - unfold stable_h in S. rewrite (S C), fmt_round. reflexivity.
  Qed.

  Lemma export_input_normalize v : wf_input close1 v = true -> Forall (stable_term round close1 d) (fi_terms v) ->
    export_input fmt close1 d (normi v) = export_input fmt close1 d v.
  Proof.
    intros W S. destruct (wf_input_parts v W) as (_ & _ & T). destruct v as [nm de en lo hi lk ts].
    unfold export_input, normalize_input, variable_head. cbn [fi_name fi_description fi_enabled fi_min fi_max fi_lock_range fi_terms] in *.
    now rewrite !fmt_round, term_lines_normalize.
  Qed.
  Lemma export_output_normalize v : wf_output close1 v = true -> Forall (stable_term round close1 d) (fo_terms v) ->
    export_output fmt close1 d (normo v) = export_output fmt close1 d v.
  Proof.
    intros W S. destruct (wf_output_parts v W) as (_ & _ & T). destruct v as [nm de en lo hi lk ag df dv lp ts].
    unfold export_output, normalize_output, variable_head.
    cbn [fo_name fo_description fo_enabled fo_min fo_max fo_lock_range fo_aggregation fo_defuzzifier fo_default fo_lock_previous fo_terms] in *.
    now rewrite !fmt_round, term_lines_normalize.
  Qed.
  Lemma export_block_normalize b : Forall (fun r => stable_h' (fr_weight r)) (fb_rules b) ->
    export_block fmt close1 d (normb b) = export_block fmt close1 d b.
  Proof.
    intros S. destruct b as [nm de en cj dj im ac rs]. unfold export_block, normalize_block.
    cbn [fb_name fb_description fb_enabled fb_conjunction fb_disjunction fb_implication fb_activation fb_rules] in *.
    rewrite activation_text_normalize. do 3 f_equal. rewrite map_map. induction S as [|r rs Sr _ IH]; [reflexivity|].
    cbn [map]. now rewrite rule_line_normalize, IH.
  Qed.
  Lemma flat_map_map_ext {A} (f : A -> list string) (g : A -> A) (l : list A) (P : A -> Prop) :
    (forall a, P a -> f (g a) = f a) -> Forall P l -> flat_map f (map g l) = flat_map f l.
  Proof. intros H HF. induction HF as [|a l Pa _ IH]; [reflexivity|]. cbn [flat_map map]. now rewrite H, IH. Qed.

  Theorem export_normalize e : wf close1 e = true -> stable round close1 d e -> EXPORT (NORMALIZE e) = EXPORT e.
  Proof.
    intros W (SI & SO & SB). destruct (wf_parts e W) as (_ & _ & WI & WO & WB). destruct e as [nm de ins outs bs].
    unfold export, normalize. cbn [fe_name fe_description fe_inputs fe_outputs fe_blocks] in *.
    rewrite (flat_map_map_ext (export_input fmt close1 d) normi ins
              (fun v => wf_input close1 v = true /\ Forall (stable_term round close1 d) (fi_terms v))).
    rewrite (flat_map_map_ext (export_output fmt close1 d) normo outs
              (fun v => wf_output close1 v = true /\ Forall (stable_term round close1 d) (fo_terms v))).
    rewrite (flat_map_map_ext (export_block fmt close1 d) normb bs
              (fun b => Forall (fun r => stable_h' (fr_weight r)) (fb_rules b))).
    - reflexivity.
    - apply export_block_normalize.
    - exact SB.
    - intros v [A B]. now apply export_output_normalize.
    - rewrite Forall_forall in *. auto.
    - intros v [A B]. now apply export_input_normalize.
    - rewrite Forall_forall in *. auto.
  Qed.

  Theorem export_import_export_fixpoint e : wf close1 e = true -> stable round close1 d e ->
    exists e2, IMPORT (EXPORT e) = Ok e2 /\ EXPORT e2 = EXPORT e.
  Proof. intros W S. exists (NORMALIZE e). split; [now apply import_export|now apply export_normalize]. Qed.

  (* ================================================================================================ representable engines *)
  Local Notation rep_h' := (rep_h round close1 n_one d).
  Lemma rep_map xs : Forall (rep_num round d) xs -> map (round d) xs = xs.
  Proof. intros H. induction H as [|x xs Hx _ IH]; [reflexivity|]. cbn [map]. unfold rep_num in Hx. now rewrite Hx, IH. Qed.
  Lemma rep_normh h : rep_h' h -> normh h = h.
  Proof. unfold rep_h, norm_h. intros [->|[C R]]; [now rewrite close1_one|now rewrite C]. Qed.
  Lemma rep_term_same t : rep_term round close1 n_one d t -> normt t = t.
  Proof.
    destruct t as [n c ps h|n xy h|n cs h|n f h]; cbn [rep_term normalize_term].
    - intros [P H]. rewrite (rep_map ps P). f_equal. destruct (lookup_term c) as [r|]; [destruct (row_height r)|]; auto using rep_normh.
    - intros [P H]. rewrite (rep_normh h H). f_equal. induction P as [|[x y] xy [Px Py] _ IH]; [reflexivity|].
      cbn [map fst snd] in *. unfold rep_num in Px, Py. now rewrite Px, Py, IH.
    - intros [P ->]. rewrite (rep_map cs P), close1_one, app_nil_r. reflexivity.
    - intros ->. reflexivity.
  Qed.
  Lemma rep_terms_same ts : Forall (rep_term round close1 n_one d) ts -> map normt ts = ts.
  Proof. intros H. induction H as [|t ts Ht _ IH]; [reflexivity|]. cbn [map]. now rewrite (rep_term_same t Ht), IH. Qed.
  Lemma map_same {A} (f : A -> A) (P : A -> Prop) l : (forall a, P a -> f a = a) -> Forall P l -> map f l = l.
  Proof. intros H HF. induction HF as [|a l Pa _ IH]; [reflexivity|]. cbn [map]. now rewrite (H a Pa), IH. Qed.

  Theorem representable_same e : representable round close1 n_one d e -> NORMALIZE e = e.
  Proof.
    intros (RI & RO & RB). destruct e as [nm de ins outs bs]. unfold normalize. cbn [fe_inputs fe_outputs fe_blocks] in *.
    f_equal.
    - apply (map_same normi (rep_input round close1 n_one d) ins); [|exact RI].
      intros [n de' en lo hi lk ts] (A & B & C). cbn [fi_min fi_max fi_terms] in *. unfold normalize_input, rep_num in *.
      now rewrite A, B, (rep_terms_same ts C).
    - apply (map_same normo (rep_output round close1 n_one d) outs); [|exact RO].
      intros [n de' en lo hi lk ag df dv lp ts] (A & B & C & D). cbn [fo_min fo_max fo_default fo_terms] in *.
      unfold normalize_output, rep_num in *. now rewrite A, B, C, (rep_terms_same ts D).
    - apply (map_same normb (rep_block round close1 n_one d) bs); [|exact RB].
      intros [n de' en cj dj im ac rs] (A & B). cbn [fb_activation fb_rules] in *. unfold normalize_block. f_equal.
      + destruct ac as [a|]; [|reflexivity]. cbn [option_map]. f_equal.
        destruct a; cbn [rep_activation normalize_activation] in *; unfold rep_num in A; now rewrite ?A.
      + apply (map_same normr (rep_rule round close1 n_one d) rs); [|exact B].
        intros [en' an cq w] [E H]. cbn [fr_enabled fr_weight] in *. unfold normalize_rule. cbn [fr_antecedent fr_consequent fr_weight].
        now rewrite (rep_normh w H), E.
  Qed.

  (* the rule's `enabled` flag is not expressible: whatever the engine, every rule of the re-imported engine is enabled *)
  Theorem import_export_rules_enabled e e2 : wf close1 e = true -> IMPORT (EXPORT e) = Ok e2 ->
    Forall (fun b => Forall (fun r => fr_enabled r = true) (fb_rules b)) (fe_blocks e2).
  Proof.
    intros W H. rewrite import_export in H by assumption. injection H as <-. destruct e as [nm de ins outs bs].
    cbn [normalize fe_blocks]. apply Forall_map. apply Forall_forall. intros [n de' en cj dj im ac rs] _.
    cbn [normalize_block fb_rules]. apply Forall_map. apply Forall_forall. reflexivity.
  Qed.

  (* the exported lines contain no newline: "\n".join (export e) splits back into exactly these lines *)
  Lemma plain_nonl s : str_forall plain s = true -> str_forall (fun c => negb (is_nl c)) s = true.
  Proof. apply str_forall_impl. intros c. unfold plain. rewrite andb_true_iff. tauto. Qed.
  Lemma render_blk_nonl b : blk_ok b -> Forall (fun l => str_forall (fun c => negb (is_nl c)) l = true) (render_blk b).
  Proof.
    destruct b as [[h n] ps]. intros (Hk & _ & Hn & Hp & _). cbn [render_blk].
    destruct (key_parts h Hk) as (_ & _ & KP & _). destruct (value_parts n Hn) as (NP & _). constructor.
    - apply plain_nonl. now apply kv_plain.
    - apply Forall_map. eapply Forall_impl; [|exact Hp]. intros [k v] [Pk Pv]. cbn [fst snd] in *.
      destruct (key_parts k Pk) as (_ & _ & KP' & _). destruct (value_parts v Pv) as (VP & _).
      apply plain_nonl. unfold iline, kvline. cbn [fst snd]. rewrite str_forall_app. cbn [indent str_forall].
      now rewrite kv_plain.
  Qed.
  Theorem export_no_newline e : wf close1 e = true ->
    Forall (fun l => str_forall (fun c => negb (is_nl c)) l = true) (EXPORT e).
  Proof.
    intros W. rewrite export_blks by assumption. apply Forall_app. split; [|repeat constructor].
    pose proof (all_blks_ok e W) as H. induction H as [|b bs Hb _ IH]; [constructor|].
    cbn [flat_map]. apply Forall_app. split; [now apply render_blk_nonl|exact IH].
  Qed.
End RoundTrip.

(* ================================================================================================ instances *)
(* ---- the token instance (Model/Fll.v, TokNum): the assumptions hold for every closeness table *)
Lemma nchar_roundtrip c : nchar_of_char (char_of_nchar c) = Some c.
Proof. now destruct c. Qed.
Lemma nchars_roundtrip l : nchars_of_string (string_of_nchars l) = Some l.
Proof. induction l as [|c l IH]; [reflexivity|]. cbn [string_of_nchars nchars_of_string]. now rewrite nchar_roundtrip, IH. Qed.
Lemma tok_roundtrip t : tok_of_string (string_of_tok t) = Some t.
Proof.
  destruct t as [c l]. unfold tok_of_string, string_of_tok. cbn [fst snd nchars_of_string].
  now rewrite nchar_roundtrip, nchars_roundtrip.
Qed.
Lemma nchar_token c : negb (is_ws (char_of_nchar c)) && negb (is_hash (char_of_nchar c)) = true.
Proof. now destruct c. Qed.
Lemma tok_token t : tokenb (string_of_tok t) = true.
Proof.
  destruct t as [c l]. unfold tokenb, string_of_tok. cbn [fst snd nonempty String.eqb negb andb str_forall].
  rewrite nchar_token. cbn [andb]. induction l as [|x l IH]; [reflexivity|]. cbn [string_of_nchars str_forall].
  now rewrite nchar_token, IH.
Qed.

Section TokInstance.
  Variable tbl : list string.
  Variables one zero : string.
  Lemma tn_parse_fmt d x : tn_parse tbl (tn_fmt d x) = Some (tn_round tbl d x).
  Proof. unfold tn_parse, tn_fmt, tn_round. now rewrite tok_roundtrip. Qed.
  Lemma tn_fmt_round d x : tn_fmt d (tn_round tbl d x) = tn_fmt d x.
  Proof. reflexivity. Qed.
  Lemma tn_round_idem d x : tn_round tbl d (tn_round tbl d x) = tn_round tbl d x.
  Proof. reflexivity. Qed.
  Lemma tn_fmt_token d x : tokenb (tn_fmt d x) = true.
  Proof. apply tok_token. Qed.
  Lemma tn_close1_one : tn_close1 (TN one true) = true.
  Proof. unfold TN, tn_close1. now destruct (tok_of_string one). Qed.

  Theorem tn_import_export d e : wf tn_close1 e = true ->
    tn_import tbl one zero (tn_export d e) = Ok (tn_normalize tbl one d e).
  Proof.
    apply (import_export tnum tn_fmt (tn_parse tbl) (tn_round tbl) tn_close1 (TN "nan" false) (TN "inf" false) (TN "-inf" false)
             (TN one true) (TN zero false) tn_parse_fmt tn_fmt_token).
  Qed.
  Theorem tn_export_normalize d e : wf tn_close1 e = true -> stable (tn_round tbl) tn_close1 d e ->
    tn_export d (tn_normalize tbl one d e) = tn_export d e.
  Proof. apply (export_normalize tnum tn_fmt (tn_round tbl) tn_close1 (TN one true) tn_fmt_round tn_close1_one). Qed.
End TokInstance.

(* ---- the three-number instance: the assumptions hold, the fixed point fails without `stable` *)
Lemma n3_parse_fmt d x : n3_parse (n3_fmt d x) = Some (n3_round d x).
Proof. now destruct x. Qed.
Lemma n3_fmt_round d x : n3_fmt d (n3_round d x) = n3_fmt d x.
Proof. now destruct x. Qed.
Lemma n3_round_idem d x : n3_round d (n3_round d x) = n3_round d x.
Proof. now destruct x. Qed.
Lemma n3_fmt_token d x : tokenb (n3_fmt d x) = true.
Proof. now destruct x. Qed.
Lemma n3_close1_one : n3_close1 NB = true.
Proof. reflexivity. Qed.

(* ================================================================================================ accepted texts *)
(* lines of a text split at newlines contain no newline *)
Definition no_nl (c : ascii) : bool := negb (is_nl c).
Definition nonl (s : string) : Prop := str_forall no_nl s = true.

Lemma plain_split s : str_forall plain s = str_forall not_hash s && str_forall no_nl s.
Proof. unfold plain. apply (str_forall_and not_hash no_nl). Qed.
Lemma clean_line_props l : nonl l ->
  str_forall plain (clean_line l) = true /\ lstrip (clean_line l) = clean_line l /\ rstrip (clean_line l) = clean_line l.
Proof.
  intros H. unfold clean_line. split; [|split; [apply strip_lclean|apply strip_rclean]].
  rewrite plain_split, andb_true_iff. split.
  - apply forall_strip, cut_comment_nohash.
  - apply forall_strip, forall_cut_comment, H.
Qed.
Lemma clean_line_nonl l : nonl l -> nonl (clean_line l).
Proof. intros H. destruct (clean_line_props l H) as (P & _). rewrite plain_split, andb_true_iff in P. apply P. Qed.
Lemma key_value_value l kraw k v : nonl l -> key_value l = Ok (kraw, k, v) -> value_okb v = true.
Proof.
  intros H. unfold key_value. destruct (clean_line_props l H) as (P & _).
  destruct (split_colon (clean_line l)) as [[k0 v0]|] eqn:E; [|discriminate]. intros [= <- <- <-].
  destruct (forall_split_colon plain _ _ _ P E) as [_ Pv]. apply value_okb_intro.
  - now apply forall_strip.
  - apply strip_lclean.
  - apply strip_rclean.
Qed.

Lemma fold_block_inv {S : Type} (f : string -> string -> string -> S -> result S) (P : S -> Prop) lines s s' :
  Forall nonl lines ->
  (forall kraw k v a a', value_okb v = true -> P a -> f kraw k v a = Ok a' -> P a') ->
  P s -> fold_block f lines s = Ok s' -> P s'.
Proof.
  intros HL Hf. revert s. induction HL as [|l lines Hl _ IH]; intros s Ps; cbn [fold_block].
  - now intros [= <-].
  - destruct (String.eqb (clean_line l) ""); [now apply IH|].
    destruct (key_value (clean_line l)) as [[[kraw k] v]|] eqn:E; [|discriminate]. cbn [bind].
    destruct (f kraw k v s) as [a'|] eqn:F; [|discriminate]. cbn [bind]. apply IH.
    apply (Hf kraw k v s a'); auto. eapply key_value_value; [|exact E]. now apply clean_line_nonl.
Qed.

(* ---- tails of right-stripped strings; the pieces of split *)
Lemma rclean_tail c s : rstrip (String c s) = String c s -> rstrip s = s.
Proof. cbn [rstrip]. destruct (String.eqb (rstrip s) "" && is_ws c); [discriminate|]. now intros [= ->]. Qed.
Lemma rclean_lstrip s : rstrip s = s -> rstrip (lstrip s) = lstrip s.
Proof.
  induction s as [|c s IH]; [reflexivity|]. intros H. cbn [lstrip]. destruct (is_ws c); [|exact H].
  apply IH. now apply rclean_tail in H.
Qed.
Lemma rclean_span_rest s : rstrip s = s -> rstrip (snd (span_tok s)) = snd (span_tok s).
Proof.
  induction s as [|c s IH]; [reflexivity|]. intros H. cbn [span_tok]. destruct (is_ws c); [exact H|].
  destruct (span_tok s) as [t r] eqn:E. cbn [snd] in *. apply IH. now apply rclean_tail in H.
Qed.
Lemma span_tok_nows s : str_forall not_ws (fst (span_tok s)) = true.
Proof.
  induction s as [|c s IH]; [reflexivity|]. cbn [span_tok]. destruct (is_ws c) eqn:E; [reflexivity|].
  destruct (span_tok s) as [t r]. cbn [fst str_forall] in *. unfold not_ws at 1. now rewrite E, IH.
Qed.
Lemma span_tok_nonempty c s : is_ws c = false -> fst (span_tok (String c s)) <> "".
Proof. intros H. cbn [span_tok]. rewrite H. now destruct (span_tok s). Qed.
Lemma span_tok_length s : (String.length (fst (span_tok s)) + String.length (snd (span_tok s)) = String.length s)%nat.
Proof.
  induction s as [|c s IH]; [reflexivity|]. cbn [span_tok]. destruct (is_ws c); [reflexivity|].
  destruct (span_tok s) as [t r]. cbn [fst snd String.length] in *. lia.
Qed.
Lemma lstrip_length s : (String.length (lstrip s) <= String.length s)%nat.
Proof. induction s as [|c s IH]; cbn; [lia|]. destruct (is_ws c); cbn; lia. Qed.
Lemma nows_token t : t <> "" -> str_forall not_ws t = true -> str_forall not_hash t = true -> tokenb t = true.
Proof.
  intros H1 H2 H3. unfold tokenb. rewrite (proj2 (nonempty_true t) H1). cbn [andb].
  rewrite (str_forall_and not_ws not_hash) . now rewrite H2, H3.
Qed.

Lemma split_max_elems n s : str_forall plain s = true -> rstrip s = s ->
  Forall (fun t => value_okb t = true /\ t <> "") (split_max n s).
Proof.
  revert s. induction n as [|n IH]; intros s P R; cbn [split_max];
    pose proof (forall_lstrip plain s P) as P1; pose proof (rclean_lstrip s R) as R1; pose proof (lstrip_idem s) as L1;
    destruct (lstrip s) as [|c r] eqn:E; try constructor.
  - split; [now apply value_okb_intro|discriminate].
  - constructor.
  - pose proof (lstrip_first _ L1) as W. cbn in W.
    pose proof (span_tok_nows (String c r)) as TN. pose proof (span_tok_nonempty c r W) as TE.
    pose proof (forall_span_tok plain _ P1) as [TP RP]. pose proof (rclean_span_rest _ R1) as RR.
    destruct (span_tok (String c r)) as [t rest]. cbn [fst snd] in *. constructor.
    + split; [|exact TE]. apply value_okb_intro; [exact TP| |now apply nows_rstrip].
      destruct t as [|c' t']; [congruence|]. cbn [str_forall] in TN. unfold not_ws at 1 in TN.
      rewrite andb_true_iff, negb_true_iff in TN. now apply lstrip_nows.
    + now apply IH.
Qed.
Lemma split_max_tokens n s : (String.length s <= n)%nat -> str_forall not_hash s = true ->
  Forall (fun t => tokenb t = true) (split_max n s).
Proof.
  revert s. induction n as [|n IH]; intros s L H; cbn [split_max];
    pose proof (forall_lstrip not_hash s H) as H1; pose proof (lstrip_length s) as L1; pose proof (lstrip_idem s) as I1;
    destruct (lstrip s) as [|c r] eqn:E; try constructor.
  - cbn [String.length] in L1. lia.
  - constructor.
  - pose proof (lstrip_first _ I1) as W. cbn in W.
    pose proof (span_tok_nows (String c r)) as TN. pose proof (span_tok_nonempty c r W) as TE.
    pose proof (forall_span_tok not_hash _ H1) as [TP RP]. pose proof (span_tok_length (String c r)) as SL.
    destruct (span_tok (String c r)) as [t rest]. cbn [fst snd] in *. constructor.
    + now apply nows_token.
    + apply IH; [|exact RP]. destruct t; [congruence|]. cbn [String.length] in *. lia.
Qed.
Lemma split_ws_tokens s : str_forall not_hash s = true -> Forall (fun t => tokenb t = true) (split_ws s).
Proof. intros H. unfold split_ws. now apply split_max_tokens. Qed.

Section Accept.
  Variable num : Type.
  Variable parse : string -> option num.
  Variable close1 : num -> bool.
  Variables n_nan n_pinf n_ninf n_one n_zero : num.
  Hypothesis close1_one : close1 n_one = true.

  Local Notation tok := (fun t : string => tokenb t = true).

  Ltac inv_bind_as H x E :=
    match type of H with
    | bind ?r _ = Ok _ => destruct r as [x|] eqn:E; cbn [bind] in H; [|discriminate H]
    end.
  Tactic Notation "inv_bind" hyp(H) "as" ident(x) ident(E) := inv_bind_as H x E.
  Tactic Notation "inv_bind" hyp(H) := let x := fresh "x" in let E := fresh "E" in inv_bind_as H x E.

  (* ---- terms *)
  Lemma parse_shape_params_wf arity hh p ps h :
    parse_shape_params parse n_one arity hh p = Ok (ps, h) -> List.length ps = arity /\ (hh = true \/ h = n_one).
  Proof.
    unfold parse_shape_params. intros H. inv_bind H as l E.
    set (vals' := if hh && Nat.eqb (List.length l) arity then l ++ [n_one] else l) in *.
    destruct (Nat.eqb_spec (List.length vals') (arity + (if hh then 1 else 0))) as [L|_]; [|discriminate].
    injection H as <- <-. split.
    - apply firstn_length_le. lia.
    - destruct hh; auto.
  Qed.
  Lemma construct_term_wf c name params t :
    ident_ok name = true ->
    match params with Some p => value_okb p = true /\ p <> "" | None => True end ->
    construct_term parse n_nan n_one c name params = Ok t -> wf_term close1 t = true.
  Proof.
    intros HN HP. unfold construct_term.
    destruct (String.eqb c "Discrete") eqn:E1.
    { destruct params as [p|].
      - unfold configure_discrete. destruct (Nat.even _); intros H; repeat inv_bind H; injection H as <-;
          unfold wf_term; cbn [ft_name]; now rewrite HN.
      - intros [= <-]. unfold wf_term. cbn [ft_name]. now rewrite HN. }
    destruct (String.eqb c "Linear") eqn:E2.
    { destruct params as [p|]; intros H; [inv_bind H|]; injection H as <-; unfold wf_term; cbn [ft_name]; now rewrite HN. }
    destruct (String.eqb c "Function") eqn:E3.
    { destruct params as [p|]; [|discriminate]. intros [= <-]. destruct HP as [V NE]. unfold wf_term. cbn [ft_name].
      rewrite HN. cbn [andb]. change (value_ok p) with (value_okb p). rewrite V. now apply nonempty_true. }
    destruct (lookup_term c) as [r|] eqn:L; [|discriminate].
    assert (SP : is_special_class c = false) by (unfold is_special_class; now rewrite E1, E2, E3).
    destruct params as [p|].
    - intros H. inv_bind H as ph E. destruct ph as [ps h]. injection H as <-. apply parse_shape_params_wf in E as [EL EH].
      unfold wf_term. cbn [ft_name]. rewrite HN, SP, L, EL, Nat.eqb_refl. cbn [negb andb].
      destruct EH as [->| ->]; [reflexivity|]. rewrite close1_one. apply orb_true_r.
    - intros [= <-]. unfold wf_term. cbn [ft_name]. rewrite HN, SP, L, repeat_length, Nat.eqb_refl, close1_one.
      cbn [negb andb]. apply orb_true_r.
  Qed.
  Lemma import_term_wf kraw v t : value_okb v = true -> import_term parse n_nan n_one kraw v = Ok t -> wf_term close1 t = true.
  Proof.
    intros V. unfold import_term. destruct (negb (String.eqb kraw "term")); [discriminate|].
    destruct (value_parts v V) as (P & _ & R). pose proof (split_max_elems 2 v P R) as HE.
    destruct (split_max 2 v) as [|n [|c [|p [|]]]]; try discriminate.
    - apply construct_term_wf; [apply ident_ok_as_identifier|exact I].
    - apply construct_term_wf; [apply ident_ok_as_identifier|].
      inversion_clear HE as [|? ? _ HE']. inversion_clear HE' as [|? ? _ HE'']. inversion_clear HE'' as [|? ? HP _]. exact HP.
  Qed.

  (* ---- rules *)
  Definition okA (t : string) : Prop := tokenb t = true /\ String.eqb t "then" = false.
  Definition okC (t : string) : Prop := tokenb t = true /\ String.eqb t "with" = false.
  Lemma rule_fsm_inv toks st ante cq w st' ante' cq' w' :
    Forall tok toks -> Forall okA ante -> Forall okC cq ->
    rule_fsm parse toks st ante cq w = Ok (st', ante', cq', w') -> Forall okA ante' /\ Forall okC cq'.
  Proof.
    intros HT. revert st ante cq w. induction HT as [|t toks Ht _ IH]; intros st ante cq w HA HC; cbn [rule_fsm].
    - intros [= <- <- <- <-]. auto.
    - destruct st.
      + destruct (String.eqb t "if"); [now apply IH|discriminate].
      + destruct (String.eqb t "then") eqn:E; [now apply IH|]. apply IH; [|exact HC].
        apply Forall_app. split; [exact HA|]. repeat constructor; assumption.
      + destruct (String.eqb t "with") eqn:E; [now apply IH|]. apply IH; [exact HA|].
        apply Forall_app. split; [exact HC|]. repeat constructor; assumption.
      + destruct (parse t); [now apply IH|discriminate].
      + discriminate.
  Qed.
  Lemma import_rule_wf kraw v r : import_rule parse n_one kraw v = Ok r -> wf_rule r = true.
  Proof.
    unfold import_rule. destruct (negb (String.eqb kraw "rule")); [discriminate|]. unfold parse_rule. intros H. inv_bind H as q E.
    destruct q as [[[st ante] cq] w].
    apply rule_fsm_inv in E as [HA HC]; [| apply split_ws_tokens, cut_comment_nohash | constructor | constructor].
    assert (G : ante <> [] -> cq <> [] -> wf_rule {| fr_enabled := true; fr_antecedent := ante; fr_consequent := cq; fr_weight := w |} = true).
    { intros NA NC. unfold wf_rule. cbn [fr_antecedent fr_consequent]. rewrite !andb_true_iff. repeat split.
      - destruct ante; [congruence|reflexivity].
      - destruct cq; [congruence|reflexivity].
      - apply forallb_forall. intros t Ht. rewrite Forall_forall in HA. destruct (HA t Ht) as [A B].
        change (token_ok t) with (tokenb t). now rewrite A, B.
      - apply forallb_forall. intros t Ht. rewrite Forall_forall in HC. destruct (HC t Ht) as [A B].
        change (token_ok t) with (tokenb t). now rewrite A, B. }
    destruct st; try discriminate; destruct ante as [|a ante]; try discriminate; destruct cq as [|c cq]; try discriminate;
      injection H as <-; apply G; discriminate.
  Qed.

  (* ---- blocks *)
  Lemma forallb_app1 {A} (f : A -> bool) l x : forallb f l = true -> f x = true -> forallb f (l ++ [x]) = true.
  Proof. intros H1 H2. rewrite forallb_app, H1. cbn. now rewrite H2. Qed.

  Definition input_inv (v : fll_input num) : Prop :=
    value_okb (fi_description v) = true /\ forallb (wf_term close1) (fi_terms v) = true.
  Lemma input_line_inv kraw k v a a' : value_okb v = true -> input_inv a ->
    input_line parse n_nan n_one kraw k v a = Ok a' -> input_inv a'.
  Proof.
    intros V [D T]. destruct a as [nm de en lo hi lk ts]. unfold input_line, input_inv in *.
    cbn [fi_description fi_terms] in *.
    repeat (match goal with |- context [if String.eqb k ?s then _ else _] => destruct (String.eqb k s) end);
      intros H; try discriminate; try (inv_bind H as t Et); injection H as <-; cbn [fi_description fi_terms]; auto.
    split; [assumption|]. apply forallb_app1; [assumption|]. apply (import_term_wf kraw v t V Et).
  Qed.
  Lemma import_input_wf blk v : Forall nonl blk -> import_input parse n_nan n_pinf n_ninf n_one blk = Ok v -> wf_input close1 v = true.
  Proof.
    intros HL. unfold import_input. intros H. inv_bind H as a E. destruct a as [nm de en lo hi lk ts]. injection H as <-.
    apply (fold_block_inv _ input_inv) in E; [| assumption | apply input_line_inv | split; reflexivity].
    destruct E as [D T]. unfold wf_input. cbn [fi_name fi_description fi_terms] in *.
    rewrite ident_ok_as_identifier. change (value_ok de) with (value_okb de). now rewrite D, T.
  Qed.

  Definition output_inv (v : fll_output num) : Prop :=
    value_okb (fo_description v) = true /\ forallb (wf_term close1) (fo_terms v) = true.
  Lemma output_line_inv kraw k v a a' : value_okb v = true -> output_inv a ->
    output_line parse n_nan n_one kraw k v a = Ok a' -> output_inv a'.
  Proof.
    intros V [D T]. destruct a as [nm de en lo hi lk ag df dv lp ts]. unfold output_line, output_inv in *.
    cbn [fo_description fo_terms] in *.
    repeat (match goal with |- context [if String.eqb k ?s then _ else _] => destruct (String.eqb k s) end);
      intros H; try discriminate; try (inv_bind H as t Et); injection H as <-; cbn [fo_description fo_terms]; auto.
    split; [assumption|]. apply forallb_app1; [assumption|]. apply (import_term_wf kraw v t V Et).
  Qed.
  Lemma import_output_wf blk v : Forall nonl blk -> import_output parse n_nan n_pinf n_ninf n_one blk = Ok v -> wf_output close1 v = true.
  Proof.
    intros HL. unfold import_output. intros H. inv_bind H as a E. destruct a as [nm de en lo hi lk ag df dv lp ts]. injection H as <-.
    apply (fold_block_inv _ output_inv) in E; [| assumption | apply output_line_inv | split; reflexivity].
    destruct E as [D T]. unfold wf_output. cbn [fo_name fo_description fo_terms] in *.
    rewrite ident_ok_as_identifier. change (value_ok de) with (value_okb de). now rewrite D, T.
  Qed.

  Lemma block_line_inv kraw k v a a' : value_okb v = true -> wf_block a = true ->
    block_line parse n_one n_zero kraw k v a = Ok a' -> wf_block a' = true.
  Proof.
    intros V W. destruct a as [nm de en cj dj im ac rs]. unfold block_line, wf_block in *.
    cbn [fb_name fb_description fb_rules] in *. rewrite !andb_true_iff in W. destruct W as [[N D] R].
    change (value_ok nm) with (value_okb nm) in N. change (value_ok de) with (value_okb de) in D.
    repeat (match goal with |- context [if String.eqb k ?s then _ else _] => destruct (String.eqb k s) end);
      intros H; try discriminate; try (inv_bind H as t Et); injection H as <-; cbn [fb_name fb_description fb_rules];
      change (value_ok v) with (value_okb v); change (value_ok nm) with (value_okb nm); change (value_ok de) with (value_okb de);
      rewrite ?V, ?N, ?D, ?R; try reflexivity.
    cbn [andb]. apply forallb_app1; [assumption|]. apply (import_rule_wf kraw v t Et).
  Qed.
  Lemma import_block_wf blk b : Forall nonl blk -> import_block parse n_one n_zero blk = Ok b -> wf_block b = true.
  Proof.
    intros HL. unfold import_block. intros E.
    apply (fold_block_inv _ (fun b => wf_block b = true)) in E; [assumption | assumption | apply block_line_inv | reflexivity].
  Qed.

  (* ---- the engine *)
  Lemma engine_line_inv kraw k v a a' : value_okb v = true -> wf close1 a = true -> engine_line kraw k v a = Ok a' -> wf close1 a' = true.
  Proof.
    intros V W. destruct a as [nm de ins outs bs]. unfold engine_line, wf in *.
    cbn [fe_name fe_description fe_inputs fe_outputs fe_blocks] in *. rewrite !andb_true_iff in W.
    destruct W as [[[[N D] I] O] B].
    repeat (match goal with |- context [if String.eqb k ?s then _ else _] => destruct (String.eqb k s) end);
      intros H; try discriminate; injection H as <-; cbn [fe_name fe_description fe_inputs fe_outputs fe_blocks];
      change (value_ok v) with (value_okb v); rewrite ?V, ?N, ?D, ?I, ?O, ?B; reflexivity.
  Qed.
  Local Notation LOOP := (engine_loop parse n_nan n_pinf n_ninf n_one n_zero).
  Local Notation PROC := (process parse n_nan n_pinf n_ninf n_one n_zero).
  Lemma process_wf comp blk e e' : Forall nonl blk -> wf close1 e = true -> PROC comp blk e = Ok e' -> wf close1 e' = true.
  Proof.
    intros HL W. unfold process. destruct e as [nm de ins outs bs].
    pose proof W as W0. unfold wf in W0. cbn [fe_name fe_description fe_inputs fe_outputs fe_blocks] in W0.
    rewrite !andb_true_iff in W0. destruct W0 as [[[[N D] I] O] B].
    destruct (String.eqb comp "Engine").
    { intros E. apply (fold_block_inv _ (fun a => wf close1 a = true)) in E; auto. apply engine_line_inv. }
    destruct (String.eqb comp "InputVariable").
    { intros H. inv_bind H as v E. injection H as <-. apply import_input_wf in E; [|assumption].
      unfold wf. cbn [fe_name fe_description fe_inputs fe_outputs fe_blocks]. rewrite N, D, O, B, (forallb_app1 _ _ _ I E). reflexivity. }
    destruct (String.eqb comp "OutputVariable").
    { intros H. inv_bind H as v E. injection H as <-. apply import_output_wf in E; [|assumption].
      unfold wf. cbn [fe_name fe_description fe_inputs fe_outputs fe_blocks]. rewrite N, D, I, B, (forallb_app1 _ _ _ O E). reflexivity. }
    destruct (String.eqb comp "RuleBlock").
    { intros H. inv_bind H as v E. injection H as <-. apply import_block_wf in E; [|assumption].
      unfold wf. cbn [fe_name fe_description fe_inputs fe_outputs fe_blocks]. rewrite N, D, I, O, (forallb_app1 _ _ _ B E). reflexivity. }
    now intros [= <-].
  Qed.
  Lemma loop_wf lines comp blk e e' : Forall nonl lines -> Forall nonl blk -> wf close1 e = true ->
    LOOP lines comp blk e = Ok e' -> wf close1 e' = true.
  Proof.
    intros HL. revert comp blk e. induction HL as [|l lines Hl _ IH]; intros comp blk e HB W; cbn [engine_loop].
    - destruct (String.eqb comp ""); [now intros [= <-]|]. now apply process_wf.
    - destruct (String.eqb (clean_line l) ""); [now apply IH|].
      destruct (key_value (clean_line l)) as [[[kraw k] v]|]; [|discriminate]. cbn [bind].
      pose proof (clean_line_nonl l Hl) as CL. destruct (is_header k).
      + destruct (String.eqb comp "").
        * cbn [bind]. apply IH; [repeat constructor; assumption|assumption].
        * destruct (PROC comp blk e) as [e1|] eqn:E; [|discriminate]. cbn [bind].
          apply IH; [repeat constructor; assumption|]. eapply process_wf; eauto.
      + apply IH; [|assumption]. apply Forall_app. split; [assumption|repeat constructor; assumption].
  Qed.
  Theorem import_yields_wf lines e : Forall nonl lines ->
    import_ parse n_nan n_pinf n_ninf n_one n_zero lines = Ok e -> wf close1 e = true.
  Proof. intros HL. unfold import_. apply loop_wf; [assumption|constructor|reflexivity]. Qed.
End Accept.

(* ================================================================================================ accepted texts normalise *)
Section Accepted.
  Variable num : Type.
  Variable fmt : nat -> num -> string.
  Variable parse : string -> option num.
  Variable round : nat -> num -> num.
  Variable close1 : num -> bool.
  Variables n_nan n_pinf n_ninf n_one n_zero : num.
  Hypothesis parse_fmt : forall d x, parse (fmt d x) = Some (round d x).
  Hypothesis fmt_round : forall d x, fmt d (round d x) = fmt d x.
  Hypothesis fmt_token : forall d x, tokenb (fmt d x) = true.
  Hypothesis close1_one : close1 n_one = true.
  Local Notation IMPORT := (import_ parse n_nan n_pinf n_ninf n_one n_zero).

  (* any text the importer accepts is mapped by one export/import cycle to the normal form of what was read … *)
  Theorem accepted_text_normalises lines e d : Forall nonl lines -> IMPORT lines = Ok e ->
    IMPORT (export fmt close1 d e) = Ok (normalize round close1 n_one d e).
  Proof.
    intros HL H. apply import_export; auto. eapply import_yields_wf; eauto.
  Qed.
  (* … and the export of that normal form is the same text again, provided the printed heights / weights stay
     outside the tolerance of 1 after rounding *)
  Theorem accepted_text_fixed_point lines e d : Forall nonl lines -> IMPORT lines = Ok e -> stable round close1 d e ->
    exists e2, IMPORT (export fmt close1 d e) = Ok e2 /\ export fmt close1 d e2 = export fmt close1 d e.
  Proof.
    intros HL H S. eapply export_import_export_fixpoint; eauto. eapply import_yields_wf; eauto.
  Qed.
End Accepted.

(* ================================================================================================ the assumptions as one predicate *)
(* A-fmt (DESIGN §4): "%.{d}f" formatting followed by float() yields the number denoted by the printed text (`round`);
   printing does not distinguish a number from its rounding; rounding is idempotent; printed numbers contain no
   whitespace and no "#"; and 1.0 is within the tolerance of 1. *)
Definition A_fmt {num : Type} (fmt : nat -> num -> string) (parse : string -> option num) (round : nat -> num -> num)
  (close1 : num -> bool) (one : num) : Prop :=
  (forall d x, parse (fmt d x) = Some (round d x)) /\ (forall d x, fmt d (round d x) = fmt d x)
  /\ (forall d x, round d (round d x) = round d x) /\ (forall d x, tokenb (fmt d x) = true) /\ close1 one = true.

Lemma tn_A_fmt tbl one : A_fmt tn_fmt (tn_parse tbl) (tn_round tbl) tn_close1 (TN one true).
Proof.
  repeat split; auto using tn_parse_fmt, tn_fmt_token, tn_close1_one.
Qed.
Lemma n3_A_fmt : A_fmt n3_fmt n3_parse n3_round n3_close1 NB.
Proof. repeat split; auto using n3_parse_fmt, n3_fmt_round, n3_round_idem, n3_fmt_token. Qed.

Section Final.
  Variable num : Type.
  Variable fmt : nat -> num -> string.
  Variable parse : string -> option num.
  Variable round : nat -> num -> num.
  Variable close1 : num -> bool.
  Variables n_nan n_pinf n_ninf n_one n_zero : num.
  Hypothesis A : A_fmt fmt parse round close1 n_one.
  Local Notation IMPORT := (import_ parse n_nan n_pinf n_ninf n_one n_zero).
  Local Notation EXPORT := (export fmt close1).
  Local Notation NORMALIZE := (normalize round close1 n_one).

  Theorem final_import_export d e : wf close1 e = true -> IMPORT (EXPORT d e) = Ok (NORMALIZE d e).
  Proof. destruct A as (A1 & A2 & A3 & A4 & A5). now apply import_export. Qed.
  Theorem final_export_normalize d e : wf close1 e = true -> stable round close1 d e -> EXPORT d (NORMALIZE d e) = EXPORT d e.
  Proof. destruct A as (A1 & A2 & A3 & A4 & A5). now apply export_normalize. Qed.
  Theorem final_fixpoint d e : wf close1 e = true -> stable round close1 d e ->
    exists e2, IMPORT (EXPORT d e) = Ok e2 /\ EXPORT d e2 = EXPORT d e.
  Proof. destruct A as (A1 & A2 & A3 & A4 & A5). now apply export_import_export_fixpoint. Qed.
  Theorem final_import_yields_wf lines e : Forall nonl lines -> IMPORT lines = Ok e -> wf close1 e = true.
  Proof. destruct A as (A1 & A2 & A3 & A4 & A5). now apply import_yields_wf. Qed.
  Theorem final_accepted_text_normalises lines e d : Forall nonl lines -> IMPORT lines = Ok e ->
    IMPORT (EXPORT d e) = Ok (NORMALIZE d e).
  Proof. destruct A as (A1 & A2 & A3 & A4 & A5). now apply (accepted_text_normalises num fmt parse round). Qed.
  Theorem final_accepted_text_fixed_point lines e d : Forall nonl lines -> IMPORT lines = Ok e -> stable round close1 d e ->
    exists e2, IMPORT (EXPORT d e) = Ok e2 /\ EXPORT d e2 = EXPORT d e.
  Proof. destruct A as (A1 & A2 & A3 & A4 & A5). now apply (accepted_text_fixed_point num fmt parse round). Qed.
  Theorem final_representable_same d e : representable round close1 n_one d e -> NORMALIZE d e = e.
  Proof. destruct A as (A1 & A2 & A3 & A4 & A5). now apply representable_same. Qed.
  Theorem final_representable_roundtrip d e : wf close1 e = true -> representable round close1 n_one d e ->
    IMPORT (EXPORT d e) = Ok e.
  Proof. intros W R. rewrite final_import_export by assumption. f_equal. now apply final_representable_same. Qed.
  Theorem final_export_no_newline d e : wf close1 e = true -> Forall nonl (EXPORT d e).
  Proof. destruct A as (A1 & A2 & A3 & A4 & A5). now apply export_no_newline. Qed.
  Theorem final_rules_enabled d e e2 : wf close1 e = true -> IMPORT (EXPORT d e) = Ok e2 ->
    Forall (fun b => Forall (fun r => fr_enabled r = true) (fb_rules b)) (fe_blocks e2).
  Proof. destruct A as (A1 & A2 & A3 & A4 & A5). now apply (import_export_rules_enabled num fmt parse round close1 n_nan n_pinf n_ninf n_one n_zero A1 A4 d e). Qed.
End Final.

(* ================================================================================================ refutations at the three-number instance *)
Lemma n3_export_normalize_fails :
  export n3_fmt n3_close1 1 (normalize n3_round n3_close1 NB 1 n3_engine) <> export n3_fmt n3_close1 1 n3_engine.
Proof. vm_compute. discriminate. Qed.
Lemma n3_fixpoint_fails :
  A_fmt n3_fmt n3_parse n3_round n3_close1 NB /\ wf n3_close1 n3_engine = true /\
  exists e2, n3_import (n3_export n3_engine) = Ok e2 /\ n3_export e2 <> n3_export n3_engine.
Proof.
  split; [exact n3_A_fmt|]. split; [vm_compute; reflexivity|].
  eexists. split; [vm_compute; reflexivity|]. vm_compute. discriminate.
Qed.

(* closed goals about concrete engines: Forall / conjunctions / the two cases of rep_h, by computation *)
Ltac solve_concrete :=
  vm_compute;
  repeat match goal with
         | |- Forall _ _ => constructor
         | |- _ /\ _ => split
         | |- _ \/ _ => first [left; reflexivity | right; split; reflexivity]
         | |- True => exact I
         | |- _ = _ => reflexivity
         | |- _ -> _ => intros; try reflexivity; try discriminate
         end.
