(* PyReprFix.v — property C15, part 3 (split from PyReprProofs.v to keep each file's compile time low):
   representable, freshly built, loaded engines are reconstructed exactly; repr and the FLL view of the reconstructed
   engine equal the original's. *)
From Coq Require Import ZArith Bool List String Ascii Lia.
From VF Require Import Num GenTerm Core GenSignatures PyRepr PyReprProofs.
Import ListNotations.
Local Open Scope string_scope.
Local Open Scope list_scope.
Set Implicit Arguments.

Section Fix.
  Context {T : Type} {N : Num T}.
  Variable E : penv T.
  Notation pyval := (pyval T).
  Notation norm_height := (norm_height E).
  Notation norm_term := (norm_term E).
  Notation norm_rule := (norm_rule E).
  Notation norm_input := (norm_input E).
  Notation norm_output := (norm_output E).
  Notation norm_block := (norm_block E).
  Notation norm_engine := (norm_engine E).

  (* ---- representable, freshly built, loaded engines are reconstructed exactly *)
  Definition height_rep (h : T) : Prop := norm_height h = h.     (* 1, or further from 1 than the tolerance *)
  Definition term_rep (t : pterm T) : Prop :=
    match t with
    | PShape _ s => height_rep (shape_height s)
    | PDiscrete _ _ h => height_rep h
    | PLinear _ _ e => e = true
    | PFunction _ _ _ l e => l = true /\ e = true
    end.
  Definition rule_rep (r : prule T) : Prop :=
    ru_enabled r = true /\ height_rep (ru_weight r) /\ ru_loaded r = true /\ ru_degree r = lit 0 0 /\ ru_triggered r = false.
  Definition input_rep (v : pinput T) : Prop := Forall term_rep (vi_terms v) /\ vi_value v = nan.
  Definition output_rep (v : poutput T) : Prop :=
    Forall term_rep (vo_terms v) /\ vo_value v = nan /\ vo_previous v = nan /\ vo_fuzzy_name v = vo_name v /\ vo_fuzzy_terms v = [].
  Definition block_rep (b : pblock T) : Prop := Forall rule_rep (bl_rules b).
  Definition engine_rep (e : pengine T) : Prop :=
    Forall input_rep (en_inputs e) /\ Forall output_rep (en_outputs e) /\ Forall block_rep (en_blocks e).

  Lemma map_id_on : forall A (f : A -> A) l, Forall (fun x => f x = x) l -> map f l = l.
  Proof. induction 1 as [|x l H _ IH]; cbn; [reflexivity|]. rewrite H, IH. reflexivity. Qed.
  Lemma shape_set_own_height : forall s : shape T, shape_set_height s (shape_height s) = s.
  Proof. destruct s; reflexivity. Qed.
  Lemma term_rep_fixed : forall t, term_rep t -> load_term (norm_term t) = t.
  Proof.
    destruct t as [n s|n rows h|n cs e|n f vars l e]; cbn; intros H.
    - unfold height_rep in H. rewrite H. rewrite shape_set_own_height. reflexivity.
    - unfold height_rep in H. rewrite H. reflexivity.
    - subst. reflexivity.
    - destruct H; subst. reflexivity.
  Qed.
  Lemma rule_rep_fixed : forall r, rule_rep r -> load_rule_t (norm_rule r) = r.
  Proof.
    intros [en w a c l d t] [H1 [H2 [H3 [H4 H5]]]]. cbn in *. unfold height_rep in H2. subst.
    unfold load_rule_t, PyReprProofs.norm_rule. cbn. rewrite H2. reflexivity.
  Qed.
  Theorem representable_engine_fixed : forall e, engine_rep e -> norm_engine e = e.
  Proof.
    intros [n d ivs ovs rbs] [Hi [Ho Hb]]. cbn in *. unfold PyReprProofs.norm_engine. cbn. f_equal.
    - apply map_id_on. eapply Forall_impl; [|exact Hi]. intros [a1 a2 a3 a4 a5 a6 ts val] [Ht Hv]. cbn in *. subst.
      unfold load_input, PyReprProofs.norm_input. cbn. f_equal. rewrite map_map. apply map_id_on.
      eapply Forall_impl; [|exact Ht]. apply term_rep_fixed.
    - apply map_id_on. eapply Forall_impl; [|exact Ho]. intros [a1 a2 a3 a4 a5 a6 a7 a8 a9 a10 ts val prev fzn fzt] [Ht [Hv [Hp [Hn Hf]]]].
      cbn in *. subst. unfold load_output, PyReprProofs.norm_output. cbn. f_equal. rewrite map_map. apply map_id_on.
      eapply Forall_impl; [|exact Ht]. apply term_rep_fixed.
    - apply map_id_on. eapply Forall_impl; [|exact Hb]. intros [a1 a2 a3 a4 a5 a6 a7 rs] Hr. cbn in *.
      unfold load_block, PyReprProofs.norm_block. cbn. f_equal. rewrite map_map. apply map_id_on.
      eapply Forall_impl; [|exact Hr]. apply rule_rep_fixed.
  Qed.
  Corollary normalize_representable : forall e, engine_wf E e -> engine_rep e -> normalize E (engine_val e) = Ok (engine_val e).
  Proof. intros e Hw Hr. rewrite (normalize_engine Hw). rewrite (representable_engine_fixed Hr). reflexivity. Qed.

  (* ---- repr (normalize v) = repr v *)
  Hypothesis Hone : is_close E (lit 1 0) (lit 1 0) = true.
  Variable a : alias.
  Lemma repr_obj_eq : forall c fs,
    repr E a (VObj c fs) =
    repr_obj E a c (map (fun kv => (fst kv, ((snd kv, repr E a (snd kv)),
                      match snd kv with
                      | VObj _ fs0 => map (fun kv2 => (fst kv2, (snd kv2, repr E a (snd kv2)))) fs0
                      | _ => [] end))) fs).
  Proof. reflexivity. Qed.
  Ltac rstep := cbv -[is_close norm_float isnan isposinf isneginf ltb lit nan pinf ninf fmt_w join_sp].
  Lemma repr_shape_fix : forall n s, repr E a (shape_val n (shape_set_height s (norm_height (shape_height s)))) = repr E a (shape_val n s).
  Proof.
    intros n s. unfold PyReprProofs.norm_height.
    destruct s; cbn [shape_height shape_set_height];
      try (match goal with |- context [is_close E ?h (lit 1 0)] => destruct (is_close E h (lit 1 0)) eqn:Hc end;
           [rstep; rewrite ?Hone, ?Hc; reflexivity|reflexivity]).
    reflexivity.
  Qed.
  Lemma repr_term_fix : forall t, repr E a (term_val (load_term (norm_term t))) = repr E a (term_val t).
  Proof.
    destruct t as [n s|n rows h|n cs e|n f vars l e]; cbn [PyReprProofs.norm_term load_term].
    - apply repr_shape_fix.
    - unfold PyReprProofs.norm_height. destruct (is_close E h (lit 1 0)) eqn:Hc; [|reflexivity].
      unfold term_val. rewrite !repr_obj_eq. cbn [map fst snd].
      set (R := repr E a (VArr _)). set (V := VArr _). rstep. rewrite Hone, Hc. reflexivity.
    - unfold term_val. rewrite !repr_obj_eq. cbn [map fst snd]. set (R := repr E a (VList _)). destruct e; reflexivity.
    - unfold term_val. rewrite !repr_obj_eq. cbn [map fst snd]. set (R := repr E a (VDict _)). destruct l; destruct e; reflexivity.
  Qed.

  Lemma repr_rule_fix : forall r, repr E a (rule_val (load_rule_t (norm_rule r))) = repr E a (rule_val r).
  Proof.
    intros [en w ante cq l d t]. unfold load_rule_t, PyReprProofs.norm_rule, rule_val, PyReprProofs.norm_height.
    cbn [ru_enabled ru_weight ru_antecedent ru_consequent ru_loaded ru_degree ru_triggered].
    rewrite !repr_obj_eq. cbn [map fst snd].
    destruct (is_close E w (lit 1 0)) eqn:Hc; rstep; rewrite ?Hone, ?Hc; reflexivity.
  Qed.
  Lemma repr_list_fix : forall A (val : A -> pyval) (f : A -> A) l,
    (forall x, repr E a (val (f x)) = repr E a (val x)) -> repr E a (VList (map val (map f l))) = repr E a (VList (map val l)).
  Proof.
    intros A val f l H. cbn [repr]. rewrite !map_map.
    rewrite (map_ext (fun x => repr E a (val (f x))) (fun x => repr E a (val x)) H). reflexivity.
  Qed.
  Lemma repr_input_fix : forall v, repr E a (input_val (load_input (norm_input v))) = repr E a (input_val v).
  Proof.
    intros [n d en mn mx lr ts val]. unfold load_input, PyReprProofs.norm_input, input_val.
    cbn [vi_name vi_description vi_enabled vi_min vi_max vi_lock_range vi_terms vi_value].
    rewrite !repr_obj_eq. cbn [map fst snd]. rewrite (map_map norm_term load_term).
    rewrite (repr_list_fix term_val (fun t => load_term (norm_term t)) ts repr_term_fix).
    set (R := repr E a (VList _)). destruct d; destruct en; reflexivity.
  Qed.
  Lemma repr_output_fix : forall v, repr E a (output_val (load_output (norm_output v))) = repr E a (output_val v).
  Proof.
    intros [n d en mn mx lr lp dv ag df ts val prev fzn fzt]. unfold load_output, PyReprProofs.norm_output, output_val.
    cbn [vo_name vo_description vo_enabled vo_min vo_max vo_lock_range vo_lock_previous vo_default vo_aggregation vo_defuzzifier vo_terms
         vo_value vo_previous vo_fuzzy_name vo_fuzzy_terms].
    rewrite !repr_obj_eq. cbn [map fst snd]. rewrite (map_map norm_term load_term).
    rewrite (repr_list_fix term_val (fun t => load_term (norm_term t)) ts repr_term_fix).
    set (R := repr E a (VList (map term_val ts))). set (AG := opt_val norm_val ag). set (RA := repr E a AG). set (DF := opt_val defuzzifier_val df). set (RD := repr E a DF).
    destruct d; destruct en; reflexivity.
  Qed.
  Lemma repr_block_fix : forall b, repr E a (block_val (load_block (norm_block b))) = repr E a (block_val b).
  Proof.
    intros [n d en cj dj im ac rs]. unfold load_block, PyReprProofs.norm_block, block_val.
    cbn [bl_name bl_description bl_enabled bl_conjunction bl_disjunction bl_implication bl_activation bl_rules].
    rewrite !repr_obj_eq. cbn [map fst snd]. rewrite (map_map norm_rule load_rule_t).
    rewrite (repr_list_fix rule_val (fun r => load_rule_t (norm_rule r)) rs repr_rule_fix).
    set (R := repr E a (VList (map rule_val rs))). set (CJ := opt_val norm_val cj). set (DJ := opt_val norm_val dj). set (IM := opt_val norm_val im). set (AC := opt_val activation_val ac).
    destruct d; destruct en; reflexivity.
  Qed.
  Theorem repr_fixpoint_engine : forall e, repr E a (engine_val (norm_engine e)) = repr E a (engine_val e).
  Proof.
    intros [n d ivs ovs rbs]. unfold PyReprProofs.norm_engine, engine_val. cbn [en_name en_description en_inputs en_outputs en_blocks].
    rewrite !repr_obj_eq. cbn [map fst snd].
    rewrite (repr_list_fix input_val (fun v => load_input (norm_input v)) ivs repr_input_fix).
    rewrite (repr_list_fix output_val (fun v => load_output (norm_output v)) ovs repr_output_fix).
    rewrite (repr_list_fix block_val (fun b => load_block (norm_block b)) rbs repr_block_fix).
    destruct d; reflexivity.
  Qed.

  (* ---- what the FuzzyLite Language export prints (FllExporter: a height only when it is not close to 1, rules as text,
     no run-time state, no `enabled` flag of rules, no Function variables) is the same for the reconstructed engine *)
  Definition fll_height (h : T) : option T := if is_close E h (lit 1 0) then None else Some h.
  Definition fll_term (t : pterm T) : pterm T * option T :=
    match t with
    | PShape n s => (PShape n (shape_set_height s (lit 1 0)), fll_height (shape_height s))
    | PDiscrete n rows h => (PDiscrete n rows (lit 1 0), fll_height h)
    | PLinear n cs _ => (PLinear n cs false, None)
    | PFunction n f _ _ _ => (PFunction n f [] false false, None)
    end.
  Definition fll_input (v : pinput T) :=
    (vi_name v, vi_description v, vi_enabled v, vi_min v, vi_max v, vi_lock_range v, map fll_term (vi_terms v)).
  Definition fll_output (v : poutput T) :=
    (vo_name v, vo_description v, vo_enabled v, vo_min v, vo_max v, vo_lock_range v, vo_lock_previous v, vo_default v,
     vo_aggregation v, vo_defuzzifier v, map fll_term (vo_terms v)).
  Definition fll_block (b : pblock T) :=
    (bl_name b, bl_description b, bl_enabled b, bl_conjunction b, bl_disjunction b, bl_implication b, bl_activation b,
     map (rule_words E) (bl_rules b)).
  Definition fll_engine (e : pengine T) :=
    (en_name e, en_description e, map fll_input (en_inputs e), map fll_output (en_outputs e), map fll_block (en_blocks e)).
  Lemma fll_height_norm : forall h, fll_height (norm_height h) = fll_height h.
  Proof.
    intros h. unfold fll_height, PyReprProofs.norm_height. destruct (is_close E h (lit 1 0)) eqn:Hc; [rewrite Hone|rewrite Hc]; reflexivity.
  Qed.
  Lemma fll_term_fix : forall t, fll_term (load_term (norm_term t)) = fll_term t.
  Proof.
    destruct t as [n s|n rows h|n cs e|n f vars l e]; cbn [PyReprProofs.norm_term load_term fll_term]; try reflexivity.
    - destruct s; cbn [shape_height shape_set_height]; rewrite ?fll_height_norm; reflexivity.
    - rewrite fll_height_norm. reflexivity.
  Qed.
  Lemma rule_words_fix : forall r, rule_words E (load_rule_t (norm_rule r)) = rule_words E r.
  Proof.
    intros [en w ante cq l d t]. unfold rule_words, load_rule_t, PyReprProofs.norm_rule, PyReprProofs.norm_height. cbn.
    destruct (is_close E w (lit 1 0)) eqn:Hc; [rewrite Hone|rewrite Hc]; reflexivity.
  Qed.
  Theorem fll_equal_engine : forall e, fll_engine (norm_engine e) = fll_engine e.
  Proof.
    intros [n d ivs ovs rbs]. unfold fll_engine, PyReprProofs.norm_engine. cbn [en_name en_description en_inputs en_outputs en_blocks].
    rewrite !map_map. f_equal; [f_equal; [f_equal|]|]; apply map_ext.
    - intros [a1 a2 a3 a4 a5 a6 ts val]. unfold fll_input, load_input, PyReprProofs.norm_input. cbn. f_equal.
      rewrite !map_map. apply map_ext, fll_term_fix.
    - intros [a1 a2 a3 a4 a5 a6 a7 a8 a9 a10 ts val prev fzn fzt]. unfold fll_output, load_output, PyReprProofs.norm_output. cbn. f_equal.
      rewrite !map_map. apply map_ext, fll_term_fix.
    - intros [a1 a2 a3 a4 a5 a6 a7 rs]. unfold fll_block, load_block, PyReprProofs.norm_block. cbn. f_equal.
      rewrite !map_map. apply map_ext, rule_words_fix.
  Qed.
End Fix.

(* ------------------------------------------------------------------ the text-level side condition of rules, in general:
   proved below (rule_text_roundtrip, rule_text_roundtrip_full_holds) from `split_ws (join_sp ws) = ws` for blank-free words
   and the keyword bookkeeping of the state machine of Rule.parse. *)
Definition rule_text_roundtrip_full : Prop :=
  forall (T : Type) (N : Num T) (E : penv T) (r : prule T),
    let word_ok := fun w => is_word w = true /\ raw_safe w = true in
    ru_antecedent r <> [] -> Forall (fun w => word_ok w /\ w <> rule_then) (ru_antecedent r) ->
    ru_consequent r <> [] -> Forall (fun w => word_ok w /\ w <> rule_with) (ru_consequent r) ->
    word_ok (fmt_w E (ru_weight r)) -> parse_w E (fmt_w E (ru_weight r)) = Some (ru_weight r) ->
    rule_text_ok E r.

(* ------------------------------------------------------------------ rule texts: Rule.text -> Rule.parse *)
Section StringLemmas.
  Lemma str_app_nil_r : forall s, (s ++ "")%string = s.
  Proof. induction s as [|c s IH]; cbn; [reflexivity|]. rewrite IH. reflexivity. Qed.
  Lemma str_app_assoc : forall a b c, ((a ++ b) ++ c)%string = (a ++ (b ++ c))%string.
  Proof. induction a as [|x a IH]; intros b c; cbn; [reflexivity|]. rewrite IH. reflexivity. Qed.
  Lemma string_forallb_app : forall p a b, string_forallb p (a ++ b)%string = string_forallb p a && string_forallb p b.
  Proof. induction a as [|c a IH]; intros b; cbn; [reflexivity|]. rewrite IH. destruct (p c); reflexivity. Qed.
  Lemma string_forallb_join : forall p ws, p " "%char = true -> Forall (fun w => string_forallb p w = true) ws ->
    string_forallb p (join_sp ws) = true.
  Proof.
    intros p ws Hsp H. induction H as [|w ws Hw Hws IH]; [reflexivity|].
    destruct ws as [|w2 ws]; [exact Hw|].
    change (join_sp (w :: w2 :: ws)) with (w ++ " " ++ join_sp (w2 :: ws))%string.
    rewrite !string_forallb_app, Hw, IH. cbn. rewrite Hsp. reflexivity.
  Qed.
  Lemma string_forallb_impl : forall (p q : ascii -> bool) s, (forall c, p c = true -> q c = true) ->
    string_forallb p s = true -> string_forallb q s = true.
  Proof.
    induction s as [|c s IH]; intros Hpq H; [reflexivity|]. cbn in *. apply andb_prop in H. destruct H as [H1 H2].
    rewrite (Hpq c H1), (IH Hpq H2). reflexivity.
  Qed.
  Lemma before_hash_id : forall s, string_forallb (fun c => negb (Ascii.eqb c hash_char)) s = true -> before_hash s = s.
  Proof.
    induction s as [|c s IH]; intros H; [reflexivity|]. cbn in *. apply andb_prop in H. destruct H as [H1 H2].
    destruct (Ascii.eqb c hash_char); [discriminate|]. rewrite (IH H2). reflexivity.
  Qed.
  (* a blank-free non-empty word in front of the end of the text or of a blank is one token *)
  Definition no_ws (w : string) : bool := string_forallb (fun c => negb (is_ws c)) w.
  Lemma split_ws_word : forall w r, w <> ""%string -> no_ws w = true ->
    (r = ""%string \/ exists c r', r = String c r' /\ is_ws c = true) ->
    split_ws (w ++ r)%string = w :: split_ws r.
  Proof.
    induction w as [|c w IH]; intros r Hne Hw Hr; [contradiction|].
    unfold no_ws in Hw. cbn in Hw. apply andb_prop in Hw. destruct Hw as [Hc Hw]. apply negb_true_iff in Hc.
    destruct w as [|c2 w].
    - cbn [append]. cbn [split_ws]. rewrite Hc. destruct Hr as [->|[c' [r' [-> Hws]]]]; [reflexivity|]. rewrite Hws. reflexivity.
    - assert (IH' : split_ws (String c2 w ++ r)%string = String c2 w :: split_ws r) by (apply IH; [discriminate|exact Hw|exact Hr]).
      change ((String c (String c2 w) ++ r)%string) with (String c (String c2 (w ++ r))%string).
      cbn [split_ws]. rewrite Hc.
      cbn in Hw. apply andb_prop in Hw. destruct Hw as [Hc2 _]. apply negb_true_iff in Hc2. rewrite Hc2.
      change (String c2 (w ++ r)%string) with ((String c2 w ++ r)%string) in *.
      change (split_ws (String c2 w ++ r)%string) with (split_ws (String c2 (w ++ r)%string)) in IH'.
      cbn [split_ws] in IH'. rewrite Hc2 in IH'. rewrite IH'. reflexivity.
  Qed.
  Lemma split_join : forall ws, Forall (fun w => w <> ""%string /\ no_ws w = true) ws -> split_ws (join_sp ws) = ws.
  Proof.
    induction 1 as [|w ws [Hne Hw] Hws IH]; [reflexivity|].
    destruct ws as [|w2 ws].
    - cbn [join_sp]. rewrite <- (str_app_nil_r w) at 1. rewrite split_ws_word; auto.
    - change (join_sp (w :: w2 :: ws)) with (w ++ String " "%char (join_sp (w2 :: ws)))%string.
      rewrite split_ws_word; auto.
      + cbn [split_ws]. change (is_ws " "%char) with true. cbn iota. rewrite IH. reflexivity.
      + right. eexists _, _. split; reflexivity.
  Qed.
  Lemma join_sp_flat : forall a rest, a <> [] -> join_sp (join_sp a :: rest) = join_sp (a ++ rest).
  Proof.
    induction a as [|w a IH]; intros rest Hne; [contradiction|].
    destruct a as [|w2 a]; [reflexivity|].
    change (join_sp (w :: w2 :: a)) with (w ++ " " ++ join_sp (w2 :: a))%string.
    change ((w :: w2 :: a) ++ rest) with (w :: (w2 :: a) ++ rest).
    assert (IH' := IH rest ltac:(discriminate)).
    destruct rest as [|r rest].
    - rewrite app_nil_r. reflexivity.
    - change (join_sp (w :: (w2 :: a) ++ r :: rest)) with (w ++ " " ++ join_sp ((w2 :: a) ++ r :: rest))%string.
      rewrite <- IH'.
      change (join_sp ((w ++ " " ++ join_sp (w2 :: a))%string :: r :: rest)) with ((w ++ " " ++ join_sp (w2 :: a)) ++ " " ++ join_sp (r :: rest))%string.
      change (join_sp (join_sp (w2 :: a) :: r :: rest)) with (join_sp (w2 :: a) ++ " " ++ join_sp (r :: rest))%string.
      rewrite !str_app_assoc. reflexivity.
  Qed.
End StringLemmas.

Section RuleText.
  Context {T : Type} {N : Num T}.
  Variable E : penv T.

  (* the computable side condition on the words of a rule *)
  Definition token_ok (w : string) : bool := is_word w && raw_safe w.
  Definition rule_tokens_ok (r : prule T) : bool :=
    match ru_antecedent r, ru_consequent r with
    | _ :: _, _ :: _ =>
        forallb (fun w => token_ok w && negb (String.eqb w rule_then)) (ru_antecedent r)
        && forallb (fun w => token_ok w && negb (String.eqb w rule_with)) (ru_consequent r)
    | _, _ => false
    end.
  (* Op.str / float() round-trip of the weight (only needed when the weight is printed) *)
  Definition weight_ok (r : prule T) : Prop :=
    is_close E (ru_weight r) (lit 1 0) = false ->
    token_ok (fmt_w E (ru_weight r)) = true /\ parse_w E (fmt_w E (ru_weight r)) = Some (ru_weight r).

  Lemma token_ok_parts : forall w, token_ok w = true ->
    w <> ""%string /\ no_ws w = true /\ string_forallb (fun c => negb (Ascii.eqb c hash_char)) w = true /\ raw_safe w = true.
  Proof.
    intros w H. unfold token_ok in H. apply andb_prop in H. destruct H as [Hw Hr].
    unfold is_word in Hw. destruct w as [|c w]; [discriminate|]. split; [discriminate|].
    split; [|split; [|exact Hr]].
    - eapply string_forallb_impl; [|exact Hw]. intros x Hx. unfold word_char_ok in Hx. apply andb_prop in Hx. tauto.
    - eapply string_forallb_impl; [|exact Hw]. intros x Hx. unfold word_char_ok in Hx. apply andb_prop in Hx. tauto.
  Qed.
  Lemma keywords_ok : token_ok rule_if = true /\ token_ok rule_then = true /\ token_ok rule_with = true.
  Proof. repeat split; reflexivity. Qed.

  Lemma fsm_then_plain : forall cq, Forall (fun w => String.eqb w rule_with = false) cq -> fsm_then E cq = Ok (cq, None).
  Proof. induction 1 as [|w cq Hw _ IH]; cbn [fsm_then]; [reflexivity|]. rewrite Hw, IH. reflexivity. Qed.
  Lemma fsm_then_weight : forall cq fw w, Forall (fun x => String.eqb x rule_with = false) cq -> parse_w E fw = Some w ->
    fsm_then E (cq ++ [rule_with; fw]) = Ok (cq, Some w).
  Proof.
    induction 1 as [|x cq Hx _ IH]; intros Hp; cbn [fsm_then app].
    - rewrite String.eqb_refl, Hp. reflexivity.
    - rewrite Hx, (IH Hp). reflexivity.
  Qed.
  Lemma fsm_if_then : forall ante rest, Forall (fun w => String.eqb w rule_then = false) ante ->
    fsm_if E (ante ++ rule_then :: rest) = (do r <- fsm_then E rest; Ok (ante, r)).
  Proof.
    induction 1 as [|w ante Hw _ IH]; cbn [fsm_if app].
    - rewrite String.eqb_refl. destruct (fsm_then E rest); reflexivity.
    - rewrite Hw, IH. destruct (fsm_then E rest); reflexivity.
  Qed.

  Theorem rule_text_roundtrip : forall r, rule_tokens_ok r = true -> weight_ok r -> rule_text_ok E r.
  Proof.
    intros [en w ante cq l d t] Htok Hw. unfold rule_tokens_ok, weight_ok, rule_text_ok, rule_words in *.
    cbn [ru_antecedent ru_consequent ru_weight] in *.
    destruct ante as [|a0 ante']; [discriminate|]. destruct cq as [|c0 cq']; [discriminate|].
    set (ante := a0 :: ante') in *. set (cq := c0 :: cq') in *.
    apply andb_prop in Htok. destruct Htok as [Ha Hc]. rewrite forallb_forall in Ha, Hc.
    assert (Hante : Forall (fun x => token_ok x = true /\ String.eqb x rule_then = false) ante).
    { apply Forall_forall. intros x Hx. specialize (Ha x Hx). apply andb_prop in Ha. destruct Ha as [H1 H2]. apply negb_true_iff in H2. auto. }
    assert (Hcq : Forall (fun x => token_ok x = true /\ String.eqb x rule_with = false) cq).
    { apply Forall_forall. intros x Hx. specialize (Hc x Hx). apply andb_prop in Hc. destruct Hc as [H1 H2]. apply negb_true_iff in H2. auto. }
    destruct keywords_ok as [Kif [Kthen Kwith]].
    set (tail := if is_close E w (lit 1 0) then [] else [rule_with; fmt_w E w]).
    assert (Hflat2 : join_sp (rule_if :: ante ++ rule_then :: join_sp cq :: tail) = join_sp (rule_if :: ante ++ rule_then :: cq ++ tail)).
    { assert (G : forall pre, join_sp (pre ++ join_sp cq :: tail) = join_sp (pre ++ cq ++ tail)).
      { induction pre as [|x pre IHp]; [cbn [app]; exact (@join_sp_flat cq tail ltac:(subst cq; discriminate))|].
        cbn [app]. destruct pre as [|y pre].
        - cbn [app] in *. change (join_sp (x :: join_sp cq :: tail)) with (x ++ " " ++ join_sp (join_sp cq :: tail))%string.
          rewrite IHp. subst cq. reflexivity.
        - cbn [app] in *. change (join_sp (x :: y :: pre ++ join_sp cq :: tail)) with (x ++ " " ++ join_sp (y :: pre ++ join_sp cq :: tail))%string.
          rewrite IHp. reflexivity. }
      specialize (G (rule_if :: ante ++ [rule_then])). rewrite <- !app_comm_cons, <- !app_assoc in G. exact G. }
    assert (Hall : Forall (fun x => token_ok x = true) (rule_if :: ante ++ rule_then :: cq ++ tail)).
    { constructor; [exact Kif|]. apply Forall_app. split; [eapply Forall_impl; [|exact Hante]; intros x [Hx _]; exact Hx|].
      constructor; [exact Kthen|]. apply Forall_app. split; [eapply Forall_impl; [|exact Hcq]; intros x [Hx _]; exact Hx|].
      subst tail. destruct (is_close E w (lit 1 0)) eqn:Hcl; [constructor|].
      destruct (Hw eq_refl) as [Hf _]. repeat constructor; assumption. }
    assert (Htext : join_sp ([rule_if; join_sp ante; rule_then; join_sp cq] ++ tail) = join_sp (rule_if :: ante ++ rule_then :: cq ++ tail)).
    { rewrite <- Hflat2.
      change ([rule_if; join_sp ante; rule_then; join_sp cq] ++ tail) with (rule_if :: join_sp ante :: (rule_then :: join_sp cq :: tail)).
      destruct (rule_then :: join_sp cq :: tail) as [|z zs] eqn:Hz; [discriminate|].
      change (join_sp (rule_if :: join_sp ante :: z :: zs)) with (rule_if ++ " " ++ join_sp (join_sp ante :: z :: zs))%string.
      rewrite (@join_sp_flat ante (z :: zs) ltac:(subst ante; discriminate)).
      subst ante. reflexivity. }
    fold tail. rewrite Htext. split.
    - apply string_forallb_join; [reflexivity|]. eapply Forall_impl; [|exact Hall]. intros x Hx. apply token_ok_parts in Hx. tauto.
    - unfold rule_parse. rewrite before_hash_id.
      2:{ apply string_forallb_join; [reflexivity|]. eapply Forall_impl; [|exact Hall]. intros x Hx. apply token_ok_parts in Hx. tauto. }
      rewrite split_join.
      2:{ eapply Forall_impl; [|exact Hall]. intros x Hx. apply token_ok_parts in Hx. tauto. }
      rewrite String.eqb_refl. rewrite fsm_if_then by (eapply Forall_impl; [|exact Hante]; intros x [_ Hx]; exact Hx).
      assert (Hcq' : Forall (fun x => String.eqb x rule_with = false) cq) by (eapply Forall_impl; [|exact Hcq]; intros x [_ Hx]; exact Hx).
      subst tail. unfold norm_height. destruct (is_close E w (lit 1 0)) eqn:Hcl.
      + rewrite app_nil_r, (fsm_then_plain Hcq'). subst ante cq. reflexivity.
      + destruct (Hw eq_refl) as [_ Hp]. rewrite (fsm_then_weight _ Hcq' Hp). subst ante cq. reflexivity.
  Qed.
End RuleText.

Section EngineTokens.
  Context {T : Type} {N : Num T}.
  Variable E : penv T.
  Definition rule_side_ok (r : prule T) : Prop := rule_tokens_ok r = true /\ weight_ok E r.
  Definition block_wf_tokens (b : pblock T) : Prop :=
    opt_plain (bl_conjunction b) /\ opt_plain (bl_disjunction b) /\ opt_plain (bl_implication b) /\
    match bl_activation b with Some x => activation_wf E x | None => True end /\ Forall rule_side_ok (bl_rules b).
  (* engine_wf with the text-level hypothesis replaced by the computable condition on the rule words (+ weight round-trip) *)
  Definition engine_wf_tokens (e : pengine T) : Prop :=
    Forall (input_wf E) (en_inputs e) /\ Forall (output_wf E) (en_outputs e) /\ Forall block_wf_tokens (en_blocks e) /\
    Forall (fun v => Forall (formula_ok E) (vi_terms v)) (en_inputs e) /\ Forall (fun v => Forall (formula_ok E) (vo_terms v)) (en_outputs e) /\
    Forall (fun b => Forall (rule_loads E (map (@input_ctx T) (en_inputs e)) (map (@output_ctx T) (en_outputs e))) (bl_rules b)) (en_blocks e).
  Lemma engine_wf_of_tokens : forall e, engine_wf_tokens e -> engine_wf E e.
  Proof.
    intros e [H1 [H2 [H3 [H4 [H5 H6]]]]]. repeat split; try assumption.
    eapply Forall_impl; [|exact H3]. intros b [A [B [C [D R]]]]. repeat split; try assumption.
    eapply Forall_impl; [|exact R]. intros r [Ht Hw]. apply rule_text_roundtrip; assumption.
  Qed.
End EngineTokens.

(* the statement left open before (Proofs/PyReprFix.v, rule_text_roundtrip_full) holds *)
Theorem rule_text_roundtrip_full_holds : rule_text_roundtrip_full.
Proof.
  intros T N E r word_ok Ha Hfa Hc Hfc Hw Hp.
  apply rule_text_roundtrip.
  - unfold rule_tokens_ok. destruct (ru_antecedent r) as [|a0 a] eqn:Ea; [contradiction|]. destruct (ru_consequent r) as [|c0 c] eqn:Ec; [contradiction|].
    apply andb_true_intro. split; apply forallb_forall; intros x Hx.
    + rewrite Forall_forall in Hfa. destruct (Hfa x Hx) as [[H1 H2] H3]. unfold token_ok. rewrite H1, H2. cbn.
      apply negb_true_iff, String.eqb_neq, H3.
    + rewrite Forall_forall in Hfc. destruct (Hfc x Hx) as [[H1 H2] H3]. unfold token_ok. rewrite H1, H2. cbn.
      apply negb_true_iff, String.eqb_neq, H3.
  - intros _. destruct Hw as [H1 H2]. unfold token_ok. rewrite H1, H2. split; [reflexivity|exact Hp].
Qed.
