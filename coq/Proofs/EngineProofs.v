(* EngineProofs.v — Engine.process (Model/Engine.v) refines the documented pipeline (Spec/Pipeline.v): C01,
   and the history-freedom / restart / copy facts of C13 (operations of Model/Ops.v).

   Everything is generic in the numeric reading `Num T`: list and record reasoning only, no arithmetic.

   Plan.
   1. list algebra of `set_nth` / `nth_error`;
   2. congruence: what a rule's degree and a variable's defuzzified value read of the engine (inputs, the
      outputs up to value/previous, `function_eval`), never the rule records;
   3. `process_spec`: the pipeline WITH the rule records it leaves behind (`rule_step`, `rules_step`,
      `blocks_step`); forgetting the records gives Spec/Pipeline.v's `rules_contribution`/`blocks_contribution`;
   4. the General loop over `seq k n` on the engine state = `rules_step`; blocks; defuzzification;
      `process = process_spec` under `general_only`;
   5. corollaries of C01;  6. C13. *)
From Coq Require Import ZArith Bool List String Lia.
From VF Require Import Num GenNorm GenHedge GenTerm Core Discrete NpSum Defuzz Antecedent Consequent Activation
  Weighted Cascade Engine Ops Pipeline.
Import ListNotations.
Local Notation length := List.length.
Local Notation activation_degree := Antecedent.activation_degree.   (* Weighted.v has another one *)
Local Open Scope list_scope.

(* ================================================================================================ *)
(* 1. lists                                                                                          *)
(* ================================================================================================ *)
Section Lists.
  Context {A : Type}.

  Lemma set_nth_length (i : nat) (x : A) (l : list A) : length (set_nth i x l) = length l.
  Proof. revert i; induction l as [|a l IH]; intros [|i]; cbn; auto. Qed.

  Lemma nth_error_set_nth_eq (i : nat) (x : A) (l : list A) :
    i < length l -> nth_error (set_nth i x l) i = Some x.
  Proof. revert i; induction l as [|a l IH]; intros [|i] H; cbn in *; try lia; auto. apply IH; lia. Qed.

  Lemma nth_error_set_nth_neq (i j : nat) (x : A) (l : list A) :
    i <> j -> nth_error (set_nth i x l) j = nth_error l j.
  Proof. revert i j; induction l as [|a l IH]; intros [|i] [|j] H; cbn; try congruence; auto. Qed.

  Lemma set_nth_twice (i : nat) (x y : A) (l : list A) : set_nth i y (set_nth i x l) = set_nth i y l.
  Proof. revert i; induction l as [|a l IH]; intros [|i]; cbn; auto. f_equal; apply IH. Qed.

  Lemma set_nth_same (i : nat) (x : A) (l : list A) : nth_error l i = Some x -> set_nth i x l = l.
  Proof.
    revert i; induction l as [|a l IH]; intros [|i] H; cbn in *; try congruence.
    f_equal; apply IH; assumption.
  Qed.

  Lemma set_nth_middle (pre post : list A) (x y : A) :
    set_nth (length pre) y (pre ++ x :: post) = pre ++ y :: post.
  Proof. induction pre as [|a pre IH]; cbn; congruence. Qed.

  Lemma nth_error_middle (pre post : list A) (x : A) : nth_error (pre ++ x :: post) (length pre) = Some x.
  Proof. induction pre as [|a pre IH]; cbn; auto. Qed.

  Lemma nth_error_lt (l : list A) (i : nat) (x : A) : nth_error l i = Some x -> i < length l.
  Proof. intros H. apply nth_error_Some. congruence. Qed.

  Lemma nth_error_split_at (l : list A) (i : nat) (x : A) :
    nth_error l i = Some x -> exists pre post, l = pre ++ x :: post /\ length pre = i.
  Proof.
    intros H. destruct (nth_error_split l i H) as (pre & post & H1 & H2). eauto.
  Qed.

  Lemma snoc_app (pre : list A) (x : A) (post : list A) : (pre ++ [x]) ++ post = pre ++ x :: post.
  Proof. rewrite <- app_assoc. reflexivity. Qed.

  Lemma length_snoc (pre : list A) (x : A) : length (pre ++ [x]) = S (length pre).
  Proof. rewrite app_length. cbn. lia. Qed.
End Lists.

Section MapLists.
  Context {A B : Type}.
  Lemma map_eq_nth (f : A -> B) (l1 l2 : list A) (i : nat) :
    map f l1 = map f l2 ->
    match nth_error l1 i, nth_error l2 i with
    | Some a, Some b => f a = f b
    | None, None => True
    | _, _ => False
    end.
  Proof.
    intros H. pose proof (f_equal (fun l => nth_error l i) H) as H'. cbn in H'.
    rewrite !nth_error_map in H'.
    destruct (nth_error l1 i), (nth_error l2 i); cbn in H'; congruence || exact I.
  Qed.

  Lemma map_eq_cons (f : A -> B) (a : A) (l1 l2 : list A) :
    map f (a :: l1) = map f l2 -> exists b l2', l2 = b :: l2' /\ f a = f b /\ map f l1 = map f l2'.
  Proof. destruct l2 as [|b l2']; cbn; intros H; [discriminate|]. injection H as H1 H2. eauto. Qed.

  Lemma map_eq_length (f : A -> B) (l1 l2 : list A) : map f l1 = map f l2 -> length l1 = length l2.
  Proof. intros H. rewrite <- (map_length f l1), H. apply map_length. Qed.

  Lemma update_nth_map (f : A -> A) (g : A -> A) (h : A -> A) (i : nat) (l : list A) :
    (forall a, h (f a) = g (h a)) -> map h (update_nth i f l) = update_nth i g (map h l).
  Proof. intros H. revert i; induction l as [|a l IH]; intros [|i]; cbn; auto; f_equal; auto. Qed.
End MapLists.

(* results *)
Definition rmap {A B : Type} (f : A -> B) (r : result A) : result B :=
  match r with Ok a => Ok (f a) | Err x => Err x end.
(* two results agree: both fail with the same exception, or both succeed with related values *)
Definition res_rel {A B : Type} (R : A -> B -> Prop) (r1 : result A) (r2 : result B) : Prop :=
  match r1, r2 with Ok a, Ok b => R a b | Err x, Err y => x = y | _, _ => False end.

Lemma mapM_ext {A B : Type} (f g : A -> result B) (l : list A) :
  (forall a, f a = g a) -> mapM f l = mapM g l.
Proof. intros H. induction l as [|a l IH]; cbn; [reflexivity|]. rewrite H, IH. reflexivity. Qed.

(* ================================================================================================ *)
(* 2. what the engine-level functions read                                                           *)
(* ================================================================================================ *)
Section Congruence.
  Context {T : Type} {N : Num T}.
  Variable function_eval : engine T -> fnode T -> list (string * T) -> T -> result T.
  Notation tm := (term_membership function_eval).

  (* an output variable up to its value and previous value (the fuzzy output is kept) *)
  Definition ov_ev (ov : output_var T) : output_var T :=
    {| ov_name := ov_name ov; ov_enabled := ov_enabled ov; ov_min := ov_min ov; ov_max := ov_max ov;
       ov_lock_range := ov_lock_range ov; ov_lock_previous := ov_lock_previous ov; ov_default := ov_default ov;
       ov_aggregation := ov_aggregation ov; ov_defuzzifier := ov_defuzzifier ov; ov_terms := ov_terms ov;
       ov_value := nan; ov_previous := nan; ov_fuzzy := ov_fuzzy ov |}.
  (* an output variable up to value, previous value and fuzzy output: its configuration *)
  Definition ov_static (ov : output_var T) : output_var T :=
    {| ov_name := ov_name ov; ov_enabled := ov_enabled ov; ov_min := ov_min ov; ov_max := ov_max ov;
       ov_lock_range := ov_lock_range ov; ov_lock_previous := ov_lock_previous ov; ov_default := ov_default ov;
       ov_aggregation := ov_aggregation ov; ov_defuzzifier := ov_defuzzifier ov; ov_terms := ov_terms ov;
       ov_value := nan; ov_previous := nan; ov_fuzzy := [] |}.

  Lemma ov_static_ev (ov : output_var T) : ov_static (ov_ev ov) = ov_static ov.
  Proof. reflexivity. Qed.
  Lemma ov_ev_idem (ov : output_var T) : ov_ev (ov_ev ov) = ov_ev ov.
  Proof. reflexivity. Qed.
  Lemma map_ev_static (l1 l2 : list (output_var T)) : map ov_ev l1 = map ov_ev l2 -> map ov_static l1 = map ov_static l2.
  Proof.
    intros H. apply (f_equal (map ov_static)) in H. rewrite !map_map in H. exact H.
  Qed.

  Lemma term_membership_cong (e1 e2 : engine T) :
    e_inputs e1 = e_inputs e2 -> function_eval e1 = function_eval e2 -> tm e1 = tm e2.
  Proof. intros Hi Hf. unfold term_membership, linear_membership. rewrite Hi, Hf. reflexivity. Qed.

  (* the antecedent reads the inputs, and of the outputs everything but value / previous value *)
  Lemma activation_degree_cong (m : term T -> T -> result T) cj dj (e1 e2 : engine T) (x : expr) :
    e_inputs e1 = e_inputs e2 -> map ov_ev (e_outputs e1) = map ov_ev (e_outputs e2) ->
    activation_degree m cj dj e1 x = activation_degree m cj dj e2 x.
  Proof.
    intros Hi Ho. induction x as [v hs t | is_and l IHl r IHr].
    - cbn [activation_degree]. destruct v as [i|i]; cbn [var_terms var_enabled].
      + rewrite Hi. reflexivity.
      + pose proof (map_eq_nth ov_ev _ _ i Ho) as H.
        destruct (nth_error (e_outputs e1) i) as [a|], (nth_error (e_outputs e2) i) as [b|]; try contradiction; [|reflexivity].
        destruct a, b; cbn in H; injection H; intros; subst; reflexivity.
    - cbn [activation_degree]. rewrite IHl, IHr. reflexivity.
  Qed.

  Lemma rule_activate_with_cong (m : term T -> T -> result T) cj dj (e1 e2 : engine T) (r1 r2 : rule T) :
    e_inputs e1 = e_inputs e2 -> map ov_ev (e_outputs e1) = map ov_ev (e_outputs e2) ->
    r_antecedent r1 = r_antecedent r2 -> r_consequent r1 = r_consequent r2 -> r_weight r1 = r_weight r2 ->
    rule_activate_with m cj dj e1 r1 = rule_activate_with m cj dj e2 r2.
  Proof.
    intros Hi Ho Ha Hc Hw. unfold rule_activate_with, rule_loaded. rewrite Ha, Hc, Hw.
    destruct (r_antecedent r2) as [x|]; [|reflexivity].
    rewrite (activation_degree_cong m cj dj e1 e2 x Hi Ho). reflexivity.
  Qed.

  (* defuzzification of one variable reads the engine only through Term.membership *)
  Lemma aggregate_from_cong (e1 e2 : engine T) agg l : forall y x,
    tm e1 = tm e2 -> aggregate_from function_eval e1 agg y l x = aggregate_from function_eval e2 agg y l x.
  Proof.
    induction l as [|a l IH]; intros y x H; cbn; [reflexivity|].
    unfold activated_membership. rewrite H.
    destruct (a_implication a); cbn; [|reflexivity].
    destruct (tm e2 (a_term a) x); cbn; [|reflexivity]. apply IH, H.
  Qed.

  Lemma output_defuzzify_cong (e1 e2 : engine T) (ov : output_var T) :
    tm e1 = tm e2 -> output_defuzzify function_eval e1 ov = output_defuzzify function_eval e2 ov.
  Proof.
    intros H. unfold output_defuzzify.
    assert (Hd : forall d, defuzzifier_value function_eval e1 ov d = defuzzifier_value function_eval e2 ov d).
    { intros [k res | average ty]; cbn [defuzzifier_value].
      - destruct (midpoints (ov_min ov) (ov_max ov) res) as [xs|]; cbn; [|reflexivity].
        rewrite (mapM_ext (aggregated_membership function_eval e1 ov) (aggregated_membership function_eval e2 ov)); [reflexivity|].
        intros x. unfold aggregated_membership.
        destruct (ov_fuzzy ov); [reflexivity|]. destruct (ov_aggregation ov); [|reflexivity].
        apply aggregate_from_cong, H.
      - rewrite H. reflexivity. }
    destruct (ov_defuzzifier ov) as [d|]; [rewrite Hd|]; reflexivity.
  Qed.
End Congruence.

(* ================================================================================================ *)
(* 3. the pipeline with the rule records it leaves behind                                            *)
(* ================================================================================================ *)
Section Refinement.
  Context {T : Type} {N : Num T}.
  Variable function_eval : engine T -> fnode T -> list (string * T) -> T -> result T.
  (* Function terms read the engine's variables only (not its rule blocks) *)
  Hypothesis fe_ext : forall e1 e2 : engine T,
    e_inputs e1 = e_inputs e2 -> e_outputs e1 = e_outputs e2 -> function_eval e1 = function_eval e2.
  Notation tm := (term_membership function_eval).

  (* a rule after activation: its configuration, the stored degree and the triggered flag *)
  Definition mk_rule (r : rule T) (d : T) (t : bool) : rule T :=
    {| r_enabled := r_enabled r; r_weight := r_weight r; r_antecedent := r_antecedent r;
       r_consequent := r_consequent r; r_degree := d; r_triggered := t |}.
  Definition set_rules (b : block T) (rs : list (rule T)) : block T :=
    {| b_name := b_name b; b_enabled := b_enabled b; b_conjunction := b_conjunction b;
       b_disjunction := b_disjunction b; b_implication := b_implication b;
       b_activation := b_activation b; b_rules := rs |}.

  (* one rule under General: the record it leaves and the fuzzy outputs after it *)
  Definition rule_step (E : engine T) (cj : option tnormx) (dj : option snormx) (im : option tnormx)
      (outs : list (output_var T)) (r : rule T) : result (rule T * list (output_var T)) :=
    if rule_loaded r then
      do d <- rule_activate_with (tm (view E outs)) cj dj (view E outs) r;
      if r_enabled r then do outs' <- modify d im (r_consequent r) outs; Ok (mk_rule r d (gtb d zero), outs')
      else Ok (mk_rule r d false, outs)
    else Ok (rule_deactivated r, outs).

  Fixpoint rules_step (E : engine T) cj dj im (outs : list (output_var T)) (rs : list (rule T))
      : result (list (rule T) * list (output_var T)) :=
    match rs with
    | [] => Ok ([], outs)
    | r :: tl => do ro <- rule_step E cj dj im outs r;
                 do rest <- rules_step E cj dj im (snd ro) tl;
                 Ok (fst ro :: fst rest, snd rest)
    end.

  Fixpoint blocks_step (E : engine T) (outs : list (output_var T)) (bs : list (block T))
      : result (list (block T) * list (output_var T)) :=
    match bs with
    | [] => Ok ([], outs)
    | b :: tl =>
        if b_enabled b then
          do ro <- rules_step E (b_conjunction b) (b_disjunction b) (b_implication b) outs (b_rules b);
          do rest <- blocks_step E (snd ro) tl;
          Ok (set_rules b (fst ro) :: fst rest, snd rest)
        else do rest <- blocks_step E outs tl; Ok (b :: fst rest, snd rest)
    end.

  (* Engine.process, as the documented pipeline plus the records *)
  Definition process_spec (e : engine T) : result (engine T) :=
    do bo <- blocks_step e (map clear_fuzzy (e_outputs e)) (e_blocks e);
    do outs <- pipeline_values function_eval e [] (snd bo);
    Ok {| e_name := e_name e; e_inputs := e_inputs e; e_outputs := outs; e_blocks := fst bo |}.

  (* forgetting the records gives Spec/Pipeline.v *)
  Lemma rule_step_contribution (E : engine T) (b : block T) outs r :
    rmap snd (rule_step E (b_conjunction b) (b_disjunction b) (b_implication b) outs r)
    = rule_contribution function_eval E b outs r.
  Proof.
    unfold rule_step, rule_contribution, firing_degree.
    destruct (rule_loaded r); [|reflexivity].
    destruct (rule_activate_with _ _ _ _ r) as [d|x]; cbn; [|reflexivity].
    destruct (r_enabled r); [|reflexivity].
    destruct (modify d _ _ outs); reflexivity.
  Qed.

  Lemma rules_step_contribution (E : engine T) (b : block T) rs : forall outs,
    rmap snd (rules_step E (b_conjunction b) (b_disjunction b) (b_implication b) outs rs)
    = rules_contribution function_eval E b outs rs.
  Proof.
    induction rs as [|r rs IH]; intros outs; cbn [rules_step rules_contribution]; [reflexivity|].
    rewrite <- rule_step_contribution.
    destruct (rule_step E _ _ _ outs r) as [[r' o']|x]; cbn; [|reflexivity].
    rewrite <- IH. destruct (rules_step E _ _ _ o' rs) as [[rs' o'']|x]; reflexivity.
  Qed.

  Lemma blocks_step_contribution (E : engine T) bs : forall outs,
    rmap snd (blocks_step E outs bs) = blocks_contribution function_eval E outs bs.
  Proof.
    induction bs as [|b bs IH]; intros outs; cbn [blocks_step blocks_contribution]; [reflexivity|].
    destruct (b_enabled b).
    - rewrite <- rules_step_contribution.
      destruct (rules_step E _ _ _ outs (b_rules b)) as [[rs' o']|x]; cbn; [|reflexivity].
      rewrite <- IH. destruct (blocks_step E o' bs) as [[bs' o'']|x]; reflexivity.
    - rewrite <- IH. destruct (blocks_step E outs bs) as [[bs' o'']|x]; reflexivity.
  Qed.

  Lemma process_spec_outputs (e : engine T) :
    rmap (@e_outputs T) (process_spec e) = pipeline_outputs function_eval e.
  Proof.
    unfold process_spec, pipeline_outputs, pipeline_fuzzy. rewrite <- blocks_step_contribution.
    destruct (blocks_step e _ (e_blocks e)) as [[bs' o']|x]; cbn; [|reflexivity].
    destruct (pipeline_values function_eval e [] o'); reflexivity.
  Qed.

  (* ============================================================================================== *)
  (* 4. the model's loops                                                                           *)
  (* ============================================================================================== *)
  (* the engine state inside block bi: block bi holds `rules`, the outputs are `outs`, the rest is s *)
  Definition mk_state (s : engine T) (bi : nat) (b0 : block T) (rules : list (rule T)) (outs : list (output_var T)) : engine T :=
    {| e_name := e_name s; e_inputs := e_inputs s; e_outputs := outs;
       e_blocks := set_nth bi (set_rules b0 rules) (e_blocks s) |}.

  Section InBlock.
    Variables (s : engine T) (bi : nat) (b0 : block T).
    Hypothesis Hbi : bi < length (e_blocks s).
    Notation St := (mk_state s bi b0).

    Lemma get_rule_St pre r post outs :
      get_rule (St (pre ++ r :: post) outs) bi (length pre) = Some (set_rules b0 (pre ++ r :: post), r).
    Proof.
      unfold get_rule, mk_state. cbn [e_blocks]. rewrite nth_error_set_nth_eq by exact Hbi.
      cbn [b_rules set_rules]. rewrite nth_error_middle. reflexivity.
    Qed.

    Lemma with_rule_St pre r post outs r' :
      with_rule (St (pre ++ r :: post) outs) bi (length pre) r' = St (pre ++ r' :: post) outs.
    Proof.
      unfold with_rule, mk_state. cbn [e_blocks e_name e_inputs e_outputs].
      rewrite nth_error_set_nth_eq by exact Hbi. cbn [b_rules set_rules b_name b_enabled b_conjunction b_disjunction b_implication b_activation].
      rewrite set_nth_twice, set_nth_middle. reflexivity.
    Qed.

    Lemma with_outputs_St rules outs outs' : with_outputs (St rules outs) outs' = St rules outs'.
    Proof. reflexivity. Qed.

    (* General.activate over the rules at positions length pre, length pre + 1, … of block bi *)
    Lemma general_loop_rules (E : engine T) (HE : e_inputs s = e_inputs E) : forall rs pre outs,
      general_loop (block_ops function_eval bi) (seq (length pre) (length rs)) (St (pre ++ rs) outs) =
      match rules_step E (b_conjunction b0) (b_disjunction b0) (b_implication b0) outs rs with
      | Ok (rs', outs') => Ok (St (pre ++ rs') outs')
      | Err x => Err x
      end.
    Proof.
      induction rs as [|r rs IH]; intros pre outs.
      - cbn. reflexivity.
      - cbn [length seq general_loop rules_step].
        cbn [block_ops op_deactivate op_is_loaded op_activate_with op_trigger].
        rewrite get_rule_St, with_rule_St, get_rule_St.
        assert (Hl : rule_loaded (rule_deactivated r) = rule_loaded r) by reflexivity.
        rewrite Hl. unfold rule_step.
        assert (Hnext : forall (r' : rule T) outs',
          general_loop (block_ops function_eval bi) (seq (S (length pre)) (length rs)) (St (pre ++ r' :: rs) outs') =
          match rules_step E (b_conjunction b0) (b_disjunction b0) (b_implication b0) outs' rs with
          | Ok (rs', outs'') => Ok (St (pre ++ r' :: rs') outs'')
          | Err x => Err x
          end).
        { intros r' outs'. specialize (IH (pre ++ [r']) outs'). rewrite length_snoc, snoc_app in IH. rewrite IH.
          destruct (rules_step E _ _ _ outs' rs) as [[rs' o'']|x]; [|reflexivity]. rewrite snoc_app. reflexivity. }
        destruct (rule_loaded r) eqn:Hld.
        + (* loaded: evaluate against the current state, store, trigger *)
          cbn [b_conjunction b_disjunction b_implication set_rules].
          rewrite (rule_activate_with_cong (tm (St (pre ++ rule_deactivated r :: rs) outs))
                     (b_conjunction b0) (b_disjunction b0)
                     (St (pre ++ rule_deactivated r :: rs) outs) (view E outs) (rule_deactivated r) r
                     HE eq_refl eq_refl eq_refl eq_refl).
          rewrite (term_membership_cong function_eval (St (pre ++ rule_deactivated r :: rs) outs) (view E outs) HE
                     (fe_ext (St (pre ++ rule_deactivated r :: rs) outs) (view E outs) HE eq_refl)).
          destruct (rule_activate_with (tm (view E outs)) (b_conjunction b0) (b_disjunction b0) (view E outs) r) as [d|x];
            cbn [bind fst snd]; [|reflexivity].
          rewrite with_rule_St, get_rule_St.
          unfold trigger, trigger_with.
          assert (Hl2 : rule_loaded (rule_with_degree (rule_deactivated r) d) = rule_loaded r) by reflexivity.
          rewrite Hl2, Hld. cbn [negb r_enabled rule_with_degree rule_deactivated r_degree r_consequent e_outputs mk_state b_implication set_rules].
          destruct (r_enabled r).
          * destruct (modify d (b_implication b0) (r_consequent r) outs) as [outs'|x]; cbn [bind fst snd]; [|reflexivity].
            rewrite with_rule_St, with_outputs_St.
            change (set_triggered (rule_with_degree (rule_deactivated r) d) (gtb d zero)) with (mk_rule r d (gtb d zero)).
            rewrite Hnext.
            destruct (rules_step E _ _ _ outs' rs) as [[rs' o'']|x]; reflexivity.
          * cbn [bind fst snd]. rewrite with_rule_St, with_outputs_St.
            change (set_triggered (rule_with_degree (rule_deactivated r) d) false) with (mk_rule r d false).
            rewrite Hnext.
            destruct (rules_step E _ _ _ outs rs) as [[rs' o'']|x]; reflexivity.
        + (* not loaded: only deactivated *)
          cbn [bind fst snd]. rewrite Hnext.
          destruct (rules_step E _ _ _ outs rs) as [[rs' o'']|x]; reflexivity.
    Qed.
  End InBlock.

  Definition put (s : engine T) (outs : list (output_var T)) (bs : list (block T)) : engine T :=
    {| e_name := e_name s; e_inputs := e_inputs s; e_outputs := outs; e_blocks := bs |}.

  Lemma put_id (s : engine T) : put s (e_outputs s) (e_blocks s) = s.
  Proof. destruct s; reflexivity. Qed.

  Lemma mk_state_id (s : engine T) bi b :
    nth_error (e_blocks s) bi = Some b -> mk_state s bi b (b_rules b) (e_outputs s) = s.
  Proof.
    intros H. unfold mk_state. replace (set_rules b (b_rules b)) with b by (destruct b; reflexivity).
    rewrite (set_nth_same _ _ _ H). destruct s; reflexivity.
  Qed.

  Definition blocks_general (bs : list (block T)) : Prop :=
    forall b, In b bs -> b_enabled b = true -> is_general b = true.

  (* RuleBlock.activate for every enabled block, in order *)
  Lemma activate_blocks_spec (E : engine T) : forall bs doneB s,
    e_blocks s = doneB ++ bs -> e_inputs s = e_inputs E -> blocks_general bs ->
    activate_blocks function_eval s (length doneB) bs =
    match blocks_step E (e_outputs s) bs with
    | Ok (bs', outs') => Ok (put s outs' (doneB ++ bs'))
    | Err x => Err x
    end.
  Proof.
    induction bs as [|b bs IH]; intros doneB s Hb HE Hg.
    - cbn [activate_blocks blocks_step]. rewrite <- Hb, put_id. reflexivity.
    - cbn [activate_blocks blocks_step].
      assert (Hg' : blocks_general bs) by (intros b' Hin; apply Hg; right; exact Hin).
      destruct (b_enabled b) eqn:Hen.
      + pose proof (Hg b (or_introl eq_refl) Hen) as Hgen. unfold is_general in Hgen.
        unfold activate_block.
        destruct (b_activation b) as [[]|]; try discriminate Hgen. cbn [activate activate_on].
        assert (Hnth : nth_error (e_blocks s) (length doneB) = Some b) by (rewrite Hb; apply nth_error_middle).
        pose proof (general_loop_rules s (length doneB) b (nth_error_lt _ _ _ Hnth) E HE (b_rules b) [] (e_outputs s)) as H.
        cbn [app length] in H. rewrite (mk_state_id s _ b Hnth) in H. rewrite H. clear H.
        destruct (rules_step E _ _ _ (e_outputs s) (b_rules b)) as [[rs' o']|x]; cbn [bind fst snd]; [|reflexivity].
        specialize (IH (doneB ++ [set_rules b rs']) (mk_state s (length doneB) b rs' o')).
        rewrite length_snoc in IH. rewrite IH; [| |exact HE|exact Hg'].
        * cbn [e_outputs mk_state]. destruct (blocks_step E o' bs) as [[bs' o'']|x]; [|reflexivity].
          rewrite snoc_app. reflexivity.
        * cbn [e_blocks mk_state]. rewrite Hb, set_nth_middle, snoc_app. reflexivity.
      + specialize (IH (doneB ++ [b]) s). rewrite length_snoc in IH. rewrite IH; [| |exact HE|exact Hg'].
        * destruct (blocks_step E (e_outputs s) bs) as [[bs' o'']|x]; cbn [bind fst snd]; [|reflexivity].
          rewrite snoc_app. reflexivity.
        * rewrite Hb, snoc_app. reflexivity.
  Qed.

  (* OutputVariable.defuzzify for every output variable, in order *)
  Lemma defuzzify_outputs_spec (E : engine T) : forall todo (cnt : list (output_var T)) done s,
    e_outputs s = done ++ todo -> length cnt = length todo -> e_inputs s = e_inputs E ->
    defuzzify_outputs function_eval s (length done) cnt =
    match pipeline_values function_eval E done todo with
    | Ok outs => Ok (with_outputs s outs)
    | Err x => Err x
    end.
  Proof.
    induction todo as [|ov todo IH]; intros [|c cnt] done s Ho Hl HE; try discriminate Hl.
    - cbn. rewrite app_nil_r in Ho. rewrite <- Ho. destruct s; reflexivity.
    - cbn [defuzzify_outputs pipeline_values]. rewrite Ho, nth_error_middle.
      rewrite (output_defuzzify_cong function_eval s (with_outputs E (done ++ ov :: todo)) ov
                 (term_membership_cong function_eval s (with_outputs E (done ++ ov :: todo)) HE
                    (fe_ext s (with_outputs E (done ++ ov :: todo)) HE Ho))).
      destruct (output_defuzzify function_eval (with_outputs E (done ++ ov :: todo)) ov) as [ov'|x]; cbn [bind]; [|reflexivity].
      rewrite set_nth_middle.
      specialize (IH cnt (done ++ [ov']) (with_outputs s (done ++ ov' :: todo))).
      rewrite length_snoc in IH. rewrite IH.
      + destruct (pipeline_values function_eval E (done ++ [ov']) todo); reflexivity.
      + cbn. rewrite snoc_app. reflexivity.
      + cbn in Hl. lia.
      + exact HE.
  Qed.

  Lemma pipeline_values_length (E : engine T) : forall todo done outs,
    pipeline_values function_eval E done todo = Ok outs -> length outs = length done + length todo.
  Proof.
    induction todo as [|ov todo IH]; intros done outs H; cbn in H.
    - injection H as <-. cbn. lia.
    - destruct (output_defuzzify function_eval _ ov) as [ov'|x]; cbn in H; [|discriminate].
      apply IH in H. rewrite length_snoc in H. cbn. lia.
  Qed.

  (* ---- Engine.process is the pipeline, records included *)
  Theorem process_eq_spec (e : engine T) : general_only e -> process function_eval e = process_spec e.
  Proof.
    intros Hg. unfold process, process_spec. cbv zeta.
    pose proof (activate_blocks_spec e (e_blocks e) [] (with_outputs e (map clear_fuzzy (e_outputs e)))
                  eq_refl eq_refl Hg) as H.
    cbn [length e_blocks with_outputs e_outputs app] in H |- *. rewrite H. clear H.
    destruct (blocks_step e (map clear_fuzzy (e_outputs e)) (e_blocks e)) as [[bs' o']|x]; cbn [bind fst snd]; [|reflexivity].
    pose proof (defuzzify_outputs_spec e o' o' [] (put (with_outputs e (map clear_fuzzy (e_outputs e))) o' bs')
                  eq_refl eq_refl eq_refl) as H.
    cbn [length e_outputs put] in H |- *. rewrite H.
    destruct (pipeline_values function_eval e [] o'); reflexivity.
  Qed.

  Definition process_outputs (e : engine T) : result (list (output_var T)) :=
    rmap (@e_outputs T) (process function_eval e).

  Theorem process_outputs_eq_pipeline (e : engine T) :
    general_only e -> process_outputs e = pipeline_outputs function_eval e.
  Proof. intros Hg. unfold process_outputs. rewrite (process_eq_spec e Hg). apply process_spec_outputs. Qed.

  Lemma process_spec_inputs (e e' : engine T) : process_spec e = Ok e' -> e_inputs e' = e_inputs e /\ e_name e' = e_name e.
  Proof.
    unfold process_spec. destruct (blocks_step e _ _) as [[bs' o']|x]; cbn; [|discriminate].
    destruct (pipeline_values function_eval e [] o'); cbn; [|discriminate].
    intros H; injection H as <-. split; reflexivity.
  Qed.

  (* C01, main statement *)
  Theorem process_refines_pipeline (e : engine T) : general_only e ->
    match process function_eval e, pipeline_outputs function_eval e with
    | Ok e', Ok outs => e_outputs e' = outs /\ e_inputs e' = e_inputs e
    | Err x, Err y => x = y
    | _, _ => False
    end.
  Proof.
    intros Hg. pose proof (process_outputs_eq_pipeline e Hg) as H. unfold process_outputs in H.
    rewrite (process_eq_spec e Hg) in *.
    destruct (process_spec e) as [e'|x] eqn:Hp; cbn in H; rewrite <- H; [|reflexivity].
    split; [reflexivity|]. apply (process_spec_inputs e e' Hp).
  Qed.
End Refinement.

(* ================================================================================================ *)
(* 5. corollaries (C01)                                                                              *)
(* ================================================================================================ *)
Section ListRel.
  Context {A : Type}.
  Lemma Forall2_refl_of (R : A -> A -> Prop) (l : list A) : (forall a, R a a) -> Forall2 R l l.
  Proof. intros H; induction l; constructor; auto. Qed.
  Lemma Forall2_trans_of (R : A -> A -> Prop) (l1 l2 l3 : list A) :
    (forall a b c, R a b -> R b c -> R a c) -> Forall2 R l1 l2 -> Forall2 R l2 l3 -> Forall2 R l1 l3.
  Proof.
    intros HT H12; revert l3; induction H12; intros l3 H23; inversion H23; subst; constructor; eauto.
  Qed.
  Lemma Forall2_update_nth (R : A -> A -> Prop) (f : A -> A) (i : nat) (l : list A) (v : A) :
    (forall a, R a a) -> nth_error l i = Some v -> R v (f v) -> Forall2 R l (update_nth i f l).
  Proof.
    intros HR. revert i; induction l as [|a l IH]; intros [|i] Hn Hv; cbn in *; try discriminate.
    - injection Hn as ->. constructor; [exact Hv | apply Forall2_refl_of, HR].
    - constructor; [apply HR | apply IH; assumption].
  Qed.
  Lemma Forall2_nth_error {B : Type} (R : A -> B -> Prop) (l : list A) (l' : list B) (i : nat) (a : A) :
    Forall2 R l l' -> nth_error l i = Some a -> exists a', nth_error l' i = Some a' /\ R a a'.
  Proof.
    intros H; revert i; induction H; intros [|i] Hn; cbn in *; try discriminate.
    - injection Hn as ->. eauto.
    - eauto.
  Qed.
  Lemma Forall2_map_eq {B : Type} (f : A -> B) (l l' : list A) :
    Forall2 (fun a a' => f a' = f a) l l' -> map f l' = map f l.
  Proof. induction 1; cbn; congruence. Qed.
  Lemma Forall2_impl_of (R R' : A -> A -> Prop) (l l' : list A) :
    (forall a b, R a b -> R' a b) -> Forall2 R l l' -> Forall2 R' l l'.
  Proof. intros H; induction 1; constructor; auto. Qed.
End ListRel.

Section Corollaries.
  Context {T : Type} {N : Num T}.
  Variable function_eval : engine T -> fnode T -> list (string * T) -> T -> result T.
  Hypothesis fe_ext : forall e1 e2 : engine T,
    e_inputs e1 = e_inputs e2 -> e_outputs e1 = e_outputs e2 -> function_eval e1 = function_eval e2.
  Notation tm := (term_membership function_eval).
  Notation rule_contribution := (rule_contribution function_eval).
  Notation rules_contribution := (rules_contribution function_eval).
  Notation blocks_contribution := (blocks_contribution function_eval).
  Notation pipeline_values := (pipeline_values function_eval).
  Notation pipeline_fuzzy := (pipeline_fuzzy function_eval).
  Notation pipeline_outputs := (pipeline_outputs function_eval).
  Notation process := (process function_eval).
  Notation process_outputs := (process_outputs function_eval).
  Notation firing_degree := (firing_degree function_eval).

  Definition with_blocks (e : engine T) (bs : list (block T)) : engine T :=
    {| e_name := e_name e; e_inputs := e_inputs e; e_outputs := e_outputs e; e_blocks := bs |}.

  (* ---- 5.1 what the pipeline reads: not the stored degrees / flags, not the engine's rule blocks as such *)
  Lemma firing_degree_ext (E1 E2 : engine T) (b1 b2 : block T) outs (r1 r2 : rule T) :
    e_inputs E1 = e_inputs E2 -> b_conjunction b1 = b_conjunction b2 -> b_disjunction b1 = b_disjunction b2 ->
    rule_deactivated r1 = rule_deactivated r2 ->
    firing_degree E1 b1 outs r1 = firing_degree E2 b2 outs r2.
  Proof.
    intros HE Hc Hd Hr. unfold Pipeline.firing_degree. rewrite Hc, Hd.
    injection Hr as He Hw Ha Hq.
    rewrite (term_membership_cong function_eval (view E1 outs) (view E2 outs) HE (fe_ext (view E1 outs) (view E2 outs) HE eq_refl)).
    apply rule_activate_with_cong; auto.
  Qed.

  Lemma rule_contribution_ext (E1 E2 : engine T) (b1 b2 : block T) outs (r1 r2 : rule T) :
    e_inputs E1 = e_inputs E2 -> b_conjunction b1 = b_conjunction b2 -> b_disjunction b1 = b_disjunction b2 ->
    b_implication b1 = b_implication b2 -> rule_deactivated r1 = rule_deactivated r2 ->
    rule_contribution E1 b1 outs r1 = rule_contribution E2 b2 outs r2.
  Proof.
    intros HE Hc Hd Hi Hr. unfold Pipeline.rule_contribution.
    rewrite (firing_degree_ext E1 E2 b1 b2 outs r1 r2 HE Hc Hd Hr), Hi.
    injection Hr as He Hw Ha Hq. unfold rule_loaded. rewrite Ha, Hq, He. reflexivity.
  Qed.

  Lemma rules_contribution_ext (E1 E2 : engine T) (b1 b2 : block T) :
    e_inputs E1 = e_inputs E2 -> b_conjunction b1 = b_conjunction b2 -> b_disjunction b1 = b_disjunction b2 ->
    b_implication b1 = b_implication b2 -> forall rs1 rs2 outs,
    map (@rule_deactivated T N) rs1 = map (@rule_deactivated T N) rs2 ->
    rules_contribution E1 b1 outs rs1 = rules_contribution E2 b2 outs rs2.
  Proof.
    intros HE Hc Hd Hi. induction rs1 as [|r1 rs1 IH]; intros rs2 outs Hm.
    - destruct rs2; [reflexivity | discriminate].
    - destruct (map_eq_cons _ _ _ _ Hm) as (r2 & rs2' & -> & Hr & Hm').
      cbn [Pipeline.rules_contribution]. rewrite (rule_contribution_ext E1 E2 b1 b2 outs r1 r2 HE Hc Hd Hi Hr).
      destruct (rule_contribution E2 b2 outs r2); cbn [bind]; [apply IH, Hm' | reflexivity].
  Qed.

  Lemma blocks_contribution_ext (E1 E2 : engine T) : e_inputs E1 = e_inputs E2 -> forall bs1 bs2 outs,
    map (@block_deactivated T N) bs1 = map (@block_deactivated T N) bs2 ->
    blocks_contribution E1 outs bs1 = blocks_contribution E2 outs bs2.
  Proof.
    intros HE. induction bs1 as [|b1 bs1 IH]; intros bs2 outs Hm.
    - destruct bs2; [reflexivity | discriminate].
    - destruct (map_eq_cons _ _ _ _ Hm) as (b2 & bs2' & -> & Hb & Hm').
      cbn [Pipeline.blocks_contribution]. injection Hb as Hn Hen Hc Hd Hi Ha Hrs.
      rewrite Hen, (rules_contribution_ext E1 E2 b1 b2 HE Hc Hd Hi (b_rules b1) (b_rules b2) outs Hrs).
      destruct (b_enabled b2); [|apply IH, Hm'].
      destruct (rules_contribution E2 b2 outs (b_rules b2)); cbn [bind]; [apply IH, Hm' | reflexivity].
  Qed.

  Lemma pipeline_values_ext (E1 E2 : engine T) : e_inputs E1 = e_inputs E2 -> forall todo done,
    pipeline_values E1 done todo = pipeline_values E2 done todo.
  Proof.
    intros HE. induction todo as [|ov todo IH]; intros done; cbn [Pipeline.pipeline_values]; [reflexivity|].
    rewrite (output_defuzzify_cong function_eval (with_outputs E1 (done ++ ov :: todo)) (with_outputs E2 (done ++ ov :: todo)) ov
               (term_membership_cong function_eval (with_outputs E1 (done ++ ov :: todo)) (with_outputs E2 (done ++ ov :: todo)) HE
                  (fe_ext (with_outputs E1 (done ++ ov :: todo)) (with_outputs E2 (done ++ ov :: todo)) HE eq_refl))).
    destruct (output_defuzzify function_eval _ ov); cbn [bind]; [apply IH | reflexivity].
  Qed.

  Lemma pipeline_outputs_ext (e1 e2 : engine T) :
    e_inputs e1 = e_inputs e2 -> map clear_fuzzy (e_outputs e1) = map clear_fuzzy (e_outputs e2) ->
    map (@block_deactivated T N) (e_blocks e1) = map (@block_deactivated T N) (e_blocks e2) ->
    pipeline_outputs e1 = pipeline_outputs e2.
  Proof.
    intros Hi Ho Hb. unfold Pipeline.pipeline_outputs, Pipeline.pipeline_fuzzy.
    rewrite Ho, (blocks_contribution_ext e1 e2 Hi _ _ _ Hb).
    destruct (blocks_contribution e2 _ (e_blocks e2)); cbn [bind]; [|reflexivity].
    apply pipeline_values_ext, Hi.
  Qed.

  Lemma general_only_ext (e1 e2 : engine T) :
    map (@block_deactivated T N) (e_blocks e1) = map (@block_deactivated T N) (e_blocks e2) ->
    general_only e1 -> general_only e2.
  Proof.
    intros Hb Hg b2 Hin Hen.
    apply (in_map (@block_deactivated T N)) in Hin. rewrite <- Hb in Hin.
    apply in_map_iff in Hin. destruct Hin as (b1 & Hbb & Hin1).
    injection Hbb as Hn He Hc Hd Hi Ha Hrs.
    unfold is_general. rewrite <- Ha. apply Hg; [exact Hin1 | congruence].
  Qed.

  (* the result does not depend on the fuzzy outputs held before the call *)
  Theorem process_ignores_stale_fuzzy (e1 e2 : engine T) :
    e_name e1 = e_name e2 -> e_inputs e1 = e_inputs e2 -> e_blocks e1 = e_blocks e2 ->
    map clear_fuzzy (e_outputs e1) = map clear_fuzzy (e_outputs e2) ->
    process e1 = process e2.
  Proof.
    intros Hn Hi Hb Ho. unfold Engine.process. cbv zeta.
    replace (with_outputs e1 (map clear_fuzzy (e_outputs e1))) with (with_outputs e2 (map clear_fuzzy (e_outputs e2)));
      [reflexivity|].
    unfold with_outputs. rewrite Hn, Hi, Hb, Ho. reflexivity.
  Qed.

  (* nor on the degrees and triggered flags stored in the rules (nor on the fuzzy outputs) *)
  Theorem process_ignores_stale_rule_state (e1 e2 : engine T) :
    general_only e1 ->
    e_inputs e1 = e_inputs e2 -> map clear_fuzzy (e_outputs e1) = map clear_fuzzy (e_outputs e2) ->
    map (@block_deactivated T N) (e_blocks e1) = map (@block_deactivated T N) (e_blocks e2) ->
    process_outputs e1 = process_outputs e2.
  Proof.
    intros Hg Hi Ho Hb.
    rewrite (process_outputs_eq_pipeline function_eval fe_ext e1 Hg).
    rewrite (process_outputs_eq_pipeline function_eval fe_ext e2 (general_only_ext e1 e2 Hb Hg)).
    apply pipeline_outputs_ext; assumption.
  Qed.

  (* ---- 5.2 the contributions are folded in block order, then rule order *)
  Lemma rules_contribution_app (E : engine T) b rs1 rs2 : forall outs,
    rules_contribution E b outs (rs1 ++ rs2) = (do o <- rules_contribution E b outs rs1; rules_contribution E b o rs2).
  Proof.
    induction rs1 as [|r rs1 IH]; intros outs; cbn [app Pipeline.rules_contribution bind]; [reflexivity|].
    destruct (rule_contribution E b outs r); cbn [bind]; [apply IH | reflexivity].
  Qed.

  Lemma blocks_contribution_app (E : engine T) bs1 bs2 : forall outs,
    blocks_contribution E outs (bs1 ++ bs2) = (do o <- blocks_contribution E outs bs1; blocks_contribution E o bs2).
  Proof.
    induction bs1 as [|b bs1 IH]; intros outs; cbn [app Pipeline.blocks_contribution bind]; [reflexivity|].
    destruct (b_enabled b); [|apply IH].
    destruct (rules_contribution E b outs (b_rules b)); cbn [bind]; [apply IH | reflexivity].
  Qed.

  (* ---- 5.3 disabled / unloaded components *)
  Lemma unloaded_rule_contribution (E : engine T) b outs r :
    rule_loaded r = false -> rule_contribution E b outs r = Ok outs.
  Proof. intros H. unfold Pipeline.rule_contribution. rewrite H. reflexivity. Qed.

  Lemma disabled_rule_contribution (E : engine T) b outs r outs' :
    r_enabled r = false -> rule_contribution E b outs r = Ok outs' -> outs' = outs.
  Proof.
    intros H. unfold Pipeline.rule_contribution. rewrite H.
    destruct (rule_loaded r); [|congruence]. destruct (firing_degree E b outs r); cbn; congruence.
  Qed.

  (* replacing the rules of one block *)
  Lemma blocks_contribution_replace_eq (E : engine T) B1 b b' B2 outs :
    b_enabled b' = b_enabled b ->
    (forall o, rules_contribution E b' o (b_rules b') = rules_contribution E b o (b_rules b)) ->
    blocks_contribution E outs (B1 ++ b' :: B2) = blocks_contribution E outs (B1 ++ b :: B2).
  Proof.
    intros He Hr. rewrite !blocks_contribution_app.
    destruct (blocks_contribution E outs B1) as [o|]; cbn [bind Pipeline.blocks_contribution]; [|reflexivity].
    rewrite He, Hr. reflexivity.
  Qed.

  Lemma blocks_contribution_replace_ok (E : engine T) B1 b b' B2 outs res :
    b_enabled b' = b_enabled b ->
    (forall o o', rules_contribution E b o (b_rules b) = Ok o' -> rules_contribution E b' o (b_rules b') = Ok o') ->
    blocks_contribution E outs (B1 ++ b :: B2) = Ok res -> blocks_contribution E outs (B1 ++ b' :: B2) = Ok res.
  Proof.
    intros He Hr. rewrite !blocks_contribution_app.
    destruct (blocks_contribution E outs B1) as [o|]; cbn [bind Pipeline.blocks_contribution]; [|discriminate].
    rewrite He. destruct (b_enabled b); [|auto].
    destruct (rules_contribution E b o (b_rules b)) as [o'|] eqn:H1; cbn [bind]; [|discriminate].
    rewrite (Hr o o' H1). auto.
  Qed.

  Lemma general_only_with_blocks (e : engine T) bs :
    (forall b', In b' bs -> exists b, In b (e_blocks e) /\ b_enabled b = b_enabled b' /\ b_activation b = b_activation b') ->
    general_only e -> general_only (with_blocks e bs).
  Proof.
    intros H Hg b' Hin Hen. destruct (H b' Hin) as (b & Hb & He & Ha).
    unfold is_general. rewrite <- Ha. apply Hg; congruence.
  Qed.

  Lemma pipeline_outputs_with_blocks (e : engine T) bs :
    pipeline_outputs (with_blocks e bs) =
    (do fz <- blocks_contribution e (map clear_fuzzy (e_outputs e)) bs; pipeline_values e [] fz).
  Proof.
    unfold Pipeline.pipeline_outputs, Pipeline.pipeline_fuzzy. cbn [e_outputs e_blocks with_blocks].
    rewrite (blocks_contribution_ext (with_blocks e bs) e eq_refl bs bs _ eq_refl).
    destruct (blocks_contribution e _ bs); cbn [bind]; [|reflexivity].
    apply pipeline_values_ext. reflexivity.
  Qed.

  Lemma in_replace_block (B1 B2 : list (block T)) (b b' x : block T) :
    In x (B1 ++ b' :: B2) -> x = b' \/ In x (B1 ++ b :: B2).
  Proof. rewrite !in_app_iff. cbn. intuition. Qed.

  (* a rule that is not loaded is skipped: the engine without it computes the same outputs *)
  Theorem unloaded_rule_skipped (e : engine T) B1 b B2 R1 r R2 :
    e_blocks e = B1 ++ b :: B2 -> b_rules b = R1 ++ r :: R2 -> rule_loaded r = false ->
    pipeline_outputs (with_blocks e (B1 ++ set_rules b (R1 ++ R2) :: B2)) = pipeline_outputs e
    /\ (general_only e -> process_outputs (with_blocks e (B1 ++ set_rules b (R1 ++ R2) :: B2)) = process_outputs e).
  Proof.
    intros Hb Hr Hl.
    assert (H : pipeline_outputs (with_blocks e (B1 ++ set_rules b (R1 ++ R2) :: B2)) = pipeline_outputs e).
    { rewrite pipeline_outputs_with_blocks. unfold Pipeline.pipeline_outputs, Pipeline.pipeline_fuzzy. rewrite Hb.
      rewrite (blocks_contribution_replace_eq e B1 b (set_rules b (R1 ++ R2)) B2); [reflexivity | reflexivity |].
      intros o. cbn [b_rules set_rules]. rewrite Hr.
      rewrite (rules_contribution_ext e e (set_rules b (R1 ++ R2)) b eq_refl eq_refl eq_refl eq_refl (R1 ++ R2) (R1 ++ R2) o eq_refl).
      rewrite !rules_contribution_app.
      destruct (rules_contribution e b o R1); cbn [bind Pipeline.rules_contribution]; [|reflexivity].
      rewrite unloaded_rule_contribution by exact Hl. reflexivity. }
    split; [exact H|]. intros Hg.
    rewrite (process_outputs_eq_pipeline function_eval fe_ext e Hg), <- H.
    apply (process_outputs_eq_pipeline function_eval fe_ext).
    apply general_only_with_blocks; [|exact Hg]. intros x Hx. rewrite Hb.
    destruct (in_replace_block B1 B2 b _ x Hx) as [-> | Hin]; [exists b | exists x]; repeat split; auto.
    rewrite in_app_iff; right; left; reflexivity.
  Qed.

  (* a disabled rule contributes nothing: whenever the engine processes, the engine without the rule gives the same outputs
     (the antecedent of a disabled rule is still evaluated, so the engine WITH it may raise where the other does not) *)
  Theorem disabled_rule_contributes_nothing (e : engine T) B1 b B2 R1 r R2 outs :
    e_blocks e = B1 ++ b :: B2 -> b_rules b = R1 ++ r :: R2 -> r_enabled r = false ->
    (pipeline_outputs e = Ok outs -> pipeline_outputs (with_blocks e (B1 ++ set_rules b (R1 ++ R2) :: B2)) = Ok outs)
    /\ (general_only e -> process_outputs e = Ok outs ->
        process_outputs (with_blocks e (B1 ++ set_rules b (R1 ++ R2) :: B2)) = Ok outs).
  Proof.
    intros Hb Hr Hd.
    assert (H : pipeline_outputs e = Ok outs -> pipeline_outputs (with_blocks e (B1 ++ set_rules b (R1 ++ R2) :: B2)) = Ok outs).
    { rewrite pipeline_outputs_with_blocks. unfold Pipeline.pipeline_outputs, Pipeline.pipeline_fuzzy. rewrite Hb.
      destruct (blocks_contribution e _ (B1 ++ b :: B2)) as [fz|] eqn:H1; cbn [bind]; [|discriminate].
      rewrite (blocks_contribution_replace_ok e B1 b (set_rules b (R1 ++ R2)) B2 _ fz eq_refl); [auto | | exact H1].
      intros o o'. cbn [b_rules set_rules]. rewrite Hr.
      rewrite (rules_contribution_ext e e (set_rules b (R1 ++ R2)) b eq_refl eq_refl eq_refl eq_refl (R1 ++ R2) (R1 ++ R2) o eq_refl).
      rewrite !rules_contribution_app.
      destruct (rules_contribution e b o R1) as [o1|]; cbn [bind Pipeline.rules_contribution]; [|discriminate].
      destruct (rule_contribution e b o1 r) as [o2|] eqn:H2; cbn [bind]; [|discriminate].
      rewrite (disabled_rule_contribution e b o1 r o2 Hd H2). auto. }
    split; [exact H|]. intros Hg Hp.
    rewrite (process_outputs_eq_pipeline function_eval fe_ext e Hg) in Hp.
    rewrite (process_outputs_eq_pipeline function_eval fe_ext); [exact (H Hp)|].
    apply general_only_with_blocks; [|exact Hg]. intros x Hx. rewrite Hb.
    destruct (in_replace_block B1 B2 b _ x Hx) as [-> | Hin]; [exists b | exists x]; repeat split; auto.
    rewrite in_app_iff; right; left; reflexivity.
  Qed.

  (* a disabled rule block contributes nothing: the engine without the block computes the same outputs *)
  Theorem disabled_block_contributes_nothing (e : engine T) B1 b B2 :
    e_blocks e = B1 ++ b :: B2 -> b_enabled b = false ->
    pipeline_outputs (with_blocks e (B1 ++ B2)) = pipeline_outputs e
    /\ (general_only e -> process_outputs (with_blocks e (B1 ++ B2)) = process_outputs e).
  Proof.
    intros Hb Hd.
    assert (H : pipeline_outputs (with_blocks e (B1 ++ B2)) = pipeline_outputs e).
    { rewrite pipeline_outputs_with_blocks. unfold Pipeline.pipeline_outputs, Pipeline.pipeline_fuzzy. rewrite Hb.
      rewrite !blocks_contribution_app.
      destruct (blocks_contribution e _ B1); cbn [bind Pipeline.blocks_contribution]; [|reflexivity].
      rewrite Hd. reflexivity. }
    split; [exact H|]. intros Hg.
    rewrite (process_outputs_eq_pipeline function_eval fe_ext e Hg), <- H.
    apply (process_outputs_eq_pipeline function_eval fe_ext).
    apply general_only_with_blocks; [|exact Hg]. intros x Hx. exists x. rewrite Hb.
    repeat split; auto. rewrite in_app_iff in *. cbn. intuition.
  Qed.
End Corollaries.
