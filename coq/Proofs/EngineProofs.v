(* EngineProofs.v — Engine.process (Model/Engine.v) refines the documented pipeline (Spec/Pipeline.v): C01,
   and the history-freedom / restart / copy facts of C13 (operations of Model/Ops.v).

   Everything is generic in the numeric reading `Num T`: list and record reasoning only, no arithmetic.

   Plan.
   1. list algebra of `set_nth` / `nth_error`;
   2. congruence: what a rule's degree and a variable's defuzzified value read of the engine (inputs, the
      outputs up to value/previous, `function_eval`), never the rule records;
   3. `process_spec`: the pipeline WITH the rule records it leaves behind (`rule_step`, `rules_step`,
      `blocks_step`); forgetting the records gives Spec/Pipeline.v's `rules_contribution`/`blocks_contribution`;
   4. the General loop over `seq k n` on the engine state = `rules_step`; blocks; defuzzification;
      `process = process_spec` under `general_only`;
   5. corollaries of C01;  6. C13. *)
From Coq Require Import ZArith Bool List String Lia.
From VF Require Import Num GenNorm GenHedge GenTerm Core Discrete NpSum Defuzz Antecedent Consequent Activation
  Weighted Cascade Engine Ops Pipeline.
Import ListNotations.
Local Notation length := List.length.
Local Notation activation_degree := Antecedent.activation_degree.   (* Weighted.v has another one *)
Local Open Scope list_scope.

(* ================================================================================================ *)
(* 1. lists                                                                                          *)
(* ================================================================================================ *)
Section Lists.
  Context {A : Type}.

  Lemma set_nth_length (i : nat) (x : A) (l : list A) : length (set_nth i x l) = length l.
  Proof. revert i; induction l as [|a l IH]; intros [|i]; cbn; auto. Qed.

  Lemma nth_error_set_nth_eq (i : nat) (x : A) (l : list A) :
    i < length l -> nth_error (set_nth i x l) i = Some x.
  Proof. revert i; induction l as [|a l IH]; intros [|i] H; cbn in *; try lia; auto. apply IH; lia. Qed.

  Lemma nth_error_set_nth_neq (i j : nat) (x : A) (l : list A) :
    i <> j -> nth_error (set_nth i x l) j = nth_error l j.
  Proof. revert i j; induction l as [|a l IH]; intros [|i] [|j] H; cbn; try congruence; auto. Qed.

  Lemma set_nth_twice (i : nat) (x y : A) (l : list A) : set_nth i y (set_nth i x l) = set_nth i y l.
  Proof. revert i; induction l as [|a l IH]; intros [|i]; cbn; auto. f_equal; apply IH. Qed.

  Lemma set_nth_same (i : nat) (x : A) (l : list A) : nth_error l i = Some x -> set_nth i x l = l.
  Proof.
    revert i; induction l as [|a l IH]; intros [|i] H; cbn in *; try congruence.
    f_equal; apply IH; assumption.
  Qed.

  Lemma set_nth_middle (pre post : list A) (x y : A) :
    set_nth (length pre) y (pre ++ x :: post) = pre ++ y :: post.
  Proof. induction pre as [|a pre IH]; cbn; congruence. Qed.

  Lemma nth_error_middle (pre post : list A) (x : A) : nth_error (pre ++ x :: post) (length pre) = Some x.
  Proof. induction pre as [|a pre IH]; cbn; auto. Qed.

  Lemma nth_error_lt (l : list A) (i : nat) (x : A) : nth_error l i = Some x -> i < length l.
  Proof. intros H. apply nth_error_Some. congruence. Qed.

  Lemma nth_error_split_at (l : list A) (i : nat) (x : A) :
    nth_error l i = Some x -> exists pre post, l = pre ++ x :: post /\ length pre = i.
  Proof.
    intros H. destruct (nth_error_split l i H) as (pre & post & H1 & H2). eauto.
  Qed.

  Lemma snoc_app (pre : list A) (x : A) (post : list A) : (pre ++ [x]) ++ post = pre ++ x :: post.
  Proof. rewrite <- app_assoc. reflexivity. Qed.

  Lemma length_snoc (pre : list A) (x : A) : length (pre ++ [x]) = S (length pre).
  Proof. rewrite app_length. cbn. lia. Qed.
End Lists.

Section MapLists.
  Context {A B : Type}.
  Lemma map_eq_nth (f : A -> B) (l1 l2 : list A) (i : nat) :
    map f l1 = map f l2 ->
    match nth_error l1 i, nth_error l2 i with
    | Some a, Some b => f a = f b
    | None, None => True
    | _, _ => False
    end.
  Proof.
    intros H. pose proof (f_equal (fun l => nth_error l i) H) as H'. cbn in H'.
    rewrite !nth_error_map in H'.
    destruct (nth_error l1 i), (nth_error l2 i); cbn in H'; congruence || exact I.
  Qed.

  Lemma map_eq_cons (f : A -> B) (a : A) (l1 l2 : list A) :
    map f (a :: l1) = map f l2 -> exists b l2', l2 = b :: l2' /\ f a = f b /\ map f l1 = map f l2'.
  Proof. destruct l2 as [|b l2']; cbn; intros H; [discriminate|]. injection H as H1 H2. eauto. Qed.

  Lemma map_eq_length (f : A -> B) (l1 l2 : list A) : map f l1 = map f l2 -> length l1 = length l2.
  Proof. intros H. rewrite <- (map_length f l1), H. apply map_length. Qed.

  Lemma update_nth_map (f : A -> A) (g : A -> A) (h : A -> A) (i : nat) (l : list A) :
    (forall a, h (f a) = g (h a)) -> map h (update_nth i f l) = update_nth i g (map h l).
  Proof. intros H. revert i; induction l as [|a l IH]; intros [|i]; cbn; auto; f_equal; auto. Qed.
End MapLists.

(* results *)
Definition rmap {A B : Type} (f : A -> B) (r : result A) : result B :=
  match r with Ok a => Ok (f a) | Err x => Err x end.
(* two results agree: both fail with the same exception, or both succeed with related values *)
Definition res_rel {A B : Type} (R : A -> B -> Prop) (r1 : result A) (r2 : result B) : Prop :=
  match r1, r2 with Ok a, Ok b => R a b | Err x, Err y => x = y | _, _ => False end.

Lemma mapM_ext {A B : Type} (f g : A -> result B) (l : list A) :
  (forall a, f a = g a) -> mapM f l = mapM g l.
Proof. intros H. induction l as [|a l IH]; cbn; [reflexivity|]. rewrite H, IH. reflexivity. Qed.

(* ================================================================================================ *)
(* 2. what the engine-level functions read                                                           *)
(* ================================================================================================ *)
Section Congruence.
  Context {T : Type} {N : Num T}.
  Variable function_eval : engine T -> fnode T -> list (string * T) -> T -> result T.
  Notation tm := (term_membership function_eval).

  (* an output variable up to its value and previous value (the fuzzy output is kept) *)
  Definition ov_ev (ov : output_var T) : output_var T :=
    {| ov_name := ov_name ov; ov_enabled := ov_enabled ov; ov_min := ov_min ov; ov_max := ov_max ov;
       ov_lock_range := ov_lock_range ov; ov_lock_previous := ov_lock_previous ov; ov_default := ov_default ov;
       ov_aggregation := ov_aggregation ov; ov_defuzzifier := ov_defuzzifier ov; ov_terms := ov_terms ov;
       ov_value := nan; ov_previous := nan; ov_fuzzy := ov_fuzzy ov |}.
  (* an output variable up to value, previous value and fuzzy output: its configuration *)
  Definition ov_static (ov : output_var T) : output_var T :=
    {| ov_name := ov_name ov; ov_enabled := ov_enabled ov; ov_min := ov_min ov; ov_max := ov_max ov;
       ov_lock_range := ov_lock_range ov; ov_lock_previous := ov_lock_previous ov; ov_default := ov_default ov;
       ov_aggregation := ov_aggregation ov; ov_defuzzifier := ov_defuzzifier ov; ov_terms := ov_terms ov;
       ov_value := nan; ov_previous := nan; ov_fuzzy := [] |}.

  Lemma ov_static_ev (ov : output_var T) : ov_static (ov_ev ov) = ov_static ov.
  Proof. reflexivity. Qed.
  Lemma ov_ev_idem (ov : output_var T) : ov_ev (ov_ev ov) = ov_ev ov.
  Proof. reflexivity. Qed.
  Lemma map_ev_static (l1 l2 : list (output_var T)) : map ov_ev l1 = map ov_ev l2 -> map ov_static l1 = map ov_static l2.
  Proof.
    intros H. apply (f_equal (map ov_static)) in H. rewrite !map_map in H. exact H.
  Qed.

  Lemma term_membership_cong (e1 e2 : engine T) :
    e_inputs e1 = e_inputs e2 -> function_eval e1 = function_eval e2 -> tm e1 = tm e2.
  Proof. intros Hi Hf. unfold term_membership, linear_membership. rewrite Hi, Hf. reflexivity. Qed.

  (* the antecedent reads the inputs, and of the outputs everything but value / previous value *)
  Lemma activation_degree_cong (m : term T -> T -> result T) cj dj (e1 e2 : engine T) (x : expr) :
    e_inputs e1 = e_inputs e2 -> map ov_ev (e_outputs e1) = map ov_ev (e_outputs e2) ->
    activation_degree m cj dj e1 x = activation_degree m cj dj e2 x.
  Proof.
    intros Hi Ho. induction x as [v hs t | is_and l IHl r IHr].
    - cbn [activation_degree]. destruct v as [i|i]; cbn [var_terms var_enabled].
      + rewrite Hi. reflexivity.
      + pose proof (map_eq_nth ov_ev _ _ i Ho) as H.
        destruct (nth_error (e_outputs e1) i) as [a|], (nth_error (e_outputs e2) i) as [b|]; try contradiction; [|reflexivity].
        destruct a, b; cbn in H; injection H; intros; subst; reflexivity.
    - cbn [activation_degree]. rewrite IHl, IHr. reflexivity.
  Qed.

  Lemma rule_activate_with_cong (m : term T -> T -> result T) cj dj (e1 e2 : engine T) (r1 r2 : rule T) :
    e_inputs e1 = e_inputs e2 -> map ov_ev (e_outputs e1) = map ov_ev (e_outputs e2) ->
    r_antecedent r1 = r_antecedent r2 -> r_consequent r1 = r_consequent r2 -> r_weight r1 = r_weight r2 ->
    rule_activate_with m cj dj e1 r1 = rule_activate_with m cj dj e2 r2.
  Proof.
    intros Hi Ho Ha Hc Hw. unfold rule_activate_with, rule_loaded. rewrite Ha, Hc, Hw.
    destruct (r_antecedent r2) as [x|]; [|reflexivity].
    rewrite (activation_degree_cong m cj dj e1 e2 x Hi Ho). reflexivity.
  Qed.

  (* defuzzification of one variable reads the engine only through Term.membership *)
  Lemma aggregate_from_cong (e1 e2 : engine T) agg l : forall y x,
    tm e1 = tm e2 -> aggregate_from function_eval e1 agg y l x = aggregate_from function_eval e2 agg y l x.
  Proof.
    induction l as [|a l IH]; intros y x H; cbn; [reflexivity|].
    unfold activated_membership. rewrite H.
    destruct (a_implication a); cbn; [|reflexivity].
    destruct (tm e2 (a_term a) x); cbn; [|reflexivity]. apply IH, H.
  Qed.

  Lemma output_defuzzify_cong (e1 e2 : engine T) (ov : output_var T) :
    tm e1 = tm e2 -> output_defuzzify function_eval e1 ov = output_defuzzify function_eval e2 ov.
  Proof.
    intros H. unfold output_defuzzify.
    assert (Hd : forall d, defuzzifier_value function_eval e1 ov d = defuzzifier_value function_eval e2 ov d).
    { intros [k res | average ty]; cbn [defuzzifier_value].
      - destruct (midpoints (ov_min ov) (ov_max ov) res) as [xs|]; cbn; [|reflexivity].
        rewrite (mapM_ext (aggregated_membership function_eval e1 ov) (aggregated_membership function_eval e2 ov)); [reflexivity|].
        intros x. unfold aggregated_membership.
        destruct (ov_fuzzy ov); [reflexivity|]. destruct (ov_aggregation ov); [|reflexivity].
        apply aggregate_from_cong, H.
      - rewrite H. reflexivity. }
    destruct (ov_defuzzifier ov) as [d|]; [rewrite Hd|]; reflexivity.
  Qed.
End Congruence.

(* ================================================================================================ *)
(* 3. the pipeline with the rule records it leaves behind                                            *)
(* ================================================================================================ *)
Section Refinement.
  Context {T : Type} {N : Num T}.
  Variable function_eval : engine T -> fnode T -> list (string * T) -> T -> result T.
  (* Function terms read the engine's variables only (not its rule blocks) *)
  Hypothesis fe_ext : forall e1 e2 : engine T,
    e_inputs e1 = e_inputs e2 -> e_outputs e1 = e_outputs e2 -> function_eval e1 = function_eval e2.
  Notation tm := (term_membership function_eval).

  (* a rule after activation: its configuration, the stored degree and the triggered flag *)
  Definition mk_rule (r : rule T) (d : T) (t : bool) : rule T :=
    {| r_enabled := r_enabled r; r_weight := r_weight r; r_antecedent := r_antecedent r;
       r_consequent := r_consequent r; r_degree := d; r_triggered := t |}.
  Definition set_rules (b : block T) (rs : list (rule T)) : block T :=
    {| b_name := b_name b; b_enabled := b_enabled b; b_conjunction := b_conjunction b;
       b_disjunction := b_disjunction b; b_implication := b_implication b;
       b_activation := b_activation b; b_rules := rs |}.

  (* one rule under General: the record it leaves and the fuzzy outputs after it *)
  Definition rule_step (E : engine T) (cj : option tnormx) (dj : option snormx) (im : option tnormx)
      (outs : list (output_var T)) (r : rule T) : result (rule T * list (output_var T)) :=
    if rule_loaded r then
      do d <- rule_activate_with (tm (view E outs)) cj dj (view E outs) r;
      if r_enabled r then do outs' <- modify d im (r_consequent r) outs; Ok (mk_rule r d (gtb d zero), outs')
      else Ok (mk_rule r d false, outs)
    else Ok (rule_deactivated r, outs).

  Fixpoint rules_step (E : engine T) cj dj im (outs : list (output_var T)) (rs : list (rule T))
      : result (list (rule T) * list (output_var T)) :=
    match rs with
    | [] => Ok ([], outs)
    | r :: tl => do ro <- rule_step E cj dj im outs r;
                 do rest <- rules_step E cj dj im (snd ro) tl;
                 Ok (fst ro :: fst rest, snd rest)
    end.

  Fixpoint blocks_step (E : engine T) (outs : list (output_var T)) (bs : list (block T))
      : result (list (block T) * list (output_var T)) :=
    match bs with
    | [] => Ok ([], outs)
    | b :: tl =>
        if b_enabled b then
          do ro <- rules_step E (b_conjunction b) (b_disjunction b) (b_implication b) outs (b_rules b);
          do rest <- blocks_step E (snd ro) tl;
          Ok (set_rules b (fst ro) :: fst rest, snd rest)
        else do rest <- blocks_step E outs tl; Ok (b :: fst rest, snd rest)
    end.

  (* Engine.process, as the documented pipeline plus the records *)
  Definition process_spec (e : engine T) : result (engine T) :=
    do bo <- blocks_step e (map clear_fuzzy (e_outputs e)) (e_blocks e);
    do outs <- pipeline_values function_eval e [] (snd bo);
    Ok {| e_name := e_name e; e_inputs := e_inputs e; e_outputs := outs; e_blocks := fst bo |}.

  (* forgetting the records gives Spec/Pipeline.v *)
  Lemma rule_step_contribution (E : engine T) (b : block T) outs r :
    rmap snd (rule_step E (b_conjunction b) (b_disjunction b) (b_implication b) outs r)
    = rule_contribution function_eval E b outs r.
  Proof.
    unfold rule_step, rule_contribution, firing_degree.
    destruct (rule_loaded r); [|reflexivity].
    destruct (rule_activate_with _ _ _ _ r) as [d|x]; cbn; [|reflexivity].
    destruct (r_enabled r); [|reflexivity].
    destruct (modify d _ _ outs); reflexivity.
  Qed.

  Lemma rules_step_contribution (E : engine T) (b : block T) rs : forall outs,
    rmap snd (rules_step E (b_conjunction b) (b_disjunction b) (b_implication b) outs rs)
    = rules_contribution function_eval E b outs rs.
  Proof.
    induction rs as [|r rs IH]; intros outs; cbn [rules_step rules_contribution]; [reflexivity|].
    rewrite <- rule_step_contribution.
    destruct (rule_step E _ _ _ outs r) as [[r' o']|x]; cbn; [|reflexivity].
    rewrite <- IH. destruct (rules_step E _ _ _ o' rs) as [[rs' o'']|x]; reflexivity.
  Qed.

  Lemma blocks_step_contribution (E : engine T) bs : forall outs,
    rmap snd (blocks_step E outs bs) = blocks_contribution function_eval E outs bs.
  Proof.
    induction bs as [|b bs IH]; intros outs; cbn [blocks_step blocks_contribution]; [reflexivity|].
    destruct (b_enabled b).
    - rewrite <- rules_step_contribution.
      destruct (rules_step E _ _ _ outs (b_rules b)) as [[rs' o']|x]; cbn; [|reflexivity].
      rewrite <- IH. destruct (blocks_step E o' bs) as [[bs' o'']|x]; reflexivity.
    - rewrite <- IH. destruct (blocks_step E outs bs) as [[bs' o'']|x]; reflexivity.
  Qed.

  Lemma process_spec_outputs (e : engine T) :
    rmap (@e_outputs T) (process_spec e) = pipeline_outputs function_eval e.
  Proof.
    unfold process_spec, pipeline_outputs, pipeline_fuzzy. rewrite <- blocks_step_contribution.
    destruct (blocks_step e _ (e_blocks e)) as [[bs' o']|x]; cbn; [|reflexivity].
    destruct (pipeline_values function_eval e [] o'); reflexivity.
  Qed.

  (* ============================================================================================== *)
  (* 4. the model's loops                                                                           *)
  (* ============================================================================================== *)
  (* the engine state inside block bi: block bi holds `rules`, the outputs are `outs`, the rest is s *)
  Definition mk_state (s : engine T) (bi : nat) (b0 : block T) (rules : list (rule T)) (outs : list (output_var T)) : engine T :=
    {| e_name := e_name s; e_inputs := e_inputs s; e_outputs := outs;
       e_blocks := set_nth bi (set_rules b0 rules) (e_blocks s) |}.

  Section InBlock.
    Variables (s : engine T) (bi : nat) (b0 : block T).
    Hypothesis Hbi : bi < length (e_blocks s).
    Notation St := (mk_state s bi b0).

    Lemma get_rule_St pre r post outs :
      get_rule (St (pre ++ r :: post) outs) bi (length pre) = Some (set_rules b0 (pre ++ r :: post), r).
    Proof.
      unfold get_rule, mk_state. cbn [e_blocks]. rewrite nth_error_set_nth_eq by exact Hbi.
      cbn [b_rules set_rules]. rewrite nth_error_middle. reflexivity.
    Qed.

    Lemma with_rule_St pre r post outs r' :
      with_rule (St (pre ++ r :: post) outs) bi (length pre) r' = St (pre ++ r' :: post) outs.
    Proof.
      unfold with_rule, mk_state. cbn [e_blocks e_name e_inputs e_outputs].
      rewrite nth_error_set_nth_eq by exact Hbi. cbn [b_rules set_rules b_name b_enabled b_conjunction b_disjunction b_implication b_activation].
      rewrite set_nth_twice, set_nth_middle. reflexivity.
    Qed.

    Lemma with_outputs_St rules outs outs' : with_outputs (St rules outs) outs' = St rules outs'.
    Proof. reflexivity. Qed.

    (* General.activate over the rules at positions length pre, length pre + 1, … of block bi *)
    Lemma general_loop_rules (E : engine T) (HE : e_inputs s = e_inputs E) : forall rs pre outs,
      general_loop (block_ops function_eval bi) (seq (length pre) (length rs)) (St (pre ++ rs) outs) =
      match rules_step E (b_conjunction b0) (b_disjunction b0) (b_implication b0) outs rs with
      | Ok (rs', outs') => Ok (St (pre ++ rs') outs')
      | Err x => Err x
      end.
    Proof.
      induction rs as [|r rs IH]; intros pre outs.
      - cbn. reflexivity.
      - cbn [length seq general_loop rules_step].
        cbn [block_ops op_deactivate op_is_loaded op_activate_with op_trigger].
        rewrite get_rule_St, with_rule_St, get_rule_St.
        assert (Hl : rule_loaded (rule_deactivated r) = rule_loaded r) by reflexivity.
        rewrite Hl. unfold rule_step.
        assert (Hnext : forall (r' : rule T) outs',
          general_loop (block_ops function_eval bi) (seq (S (length pre)) (length rs)) (St (pre ++ r' :: rs) outs') =
          match rules_step E (b_conjunction b0) (b_disjunction b0) (b_implication b0) outs' rs with
          | Ok (rs', outs'') => Ok (St (pre ++ r' :: rs') outs'')
          | Err x => Err x
          end).
        { intros r' outs'. specialize (IH (pre ++ [r']) outs'). rewrite length_snoc, snoc_app in IH. rewrite IH.
          destruct (rules_step E _ _ _ outs' rs) as [[rs' o'']|x]; [|reflexivity]. rewrite snoc_app. reflexivity. }
        destruct (rule_loaded r) eqn:Hld.
        + (* loaded: evaluate against the current state, store, trigger *)
          cbn [b_conjunction b_disjunction b_implication set_rules].
          rewrite (rule_activate_with_cong (tm (St (pre ++ rule_deactivated r :: rs) outs))
                     (b_conjunction b0) (b_disjunction b0)
                     (St (pre ++ rule_deactivated r :: rs) outs) (view E outs) (rule_deactivated r) r
                     HE eq_refl eq_refl eq_refl eq_refl).
          rewrite (term_membership_cong function_eval (St (pre ++ rule_deactivated r :: rs) outs) (view E outs) HE
                     (fe_ext (St (pre ++ rule_deactivated r :: rs) outs) (view E outs) HE eq_refl)).
          destruct (rule_activate_with (tm (view E outs)) (b_conjunction b0) (b_disjunction b0) (view E outs) r) as [d|x];
            cbn [bind fst snd]; [|reflexivity].
          rewrite with_rule_St, get_rule_St.
          unfold trigger, trigger_with.
          assert (Hl2 : rule_loaded (rule_with_degree (rule_deactivated r) d) = rule_loaded r) by reflexivity.
          rewrite Hl2, Hld. cbn [negb r_enabled rule_with_degree rule_deactivated r_degree r_consequent e_outputs mk_state b_implication set_rules].
          destruct (r_enabled r).
          * destruct (modify d (b_implication b0) (r_consequent r) outs) as [outs'|x]; cbn [bind fst snd]; [|reflexivity].
            rewrite with_rule_St, with_outputs_St.
            change (set_triggered (rule_with_degree (rule_deactivated r) d) (gtb d zero)) with (mk_rule r d (gtb d zero)).
            rewrite Hnext.
            destruct (rules_step E _ _ _ outs' rs) as [[rs' o'']|x]; reflexivity.
          * cbn [bind fst snd]. rewrite with_rule_St, with_outputs_St.
            change (set_triggered (rule_with_degree (rule_deactivated r) d) false) with (mk_rule r d false).
            rewrite Hnext.
            destruct (rules_step E _ _ _ outs rs) as [[rs' o'']|x]; reflexivity.
        + (* not loaded: only deactivated *)
          cbn [bind fst snd]. rewrite Hnext.
          destruct (rules_step E _ _ _ outs rs) as [[rs' o'']|x]; reflexivity.
    Qed.
  End InBlock.

  Definition put (s : engine T) (outs : list (output_var T)) (bs : list (block T)) : engine T :=
    {| e_name := e_name s; e_inputs := e_inputs s; e_outputs := outs; e_blocks := bs |}.

  Lemma put_id (s : engine T) : put s (e_outputs s) (e_blocks s) = s.
  Proof. destruct s; reflexivity. Qed.

  Lemma mk_state_id (s : engine T) bi b :
    nth_error (e_blocks s) bi = Some b -> mk_state s bi b (b_rules b) (e_outputs s) = s.
  Proof.
    intros H. unfold mk_state. replace (set_rules b (b_rules b)) with b by (destruct b; reflexivity).
    rewrite (set_nth_same _ _ _ H). destruct s; reflexivity.
  Qed.

  Definition blocks_general (bs : list (block T)) : Prop :=
    forall b, In b bs -> b_enabled b = true -> is_general b = true.

  (* RuleBlock.activate for every enabled block, in order *)
  Lemma activate_blocks_spec (E : engine T) : forall bs doneB s,
    e_blocks s = doneB ++ bs -> e_inputs s = e_inputs E -> blocks_general bs ->
    activate_blocks function_eval s (length doneB) bs =
    match blocks_step E (e_outputs s) bs with
    | Ok (bs', outs') => Ok (put s outs' (doneB ++ bs'))
    | Err x => Err x
    end.
  Proof.
    induction bs as [|b bs IH]; intros doneB s Hb HE Hg.
    - cbn [activate_blocks blocks_step]. rewrite <- Hb, put_id. reflexivity.
    - cbn [activate_blocks blocks_step].
      assert (Hg' : blocks_general bs) by (intros b' Hin; apply Hg; right; exact Hin).
      destruct (b_enabled b) eqn:Hen.
      + pose proof (Hg b (or_introl eq_refl) Hen) as Hgen. unfold is_general in Hgen.
        unfold activate_block.
        destruct (b_activation b) as [[]|]; try discriminate Hgen. cbn [activate activate_on].
        assert (Hnth : nth_error (e_blocks s) (length doneB) = Some b) by (rewrite Hb; apply nth_error_middle).
        pose proof (general_loop_rules s (length doneB) b (nth_error_lt _ _ _ Hnth) E HE (b_rules b) [] (e_outputs s)) as H.
        cbn [app length] in H. rewrite (mk_state_id s _ b Hnth) in H. rewrite H. clear H.
        destruct (rules_step E _ _ _ (e_outputs s) (b_rules b)) as [[rs' o']|x]; cbn [bind fst snd]; [|reflexivity].
        specialize (IH (doneB ++ [set_rules b rs']) (mk_state s (length doneB) b rs' o')).
        rewrite length_snoc in IH. rewrite IH; [| |exact HE|exact Hg'].
        * cbn [e_outputs mk_state]. destruct (blocks_step E o' bs) as [[bs' o'']|x]; [|reflexivity].
          rewrite snoc_app. reflexivity.
        * cbn [e_blocks mk_state]. rewrite Hb, set_nth_middle, snoc_app. reflexivity.
      + specialize (IH (doneB ++ [b]) s). rewrite length_snoc in IH. rewrite IH; [| |exact HE|exact Hg'].
        * destruct (blocks_step E (e_outputs s) bs) as [[bs' o'']|x]; cbn [bind fst snd]; [|reflexivity].
          rewrite snoc_app. reflexivity.
        * rewrite Hb, snoc_app. reflexivity.
  Qed.

  (* OutputVariable.defuzzify for every output variable, in order *)
  Lemma defuzzify_outputs_spec (E : engine T) : forall todo (cnt : list (output_var T)) done s,
    e_outputs s = done ++ todo -> length cnt = length todo -> e_inputs s = e_inputs E ->
    defuzzify_outputs function_eval s (length done) cnt =
    match pipeline_values function_eval E done todo with
    | Ok outs => Ok (with_outputs s outs)
    | Err x => Err x
    end.
  Proof.
    induction todo as [|ov todo IH]; intros [|c cnt] done s Ho Hl HE; try discriminate Hl.
    - cbn. rewrite app_nil_r in Ho. rewrite <- Ho. destruct s; reflexivity.
    - cbn [defuzzify_outputs pipeline_values]. rewrite Ho, nth_error_middle.
      rewrite (output_defuzzify_cong function_eval s (with_outputs E (done ++ ov :: todo)) ov
                 (term_membership_cong function_eval s (with_outputs E (done ++ ov :: todo)) HE
                    (fe_ext s (with_outputs E (done ++ ov :: todo)) HE Ho))).
      destruct (output_defuzzify function_eval (with_outputs E (done ++ ov :: todo)) ov) as [ov'|x]; cbn [bind]; [|reflexivity].
      rewrite set_nth_middle.
      specialize (IH cnt (done ++ [ov']) (with_outputs s (done ++ ov' :: todo))).
      rewrite length_snoc in IH. rewrite IH.
      + destruct (pipeline_values function_eval E (done ++ [ov']) todo); reflexivity.
      + cbn. rewrite snoc_app. reflexivity.
      + cbn in Hl. lia.
      + exact HE.
  Qed.

  Lemma pipeline_values_length (E : engine T) : forall todo done outs,
    pipeline_values function_eval E done todo = Ok outs -> length outs = length done + length todo.
  Proof.
    induction todo as [|ov todo IH]; intros done outs H; cbn in H.
    - injection H as <-. cbn. lia.
    - destruct (output_defuzzify function_eval _ ov) as [ov'|x]; cbn in H; [|discriminate].
      apply IH in H. rewrite length_snoc in H. cbn. lia.
  Qed.

  (* ---- Engine.process is the pipeline, records included *)
  Theorem process_eq_spec (e : engine T) : general_only e -> process function_eval e = process_spec e.
  Proof.
    intros Hg. unfold process, process_spec. cbv zeta.
    pose proof (activate_blocks_spec e (e_blocks e) [] (with_outputs e (map clear_fuzzy (e_outputs e)))
                  eq_refl eq_refl Hg) as H.
    cbn [length e_blocks with_outputs e_outputs app] in H |- *. rewrite H. clear H.
    destruct (blocks_step e (map clear_fuzzy (e_outputs e)) (e_blocks e)) as [[bs' o']|x]; cbn [bind fst snd]; [|reflexivity].
    pose proof (defuzzify_outputs_spec e o' o' [] (put (with_outputs e (map clear_fuzzy (e_outputs e))) o' bs')
                  eq_refl eq_refl eq_refl) as H.
    cbn [length e_outputs put] in H |- *. rewrite H.
    destruct (pipeline_values function_eval e [] o'); reflexivity.
  Qed.

  Definition process_outputs (e : engine T) : result (list (output_var T)) :=
    rmap (@e_outputs T) (process function_eval e).

  Theorem process_outputs_eq_pipeline (e : engine T) :
    general_only e -> process_outputs e = pipeline_outputs function_eval e.
  Proof. intros Hg. unfold process_outputs. rewrite (process_eq_spec e Hg). apply process_spec_outputs. Qed.

  Lemma process_spec_inputs (e e' : engine T) : process_spec e = Ok e' -> e_inputs e' = e_inputs e /\ e_name e' = e_name e.
  Proof.
    unfold process_spec. destruct (blocks_step e _ _) as [[bs' o']|x]; cbn; [|discriminate].
    destruct (pipeline_values function_eval e [] o'); cbn; [|discriminate].
    intros H; injection H as <-. split; reflexivity.
  Qed.

  (* C01, main statement *)
  Theorem process_refines_pipeline (e : engine T) : general_only e ->
    match process function_eval e, pipeline_outputs function_eval e with
    | Ok e', Ok outs => e_outputs e' = outs /\ e_inputs e' = e_inputs e
    | Err x, Err y => x = y
    | _, _ => False
    end.
  Proof.
    intros Hg. pose proof (process_outputs_eq_pipeline e Hg) as H. unfold process_outputs in H.
    rewrite (process_eq_spec e Hg) in *.
    destruct (process_spec e) as [e'|x] eqn:Hp; cbn in H; rewrite <- H; [|reflexivity].
    split; [reflexivity|]. apply (process_spec_inputs e e' Hp).
  Qed.
End Refinement.

(* ================================================================================================ *)
(* 5. corollaries (C01)                                                                              *)
(* ================================================================================================ *)
Section ListRel.
  Context {A : Type}.
  Lemma Forall2_refl_of (R : A -> A -> Prop) (l : list A) : (forall a, R a a) -> Forall2 R l l.
  Proof. intros H; induction l; constructor; auto. Qed.
  Lemma Forall2_trans_of (R : A -> A -> Prop) (l1 l2 l3 : list A) :
    (forall a b c, R a b -> R b c -> R a c) -> Forall2 R l1 l2 -> Forall2 R l2 l3 -> Forall2 R l1 l3.
  Proof.
    intros HT H12; revert l3; induction H12; intros l3 H23; inversion H23; subst; constructor; eauto.
  Qed.
  Lemma Forall2_update_nth (R : A -> A -> Prop) (f : A -> A) (i : nat) (l : list A) (v : A) :
    (forall a, R a a) -> nth_error l i = Some v -> R v (f v) -> Forall2 R l (update_nth i f l).
  Proof.
    intros HR. revert i; induction l as [|a l IH]; intros [|i] Hn Hv; cbn in *; try discriminate.
    - injection Hn as ->. constructor; [exact Hv | apply Forall2_refl_of, HR].
    - constructor; [apply HR | apply IH; assumption].
  Qed.
  Lemma Forall2_nth_error {B : Type} (R : A -> B -> Prop) (l : list A) (l' : list B) (i : nat) (a : A) :
    Forall2 R l l' -> nth_error l i = Some a -> exists a', nth_error l' i = Some a' /\ R a a'.
  Proof.
    intros H; revert i; induction H; intros [|i] Hn; cbn in *; try discriminate.
    - injection Hn as ->. eauto.
    - eauto.
  Qed.
  Lemma Forall2_map_eq {B : Type} (f : A -> B) (l l' : list A) :
    Forall2 (fun a a' => f a' = f a) l l' -> map f l' = map f l.
  Proof. induction 1; cbn; congruence. Qed.
  Lemma Forall2_impl_of (R R' : A -> A -> Prop) (l l' : list A) :
    (forall a b, R a b -> R' a b) -> Forall2 R l l' -> Forall2 R' l l'.
  Proof. intros H; induction 1; constructor; auto. Qed.
End ListRel.

Section Corollaries.
  Context {T : Type} {N : Num T}.
  Variable function_eval : engine T -> fnode T -> list (string * T) -> T -> result T.
  Hypothesis fe_ext : forall e1 e2 : engine T,
    e_inputs e1 = e_inputs e2 -> e_outputs e1 = e_outputs e2 -> function_eval e1 = function_eval e2.
  Notation tm := (term_membership function_eval).
  Notation rule_contribution := (rule_contribution function_eval).
  Notation rules_contribution := (rules_contribution function_eval).
  Notation blocks_contribution := (blocks_contribution function_eval).
  Notation pipeline_values := (pipeline_values function_eval).
  Notation pipeline_fuzzy := (pipeline_fuzzy function_eval).
  Notation pipeline_outputs := (pipeline_outputs function_eval).
  Notation process := (process function_eval).
  Notation process_outputs := (process_outputs function_eval).
  Notation firing_degree := (firing_degree function_eval).

  Definition with_blocks (e : engine T) (bs : list (block T)) : engine T :=
    {| e_name := e_name e; e_inputs := e_inputs e; e_outputs := e_outputs e; e_blocks := bs |}.

  (* ---- 5.1 what the pipeline reads: not the stored degrees / flags, not the engine's rule blocks as such *)
  Lemma firing_degree_ext (E1 E2 : engine T) (b1 b2 : block T) outs (r1 r2 : rule T) :
    e_inputs E1 = e_inputs E2 -> b_conjunction b1 = b_conjunction b2 -> b_disjunction b1 = b_disjunction b2 ->
    rule_deactivated r1 = rule_deactivated r2 ->
    firing_degree E1 b1 outs r1 = firing_degree E2 b2 outs r2.
  Proof.
    intros HE Hc Hd Hr. unfold Pipeline.firing_degree. rewrite Hc, Hd.
    injection Hr as He Hw Ha Hq.
    rewrite (term_membership_cong function_eval (view E1 outs) (view E2 outs) HE (fe_ext (view E1 outs) (view E2 outs) HE eq_refl)).
    apply rule_activate_with_cong; auto.
  Qed.

  Lemma rule_contribution_ext (E1 E2 : engine T) (b1 b2 : block T) outs (r1 r2 : rule T) :
    e_inputs E1 = e_inputs E2 -> b_conjunction b1 = b_conjunction b2 -> b_disjunction b1 = b_disjunction b2 ->
    b_implication b1 = b_implication b2 -> rule_deactivated r1 = rule_deactivated r2 ->
    rule_contribution E1 b1 outs r1 = rule_contribution E2 b2 outs r2.
  Proof.
    intros HE Hc Hd Hi Hr. unfold Pipeline.rule_contribution.
    rewrite (firing_degree_ext E1 E2 b1 b2 outs r1 r2 HE Hc Hd Hr), Hi.
    injection Hr as He Hw Ha Hq. unfold rule_loaded. rewrite Ha, Hq, He. reflexivity.
  Qed.

  Lemma rules_contribution_ext (E1 E2 : engine T) (b1 b2 : block T) :
    e_inputs E1 = e_inputs E2 -> b_conjunction b1 = b_conjunction b2 -> b_disjunction b1 = b_disjunction b2 ->
    b_implication b1 = b_implication b2 -> forall rs1 rs2 outs,
    map (@rule_deactivated T N) rs1 = map (@rule_deactivated T N) rs2 ->
    rules_contribution E1 b1 outs rs1 = rules_contribution E2 b2 outs rs2.
  Proof.
    intros HE Hc Hd Hi. induction rs1 as [|r1 rs1 IH]; intros rs2 outs Hm.
    - destruct rs2; [reflexivity | discriminate].
    - destruct (map_eq_cons _ _ _ _ Hm) as (r2 & rs2' & -> & Hr & Hm').
      cbn [Pipeline.rules_contribution]. rewrite (rule_contribution_ext E1 E2 b1 b2 outs r1 r2 HE Hc Hd Hi Hr).
      destruct (rule_contribution E2 b2 outs r2); cbn [bind]; [apply IH, Hm' | reflexivity].
  Qed.

  Lemma blocks_contribution_ext (E1 E2 : engine T) : e_inputs E1 = e_inputs E2 -> forall bs1 bs2 outs,
    map (@block_deactivated T N) bs1 = map (@block_deactivated T N) bs2 ->
    blocks_contribution E1 outs bs1 = blocks_contribution E2 outs bs2.
  Proof.
    intros HE. induction bs1 as [|b1 bs1 IH]; intros bs2 outs Hm.
    - destruct bs2; [reflexivity | discriminate].
    - destruct (map_eq_cons _ _ _ _ Hm) as (b2 & bs2' & -> & Hb & Hm').
      cbn [Pipeline.blocks_contribution]. injection Hb as Hn Hen Hc Hd Hi Ha Hrs.
      rewrite Hen, (rules_contribution_ext E1 E2 b1 b2 HE Hc Hd Hi (b_rules b1) (b_rules b2) outs Hrs).
      destruct (b_enabled b2); [|apply IH, Hm'].
      destruct (rules_contribution E2 b2 outs (b_rules b2)); cbn [bind]; [apply IH, Hm' | reflexivity].
  Qed.

  Lemma pipeline_values_ext (E1 E2 : engine T) : e_inputs E1 = e_inputs E2 -> forall todo done,
    pipeline_values E1 done todo = pipeline_values E2 done todo.
  Proof.
    intros HE. induction todo as [|ov todo IH]; intros done; cbn [Pipeline.pipeline_values]; [reflexivity|].
    rewrite (output_defuzzify_cong function_eval (with_outputs E1 (done ++ ov :: todo)) (with_outputs E2 (done ++ ov :: todo)) ov
               (term_membership_cong function_eval (with_outputs E1 (done ++ ov :: todo)) (with_outputs E2 (done ++ ov :: todo)) HE
                  (fe_ext (with_outputs E1 (done ++ ov :: todo)) (with_outputs E2 (done ++ ov :: todo)) HE eq_refl))).
    destruct (output_defuzzify function_eval _ ov); cbn [bind]; [apply IH | reflexivity].
  Qed.

  Lemma pipeline_outputs_ext (e1 e2 : engine T) :
    e_inputs e1 = e_inputs e2 -> map clear_fuzzy (e_outputs e1) = map clear_fuzzy (e_outputs e2) ->
    map (@block_deactivated T N) (e_blocks e1) = map (@block_deactivated T N) (e_blocks e2) ->
    pipeline_outputs e1 = pipeline_outputs e2.
  Proof.
    intros Hi Ho Hb. unfold Pipeline.pipeline_outputs, Pipeline.pipeline_fuzzy.
    rewrite Ho, (blocks_contribution_ext e1 e2 Hi _ _ _ Hb).
    destruct (blocks_contribution e2 _ (e_blocks e2)); cbn [bind]; [|reflexivity].
    apply pipeline_values_ext, Hi.
  Qed.

  Lemma general_only_ext (e1 e2 : engine T) :
    map (@block_deactivated T N) (e_blocks e1) = map (@block_deactivated T N) (e_blocks e2) ->
    general_only e1 -> general_only e2.
  Proof.
    intros Hb Hg b2 Hin Hen.
    apply (in_map (@block_deactivated T N)) in Hin. rewrite <- Hb in Hin.
    apply in_map_iff in Hin. destruct Hin as (b1 & Hbb & Hin1).
    injection Hbb as Hn He Hc Hd Hi Ha Hrs.
    unfold is_general. rewrite <- Ha. apply Hg; [exact Hin1 | congruence].
  Qed.

  (* the result does not depend on the fuzzy outputs held before the call *)
  Theorem process_ignores_stale_fuzzy (e1 e2 : engine T) :
    e_name e1 = e_name e2 -> e_inputs e1 = e_inputs e2 -> e_blocks e1 = e_blocks e2 ->
    map clear_fuzzy (e_outputs e1) = map clear_fuzzy (e_outputs e2) ->
    process e1 = process e2.
  Proof.
    intros Hn Hi Hb Ho. unfold Engine.process. cbv zeta.
    replace (with_outputs e1 (map clear_fuzzy (e_outputs e1))) with (with_outputs e2 (map clear_fuzzy (e_outputs e2)));
      [reflexivity|].
    unfold with_outputs. rewrite Hn, Hi, Hb, Ho. reflexivity.
  Qed.

  (* nor on the degrees and triggered flags stored in the rules (nor on the fuzzy outputs) *)
  Theorem process_ignores_stale_rule_state (e1 e2 : engine T) :
    general_only e1 ->
    e_inputs e1 = e_inputs e2 -> map clear_fuzzy (e_outputs e1) = map clear_fuzzy (e_outputs e2) ->
    map (@block_deactivated T N) (e_blocks e1) = map (@block_deactivated T N) (e_blocks e2) ->
    process_outputs e1 = process_outputs e2.
  Proof.
    intros Hg Hi Ho Hb.
    rewrite (process_outputs_eq_pipeline function_eval fe_ext e1 Hg).
    rewrite (process_outputs_eq_pipeline function_eval fe_ext e2 (general_only_ext e1 e2 Hb Hg)).
    apply pipeline_outputs_ext; assumption.
  Qed.

  (* ---- 5.2 the contributions are folded in block order, then rule order *)
  Lemma rules_contribution_app (E : engine T) b rs1 rs2 : forall outs,
    rules_contribution E b outs (rs1 ++ rs2) = (do o <- rules_contribution E b outs rs1; rules_contribution E b o rs2).
  Proof.
    induction rs1 as [|r rs1 IH]; intros outs; cbn [app Pipeline.rules_contribution bind]; [reflexivity|].
    destruct (rule_contribution E b outs r); cbn [bind]; [apply IH | reflexivity].
  Qed.

  Lemma blocks_contribution_app (E : engine T) bs1 bs2 : forall outs,
    blocks_contribution E outs (bs1 ++ bs2) = (do o <- blocks_contribution E outs bs1; blocks_contribution E o bs2).
  Proof.
    induction bs1 as [|b bs1 IH]; intros outs; cbn [app Pipeline.blocks_contribution bind]; [reflexivity|].
    destruct (b_enabled b); [|apply IH].
    destruct (rules_contribution E b outs (b_rules b)); cbn [bind]; [apply IH | reflexivity].
  Qed.

  (* ---- 5.3 disabled / unloaded components *)
  Lemma unloaded_rule_contribution (E : engine T) b outs r :
    rule_loaded r = false -> rule_contribution E b outs r = Ok outs.
  Proof. intros H. unfold Pipeline.rule_contribution. rewrite H. reflexivity. Qed.

  Lemma disabled_rule_contribution (E : engine T) b outs r outs' :
    r_enabled r = false -> rule_contribution E b outs r = Ok outs' -> outs' = outs.
  Proof.
    intros H. unfold Pipeline.rule_contribution. rewrite H.
    destruct (rule_loaded r); [|congruence]. destruct (firing_degree E b outs r); cbn; congruence.
  Qed.

  (* replacing the rules of one block *)
  Lemma blocks_contribution_replace_eq (E : engine T) B1 b b' B2 outs :
    b_enabled b' = b_enabled b ->
    (forall o, rules_contribution E b' o (b_rules b') = rules_contribution E b o (b_rules b)) ->
    blocks_contribution E outs (B1 ++ b' :: B2) = blocks_contribution E outs (B1 ++ b :: B2).
  Proof.
    intros He Hr. rewrite !blocks_contribution_app.
    destruct (blocks_contribution E outs B1) as [o|]; cbn [bind Pipeline.blocks_contribution]; [|reflexivity].
    rewrite He, Hr. reflexivity.
  Qed.

  Lemma blocks_contribution_replace_ok (E : engine T) B1 b b' B2 outs res :
    b_enabled b' = b_enabled b ->
    (forall o o', rules_contribution E b o (b_rules b) = Ok o' -> rules_contribution E b' o (b_rules b') = Ok o') ->
    blocks_contribution E outs (B1 ++ b :: B2) = Ok res -> blocks_contribution E outs (B1 ++ b' :: B2) = Ok res.
  Proof.
    intros He Hr. rewrite !blocks_contribution_app.
    destruct (blocks_contribution E outs B1) as [o|]; cbn [bind Pipeline.blocks_contribution]; [|discriminate].
    rewrite He. destruct (b_enabled b); [|auto].
    destruct (rules_contribution E b o (b_rules b)) as [o'|] eqn:H1; cbn [bind]; [|discriminate].
    rewrite (Hr o o' H1). auto.
  Qed.

  Lemma general_only_with_blocks (e : engine T) bs :
    (forall b', In b' bs -> exists b, In b (e_blocks e) /\ b_enabled b = b_enabled b' /\ b_activation b = b_activation b') ->
    general_only e -> general_only (with_blocks e bs).
  Proof.
    intros H Hg b' Hin Hen. destruct (H b' Hin) as (b & Hb & He & Ha).
    unfold is_general. rewrite <- Ha. apply Hg; congruence.
  Qed.

  Lemma pipeline_outputs_with_blocks (e : engine T) bs :
    pipeline_outputs (with_blocks e bs) =
    (do fz <- blocks_contribution e (map clear_fuzzy (e_outputs e)) bs; pipeline_values e [] fz).
  Proof.
    unfold Pipeline.pipeline_outputs, Pipeline.pipeline_fuzzy. cbn [e_outputs e_blocks with_blocks].
    rewrite (blocks_contribution_ext (with_blocks e bs) e eq_refl bs bs _ eq_refl).
    destruct (blocks_contribution e _ bs); cbn [bind]; [|reflexivity].
    apply pipeline_values_ext. reflexivity.
  Qed.

  Lemma in_replace_block (B1 B2 : list (block T)) (b b' x : block T) :
    In x (B1 ++ b' :: B2) -> x = b' \/ In x (B1 ++ b :: B2).
  Proof. rewrite !in_app_iff. cbn. intuition. Qed.

  (* a rule that is not loaded is skipped: the engine without it computes the same outputs *)
  Theorem unloaded_rule_skipped (e : engine T) B1 b B2 R1 r R2 :
    e_blocks e = B1 ++ b :: B2 -> b_rules b = R1 ++ r :: R2 -> rule_loaded r = false ->
    pipeline_outputs (with_blocks e (B1 ++ set_rules b (R1 ++ R2) :: B2)) = pipeline_outputs e
    /\ (general_only e -> process_outputs (with_blocks e (B1 ++ set_rules b (R1 ++ R2) :: B2)) = process_outputs e).
  Proof.
    intros Hb Hr Hl.
    assert (H : pipeline_outputs (with_blocks e (B1 ++ set_rules b (R1 ++ R2) :: B2)) = pipeline_outputs e).
    { rewrite pipeline_outputs_with_blocks. unfold Pipeline.pipeline_outputs, Pipeline.pipeline_fuzzy. rewrite Hb.
      rewrite (blocks_contribution_replace_eq e B1 b (set_rules b (R1 ++ R2)) B2); [reflexivity | reflexivity |].
      intros o. cbn [b_rules set_rules]. rewrite Hr.
      rewrite (rules_contribution_ext e e (set_rules b (R1 ++ R2)) b eq_refl eq_refl eq_refl eq_refl (R1 ++ R2) (R1 ++ R2) o eq_refl).
      rewrite !rules_contribution_app.
      destruct (rules_contribution e b o R1); cbn [bind Pipeline.rules_contribution]; [|reflexivity].
      rewrite unloaded_rule_contribution by exact Hl. reflexivity. }
    split; [exact H|]. intros Hg.
    rewrite (process_outputs_eq_pipeline function_eval fe_ext e Hg), <- H.
    apply (process_outputs_eq_pipeline function_eval fe_ext).
    apply general_only_with_blocks; [|exact Hg]. intros x Hx. rewrite Hb.
    destruct (in_replace_block B1 B2 b _ x Hx) as [-> | Hin]; [exists b | exists x]; repeat split; auto.
    rewrite in_app_iff; right; left; reflexivity.
  Qed.

  (* a disabled rule contributes nothing: whenever the engine processes, the engine without the rule gives the same outputs
     (the antecedent of a disabled rule is still evaluated, so the engine WITH it may raise where the other does not) *)
  Theorem disabled_rule_contributes_nothing (e : engine T) B1 b B2 R1 r R2 outs :
    e_blocks e = B1 ++ b :: B2 -> b_rules b = R1 ++ r :: R2 -> r_enabled r = false ->
    (pipeline_outputs e = Ok outs -> pipeline_outputs (with_blocks e (B1 ++ set_rules b (R1 ++ R2) :: B2)) = Ok outs)
    /\ (general_only e -> process_outputs e = Ok outs ->
        process_outputs (with_blocks e (B1 ++ set_rules b (R1 ++ R2) :: B2)) = Ok outs).
  Proof.
    intros Hb Hr Hd.
    assert (H : pipeline_outputs e = Ok outs -> pipeline_outputs (with_blocks e (B1 ++ set_rules b (R1 ++ R2) :: B2)) = Ok outs).
    { rewrite pipeline_outputs_with_blocks. unfold Pipeline.pipeline_outputs, Pipeline.pipeline_fuzzy. rewrite Hb.
      destruct (blocks_contribution e _ (B1 ++ b :: B2)) as [fz|] eqn:H1; cbn [bind]; [|discriminate].
      rewrite (blocks_contribution_replace_ok e B1 b (set_rules b (R1 ++ R2)) B2 _ fz eq_refl); [auto | | exact H1].
      intros o o'. cbn [b_rules set_rules]. rewrite Hr.
      rewrite (rules_contribution_ext e e (set_rules b (R1 ++ R2)) b eq_refl eq_refl eq_refl eq_refl (R1 ++ R2) (R1 ++ R2) o eq_refl).
      rewrite !rules_contribution_app.
      destruct (rules_contribution e b o R1) as [o1|]; cbn [bind Pipeline.rules_contribution]; [|discriminate].
      destruct (rule_contribution e b o1 r) as [o2|] eqn:H2; cbn [bind]; [|discriminate].
      rewrite (disabled_rule_contribution e b o1 r o2 Hd H2). auto. }
    split; [exact H|]. intros Hg Hp.
    rewrite (process_outputs_eq_pipeline function_eval fe_ext e Hg) in Hp.
    rewrite (process_outputs_eq_pipeline function_eval fe_ext); [exact (H Hp)|].
    apply general_only_with_blocks; [|exact Hg]. intros x Hx. rewrite Hb.
    destruct (in_replace_block B1 B2 b _ x Hx) as [-> | Hin]; [exists b | exists x]; repeat split; auto.
    rewrite in_app_iff; right; left; reflexivity.
  Qed.

  (* a disabled rule block contributes nothing: the engine without the block computes the same outputs *)
  Theorem disabled_block_contributes_nothing (e : engine T) B1 b B2 :
    e_blocks e = B1 ++ b :: B2 -> b_enabled b = false ->
    pipeline_outputs (with_blocks e (B1 ++ B2)) = pipeline_outputs e
    /\ (general_only e -> process_outputs (with_blocks e (B1 ++ B2)) = process_outputs e).
  Proof.
    intros Hb Hd.
    assert (H : pipeline_outputs (with_blocks e (B1 ++ B2)) = pipeline_outputs e).
    { rewrite pipeline_outputs_with_blocks. unfold Pipeline.pipeline_outputs, Pipeline.pipeline_fuzzy. rewrite Hb.
      rewrite !blocks_contribution_app.
      destruct (blocks_contribution e _ B1); cbn [bind Pipeline.blocks_contribution]; [|reflexivity].
      rewrite Hd. reflexivity. }
    split; [exact H|]. intros Hg.
    rewrite (process_outputs_eq_pipeline function_eval fe_ext e Hg), <- H.
    apply (process_outputs_eq_pipeline function_eval fe_ext).
    apply general_only_with_blocks; [|exact Hg]. intros x Hx. exists x. rewrite Hb.
    repeat split; auto. rewrite in_app_iff in *. cbn. intuition.
  Qed.
End Corollaries.

(* ---- 5.4 frames: what a rule may change of an output variable; disabled variables; stored degrees *)
Section Frames.
  Context {T : Type} {N : Num T}.
  Variable function_eval : engine T -> fnode T -> list (string * T) -> T -> result T.
  Notation rule_contribution := (rule_contribution function_eval).
  Notation rules_contribution := (rules_contribution function_eval).
  Notation blocks_contribution := (blocks_contribution function_eval).
  Notation pipeline_values := (pipeline_values function_eval).
  Notation pipeline_fuzzy := (pipeline_fuzzy function_eval).
  Notation pipeline_outputs := (pipeline_outputs function_eval).
  Notation process := (process function_eval).
  Notation firing_degree := (firing_degree function_eval).

  Lemma extend_fuzzy_nil (a : output_var T) : extend_fuzzy a [] = a.
  Proof. unfold extend_fuzzy, with_fuzzy. rewrite app_nil_r. destruct a; reflexivity. Qed.
  Lemma extend_fuzzy_twice (a : output_var T) l l' : extend_fuzzy (extend_fuzzy a l) l' = extend_fuzzy a (l ++ l').
  Proof. unfold extend_fuzzy, with_fuzzy. cbn. rewrite app_assoc. reflexivity. Qed.

  (* a step of the activation stage only APPENDS activated terms to a variable, and nothing to a disabled one *)
  Definition ov_grow (a a' : output_var T) : Prop :=
    exists l, a' = extend_fuzzy a l /\ (ov_enabled a = false -> l = []).

  Lemma ov_grow_refl a : ov_grow a a.
  Proof. exists []. split; [symmetry; apply extend_fuzzy_nil | reflexivity]. Qed.
  Lemma ov_grow_trans a b c : ov_grow a b -> ov_grow b c -> ov_grow a c.
  Proof.
    intros (l & -> & Hl) (l' & -> & Hl'). exists (l ++ l'). split; [apply extend_fuzzy_twice|].
    intros H. rewrite (Hl H), (Hl' H). reflexivity.
  Qed.
  Lemma ov_grow_disabled a a' : ov_grow a a' -> ov_enabled a = false -> a' = a.
  Proof. intros (l & -> & Hl) H. rewrite (Hl H). apply extend_fuzzy_nil. Qed.
  Lemma ov_grow_static a a' : ov_grow a a' -> ov_static a' = ov_static a.
  Proof. intros (l & -> & _). reflexivity. Qed.

  Lemma modify_loop_grow carry imp : forall cs d outs outs',
    modify_loop carry d imp cs outs = Ok outs' -> Forall2 ov_grow outs outs'.
  Proof.
    induction cs as [|c cs IH]; intros d outs outs' H; cbn [modify_loop] in H.
    - injection H as <-. apply Forall2_refl_of, ov_grow_refl.
    - destruct (nth_error outs (c_var c)) as [v|] eqn:Hv; [|discriminate].
      destruct (negb (var_truthy v)); [discriminate|].
      destruct (ov_enabled v) eqn:Hen; [|exact (IH _ _ _ H)].
      destruct (nth_error (ov_terms v) (c_term c)) as [t|]; [|discriminate].
      apply IH in H. refine (Forall2_trans_of _ _ _ _ ov_grow_trans _ H).
      apply Forall2_update_nth with (v := v); [exact ov_grow_refl | exact Hv |].
      eexists. split; [reflexivity | intros; congruence].
  Qed.

  Lemma modify_grow d imp cs outs outs' : modify d imp cs outs = Ok outs' -> Forall2 ov_grow outs outs'.
  Proof. unfold modify, modify_gen. destruct (is_nil cs); [discriminate|]. apply modify_loop_grow. Qed.

  Lemma rule_contribution_grow (E : engine T) b outs r outs' :
    rule_contribution E b outs r = Ok outs' -> Forall2 ov_grow outs outs'.
  Proof.
    unfold Pipeline.rule_contribution.
    destruct (rule_loaded r); [|intros H; injection H as <-; apply Forall2_refl_of, ov_grow_refl].
    destruct (firing_degree E b outs r) as [d|]; cbn [bind]; [|discriminate].
    destruct (r_enabled r); [apply modify_grow | intros H; injection H as <-; apply Forall2_refl_of, ov_grow_refl].
  Qed.

  Lemma rules_contribution_grow (E : engine T) b rs : forall outs outs',
    rules_contribution E b outs rs = Ok outs' -> Forall2 ov_grow outs outs'.
  Proof.
    induction rs as [|r rs IH]; intros outs outs' H; cbn [Pipeline.rules_contribution] in H.
    - injection H as <-. apply Forall2_refl_of, ov_grow_refl.
    - destruct (rule_contribution E b outs r) as [o|] eqn:H1; cbn [bind] in H; [|discriminate].
      exact (Forall2_trans_of _ _ _ _ ov_grow_trans (rule_contribution_grow _ _ _ _ _ H1) (IH _ _ H)).
  Qed.

  Lemma blocks_contribution_grow (E : engine T) bs : forall outs outs',
    blocks_contribution E outs bs = Ok outs' -> Forall2 ov_grow outs outs'.
  Proof.
    induction bs as [|b bs IH]; intros outs outs' H; cbn [Pipeline.blocks_contribution] in H.
    - injection H as <-. apply Forall2_refl_of, ov_grow_refl.
    - destruct (b_enabled b); [|exact (IH _ _ H)].
      destruct (rules_contribution E b outs (b_rules b)) as [o|] eqn:H1; cbn [bind] in H; [|discriminate].
      exact (Forall2_trans_of _ _ _ _ ov_grow_trans (rules_contribution_grow _ _ _ _ _ H1) (IH _ _ H)).
  Qed.

  (* defuzzification of a variable changes at most its value and previous value; nothing of a disabled variable *)
  Lemma output_defuzzify_shape (E : engine T) ov ov' :
    output_defuzzify function_eval E ov = Ok ov' -> ov_ev ov' = ov_ev ov /\ (ov_enabled ov = false -> ov' = ov).
  Proof.
    intros H. split.
    - unfold output_defuzzify in H. destruct (defuzzify_fields _ _ _ _ _ _ _ _ _) as [st' [x|]]; [discriminate|].
      injection H as <-. reflexivity.
    - intros Hen. unfold output_defuzzify in H. rewrite Hen in H. cbn in H. injection H as <-.
      destruct ov; cbn in *. subst. reflexivity.
  Qed.

  Lemma pipeline_values_Forall2 (P : output_var T -> output_var T -> Prop) :
    (forall E ov ov', output_defuzzify function_eval E ov = Ok ov' -> P ov ov') ->
    forall (E : engine T) todo done outs, pipeline_values E done todo = Ok outs ->
    exists todo', outs = done ++ todo' /\ Forall2 P todo todo'.
  Proof.
    intros HP E. induction todo as [|ov todo IH]; intros done outs H; cbn [Pipeline.pipeline_values] in H.
    - injection H as <-. exists []. split; [symmetry; apply app_nil_r | constructor].
    - destruct (output_defuzzify function_eval _ ov) as [ov'|] eqn:H1; cbn [bind] in H; [|discriminate].
      destruct (IH _ _ H) as (todo' & -> & HF). exists (ov' :: todo'). split; [apply snoc_app|].
      constructor; [exact (HP _ _ _ H1) | exact HF].
  Qed.

  (* ---- stored degrees: positions in rules_step / blocks_step *)
  Lemma rules_step_nth (E : engine T) cj dj im : forall rs ri outs rs' outs' r,
    rules_step function_eval E cj dj im outs rs = Ok (rs', outs') -> nth_error rs ri = Some r ->
    exists o1 r' o2,
      rmap snd (rules_step function_eval E cj dj im outs (firstn ri rs)) = Ok o1 /\
      rule_step function_eval E cj dj im o1 r = Ok (r', o2) /\ nth_error rs' ri = Some r'.
  Proof.
    induction rs as [|r0 rs IH]; intros [|ri] outs rs' outs' r H Hn; cbn in Hn; try discriminate.
    - injection Hn as ->. cbn [rules_step] in H.
      destruct (rule_step function_eval E cj dj im outs r) as [[r' o2]|] eqn:H1; cbn [bind fst snd] in H; [|discriminate].
      destruct (rules_step function_eval E cj dj im o2 rs) as [[rs'' o3]|]; cbn [bind fst snd] in H; [|discriminate].
      injection H as <- <-. exists outs, r', o2. split; [reflexivity | split; [exact H1 | reflexivity]].
    - cbn [rules_step] in H.
      destruct (rule_step function_eval E cj dj im outs r0) as [[r0' o2]|] eqn:H1; cbn [bind fst snd] in H; [|discriminate].
      destruct (rules_step function_eval E cj dj im o2 rs) as [[rs'' o3]|] eqn:H2; cbn [bind fst snd] in H; [|discriminate].
      injection H as <- <-. destruct (IH ri o2 rs'' o3 r H2 Hn) as (o1 & r' & o4 & Ha & Hb & Hc).
      exists o1, r', o4. repeat split; [|exact Hb|exact Hc].
      cbn [firstn rules_step]. rewrite H1. cbn [bind fst snd].
      destruct (rules_step function_eval E cj dj im o2 (firstn ri rs)) as [[x y]|]; cbn in *; congruence.
  Qed.

  Lemma blocks_step_nth (E : engine T) : forall bs bi outs bs' outs' b,
    blocks_step function_eval E outs bs = Ok (bs', outs') -> nth_error bs bi = Some b ->
    exists o0,
      rmap snd (blocks_step function_eval E outs (firstn bi bs)) = Ok o0 /\
      if b_enabled b then
        exists rs' o1, rules_step function_eval E (b_conjunction b) (b_disjunction b) (b_implication b) o0 (b_rules b) = Ok (rs', o1)
                       /\ nth_error bs' bi = Some (set_rules b rs')
      else nth_error bs' bi = Some b.
  Proof.
    induction bs as [|b0 bs IH]; intros [|bi] outs bs' outs' b H Hn; cbn in Hn; try discriminate.
    - injection Hn as ->. cbn [blocks_step] in H. exists outs. split; [reflexivity|].
      destruct (b_enabled b).
      + destruct (rules_step function_eval E _ _ _ outs (b_rules b)) as [[rs' o1]|]; cbn [bind fst snd] in H; [|discriminate].
        destruct (blocks_step function_eval E o1 bs) as [[bs'' o2]|]; cbn [bind fst snd] in H; [|discriminate].
        injection H as <- <-. exists rs', o1. split; reflexivity.
      + destruct (blocks_step function_eval E outs bs) as [[bs'' o2]|]; cbn [bind fst snd] in H; [|discriminate].
        injection H as <- <-. reflexivity.
    - cbn [blocks_step firstn] in H |- *.
      destruct (b_enabled b0).
      + destruct (rules_step function_eval E _ _ _ outs (b_rules b0)) as [[rs' o1]|]; cbn [bind fst snd] in H |- *; [|discriminate].
        destruct (blocks_step function_eval E o1 bs) as [[bs'' o2]|] eqn:H2; cbn [bind fst snd] in H; [|discriminate].
        injection H as <- <-. destruct (IH bi o1 bs'' o2 b H2 Hn) as (o0 & Ha & Hb).
        exists o0. split; [|exact Hb].
        destruct (blocks_step function_eval E o1 (firstn bi bs)) as [[x y]|]; cbn in *; congruence.
      + destruct (blocks_step function_eval E outs bs) as [[bs'' o2]|] eqn:H2; cbn [bind fst snd] in H; [|discriminate].
        injection H as <- <-. destruct (IH bi outs bs'' o2 b H2 Hn) as (o0 & Ha & Hb).
        exists o0. split; [|exact Hb].
        destruct (blocks_step function_eval E outs (firstn bi bs)) as [[x y]|]; cbn in *; congruence.
  Qed.

  (* ---- Engine.process never changes the input variables, whatever the activation methods *)
  Section LoopInvariant.
    Context {S : Type}.
    Variable ops : rule_ops T S.
    Variable P : S -> Prop.
    Hypothesis Hd : forall s i, P s -> P (op_deactivate ops s i).
    Hypothesis Ha : forall s i d s', P s -> op_activate_with ops s i = Ok (d, s') -> P s'.
    Hypothesis Ht : forall s i s', P s -> op_trigger ops s i = Ok s' -> P s'.
    Hypothesis Hs : forall s i d, P s -> P (op_set_degree ops s i d).

    Ltac step H :=
      repeat (cbn [bind fst snd] in H;
        match type of H with
        | context [op_activate_with ops ?s ?i] =>
            let E := fresh "Ea" in destruct (op_activate_with ops s i) as [[? ?]|] eqn:E; [|discriminate H]
        | context [op_trigger ops ?s ?i] =>
            let E := fresh "Et" in destruct (op_trigger ops s i) eqn:E; [|discriminate H]
        | context [assert_is_not_vector ops ?s ?i] => destruct (assert_is_not_vector ops s i); [|discriminate H]
        end).

    Lemma general_loop_inv : forall l s s', P s -> general_loop ops l s = Ok s' -> P s'.
    Proof.
      induction l as [|i l IH]; intros s s' HP H; cbn [general_loop] in H; [injection H as <-; exact HP|].
      destruct (op_is_loaded ops _ i); [|eauto]. step H. eauto.
    Qed.
    Lemma first_loop_inv n t : forall l a s s', P s -> first_loop ops n t l a s = Ok s' -> P s'.
    Proof.
      induction l as [|i l IH]; intros a s s' HP H; cbn [first_loop] in H; [injection H as <-; exact HP|].
      destruct (op_is_loaded ops _ i); [|eauto]. step H.
      destruct (first_cond n t a _); [step H|]; eauto.
    Qed.
    Lemma threshold_loop_inv c t : forall l s s', P s -> threshold_loop ops c t l s = Ok s' -> P s'.
    Proof.
      induction l as [|i l IH]; intros s s' HP H; cbn [threshold_loop] in H; [injection H as <-; exact HP|].
      destruct (op_is_loaded ops _ i); [|eauto]. step H.
      destruct (cmp_apply c _ t); [step H|]; eauto.
    Qed.
    Lemma heap_collect_inv key : forall l h s h' s', P s -> heap_collect ops key l h s = Ok (h', s') -> P s'.
    Proof.
      induction l as [|i l IH]; intros h s h' s' HP H; cbn [heap_collect] in H; [injection H as <- <-; exact HP|].
      destruct (op_is_loaded ops _ i); [|eauto]. step H.
      destruct (gtb _ zero); eauto.
    Qed.
    Lemma heap_pop_loop_inv : forall fuel n a h s s', P s -> heap_pop_loop ops fuel n a h s = Ok s' -> P s'.
    Proof.
      induction fuel as [|fuel IH]; intros n a h s s' HP H; cbn [heap_pop_loop] in H; [injection H as <-; exact HP|].
      destruct (extract_min h) as [[m rest]|]; [|injection H as <-; exact HP].
      destruct (a <? n)%Z; [|injection H as <-; exact HP]. step H. eauto.
    Qed.
    Lemma prop_collect_inv : forall l acc sum s acc' sum' s', P s -> prop_collect ops l acc sum s = Ok (acc', sum', s') -> P s'.
    Proof.
      induction l as [|i l IH]; intros acc sum s acc' sum' s' HP H; cbn [prop_collect] in H; [injection H as <- <- <-; exact HP|].
      destruct (op_is_loaded ops _ i); [|eauto]. step H.
      destruct (gtb _ zero); eauto.
    Qed.
    Lemma prop_trigger_inv sum : forall acc s s', P s -> prop_trigger ops acc sum s = Ok s' -> P s'.
    Proof.
      induction acc as [|i acc IH]; intros s s' HP H; cbn [prop_trigger] in H; [injection H as <-; exact HP|].
      step H. eauto.
    Qed.
    Lemma activate_inv m n s s' : P s -> activate ops m n s = Ok s' -> P s'.
    Proof.
      intros HP H. unfold activate, activate_on in H. destruct m.
      - eapply general_loop_inv; eauto.
      - eapply first_loop_inv; eauto.
      - eapply first_loop_inv; eauto.
      - unfold heap_activate in H. destruct (heap_collect ops _ _ _ s) as [[h s1]|] eqn:E; cbn [bind fst snd] in H; [|discriminate].
        eapply heap_pop_loop_inv; [|exact H]. eapply heap_collect_inv; eauto.
      - unfold heap_activate in H. destruct (heap_collect ops _ _ _ s) as [[h s1]|] eqn:E; cbn [bind fst snd] in H; [|discriminate].
        eapply heap_pop_loop_inv; [|exact H]. eapply heap_collect_inv; eauto.
      - unfold prop_activate in H. destruct (prop_collect ops _ _ _ s) as [[[acc sum] s1]|] eqn:E; cbn [bind] in H; [|discriminate].
        eapply prop_trigger_inv; [|exact H]. eapply prop_collect_inv; eauto.
      - eapply threshold_loop_inv; eauto.
    Qed.
  End LoopInvariant.

  Lemma with_rule_inputs (e : engine T) bi ri r : e_inputs (with_rule e bi ri r) = e_inputs e.
  Proof. unfold with_rule. destruct (nth_error (e_blocks e) bi); reflexivity. Qed.

  Lemma activate_block_inputs (e e' : engine T) bi b :
    activate_block function_eval e bi b = Ok e' -> e_inputs e' = e_inputs e.
  Proof.
    unfold activate_block. destruct (b_activation b) as [m|]; [|discriminate].
    apply (activate_inv (block_ops function_eval bi) (fun s => e_inputs s = e_inputs e)); [| | | |reflexivity].
    - intros s i HP. cbn. destruct (get_rule s bi i) as [[? ?]|]; [rewrite with_rule_inputs|]; exact HP.
    - intros s i d s' HP. cbn. destruct (get_rule s bi i) as [[? ?]|]; [|discriminate].
      destruct (rule_activate_with _ _ _ s _); cbn; [|discriminate]. intros H; injection H as _ <-.
      rewrite with_rule_inputs. exact HP.
    - intros s i s' HP. cbn. destruct (get_rule s bi i) as [[? ?]|]; [|discriminate].
      destruct (trigger _ _ _) as [[? ?]|]; cbn; [|discriminate]. intros H; injection H as <-.
      cbn. rewrite with_rule_inputs. exact HP.
    - intros s i d HP. cbn. destruct (get_rule s bi i) as [[? ?]|]; [rewrite with_rule_inputs|]; exact HP.
  Qed.

  Lemma activate_blocks_inputs : forall bs (e e' : engine T) bi,
    activate_blocks function_eval e bi bs = Ok e' -> e_inputs e' = e_inputs e.
  Proof.
    induction bs as [|b bs IH]; intros e e' bi H; cbn [activate_blocks] in H; [injection H as <-; reflexivity|].
    destruct (b_enabled b); [|exact (IH _ _ _ H)].
    destruct (activate_block function_eval e bi b) as [e1|] eqn:H1; cbn [bind] in H; [|discriminate].
    rewrite (IH _ _ _ H). exact (activate_block_inputs _ _ _ _ H1).
  Qed.

  Lemma defuzzify_outputs_inputs : forall (cnt : list (output_var T)) (e e' : engine T) oi,
    defuzzify_outputs function_eval e oi cnt = Ok e' -> e_inputs e' = e_inputs e.
  Proof.
    induction cnt as [|c cnt IH]; intros e e' oi H; cbn [defuzzify_outputs] in H; [injection H as <-; reflexivity|].
    destruct (nth_error (e_outputs e) oi) as [ov|]; [|discriminate].
    destruct (output_defuzzify function_eval e ov); cbn [bind] in H; [|discriminate].
    rewrite (IH _ _ _ H). reflexivity.
  Qed.

  Theorem frame_inputs (e e' : engine T) : process e = Ok e' -> e_inputs e' = e_inputs e.
  Proof.
    unfold Engine.process. cbv zeta.
    destruct (activate_blocks function_eval _ 0 _) as [e1|] eqn:H1; cbn [bind]; [|discriminate].
    intros H. rewrite (defuzzify_outputs_inputs _ _ _ _ H), (activate_blocks_inputs _ _ _ _ H1). reflexivity.
  Qed.
End Frames.

Section Corollaries2.
  Context {T : Type} {N : Num T}.
  Variable function_eval : engine T -> fnode T -> list (string * T) -> T -> result T.
  Hypothesis fe_ext : forall e1 e2 : engine T,
    e_inputs e1 = e_inputs e2 -> e_outputs e1 = e_outputs e2 -> function_eval e1 = function_eval e2.
  Notation rule_contribution := (rule_contribution function_eval).
  Notation rules_contribution := (rules_contribution function_eval).
  Notation blocks_contribution := (blocks_contribution function_eval).
  Notation pipeline_values := (pipeline_values function_eval).
  Notation pipeline_fuzzy := (pipeline_fuzzy function_eval).
  Notation pipeline_outputs := (pipeline_outputs function_eval).
  Notation process := (process function_eval).
  Notation firing_degree := (firing_degree function_eval).

  Lemma process_ok_pipeline (e e' : engine T) :
    general_only e -> process e = Ok e' ->
    exists fz, pipeline_fuzzy e = Ok fz /\ pipeline_values e [] fz = Ok (e_outputs e').
  Proof.
    intros Hg Hp. pose proof (process_outputs_eq_pipeline function_eval fe_ext e Hg) as H.
    unfold process_outputs in H. rewrite Hp in H. cbn [rmap] in H. symmetry in H.
    unfold Pipeline.pipeline_outputs in H.
    destruct (pipeline_fuzzy e) as [fz|]; cbn [bind] in H; [|discriminate]. eauto.
  Qed.

  (* the fuzzy output of every variable after process = the contributions of the enabled blocks' rules, folded in
     block order then rule order (rules_contribution_app / blocks_contribution_app) from the EMPTY fuzzy set, each rule
     only appending (rule_contribution_grow); defuzzification changes nothing but value / previous value *)
  Theorem fuzzy_is_ordered_contributions (e e' : engine T) :
    general_only e -> process e = Ok e' ->
    exists fz, blocks_contribution e (map clear_fuzzy (e_outputs e)) (e_blocks e) = Ok fz /\
               map (@ov_fuzzy T) (e_outputs e') = map (@ov_fuzzy T) fz /\ map ov_ev (e_outputs e') = map ov_ev fz.
  Proof.
    intros Hg Hp. destruct (process_ok_pipeline e e' Hg Hp) as (fz & Hf & Hv). exists fz. split; [exact Hf|].
    destruct (pipeline_values_Forall2 function_eval (fun a a' => ov_ev a' = ov_ev a)
                (fun E ov ov' H => proj1 (output_defuzzify_shape function_eval E ov ov' H)) e fz [] _ Hv) as (todo' & -> & HF).
    cbn [app]. pose proof (Forall2_map_eq ov_ev _ _ HF) as Hev. split; [|exact Hev].
    apply (f_equal (map (@ov_fuzzy T))) in Hev. rewrite !map_map in Hev. exact Hev.
  Qed.

  (* a disabled output variable keeps value and previous value; its fuzzy output is cleared like the others *)
  Theorem disabled_variable_untouched (e e' : engine T) i ov :
    general_only e -> process e = Ok e' ->
    nth_error (e_outputs e) i = Some ov -> ov_enabled ov = false ->
    nth_error (e_outputs e') i = Some (clear_fuzzy ov).
  Proof.
    intros Hg Hp Hn Hen. destruct (process_ok_pipeline e e' Hg Hp) as (fz & Hf & Hv).
    pose proof (blocks_contribution_grow function_eval e _ _ _ Hf) as HG.
    assert (Hn' : nth_error (map clear_fuzzy (e_outputs e)) i = Some (clear_fuzzy ov)) by (rewrite nth_error_map, Hn; reflexivity).
    destruct (Forall2_nth_error _ _ _ _ _ HG Hn') as (a' & Ha' & Hg').
    rewrite (ov_grow_disabled _ _ Hg' Hen) in Ha'.
    destruct (pipeline_values_Forall2 function_eval (fun a a' => ov_enabled a = false -> a' = a)
                (fun E ov ov' H => proj2 (output_defuzzify_shape function_eval E ov ov' H)) e fz [] _ Hv) as (todo' & -> & HF).
    destruct (Forall2_nth_error _ _ _ _ _ HF Ha') as (a'' & Ha'' & Hd). cbn [app]. rewrite Ha''. f_equal. apply Hd, Hen.
  Qed.

  (* what process leaves in the rules of an enabled block: position (bi, ri), `o1` = the contributions before the rule *)
  Theorem stored_degrees (e e' : engine T) bi ri b r :
    general_only e -> process e = Ok e' ->
    nth_error (e_blocks e) bi = Some b -> b_enabled b = true -> nth_error (b_rules b) ri = Some r ->
    exists o0 o1 b' r',
      blocks_contribution e (map clear_fuzzy (e_outputs e)) (firstn bi (e_blocks e)) = Ok o0 /\
      rules_contribution e b o0 (firstn ri (b_rules b)) = Ok o1 /\
      get_rule e' bi ri = Some (b', r') /\
      rule_deactivated r' = rule_deactivated r /\
      if rule_loaded r then
        firing_degree e b o1 r = Ok (r_degree r') /\ r_triggered r' = r_enabled r && gtb (r_degree r') zero
      else r_degree r' = zero /\ r_triggered r' = false.
  Proof.
    intros Hg Hp Hb Hen Hr. rewrite (process_eq_spec function_eval fe_ext e Hg) in Hp. unfold process_spec in Hp.
    destruct (blocks_step function_eval e _ (e_blocks e)) as [[bs' o']|] eqn:H1; cbn [bind fst snd] in Hp; [|discriminate].
    destruct (pipeline_values e [] o'); cbn [bind] in Hp; [|discriminate]. injection Hp as <-.
    destruct (blocks_step_nth function_eval e _ bi _ _ _ b H1 Hb) as (o0 & Ha & Hbb). rewrite Hen in Hbb.
    destruct Hbb as (rs' & o1' & H2 & Hn2).
    destruct (rules_step_nth function_eval e _ _ _ _ ri _ _ _ r H2 Hr) as (o1 & r' & o2 & Hc & Hd & Hn3).
    exists o0, o1, (set_rules b rs'), r'.
    rewrite blocks_step_contribution in Ha. rewrite rules_step_contribution in Hc.
    split; [exact Ha|]. split; [exact Hc|]. split.
    { unfold get_rule. cbn [e_blocks]. rewrite Hn2. cbn [b_rules set_rules]. rewrite Hn3. reflexivity. }
    unfold rule_step in Hd. unfold Pipeline.firing_degree.
    destruct (rule_loaded r).
    - destruct (rule_activate_with _ _ _ _ r) as [d|]; cbn [bind] in Hd; [|discriminate].
      destruct (r_enabled r).
      + destruct (modify d _ _ o1); cbn [bind] in Hd; [|discriminate]. injection Hd as <- _. repeat split.
      + injection Hd as <- _. repeat split.
    - injection Hd as <- _. repeat split.
  Qed.
End Corollaries2.

(* ================================================================================================ *)
(* 6. C13: history-freedom, restart, copies (operations of Model/Ops.v)                              *)
(* ================================================================================================ *)
Section ListRel2.
  Context {A B : Type}.
  Lemma Forall2_in_r (R : A -> B -> Prop) (l : list A) (l' : list B) (b : B) :
    Forall2 R l l' -> In b l' -> exists a, In a l /\ R a b.
  Proof.
    induction 1 as [|a b' l l' HR HF IH]; intros Hin; [contradiction|].
    destruct Hin as [-> | Hin]; [exists a; split; [left; reflexivity | exact HR]|].
    destruct (IH Hin) as (a0 & Ha & HR0). exists a0. split; [right; exact Ha | exact HR0].
  Qed.
  Lemma map_eq_transfer {C : Type} (f : A -> B) (g : A -> C) (l1 l2 : list A) :
    (forall a b, f a = f b -> g a = g b) -> map f l1 = map f l2 -> map g l1 = map g l2.
  Proof.
    intros H. revert l2; induction l1 as [|a l1 IH]; intros [|b l2] Hm; cbn in *; try discriminate; [reflexivity|].
    injection Hm as H1 H2. f_equal; auto.
  Qed.
End ListRel2.

Section History.
  Context {T : Type} {N : Num T}.
  Variable function_eval : engine T -> fnode T -> list (string * T) -> T -> result T.
  (* Function terms read the input variables and the CONFIGURATION of the output variables, not the output values,
     previous values or fuzzy outputs (DESIGN C13: refs_well_founded, in its strongest form) *)
  Hypothesis fe_no_output_values : forall e1 e2 : engine T,
    e_inputs e1 = e_inputs e2 -> map ov_static (e_outputs e1) = map ov_static (e_outputs e2) ->
    function_eval e1 = function_eval e2.

  Lemma fe_ext_of_no_output_values : forall e1 e2 : engine T,
    e_inputs e1 = e_inputs e2 -> e_outputs e1 = e_outputs e2 -> function_eval e1 = function_eval e2.
  Proof. intros e1 e2 Hi Ho. apply fe_no_output_values; [exact Hi | rewrite Ho; reflexivity]. Qed.
  Let fe_ext := fe_ext_of_no_output_values.

  Notation tm := (term_membership function_eval).
  Notation rule_contribution := (rule_contribution function_eval).
  Notation rules_contribution := (rules_contribution function_eval).
  Notation blocks_contribution := (blocks_contribution function_eval).
  Notation pipeline_values := (pipeline_values function_eval).
  Notation pipeline_fuzzy := (pipeline_fuzzy function_eval).
  Notation pipeline_outputs := (pipeline_outputs function_eval).
  Notation process := (process function_eval).
  Notation process_outputs := (process_outputs function_eval).
  Notation firing_degree := (firing_degree function_eval).

  (* ---- structure: an engine up to the state that operation leaves in it *)
  Definition iv_erase (iv : input_var T) : input_var T :=
    {| iv_name := iv_name iv; iv_enabled := iv_enabled iv; iv_min := iv_min iv; iv_max := iv_max iv;
       iv_lock_range := iv_lock_range iv; iv_terms := iv_terms iv; iv_value := nan |}.
  (* erases: input values; ov_value, ov_previous, ov_fuzzy of outputs; r_degree, r_triggered of rules *)
  Definition erase (e : engine T) : engine T :=
    {| e_name := e_name e; e_inputs := map iv_erase (e_inputs e); e_outputs := map ov_static (e_outputs e);
       e_blocks := map (@block_deactivated T N) (e_blocks e) |}.
  Definition same_structure (e1 e2 : engine T) : Prop := erase e1 = erase e2.
  Definition no_lock_previous (e : engine T) : Prop := forall ov, In ov (e_outputs e) -> ov_lock_previous ov = false.

  Lemma same_structure_parts (e1 e2 : engine T) : same_structure e1 e2 ->
    e_name e1 = e_name e2 /\ map iv_erase (e_inputs e1) = map iv_erase (e_inputs e2) /\
    map ov_static (e_outputs e1) = map ov_static (e_outputs e2) /\
    map (@block_deactivated T N) (e_blocks e1) = map (@block_deactivated T N) (e_blocks e2).
  Proof. intros H. injection H as H1 H2 H3 H4. auto. Qed.

  (* what two runs agree on for one output variable: everything but the previous value, and the value when enabled *)
  Definition ov_same_result (a b : output_var T) : Prop :=
    ov_ev a = ov_ev b /\ (ov_enabled a = true -> ov_value a = ov_value b).

  (* ---- the activation stage commutes with forgetting value / previous value *)
  Lemma modify_loop_ev carry imp : forall cs d outs,
    modify_loop carry d imp cs (map ov_ev outs) = rmap (map ov_ev) (modify_loop carry d imp cs outs).
  Proof.
    induction cs as [|c cs IH]; intros d outs; cbn [modify_loop]; [reflexivity|].
    rewrite nth_error_map. destruct (nth_error outs (c_var c)) as [v|]; cbn [option_map]; [|reflexivity].
    change (var_truthy (ov_ev v)) with (var_truthy v). destruct (negb (var_truthy v)); [reflexivity|].
    change (ov_enabled (ov_ev v)) with (ov_enabled v). destruct (ov_enabled v); [|apply IH].
    change (ov_terms (ov_ev v)) with (ov_terms v). destruct (nth_error (ov_terms v) (c_term c)) as [t|]; [|reflexivity].
    rewrite <- IH. f_equal. symmetry. apply update_nth_map. reflexivity.
  Qed.

  Lemma modify_ev d imp cs outs : modify d imp cs (map ov_ev outs) = rmap (map ov_ev) (modify d imp cs outs).
  Proof. unfold modify, modify_gen. destruct (is_nil cs); [reflexivity | apply modify_loop_ev]. Qed.

  Lemma firing_degree_hf (E1 E2 : engine T) (b1 b2 : block T) outs1 outs2 (r1 r2 : rule T) :
    e_inputs E1 = e_inputs E2 -> map ov_ev outs1 = map ov_ev outs2 ->
    b_conjunction b1 = b_conjunction b2 -> b_disjunction b1 = b_disjunction b2 ->
    rule_deactivated r1 = rule_deactivated r2 ->
    firing_degree E1 b1 outs1 r1 = firing_degree E2 b2 outs2 r2.
  Proof.
    intros HE Ho Hc Hd Hr. unfold Pipeline.firing_degree. rewrite Hc, Hd. injection Hr as He Hw Ha Hq.
    rewrite (term_membership_cong function_eval (view E1 outs1) (view E2 outs2) HE
               (fe_no_output_values (view E1 outs1) (view E2 outs2) HE (map_ev_static _ _ Ho))).
    apply rule_activate_with_cong; auto.
  Qed.

  Lemma rule_contribution_hf (E1 E2 : engine T) (b1 b2 : block T) outs1 outs2 (r1 r2 : rule T) :
    e_inputs E1 = e_inputs E2 -> map ov_ev outs1 = map ov_ev outs2 ->
    b_conjunction b1 = b_conjunction b2 -> b_disjunction b1 = b_disjunction b2 -> b_implication b1 = b_implication b2 ->
    rule_deactivated r1 = rule_deactivated r2 ->
    rmap (map ov_ev) (rule_contribution E1 b1 outs1 r1) = rmap (map ov_ev) (rule_contribution E2 b2 outs2 r2).
  Proof.
    intros HE Ho Hc Hd Hi Hr. unfold Pipeline.rule_contribution.
    rewrite (firing_degree_hf E1 E2 b1 b2 outs1 outs2 r1 r2 HE Ho Hc Hd Hr), Hi.
    injection Hr as He Hw Ha Hq. unfold rule_loaded. rewrite Ha, Hq, He.
    destruct (r_antecedent r2); [|cbn; congruence]. destruct (r_consequent r2); [cbn; congruence|].
    destruct (firing_degree E2 b2 outs2 r2) as [d|]; cbn [bind]; [|reflexivity].
    destruct (r_enabled r2); [|cbn; congruence].
    rewrite <- !modify_ev, Ho. reflexivity.
  Qed.

  Lemma rmap_eq_cases {A B : Type} (f : A -> B) (r1 r2 : result A) :
    rmap f r1 = rmap f r2 ->
    (exists a b, r1 = Ok a /\ r2 = Ok b /\ f a = f b) \/ (exists x, r1 = Err x /\ r2 = Err x).
  Proof. destruct r1, r2; cbn; intros H; try discriminate; injection H as H; subst; eauto 6. Qed.

  Lemma rules_contribution_hf (E1 E2 : engine T) (b1 b2 : block T) :
    e_inputs E1 = e_inputs E2 ->
    b_conjunction b1 = b_conjunction b2 -> b_disjunction b1 = b_disjunction b2 -> b_implication b1 = b_implication b2 ->
    forall rs1 rs2 outs1 outs2, map ov_ev outs1 = map ov_ev outs2 ->
    map (@rule_deactivated T N) rs1 = map (@rule_deactivated T N) rs2 ->
    rmap (map ov_ev) (rules_contribution E1 b1 outs1 rs1) = rmap (map ov_ev) (rules_contribution E2 b2 outs2 rs2).
  Proof.
    intros HE Hc Hd Hi. induction rs1 as [|r1 rs1 IH]; intros rs2 outs1 outs2 Ho Hm.
    - destruct rs2; [cbn; congruence | discriminate].
    - destruct (map_eq_cons _ _ _ _ Hm) as (r2 & rs2' & -> & Hr & Hm').
      cbn [Pipeline.rules_contribution].
      destruct (rmap_eq_cases _ _ _ (rule_contribution_hf E1 E2 b1 b2 outs1 outs2 r1 r2 HE Ho Hc Hd Hi Hr))
        as [(a & b & -> & -> & Hab) | (x & -> & ->)]; cbn [bind]; [apply IH; assumption | reflexivity].
  Qed.

  Lemma blocks_contribution_hf (E1 E2 : engine T) : e_inputs E1 = e_inputs E2 ->
    forall bs1 bs2 outs1 outs2, map ov_ev outs1 = map ov_ev outs2 ->
    map (@block_deactivated T N) bs1 = map (@block_deactivated T N) bs2 ->
    rmap (map ov_ev) (blocks_contribution E1 outs1 bs1) = rmap (map ov_ev) (blocks_contribution E2 outs2 bs2).
  Proof.
    intros HE. induction bs1 as [|b1 bs1 IH]; intros bs2 outs1 outs2 Ho Hm.
    - destruct bs2; [cbn; congruence | discriminate].
    - destruct (map_eq_cons _ _ _ _ Hm) as (b2 & bs2' & -> & Hb & Hm').
      cbn [Pipeline.blocks_contribution]. injection Hb as Hn Hen Hc Hd Hi Ha Hrs. rewrite Hen.
      destruct (b_enabled b2); [|apply IH; assumption].
      destruct (rmap_eq_cases _ _ _ (rules_contribution_hf E1 E2 b1 b2 HE Hc Hd Hi _ _ outs1 outs2 Ho Hrs))
        as [(a & b & -> & -> & Hab) | (x & -> & ->)]; cbn [bind]; [apply IH; assumption | reflexivity].
  Qed.

  (* ---- the defuzzification stage with lock-previous off *)
  Lemma defuzzifier_value_ev (E : engine T) ov1 ov2 d :
    ov_ev ov1 = ov_ev ov2 -> defuzzifier_value function_eval E ov1 d = defuzzifier_value function_eval E ov2 d.
  Proof.
    intros H. destruct ov1 as [n1 en1 mn1 mx1 lr1 lp1 df1 ag1 dz1 tr1 v1 p1 fz1], ov2 as [n2 en2 mn2 mx2 lr2 lp2 df2 ag2 dz2 tr2 v2 p2 fz2].
    cbn in H. injection H; intros; subst.
    destruct d; cbn [defuzzifier_value ov_min ov_max ov_aggregation ov_fuzzy]; reflexivity.
  Qed.

  Lemma output_defuzzify_hf (E1 E2 : engine T) ov1 ov2 :
    tm E1 = tm E2 -> ov_ev ov1 = ov_ev ov2 -> ov_lock_previous ov1 = false ->
    res_rel ov_same_result (output_defuzzify function_eval E1 ov1) (output_defuzzify function_eval E2 ov2).
  Proof.
    intros Htm Hev Hlp. rewrite (output_defuzzify_cong function_eval E1 E2 ov1 Htm).
    unfold output_defuzzify.
    assert (Hd : forall d, defuzzifier_value function_eval E2 ov1 d = defuzzifier_value function_eval E2 ov2 d)
      by (intros d; apply defuzzifier_value_ev, Hev).
    destruct ov1 as [n1 en1 mn1 mx1 lr1 lp1 df1 ag1 dz1 tr1 v1 p1 fz1], ov2 as [n2 en2 mn2 mx2 lr2 lp2 df2 ag2 dz2 tr2 v2 p2 fz2].
    cbn in Hev, Hlp. injection Hev; intros; subst.
    cbn [ov_name ov_enabled ov_min ov_max ov_lock_range ov_lock_previous ov_default ov_aggregation ov_defuzzifier
         ov_terms ov_value ov_previous ov_fuzzy].
    destruct en2; [|cbn; split; [reflexivity | discriminate]].
    destruct dz2 as [d|]; [|cbn; reflexivity].
    rewrite (Hd d). destruct (defuzzifier_value function_eval E2 _ d) as [v|x]; cbn; [|reflexivity].
    split; reflexivity.
  Qed.

  Lemma Forall2_same_result_ev (l1 l2 : list (output_var T)) : Forall2 ov_same_result l1 l2 -> map ov_ev l1 = map ov_ev l2.
  Proof. induction 1 as [|a b l l' [H _] HF IH]; cbn; congruence. Qed.

  Lemma pipeline_values_hf (E1 E2 : engine T) : e_inputs E1 = e_inputs E2 ->
    forall todo1 todo2 done1 done2, map ov_ev todo1 = map ov_ev todo2 -> Forall2 ov_same_result done1 done2 ->
    (forall ov, In ov todo1 -> ov_lock_previous ov = false) ->
    res_rel (Forall2 ov_same_result) (pipeline_values E1 done1 todo1) (pipeline_values E2 done2 todo2).
  Proof.
    intros HE. induction todo1 as [|ov1 todo1 IH]; intros todo2 done1 done2 Hm Hdone Hlp.
    - destruct todo2; [|discriminate]. cbn. exact Hdone.
    - destruct (map_eq_cons _ _ _ _ Hm) as (ov2 & todo2' & -> & Hov & Hm').
      cbn [Pipeline.pipeline_values].
      assert (Htm : tm (with_outputs E1 (done1 ++ ov1 :: todo1)) = tm (with_outputs E2 (done2 ++ ov2 :: todo2'))).
      { apply term_membership_cong; [exact HE|]. apply fe_no_output_values; [exact HE|].
        apply map_ev_static. cbn [e_outputs with_outputs]. rewrite !map_app, (Forall2_same_result_ev _ _ Hdone). cbn [map].
        rewrite Hov, Hm'. reflexivity. }
      pose proof (output_defuzzify_hf _ _ ov1 ov2 Htm Hov (Hlp ov1 (or_introl eq_refl))) as H.
      destruct (output_defuzzify function_eval _ ov1) as [ov1'|x], (output_defuzzify function_eval _ ov2) as [ov2'|y];
        cbn in H; try contradiction; cbn [bind]; [|cbn; exact H].
      apply IH; [exact Hm' | | intros ov Hin; apply Hlp; right; exact Hin].
      apply Forall2_app; [exact Hdone | constructor; [exact H | constructor]].
  Qed.

  Lemma pipeline_fuzzy_no_lock (e : engine T) fz :
    no_lock_previous e -> pipeline_fuzzy e = Ok fz -> forall ov, In ov fz -> ov_lock_previous ov = false.
  Proof.
    intros Hnl Hf ov Hin. pose proof (blocks_contribution_grow function_eval e _ _ _ Hf) as HG.
    destruct (Forall2_in_r _ _ _ _ HG Hin) as (a & Ha & Hga).
    apply in_map_iff in Ha. destruct Ha as (a0 & <- & Ha0).
    pose proof (f_equal (@ov_lock_previous T) (ov_grow_static _ _ Hga)) as H. cbn in H. rewrite H. apply Hnl, Ha0.
  Qed.

  Lemma pipeline_outputs_hf (e1 e2 : engine T) :
    no_lock_previous e1 -> same_structure e1 e2 -> e_inputs e1 = e_inputs e2 ->
    res_rel (Forall2 ov_same_result) (pipeline_outputs e1) (pipeline_outputs e2).
  Proof.
    intros Hnl Hs Hi. destruct (same_structure_parts _ _ Hs) as (Hn & _ & Ho & Hb).
    unfold Pipeline.pipeline_outputs.
    assert (Hc : map ov_ev (map clear_fuzzy (e_outputs e1)) = map ov_ev (map clear_fuzzy (e_outputs e2)))
      by (rewrite !map_map; exact Ho).
    pose proof (blocks_contribution_hf e1 e2 Hi _ _ _ _ Hc Hb) as H.
    destruct (rmap_eq_cases _ _ _ H) as [(fz1 & fz2 & H1 & H2 & Hfz) | (x & H1 & H2)];
      unfold Pipeline.pipeline_fuzzy; rewrite H1, H2; cbn [bind]; [|cbn; reflexivity].
    apply pipeline_values_hf; [exact Hi | exact Hfz | constructor |].
    exact (pipeline_fuzzy_no_lock e1 fz1 Hnl H1).
  Qed.

  (* C13: with lock-previous off the outputs of a processing step depend only on the inputs of that step (and the
     engine's structure): not on earlier values, previous values, fuzzy outputs, stored degrees or flags.
     A DISABLED output variable keeps its value (disabled_variable_untouched), so only enabled ones are claimed. *)
  Theorem history_free (e1 e2 : engine T) :
    general_only e1 -> no_lock_previous e1 -> same_structure e1 e2 -> e_inputs e1 = e_inputs e2 ->
    res_rel (fun a b => Forall2 ov_same_result (e_outputs a) (e_outputs b)) (process e1) (process e2).
  Proof.
    intros Hg Hnl Hs Hi. pose proof (pipeline_outputs_hf e1 e2 Hnl Hs Hi) as H.
    destruct (same_structure_parts _ _ Hs) as (_ & _ & _ & Hb).
    rewrite <- (process_outputs_eq_pipeline function_eval fe_ext e1 Hg) in H.
    rewrite <- (process_outputs_eq_pipeline function_eval fe_ext e2 (general_only_ext e1 e2 Hb Hg)) in H.
    unfold process_outputs in H. destruct (process e1), (process e2); exact H.
  Qed.

  (* the values of the enabled output variables, by position *)
  Definition enabled_values (outs : list (output_var T)) : list (option T) :=
    map (fun ov => if ov_enabled ov then Some (ov_value ov) else None) outs.

  Lemma same_result_enabled_values (l1 l2 : list (output_var T)) :
    Forall2 ov_same_result l1 l2 -> enabled_values l1 = enabled_values l2 /\ map (@ov_fuzzy T) l1 = map (@ov_fuzzy T) l2.
  Proof.
    induction 1 as [|a b l l' [Hev Hv] HF [IH1 IH2]]; [split; reflexivity|]. unfold enabled_values in *. cbn [map].
    pose proof (f_equal (@ov_enabled T) Hev) as He. pose proof (f_equal (@ov_fuzzy T) Hev) as Hf. cbn in He, Hf.
    rewrite <- He, IH1, IH2, Hf. destruct (ov_enabled a); [rewrite (Hv eq_refl)|]; split; reflexivity.
  Qed.

  Theorem history_free_values (e1 e2 : engine T) :
    general_only e1 -> no_lock_previous e1 -> same_structure e1 e2 -> e_inputs e1 = e_inputs e2 ->
    res_rel (fun a b => enabled_values (e_outputs a) = enabled_values (e_outputs b) /\
                        map (@ov_fuzzy T) (e_outputs a) = map (@ov_fuzzy T) (e_outputs b))
            (process e1) (process e2).
  Proof.
    intros Hg Hnl Hs Hi. pose proof (history_free e1 e2 Hg Hnl Hs Hi) as H.
    destruct (process e1), (process e2); cbn in *; try exact H. apply same_result_enabled_values, H.
  Qed.

  (* ---- process keeps the structure *)
  Lemma rule_step_structure (E : engine T) cj dj im outs r r' o :
    rule_step function_eval E cj dj im outs r = Ok (r', o) -> rule_deactivated r' = rule_deactivated r.
  Proof.
    unfold rule_step. destruct (rule_loaded r); [|intros H; injection H as <- _; reflexivity].
    destruct (rule_activate_with _ _ _ _ r) as [d|]; cbn [bind]; [|discriminate].
    destruct (r_enabled r) eqn:He.
    - destruct (modify d im _ outs); cbn [bind]; [|discriminate]. intros H; injection H as <- _. reflexivity.
    - intros H; injection H as <- _. reflexivity.
  Qed.

  Lemma rules_step_structure (E : engine T) cj dj im : forall rs outs rs' o,
    rules_step function_eval E cj dj im outs rs = Ok (rs', o) ->
    map (@rule_deactivated T N) rs' = map (@rule_deactivated T N) rs.
  Proof.
    induction rs as [|r rs IH]; intros outs rs' o H; cbn [rules_step] in H.
    - injection H as <- _. reflexivity.
    - destruct (rule_step function_eval E cj dj im outs r) as [[r' o1]|] eqn:H1; cbn [bind fst snd] in H; [|discriminate].
      destruct (rules_step function_eval E cj dj im o1 rs) as [[rs'' o2]|] eqn:H2; cbn [bind fst snd] in H; [|discriminate].
      injection H as <- _. cbn [map]. rewrite (rule_step_structure _ _ _ _ _ _ _ _ H1), (IH _ _ _ H2). reflexivity.
  Qed.

  Lemma blocks_step_structure (E : engine T) : forall bs outs bs' o,
    blocks_step function_eval E outs bs = Ok (bs', o) ->
    map (@block_deactivated T N) bs' = map (@block_deactivated T N) bs.
  Proof.
    induction bs as [|b bs IH]; intros outs bs' o H; cbn [blocks_step] in H.
    - injection H as <- _. reflexivity.
    - destruct (b_enabled b).
      + destruct (rules_step function_eval E _ _ _ outs (b_rules b)) as [[rs' o1]|] eqn:H1; cbn [bind fst snd] in H; [|discriminate].
        destruct (blocks_step function_eval E o1 bs) as [[bs'' o2]|] eqn:H2; cbn [bind fst snd] in H; [|discriminate].
        injection H as <- _. cbn [map]. rewrite (IH _ _ _ H2). f_equal.
        unfold block_deactivated. cbn [set_rules b_name b_enabled b_conjunction b_disjunction b_implication b_activation b_rules].
        rewrite (rules_step_structure _ _ _ _ _ _ _ _ H1). reflexivity.
      + destruct (blocks_step function_eval E outs bs) as [[bs'' o2]|] eqn:H2; cbn [bind fst snd] in H; [|discriminate].
        injection H as <- _. cbn [map]. rewrite (IH _ _ _ H2). reflexivity.
  Qed.

  Theorem process_preserves_structure (e e' : engine T) :
    general_only e -> process e = Ok e' -> same_structure e e' /\ e_inputs e' = e_inputs e.
  Proof.
    intros Hg Hp. pose proof (frame_inputs function_eval e e' Hp) as Hi. split; [|exact Hi].
    destruct (fuzzy_is_ordered_contributions function_eval fe_ext e e' Hg Hp) as (fz & Hf & _ & Hev).
    pose proof (blocks_contribution_grow function_eval e _ _ _ Hf) as HG.
    rewrite (process_eq_spec function_eval fe_ext e Hg) in Hp. unfold process_spec in Hp.
    destruct (blocks_step function_eval e _ (e_blocks e)) as [[bs' o']|] eqn:H1; cbn [bind fst snd] in Hp; [|discriminate].
    destruct (pipeline_values e [] o') as [outs|]; cbn [bind] in Hp; [|discriminate]. injection Hp as <-.
    unfold same_structure, erase. cbn [e_name e_inputs e_outputs e_blocks] in *.
    rewrite (blocks_step_structure _ _ _ _ _ H1). f_equal.
    rewrite (map_ev_static _ _ Hev).
    rewrite (Forall2_map_eq ov_static _ _ (Forall2_impl_of _ _ _ _ (fun a b H => ov_grow_static a b H) HG)).
    rewrite map_map. reflexivity.
  Qed.

  Lemma same_result_strengthen (l1 l2 : list (output_var T)) :
    Forall2 ov_same_result l1 l2 ->
    (forall i a, nth_error l1 i = Some a -> ov_enabled a = false ->
                 exists b, nth_error l2 i = Some b /\ ov_value b = ov_value a) ->
    Forall2 (fun a b => ov_ev a = ov_ev b /\ ov_value a = ov_value b) l1 l2.
  Proof.
    induction 1 as [|a b l l' [Hev Hv] HF IH]; intros Hdis; constructor.
    - split; [exact Hev|]. destruct (ov_enabled a) eqn:Hen; [exact (Hv eq_refl)|].
      destruct (Hdis 0 a eq_refl Hen) as (b' & Hb' & Hvb). cbn in Hb'. injection Hb' as <-. congruence.
    - apply IH. intros i a0 Hn Hen. exact (Hdis (S i) a0 Hn Hen).
  Qed.

  (* processing twice gives the same result: the second run succeeds and reproduces every value and fuzzy output
     (only previous_value moves on: it becomes the value) *)
  Theorem process_idempotent_strong (e e1 : engine T) :
    general_only e -> no_lock_previous e -> process e = Ok e1 ->
    exists e2, process e1 = Ok e2 /\
               Forall2 (fun a b => ov_ev a = ov_ev b /\ ov_value a = ov_value b) (e_outputs e1) (e_outputs e2).
  Proof.
    intros Hg Hnl Hp. destruct (process_preserves_structure e e1 Hg Hp) as (Hs & Hi).
    pose proof (history_free e e1 Hg Hnl Hs (eq_sym Hi)) as H. rewrite Hp in H.
    destruct (process e1) as [e2|] eqn:Hp2; cbn in H; [|contradiction]. exists e2. split; [reflexivity|].
    destruct (same_structure_parts _ _ Hs) as (_ & _ & _ & Hb).
    pose proof (general_only_ext e e1 Hb Hg) as Hg1.
    assert (Hdis : forall i a, nth_error (e_outputs e1) i = Some a -> ov_enabled a = false ->
                   exists b, nth_error (e_outputs e2) i = Some b /\ ov_value b = ov_value a).
    { intros i a Hn Hen. exists (clear_fuzzy a). split; [|reflexivity].
      exact (disabled_variable_untouched function_eval fe_ext e1 e2 i a Hg1 Hp2 Hn Hen). }
    exact (same_result_strengthen _ _ H Hdis).
  Qed.

  Theorem process_idempotent (e e1 e2 : engine T) :
    general_only e -> no_lock_previous e -> process e = Ok e1 -> process e1 = Ok e2 ->
    map (@ov_value T) (e_outputs e2) = map (@ov_value T) (e_outputs e1) /\
    map (@ov_fuzzy T) (e_outputs e2) = map (@ov_fuzzy T) (e_outputs e1).
  Proof.
    intros Hg Hnl Hp Hp2. destruct (process_idempotent_strong e e1 Hg Hnl Hp) as (e2' & Hp2' & HF).
    rewrite Hp2 in Hp2'. injection Hp2' as <-.
    induction HF as [|a b l l' [Hev Hv] HF [IH1 IH2]]; [split; reflexivity|]. cbn.
    pose proof (f_equal (@ov_fuzzy T) Hev) as Hf. cbn in Hf. rewrite IH1, IH2, Hv, Hf. split; reflexivity.
  Qed.
End History.

(* ---- restart and the store of engines (Model/Ops.v) *)
Section Restart.
  Context {T : Type} {N : Num T}.
  Variable function_eval : engine T -> fnode T -> list (string * T) -> T -> result T.
  Notation process := (process function_eval).
  Notation step := (step function_eval).
  Notation run := (run function_eval).

  (* restart reads the structure only: two engines of the same structure are EQUAL after restart, whatever their
     histories; in particular a restarted engine is the freshly built engine of that structure *)
  Theorem restart_erases_history (e1 e2 : engine T) : same_structure e1 e2 -> restart e1 = restart e2.
  Proof.
    intros H. destruct (same_structure_parts _ _ H) as (Hn & Hi & Ho & Hb). unfold restart. rewrite Hn, Hb. f_equal.
    - refine (map_eq_transfer iv_erase _ _ _ _ Hi). intros a b Hab.
      destruct a, b; cbn in Hab; injection Hab; intros; subst; reflexivity.
    - refine (map_eq_transfer ov_static _ _ _ _ Ho). intros a b Hab.
      destruct a, b; cbn in Hab; injection Hab; intros; subst; reflexivity.
  Qed.

  Theorem restart_eq_fresh (e : engine T) : restart e = fresh e.
  Proof. reflexivity. Qed.

  Theorem restart_eq_fresh_of_structure (e1 e2 : engine T) : same_structure e1 e2 -> restart e1 = fresh e2.
  Proof. intros H. unfold fresh. apply restart_erases_history, H. Qed.

  Theorem restart_then_process_eq_fresh (e1 e2 : engine T) (xs : list T) :
    same_structure e1 e2 -> process (set_inputs (restart e1) xs) = process (set_inputs (fresh e2) xs).
  Proof. intros H. rewrite (restart_eq_fresh_of_structure e1 e2 H). reflexivity. Qed.

  Lemma block_deactivated_idem (b : block T) : block_deactivated (block_deactivated b) = block_deactivated b.
  Proof. unfold block_deactivated. cbn. rewrite map_map. reflexivity. Qed.

  Theorem restart_idempotent (e : engine T) : restart (restart e) = restart e.
  Proof.
    unfold restart. cbn [e_name e_inputs e_outputs e_blocks]. rewrite !map_map. f_equal.
    apply map_ext. intros b. apply block_deactivated_idem.
  Qed.

  Theorem restart_same_structure (e : engine T) : same_structure e (restart e).
  Proof.
    unfold same_structure, erase, restart. cbn [e_name e_inputs e_outputs e_blocks]. rewrite !map_map. f_equal.
    symmetry. apply map_ext. intros b. apply block_deactivated_idem.
  Qed.

  (* what restart leaves: values nan through the clipping setter, previous values nan, fuzzy outputs empty,
     stored degrees 0, triggered flags off *)
  Definition restarted_state (e : engine T) : Prop :=
    Forall (fun iv => iv_value iv = if iv_lock_range iv then clip (iv_min iv) (iv_max iv) nan else nan) (e_inputs e) /\
    Forall (fun ov => ov_value ov = (if ov_lock_range ov then clip (ov_min ov) (ov_max ov) nan else nan) /\
                      ov_previous ov = nan /\ ov_fuzzy ov = []) (e_outputs e) /\
    Forall (fun b => Forall (fun r => r_degree r = zero /\ r_triggered r = false) (b_rules b)) (e_blocks e).

  Theorem restart_state (e : engine T) : restarted_state (restart e).
  Proof.
    unfold restarted_state, restart. cbn [e_inputs e_outputs e_blocks]. repeat split.
    - apply Forall_forall. intros iv Hin. apply in_map_iff in Hin. destruct Hin as (iv0 & <- & _). reflexivity.
    - apply Forall_forall. intros ov Hin. apply in_map_iff in Hin. destruct Hin as (ov0 & <- & _). repeat split.
    - apply Forall_forall. intros b Hin. apply in_map_iff in Hin. destruct Hin as (b0 & <- & _).
      apply Forall_forall. intros r Hr. cbn in Hr. apply in_map_iff in Hr. destruct Hr as (r0 & <- & _). split; reflexivity.
  Qed.

  (* when clipping NaN gives NaN (numpy.clip; true of binary64, see Properties/C13.v) every value is NaN *)
  Theorem restart_values_nan (e : engine T) : (forall lo hi : T, clip lo hi nan = nan) ->
    Forall (fun iv => iv_value iv = nan) (e_inputs (restart e)) /\
    Forall (fun ov => ov_value ov = nan /\ ov_previous ov = nan /\ ov_fuzzy ov = []) (e_outputs (restart e)).
  Proof.
    intros Hc. destruct (restart_state e) as (Hi & Ho & _). split.
    - refine (Forall_impl _ _ Hi). intros iv ->. destruct (iv_lock_range iv); [apply Hc | reflexivity].
    - refine (Forall_impl _ _ Ho). intros ov (-> & Hp & Hf). repeat split; try assumption.
      destruct (ov_lock_range ov); [apply Hc | reflexivity].
  Qed.

  (* ---- restart clears the output variables whatever the rule blocks are — none, or blocks without rules *)
  Theorem restart_with_blocks (e : engine T) (bs : list (block T)) :
    e_inputs (restart (with_blocks e bs)) = e_inputs (restart e) /\
    e_outputs (restart (with_blocks e bs)) = e_outputs (restart e) /\
    e_blocks (restart (with_blocks e bs)) = map (@block_deactivated T N) bs.
  Proof. repeat split. Qed.

  Theorem restart_without_blocks_state (e : engine T) :
    restarted_state (restart (with_blocks e [])) /\ e_blocks (restart (with_blocks e [])) = [] /\
    List.length (e_outputs (restart (with_blocks e []))) = List.length (e_outputs e).
  Proof.
    split; [apply restart_state|]. split; [reflexivity|].
    unfold restart, with_blocks. cbn [e_outputs]. apply map_length.
  Qed.

  Lemma map_set_nth_inv {A B : Type} (f : A -> B) (l : list A) i x y :
    nth_error l i = Some y -> f x = f y -> map f (set_nth i x l) = map f l.
  Proof.
    revert i; induction l as [|a l IH]; intros [|i] Hn Hf; cbn in *; try discriminate.
    - injection Hn as ->. rewrite Hf. reflexivity.
    - rewrite (IH i Hn Hf). reflexivity.
  Qed.

  (* a state assigned by hand (value, previous value, one more activated term) is erased by restart *)
  Theorem restart_erases_hand_state (e : engine T) oi ov v p t d :
    nth_error (e_outputs e) oi = Some ov ->
    restart (with_outputs e (set_nth oi (ov_with_state ov v p t d) (e_outputs e))) = restart e.
  Proof.
    intros Hn. unfold restart, with_outputs. cbn [e_name e_inputs e_outputs e_blocks]. f_equal.
    apply (map_set_nth_inv ov_cleared _ _ _ _ Hn). reflexivity.
  Qed.

  (* the scripts of the correspondence: remove the rule blocks (or the rules of a block) of a used engine, or assign an
     output's state by hand, then restart: the current engine is the restarted / freshly built block-less engine, its
     outputs those of `restart e` *)
  Theorem run_remove_blocks_restart (s : @store T) e :
    nth_error (fst s) (snd s) = Some e ->
    exists s1 s2, run s [ORemoveBlocks; ORestart] = [Ok s1; Ok s2] /\
                  nth_error (fst s2) (snd s2) = Some (fresh (with_blocks e [])) /\
                  e_outputs (fresh (with_blocks e [])) = e_outputs (restart e).
  Proof.
    intros He. pose proof (nth_error_lt _ _ _ He) as Hlt.
    cbn [Ops.run Ops.step]. unfold upd at 1. rewrite He. cbn [bind fst snd].
    unfold upd at 1. cbn [fst snd]. rewrite (nth_error_set_nth_eq _ _ _ Hlt). cbn [bind fst snd].
    eexists. eexists. split; [reflexivity|]. cbn [fst snd]. split; [|reflexivity].
    rewrite set_nth_twice. apply nth_error_set_nth_eq. exact Hlt.
  Qed.

  Theorem run_set_state_restart (s : @store T) e oi ov v p ti t d :
    nth_error (fst s) (snd s) = Some e -> nth_error (e_outputs e) oi = Some ov -> nth_error (ov_terms ov) ti = Some t ->
    exists s1 s2, run s [OSetOutputState oi v p ti d; ORestart] = [Ok s1; Ok s2] /\
                  nth_error (fst s2) (snd s2) = Some (restart e).
  Proof.
    intros He Ho Ht. pose proof (nth_error_lt _ _ _ He) as Hlt.
    cbn [Ops.run Ops.step]. unfold upd at 1. rewrite He, Ho, Ht. cbn [bind fst snd].
    unfold upd at 1. cbn [fst snd]. rewrite (nth_error_set_nth_eq _ _ _ Hlt). cbn [bind fst snd].
    eexists. eexists. split; [reflexivity|]. cbn [fst snd].
    rewrite set_nth_twice, (restart_erases_hand_state e oi ov v p t d Ho). apply nth_error_set_nth_eq. exact Hlt.
  Qed.

  (* ---- the store: every operation touches the CURRENT engine only; a copy is appended and made current.
     Engines are values, so this is true by construction of the model: that the Python object graphs of an engine and of
     its deepcopy share no mutable object is NOT a theorem here — it is what the correspondence checks. *)
  Lemma upd_frame (s s' : @store T) f k :
    upd s f = Ok s' -> k <> snd s -> nth_error (fst s') k = nth_error (fst s) k /\ snd s' = snd s.
  Proof.
    unfold upd. destruct (nth_error (fst s) (snd s)) as [e|]; [|discriminate].
    destruct (f e) as [e'|]; cbn [bind]; [|discriminate]. intros H Hk; injection H as <-. cbn [fst snd].
    split; [apply nth_error_set_nth_neq; congruence | reflexivity].
  Qed.

  Lemma step_frame (s s' : @store T) (o : op) k e :
    step s o = Ok s' -> nth_error (fst s) k = Some e -> snd s <> k -> o <> OSwitch k ->
    nth_error (fst s') k = Some e /\ snd s' <> k.
  Proof.
    intros H Hk Hne Ho.
    assert (Hupd : forall f, upd s f = Ok s' -> nth_error (fst s') k = Some e /\ snd s' <> k).
    { intros f Hu. destruct (upd_frame s s' f k Hu (not_eq_sym Hne)) as (H1 & H2). rewrite H1, H2. auto. }
    destruct o; cbn [Ops.step] in H; try (exact (Hupd _ H)).
    - (* OCopy *) destruct (nth_error (fst s) (snd s)) as [e0|]; [|discriminate]. injection H as <-. cbn [fst snd].
      pose proof (nth_error_lt _ _ _ Hk) as Hlt. split; [rewrite nth_error_app1 by exact Hlt; exact Hk | lia].
    - (* OSwitch *) destruct (Nat.ltb k0 (length (fst s))); [|discriminate]. injection H as <-. cbn [fst snd].
      split; [exact Hk | congruence].
  Qed.

  Theorem untouched_when_not_current : forall (ops : list op) (s : @store T) k e,
    nth_error (fst s) k = Some e -> snd s <> k -> ~ In (OSwitch k) ops ->
    Forall (fun r => match r with Ok s' => nth_error (fst s') k = Some e | Err _ => True end) (run s ops).
  Proof.
    induction ops as [|o ops IH]; intros s k e Hk Hne Hns; cbn [Ops.run]; [constructor|].
    destruct (step s o) as [s'|x] eqn:Hs; [|constructor; [exact I | constructor]].
    destruct (step_frame s s' o k e Hs Hk Hne) as (Hk' & Hne'); [intros ->; apply Hns; left; reflexivity|].
    constructor; [exact Hk'|]. apply IH; [exact Hk' | exact Hne' | intros Hin; apply Hns; right; exact Hin].
  Qed.

  (* copy(): the copy is the same VALUE (so it produces identical results), it becomes the current engine, and whatever
     is then done — to the copy, or to further copies — leaves the original's entry unchanged until the script switches
     back to it; symmetrically, operating on the original afterwards never changes the copy
     (untouched_when_not_current with k := the copy's index). *)
  Theorem copy_independent_by_construction (s s1 : @store T) (ops : list op) e :
    nth_error (fst s) (snd s) = Some e -> step s OCopy = Ok s1 ->
    nth_error (fst s1) (snd s1) = Some e /\ snd s1 = length (fst s) /\
    (~ In (OSwitch (snd s)) ops ->
     Forall (fun r => match r with Ok s' => nth_error (fst s') (snd s) = Some e | Err _ => True end) (run s1 ops)).
  Proof.
    intros He Hc. cbn [Ops.step] in Hc. rewrite He in Hc. injection Hc as <-. cbn [fst snd].
    pose proof (nth_error_lt _ _ _ He) as Hlt. split; [|split; [reflexivity|]].
    - rewrite nth_error_app2 by lia. rewrite Nat.sub_diag. reflexivity.
    - intros Hns. apply untouched_when_not_current; cbn [fst snd]; [|lia|exact Hns].
      rewrite nth_error_app1 by exact Hlt. exact He.
  Qed.
End Restart.

(* ================================================================================================ *)
(* 7. the formula model plugged by the correspondence: no Function terms (evaluating one is a crash)  *)
(* ================================================================================================ *)
Definition fe0 {T : Type} : engine T -> fnode T -> list (string * T) -> T -> result T := fun _ _ _ _ => Err EInternal.
Lemma fe0_ext {T : Type} : forall e1 e2 : engine T,
  e_inputs e1 = e_inputs e2 -> e_outputs e1 = e_outputs e2 -> @fe0 T e1 = @fe0 T e2.
Proof. reflexivity. Qed.
Lemma fe0_no_output_values {T : Type} {N : Num T} : forall e1 e2 : engine T,
  e_inputs e1 = e_inputs e2 -> map ov_static (e_outputs e1) = map ov_static (e_outputs e2) -> @fe0 T e1 = @fe0 T e2.
Proof. reflexivity. Qed.
