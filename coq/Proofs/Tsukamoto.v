(* C11 — the Tsukamoto values of the six monotonic terms (Arc, Concave, Ramp, Sigmoid, SShape, ZShape),
   read over R on the generated kernels of Gen/GenTerm.v: inverse law, monotonicity in y, location of z.

   Only section 1 looks inside the generated kernels, and it closes every goal by algebra (ring/field under
   the function symbols), never by matching the syntactic shape of the translation:
     <T>_tsukamoto_R : <T>_tsukamoto p y = closed form                       (this file)
     <T>_eq / <T>_eq_h : <T>_membership p h x = h * <T>_shape p x            (Proofs/TermA.v, TermB.v; the
        group-A lemmas are restated here without the bound h <= 1, by the same tactic `eqgenT`)
   Everything after section 1 argues about the closed forms and the documented shapes of Spec/SpecTerm{A,B}.v. *)
From Coq Require Import Reals Lra Lia Bool Psatz String List.
From VF Require Import Num NumR GenTerm SpecTermA SpecTermB TermA TermB.
Import ListNotations.
Local Open Scope R_scope.

(* ------------------------------------------------------------------ 1. closed forms of the generated kernels *)

(* equal up to ring/field identities, also below sqrt, ln, exp, Rabs (commuted operands, regrouping, named
   locals): first bring the arguments of these functions on the left to the spelling used on the right *)
Ltac tsk_eq :=
  first [ reflexivity | solve [unfold Rdiv; ring] | solve [field] | progress f_equal; tsk_eq ].
Ltac tsk_norm1 f :=
  repeat match goal with
  | |- ?lhs = ?rhs =>
    match lhs with context [f ?a] =>
      match rhs with context [f ?b] =>
        tryif constr_eq a b then fail else idtac;
        replace a with b by (solve [tsk_eq])
      end
    end
  end.
Ltac tsk_args := tsk_norm1 sqrt; tsk_norm1 ln; tsk_norm1 exp; tsk_norm1 Rabs; tsk_eq.
(* read a kernel over R, split its comparisons (the two sides may spell a guard differently), then algebra *)
Ltac tsk_closed := cbv zeta; unR; splitR; try (exfalso; lra); tsk_args.

Lemma Ramp_tsukamoto_R (s e h y : R) : Ramp_tsukamoto s e h y = s + (e - s) * y / h.
Proof. unfold Ramp_tsukamoto. tsk_closed. Qed.

Lemma Sigmoid_tsukamoto_R (i s h y : R) : Sigmoid_tsukamoto i s h y = i + ln (h / y - 1) / - s.
Proof. unfold Sigmoid_tsukamoto. tsk_closed. Qed.

Lemma Concave_tsukamoto_R (i e h y : R) : Concave_tsukamoto i e h y = h * (i - e) / y + 2 * e - i.
Proof. unfold Concave_tsukamoto. tsk_closed. Qed.

Lemma SShape_tsukamoto_R (s e h y : R) : SShape_tsukamoto s e h y =
  if Rleb y (h / 2) then s + (e - s) * sqrt (y / (2 * h)) else e - (e - s) * sqrt ((h - y) / (2 * h)).
Proof. unfold SShape_tsukamoto. tsk_closed. Qed.

Lemma ZShape_tsukamoto_R (s e h y : R) : ZShape_tsukamoto s e h y =
  if Rleb y (h / 2) then e - (e - s) * sqrt (y / (2 * h)) else s + (e - s) * sqrt ((h - y) / (2 * h)).
Proof. unfold ZShape_tsukamoto. tsk_closed. Qed.

(* r = end - start, centre c = end *)
Lemma Arc_tsukamoto_R (s e h y : R) : Arc_tsukamoto s e h y =
  e + (if Rltb s e then -1 else 1) * sqrt ((e - s) * (e - s) - y * (e - s) / h * (y * (e - s) / h)).
Proof. unfold Arc_tsukamoto. tsk_closed. Qed.

(* membership = height * documented shape, for ANY height (TermA states these under 0 < h <= 1, which the
   inverse law does not need); Arc_eq and Sigmoid_eq of TermB carry no height bound and are used as they are *)
Lemma Ramp_eq_h (s e h x : R) : s <> e -> Ramp_membership s e h x = h * Ramp_shape s e x.
Proof. intros Hse. unfold Ramp_membership, Ramp_shape. eqgenT. Qed.
Lemma Concave_eq_h (i e h x : R) : i <> e -> Concave_membership i e h x = h * Concave_shape i e x.
Proof. intros Hie. unfold Concave_membership, Concave_shape. eqgenT. Qed.
Lemma SShape_eq_h (s e h x : R) : SShape_membership s e h x = h * SShape_shape s e x.
Proof. unfold SShape_membership, SShape_shape. eqgenT. Qed.
Lemma ZShape_eq_h (s e h x : R) : ZShape_membership s e h x = h * ZShape_shape s e x.
Proof. unfold ZShape_membership, ZShape_shape. eqgenT. Qed.

(* ================================================================== 2. no generated kernel is unfolded below *)

(* ------------------------------------------------------------------ toolbox *)

Lemma div_gt1 (h y : R) : 0 < y < h -> 1 < h / y.
Proof.
  intros [Hy Hh]. apply Rmult_lt_reg_r with y; [exact Hy|].
  unfold Rdiv. rewrite Rmult_assoc, Rinv_l by lra. lra.
Qed.

Lemma tsk_div_unit (h y : R) : 0 < y < h -> 0 < y / h < 1.
Proof.
  intros [Hy Hh]. assert (Hi : 0 < / h) by (apply Rinv_0_lt_compat; lra). split.
  - unfold Rdiv. apply Rmult_lt_0_compat; assumption.
  - apply Rmult_lt_reg_r with h; [lra|]. unfold Rdiv. rewrite Rmult_assoc, Rinv_l by lra. lra.
Qed.

Lemma tsk_div_le_compat (h a b : R) : 0 < h -> a <= b -> a / h <= b / h.
Proof.
  intros Hh Hab. unfold Rdiv. apply Rmult_le_compat_r; [left; apply Rinv_0_lt_compat; exact Hh | exact Hab].
Qed.

Lemma inv_antitone (a b : R) : 0 < a -> a <= b -> / b <= / a.
Proof. intros Ha Hab. apply Rinv_le_contravar; assumption. Qed.

(* ------------------------------------------------------------------ Ramp *)

Lemma Ramp_z_in_support_inc (s e h y : R) : s < e -> 0 < y < h -> s < Ramp_tsukamoto s e h y < e.
Proof.
  intros Hse Hy. rewrite Ramp_tsukamoto_R. pose proof (tsk_div_unit h y Hy) as Hu.
  replace ((e - s) * y / h) with ((e - s) * (y / h)) by (unfold Rdiv; ring). nra.
Qed.

Lemma Ramp_z_in_support_dec (s e h y : R) : e < s -> 0 < y < h -> e < Ramp_tsukamoto s e h y < s.
Proof.
  intros Hse Hy. rewrite Ramp_tsukamoto_R. pose proof (tsk_div_unit h y Hy) as Hu.
  replace ((e - s) * y / h) with ((e - s) * (y / h)) by (unfold Rdiv; ring). nra.
Qed.

Lemma Ramp_inverse (s e h y : R) : s <> e -> 0 < y < h ->
  Ramp_membership s e h (Ramp_tsukamoto s e h y) = y.
Proof.
  intros Hse Hy.
  destruct (Rtotal_order s e) as [Hlt | [Heq | Hgt]]; [| contradiction |].
  - pose proof (Ramp_z_in_support_inc s e h y Hlt Hy) as Hz. revert Hz.
    rewrite Ramp_tsukamoto_R. set (z := s + (e - s) * y / h). intros Hz.
    rewrite Ramp_eq_h by exact Hse. unfold Ramp_shape; splitR; try lra.
    subst z. field; repeat split; lra.
  - pose proof (Ramp_z_in_support_dec s e h y Hgt Hy) as Hz. revert Hz.
    rewrite Ramp_tsukamoto_R. set (z := s + (e - s) * y / h). intros Hz.
    rewrite Ramp_eq_h by exact Hse. unfold Ramp_shape; splitR; try lra.
    subst z. field; repeat split; lra.
Qed.

Lemma Ramp_z_monotone_inc (s e h y1 y2 : R) : s < e -> 0 < h -> y1 <= y2 ->
  Ramp_tsukamoto s e h y1 <= Ramp_tsukamoto s e h y2.
Proof.
  intros Hse Hh Hy. rewrite !Ramp_tsukamoto_R. pose proof (tsk_div_le_compat h y1 y2 Hh Hy).
  replace ((e - s) * y1 / h) with ((e - s) * (y1 / h)) by (unfold Rdiv; ring).
  replace ((e - s) * y2 / h) with ((e - s) * (y2 / h)) by (unfold Rdiv; ring). nra.
Qed.

Lemma Ramp_z_monotone_dec (s e h y1 y2 : R) : e < s -> 0 < h -> y1 <= y2 ->
  Ramp_tsukamoto s e h y2 <= Ramp_tsukamoto s e h y1.
Proof.
  intros Hse Hh Hy. rewrite !Ramp_tsukamoto_R. pose proof (tsk_div_le_compat h y1 y2 Hh Hy).
  replace ((e - s) * y1 / h) with ((e - s) * (y1 / h)) by (unfold Rdiv; ring).
  replace ((e - s) * y2 / h) with ((e - s) * (y2 / h)) by (unfold Rdiv; ring). nra.
Qed.

(* ------------------------------------------------------------------ Sigmoid *)

Lemma Sigmoid_inverse (i s h y : R) : s <> 0 -> 0 < y < h ->
  Sigmoid_membership i s h (Sigmoid_tsukamoto i s h y) = y.
Proof.
  intros Hs Hy. rewrite Sigmoid_eq, Sigmoid_tsukamoto_R. unfold Sigmoid_shape.
  pose proof (div_gt1 h y Hy) as Hpos.
  replace (- s * (i + ln (h / y - 1) / - s - i)) with (ln (h / y - 1)) by (field; lra).
  rewrite exp_ln by lra. field. lra.
Qed.

Lemma Sigmoid_arg_antitone (h y1 y2 : R) : 0 < h -> 0 < y1 -> y1 <= y2 -> y2 < h ->
  ln (h / y2 - 1) <= ln (h / y1 - 1).
Proof.
  intros Hh H1 H12 H2.
  pose proof (div_gt1 h y2 ltac:(lra)) as Hg2.
  assert (Hle : h / y2 <= h / y1).
  { unfold Rdiv. apply Rmult_le_compat_l; [lra|]. apply inv_antitone; assumption. }
  destruct (Req_dec (h / y2 - 1) (h / y1 - 1)) as [Heq | Hne].
  - rewrite Heq. lra.
  - left. apply ln_increasing; lra.
Qed.

Lemma Sigmoid_z_monotone_inc (i s h y1 y2 : R) : 0 < s -> 0 < h -> 0 < y1 -> y1 <= y2 -> y2 < h ->
  Sigmoid_tsukamoto i s h y1 <= Sigmoid_tsukamoto i s h y2.
Proof.
  intros Hs Hh H1 H12 H2. rewrite !Sigmoid_tsukamoto_R.
  pose proof (Sigmoid_arg_antitone h y1 y2 Hh H1 H12 H2) as Hl.
  assert (Hi : 0 < / s) by (apply Rinv_0_lt_compat; exact Hs).
  replace (ln (h / y1 - 1) / - s) with (- (ln (h / y1 - 1) * / s)) by (field; lra).
  replace (ln (h / y2 - 1) / - s) with (- (ln (h / y2 - 1) * / s)) by (field; lra).
  nra.
Qed.

Lemma Sigmoid_z_monotone_dec (i s h y1 y2 : R) : s < 0 -> 0 < h -> 0 < y1 -> y1 <= y2 -> y2 < h ->
  Sigmoid_tsukamoto i s h y2 <= Sigmoid_tsukamoto i s h y1.
Proof.
  intros Hs Hh H1 H12 H2. rewrite !Sigmoid_tsukamoto_R.
  pose proof (Sigmoid_arg_antitone h y1 y2 Hh H1 H12 H2) as Hl.
  assert (Hi : 0 < / - s) by (apply Rinv_0_lt_compat; lra).
  unfold Rdiv. nra.
Qed.

(* the sigmoid has unbounded support: the statement that makes sense is the side of the inflection *)
Lemma Sigmoid_z_side_inc (i s h y : R) : 0 < s -> 0 < y < h ->
  (y < h / 2 -> Sigmoid_tsukamoto i s h y < i) /\
  (y = h / 2 -> Sigmoid_tsukamoto i s h y = i) /\
  (h / 2 < y -> i < Sigmoid_tsukamoto i s h y).
Proof.
  intros Hs Hy. rewrite Sigmoid_tsukamoto_R.
  assert (Hi : 0 < / s) by (apply Rinv_0_lt_compat; exact Hs).
  pose proof (div_gt1 h y Hy) as Hg.
  replace (ln (h / y - 1) / - s) with (- (ln (h / y - 1) * / s)) by (field; lra).
  repeat split; intros Hc.
  - assert (Hl : 0 < ln (h / y - 1)).
    { rewrite <- ln_1. apply ln_increasing; [lra|].
      pose proof (div_gt1 h (2 * y) ltac:(lra)) as H2. replace (h / (2 * y)) with (h / y / 2) in H2 by (field; lra). lra. }
    nra.
  - subst y. replace (h / (h / 2) - 1) with 1 by (field; lra). rewrite ln_1. lra.
  - assert (Hl : ln (h / y - 1) < 0).
    { rewrite <- ln_1. apply ln_increasing; [lra|].
      assert (h / y < 2); [|lra]. apply Rmult_lt_reg_r with y; [lra|].
      unfold Rdiv. rewrite Rmult_assoc, Rinv_l by lra. lra. }
    nra.
Qed.

Lemma Sigmoid_z_side_dec (i s h y : R) : s < 0 -> 0 < y < h ->
  (y < h / 2 -> i < Sigmoid_tsukamoto i s h y) /\
  (y = h / 2 -> Sigmoid_tsukamoto i s h y = i) /\
  (h / 2 < y -> Sigmoid_tsukamoto i s h y < i).
Proof.
  intros Hs Hy. rewrite Sigmoid_tsukamoto_R.
  assert (Hi : 0 < / - s) by (apply Rinv_0_lt_compat; lra).
  pose proof (div_gt1 h y Hy) as Hg. unfold Rdiv at 2.
  repeat split; intros Hc.
  - assert (Hl : 0 < ln (h / y - 1)).
    { rewrite <- ln_1. apply ln_increasing; [lra|].
      pose proof (div_gt1 h (2 * y) ltac:(lra)) as H2. replace (h / (2 * y)) with (h / y / 2) in H2 by (field; lra). lra. }
    nra.
  - subst y. replace (h / (h / 2) - 1) with 1 by (field; lra). rewrite ln_1. lra.
  - assert (Hl : ln (h / y - 1) < 0).
    { rewrite <- ln_1. apply ln_increasing; [lra|].
      assert (h / y < 2); [|lra]. apply Rmult_lt_reg_r with y; [lra|].
      unfold Rdiv. rewrite Rmult_assoc, Rinv_l by lra. lra. }
    nra.
Qed.

(* ------------------------------------------------------------------ Concave *)

(* increasing: inflection < end; the value lies left of `end` (support of the curved part) *)
Lemma Concave_z_in_support_inc (i e h y : R) : i < e -> 0 < y < h -> Concave_tsukamoto i e h y < e.
Proof.
  intros Hie Hy. rewrite Concave_tsukamoto_R. pose proof (div_gt1 h y Hy) as Hg.
  replace (h * (i - e) / y) with ((h / y) * (i - e)) by (unfold Rdiv; ring). nra.
Qed.

Lemma Concave_z_in_support_dec (i e h y : R) : e < i -> 0 < y < h -> e < Concave_tsukamoto i e h y.
Proof.
  intros Hie Hy. rewrite Concave_tsukamoto_R. pose proof (div_gt1 h y Hy) as Hg.
  replace (h * (i - e) / y) with ((h / y) * (i - e)) by (unfold Rdiv; ring). nra.
Qed.

Lemma Concave_inverse (i e h y : R) : i <> e -> 0 < y < h ->
  Concave_membership i e h (Concave_tsukamoto i e h y) = y.
Proof.
  intros Hie Hy.
  destruct (Rtotal_order i e) as [Hlt | [Heq | Hgt]]; [| contradiction |].
  - pose proof (Concave_z_in_support_inc i e h y Hlt Hy) as Hz. revert Hz.
    rewrite Concave_tsukamoto_R. set (z := h * (i - e) / y + 2 * e - i). intros Hz.
    rewrite Concave_eq_h by exact Hie. unfold Concave_shape; splitR; try lra.
    replace (2 * e - i - z) with (h * (e - i) / y) by (subst z; field; lra).
    field; repeat split; lra.
  - pose proof (Concave_z_in_support_dec i e h y Hgt Hy) as Hz. revert Hz.
    rewrite Concave_tsukamoto_R. set (z := h * (i - e) / y + 2 * e - i). intros Hz.
    rewrite Concave_eq_h by exact Hie. unfold Concave_shape; splitR; try lra.
    replace (- 2 * e + i + z) with (h * (i - e) / y) by (subst z; field; lra).
    field; repeat split; lra.
Qed.

Lemma Concave_z_monotone_inc (i e h y1 y2 : R) : i < e -> 0 < h -> 0 < y1 -> y1 <= y2 ->
  Concave_tsukamoto i e h y1 <= Concave_tsukamoto i e h y2.
Proof.
  intros Hie Hh H1 H12. rewrite !Concave_tsukamoto_R.
  pose proof (inv_antitone y1 y2 H1 H12) as Hinv. unfold Rdiv.
  assert (Hp : 0 < h * (e - i)) by (apply Rmult_lt_0_compat; lra).
  set (a := / y1) in *; set (b := / y2) in *. clearbody a b. nra.
Qed.

Lemma Concave_z_monotone_dec (i e h y1 y2 : R) : e < i -> 0 < h -> 0 < y1 -> y1 <= y2 ->
  Concave_tsukamoto i e h y2 <= Concave_tsukamoto i e h y1.
Proof.
  intros Hie Hh H1 H12. rewrite !Concave_tsukamoto_R.
  pose proof (inv_antitone y1 y2 H1 H12) as Hinv. unfold Rdiv.
  assert (Hp : 0 < h * (i - e)) by (apply Rmult_lt_0_compat; lra).
  set (a := / y1) in *; set (b := / y2) in *. clearbody a b. nra.
Qed.

(* ------------------------------------------------------------------ SShape / ZShape *)

(* u = sqrt (t / (2h)) for 0 < t < h: the quantity both inverse branches are built from *)
Lemma sqrt_frac (h t : R) : 0 < h -> 0 < t ->
  let u := sqrt (t / (2 * h)) in
  u * u = t / (2 * h) /\ 0 < u /\ (t <= h / 2 -> u <= 1 / 2) /\ (t < h / 2 -> u < 1 / 2).
Proof.
  intros Hh Ht u.
  assert (Hpos : 0 < t / (2 * h)).
  { unfold Rdiv. apply Rmult_lt_0_compat; [lra | apply Rinv_0_lt_compat; lra]. }
  assert (Hu2 : u * u = t / (2 * h)) by (apply sqrt_sqrt; lra).
  assert (Hu0 : 0 < u) by (apply sqrt_lt_R0; exact Hpos).
  assert (Hq : t / (2 * h) * (2 * h) = t) by (field; lra).
  repeat split; try assumption; intros Hc.
  - assert (Hyh : t / (2 * h) <= 1 / 4) by (apply Rmult_le_reg_r with (2 * h); lra). nra.
  - assert (Hyh : t / (2 * h) < 1 / 4) by (apply Rmult_lt_reg_r with (2 * h); lra). nra.
Qed.

Lemma sqrt_frac_mono (h t1 t2 : R) : 0 < h -> t1 <= t2 -> sqrt (t1 / (2 * h)) <= sqrt (t2 / (2 * h)).
Proof.
  intros Hh Ht. apply sqrt_le_1_alt. apply tsk_div_le_compat; lra.
Qed.

Lemma SShape_z_in_support (s e h y : R) : s < e -> 0 < y < h -> s < SShape_tsukamoto s e h y < e.
Proof.
  intros Hse Hy. rewrite SShape_tsukamoto_R. destruct (Rleb_spec y (h / 2)) as [Hle | Hgt].
  - destruct (sqrt_frac h y ltac:(lra) ltac:(lra)) as (_ & Hu0 & Hu & _). specialize (Hu Hle).
    set (u := sqrt (y / (2 * h))) in *. clearbody u. nra.
  - destruct (sqrt_frac h (h - y) ltac:(lra) ltac:(lra)) as (_ & Hu0 & _ & Hu). specialize (Hu ltac:(lra)).
    set (u := sqrt ((h - y) / (2 * h))) in *. clearbody u. nra.
Qed.

Lemma ZShape_z_in_support (s e h y : R) : s < e -> 0 < y < h -> s < ZShape_tsukamoto s e h y < e.
Proof.
  intros Hse Hy. rewrite ZShape_tsukamoto_R. destruct (Rleb_spec y (h / 2)) as [Hle | Hgt].
  - destruct (sqrt_frac h y ltac:(lra) ltac:(lra)) as (_ & Hu0 & Hu & _). specialize (Hu Hle).
    set (u := sqrt (y / (2 * h))) in *. clearbody u. nra.
  - destruct (sqrt_frac h (h - y) ltac:(lra) ltac:(lra)) as (_ & Hu0 & _ & Hu). specialize (Hu ltac:(lra)).
    set (u := sqrt ((h - y) / (2 * h))) in *. clearbody u. nra.
Qed.

Lemma SShape_inverse (s e h y : R) : s < e -> 0 < y < h ->
  SShape_membership s e h (SShape_tsukamoto s e h y) = y.
Proof.
  intros Hse Hy. rewrite SShape_tsukamoto_R. destruct (Rleb_spec y (h / 2)) as [Hle | Hgt].
  - destruct (sqrt_frac h y ltac:(lra) ltac:(lra)) as (Hu2 & Hu0 & Hu & _). specialize (Hu Hle).
    set (u := sqrt (y / (2 * h))) in *. clearbody u.
    rewrite SShape_eq_h. unfold SShape_shape; splitR; try nra.
    replace ((s + (e - s) * u - s) / (e - s)) with u by (field; lra).
    rewrite Hu2. field. lra.
  - destruct (sqrt_frac h (h - y) ltac:(lra) ltac:(lra)) as (Hu2 & Hu0 & _ & Hu). specialize (Hu ltac:(lra)).
    set (u := sqrt ((h - y) / (2 * h))) in *. clearbody u.
    rewrite SShape_eq_h. unfold SShape_shape; splitR; try nra.
    replace ((e - (e - s) * u - e) / (e - s)) with (- u) by (field; lra).
    replace (- u * - u) with (u * u) by ring. rewrite Hu2. field. lra.
Qed.

Lemma ZShape_inverse (s e h y : R) : s < e -> 0 < y < h ->
  ZShape_membership s e h (ZShape_tsukamoto s e h y) = y.
Proof.
  intros Hse Hy. rewrite ZShape_tsukamoto_R. destruct (Rleb_spec y (h / 2)) as [Hle | Hgt].
  - destruct (sqrt_frac h y ltac:(lra) ltac:(lra)) as (Hu2 & Hu0 & Hu & _). specialize (Hu Hle).
    set (u := sqrt (y / (2 * h))) in *. clearbody u.
    rewrite ZShape_eq_h. unfold ZShape_shape; splitR; try nra.
    replace ((e - (e - s) * u - e) / (e - s)) with (- u) by (field; lra).
    replace (- u * - u) with (u * u) by ring. rewrite Hu2. field. lra.
  - destruct (sqrt_frac h (h - y) ltac:(lra) ltac:(lra)) as (Hu2 & Hu0 & _ & Hu). specialize (Hu ltac:(lra)).
    set (u := sqrt ((h - y) / (2 * h))) in *. clearbody u.
    rewrite ZShape_eq_h. unfold ZShape_shape; splitR; try nra.
    replace ((s + (e - s) * u - s) / (e - s)) with u by (field; lra).
    rewrite Hu2. field. lra.
Qed.

(* SShape is the increasing one of the pair, ZShape the decreasing one (both need start < end) *)
Lemma SShape_z_monotone (s e h y1 y2 : R) : s < e -> 0 < h -> 0 < y1 -> y1 <= y2 -> y2 < h ->
  SShape_tsukamoto s e h y1 <= SShape_tsukamoto s e h y2.
Proof.
  intros Hse Hh H1 H12 H2. rewrite !SShape_tsukamoto_R.
  destruct (Rleb_spec y1 (h / 2)) as [Hle1 | Hgt1]; destruct (Rleb_spec y2 (h / 2)) as [Hle2 | Hgt2]; try lra.
  - pose proof (sqrt_frac_mono h y1 y2 Hh H12) as Hm.
    set (u := sqrt (y1 / (2 * h))) in *; set (v := sqrt (y2 / (2 * h))) in *. clearbody u v. nra.
  - destruct (sqrt_frac h y1 ltac:(lra) ltac:(lra)) as (_ & _ & Hu & _). specialize (Hu Hle1).
    destruct (sqrt_frac h (h - y2) ltac:(lra) ltac:(lra)) as (_ & _ & _ & Hv). specialize (Hv ltac:(lra)).
    set (u := sqrt (y1 / (2 * h))) in *; set (v := sqrt ((h - y2) / (2 * h))) in *. clearbody u v. nra.
  - pose proof (sqrt_frac_mono h (h - y2) (h - y1) Hh ltac:(lra)) as Hm.
    set (u := sqrt ((h - y1) / (2 * h))) in *; set (v := sqrt ((h - y2) / (2 * h))) in *. clearbody u v. nra.
Qed.

Lemma ZShape_z_monotone (s e h y1 y2 : R) : s < e -> 0 < h -> 0 < y1 -> y1 <= y2 -> y2 < h ->
  ZShape_tsukamoto s e h y2 <= ZShape_tsukamoto s e h y1.
Proof.
  intros Hse Hh H1 H12 H2. rewrite !ZShape_tsukamoto_R.
  destruct (Rleb_spec y1 (h / 2)) as [Hle1 | Hgt1]; destruct (Rleb_spec y2 (h / 2)) as [Hle2 | Hgt2]; try lra.
  - pose proof (sqrt_frac_mono h y1 y2 Hh H12) as Hm.
    set (u := sqrt (y1 / (2 * h))) in *; set (v := sqrt (y2 / (2 * h))) in *. clearbody u v. nra.
  - destruct (sqrt_frac h y1 ltac:(lra) ltac:(lra)) as (_ & _ & Hu & _). specialize (Hu Hle1).
    destruct (sqrt_frac h (h - y2) ltac:(lra) ltac:(lra)) as (_ & _ & _ & Hv). specialize (Hv ltac:(lra)).
    set (u := sqrt (y1 / (2 * h))) in *; set (v := sqrt ((h - y2) / (2 * h))) in *. clearbody u v. nra.
  - pose proof (sqrt_frac_mono h (h - y2) (h - y1) Hh ltac:(lra)) as Hm.
    set (u := sqrt ((h - y1) / (2 * h))) in *; set (v := sqrt ((h - y2) / (2 * h))) in *. clearbody u v. nra.
Qed.

(* start > end is NOT a mirrored S/Z shape: the membership degenerates to a step at `start`, and the
   Tsukamoto value always lands on the flat side — the inverse law fails for every y in (0,h). *)
Lemma SShape_reversed_not_inverse (s e h y : R) : e < s -> 0 < y < h ->
  SShape_membership s e h (SShape_tsukamoto s e h y) = 0.
Proof.
  intros Hse Hy. rewrite SShape_tsukamoto_R. destruct (Rleb_spec y (h / 2)) as [Hle | Hgt].
  - destruct (sqrt_frac h y ltac:(lra) ltac:(lra)) as (_ & Hu0 & _ & _).
    set (u := sqrt (y / (2 * h))) in *. clearbody u.
    rewrite SShape_eq_h. unfold SShape_shape; splitR; try nra.
  - destruct (sqrt_frac h (h - y) ltac:(lra) ltac:(lra)) as (_ & Hu0 & _ & Hu). specialize (Hu ltac:(lra)).
    set (u := sqrt ((h - y) / (2 * h))) in *. clearbody u.
    rewrite SShape_eq_h. unfold SShape_shape; splitR; try nra.
Qed.

Lemma ZShape_reversed_not_inverse (s e h y : R) : e < s -> 0 < y < h ->
  ZShape_membership s e h (ZShape_tsukamoto s e h y) = h.
Proof.
  intros Hse Hy. rewrite ZShape_tsukamoto_R. destruct (Rleb_spec y (h / 2)) as [Hle | Hgt].
  - destruct (sqrt_frac h y ltac:(lra) ltac:(lra)) as (_ & Hu0 & Hu & _). specialize (Hu Hle).
    set (u := sqrt (y / (2 * h))) in *. clearbody u.
    rewrite ZShape_eq_h. unfold ZShape_shape; splitR; try nra.
  - destruct (sqrt_frac h (h - y) ltac:(lra) ltac:(lra)) as (_ & Hu0 & _ & _).
    set (u := sqrt ((h - y) / (2 * h))) in *. clearbody u.
    rewrite ZShape_eq_h. unfold ZShape_shape; splitR; try nra.
Qed.

(* ------------------------------------------------------------------ Arc *)
(* increasing when start < end, decreasing when start > end *)

(* q = sqrt (r^2 - (y r / h)^2) *)
Lemma arc_q (r h y : R) : r <> 0 -> 0 < y < h ->
  let q := sqrt (r * r - y * r / h * (y * r / h)) in
  q * q = r * r - y * r / h * (y * r / h) /\ 0 < q /\ q < Rabs r /\
  sqrt (y * r / h * (y * r / h)) = y / h * Rabs r.
Proof.
  intros Hr Hy q. pose proof (tsk_div_unit h y Hy) as Hu.
  assert (Ha : 0 < Rabs r) by (apply Rabs_pos_lt; exact Hr).
  assert (Haa : Rabs r * Rabs r = r * r).
  { unfold Rabs. destruct (Rcase_abs r); ring. }
  assert (Hyr : y * r / h = y / h * r) by (unfold Rdiv; ring).
  assert (Hsq : y * r / h * (y * r / h) = (y / h * Rabs r) * (y / h * Rabs r)).
  { rewrite Hyr. set (u := y / h) in *. clearbody u.
    replace (u * Rabs r * (u * Rabs r)) with (u * u * (Rabs r * Rabs r)) by ring. rewrite Haa. ring. }
  assert (Hpos : 0 < r * r - y * r / h * (y * r / h)).
  { rewrite Hsq, <- Haa. set (u := y / h) in *; set (a := Rabs r) in *. clearbody u a.
    replace (a * a - u * a * (u * a)) with (a * a * ((1 - u) * (1 + u))) by ring.
    apply Rmult_lt_0_compat; apply Rmult_lt_0_compat; lra. }
  assert (Hq2 : q * q = r * r - y * r / h * (y * r / h)) by (apply sqrt_sqrt; lra).
  assert (Hq0 : 0 < q) by (apply sqrt_lt_R0; exact Hpos).
  repeat split; try assumption.
  - assert (Hlt : q * q < Rabs r * Rabs r).
    { rewrite Hq2, Hsq, <- Haa. set (u := y / h) in *; set (a := Rabs r) in *. clearbody u a.
      assert (0 < u * a * (u * a)); [|lra]. apply Rmult_lt_0_compat; apply Rmult_lt_0_compat; lra. }
    clearbody q. nra.
  - rewrite Hsq. apply sqrt_square. set (u := y / h) in *; set (a := Rabs r) in *. clearbody u a. nra.
Qed.

Lemma arc_q_antitone (r h y1 y2 : R) : 0 < h -> 0 < y1 -> y1 <= y2 ->
  sqrt (r * r - y2 * r / h * (y2 * r / h)) <= sqrt (r * r - y1 * r / h * (y1 * r / h)).
Proof.
  intros Hh H1 H12. apply sqrt_le_1_alt.
  pose proof (tsk_div_le_compat h y1 y2 Hh H12) as Hu.
  assert (Hu0 : 0 < y1 / h) by (unfold Rdiv; apply Rmult_lt_0_compat; [lra | apply Rinv_0_lt_compat; lra]).
  replace (y1 * r / h) with (y1 / h * r) by (unfold Rdiv; ring).
  replace (y2 * r / h) with (y2 / h * r) by (unfold Rdiv; ring).
  set (u := y1 / h) in *; set (v := y2 / h) in *. clearbody u v.
  assert (Huv : u * u <= v * v) by nra. pose proof (Rle_0_sqr r) as Hr2. unfold Rsqr in Hr2.
  replace (u * r * (u * r)) with (u * u * (r * r)) by ring.
  replace (v * r * (v * r)) with (v * v * (r * r)) by ring. nra.
Qed.

Lemma Arc_z_in_support_inc (s e h y : R) : s < e -> 0 < y < h -> s < Arc_tsukamoto s e h y < e.
Proof.
  intros Hse Hy. rewrite Arc_tsukamoto_R.
  destruct (arc_q (e - s) h y ltac:(lra) Hy) as (_ & Hq0 & Hqr & _).
  rewrite Rabs_pos_eq in Hqr by lra.
  set (q := sqrt _) in *. clearbody q. destruct (Rltb_spec s e); lra.
Qed.

Lemma Arc_z_in_support_dec (s e h y : R) : e < s -> 0 < y < h -> e < Arc_tsukamoto s e h y < s.
Proof.
  intros Hse Hy. rewrite Arc_tsukamoto_R.
  destruct (arc_q (e - s) h y ltac:(lra) Hy) as (_ & Hq0 & Hqr & _).
  rewrite Rabs_left in Hqr by lra.
  set (q := sqrt _) in *. clearbody q. destruct (Rltb_spec s e); lra.
Qed.

Lemma Arc_inverse (s e h y : R) : s <> e -> 0 < y < h ->
  Arc_membership s e h (Arc_tsukamoto s e h y) = y.
Proof.
  intros Hse Hy. rewrite Arc_tsukamoto_R.
  destruct (arc_q (e - s) h y ltac:(lra) Hy) as (Hq2 & Hq0 & Hqr & Hsq).
  assert (Ha : 0 < Rabs (e - s)) by (apply Rabs_pos_lt; lra).
  set (q := sqrt (_ - _)) in *. clearbody q.
  destruct (Rtotal_order s e) as [Hlt | [Heq | Hgt]]; [| contradiction |].
  - pose proof Hqr as Hqr'. rewrite Rabs_pos_eq in Hqr' by lra.
    destruct (Rltb_spec s e) as [_ | Hn]; [| lra].
    rewrite Arc_eq by exact Hse. unfold Arc_shape, Arc_curve, Rsqr; cbv zeta. splitdecTB; try lra.
    replace ((e + -1 * q - e) * (e + -1 * q - e)) with (q * q) by ring.
    rewrite Hq2.
    replace ((e - s) * (e - s) - ((e - s) * (e - s) - y * (e - s) / h * (y * (e - s) / h)))
      with (y * (e - s) / h * (y * (e - s) / h)) by ring.
    rewrite Hsq. field. split; lra.
  - pose proof Hqr as Hqr'. rewrite Rabs_left in Hqr' by lra.
    destruct (Rltb_spec s e) as [Hn | _]; [lra |].
    rewrite Arc_eq by exact Hse. unfold Arc_shape, Arc_curve, Rsqr; cbv zeta. splitdecTB; try lra.
    replace ((e + 1 * q - e) * (e + 1 * q - e)) with (q * q) by ring.
    rewrite Hq2.
    replace ((e - s) * (e - s) - ((e - s) * (e - s) - y * (e - s) / h * (y * (e - s) / h)))
      with (y * (e - s) / h * (y * (e - s) / h)) by ring.
    rewrite Hsq. field. split; lra.
Qed.

Lemma Arc_z_monotone_inc (s e h y1 y2 : R) : s < e -> 0 < h -> 0 < y1 -> y1 <= y2 ->
  Arc_tsukamoto s e h y1 <= Arc_tsukamoto s e h y2.
Proof.
  intros Hse Hh H1 H12. rewrite !Arc_tsukamoto_R.
  pose proof (arc_q_antitone (e - s) h y1 y2 Hh H1 H12) as Hq.
  destruct (Rltb_spec s e); lra.
Qed.

Lemma Arc_z_monotone_dec (s e h y1 y2 : R) : e < s -> 0 < h -> 0 < y1 -> y1 <= y2 ->
  Arc_tsukamoto s e h y2 <= Arc_tsukamoto s e h y1.
Proof.
  intros Hse Hh H1 H12. rewrite !Arc_tsukamoto_R.
  pose proof (arc_q_antitone (e - s) h y1 y2 Hh H1 H12) as Hq.
  destruct (Rltb_spec s e); lra.
Qed.

(* ------------------------------------------------------------------ the generated tables *)

(* a class overrides tsukamoto exactly when it declares itself monotonic (any carrier) *)
Lemma tsukamoto_defined_iff_monotonic_gen (T : Type) (N : Num T) (s : shape T) :
  shape_tsukamoto s <> None <-> shape_monotonic s = true.
Proof. destruct s; cbn [shape_tsukamoto shape_monotonic]; split; intros H; congruence. Qed.

Lemma tsukamoto_defined_iff_monotonic (s : shape R) :
  shape_tsukamoto s <> None <-> shape_monotonic s = true.
Proof. apply tsukamoto_defined_iff_monotonic_gen. Qed.

Lemma tsukamoto_refused_iff_not_monotonic (s : shape R) :
  shape_tsukamoto s = None <-> shape_monotonic s = false.
Proof. destruct s; cbn [shape_tsukamoto shape_monotonic]; split; intros H; congruence. Qed.

(* term_table rows: (name, #params, parses height, declares monotonic, has a tsukamoto override) *)
Definition table_monotonic_names : list String.string :=
  map (fun r => match r with (n, _, _, _, _) => n end)
      (filter (fun r => match r with (_, _, _, m, _) => m end) term_table).
Definition table_flags_agree : bool :=
  forallb (fun r => match r with (_, _, _, m, t) => Bool.eqb m t end) term_table.

Lemma term_table_flags_agree : table_flags_agree = true.
Proof. reflexivity. Qed.
Lemma term_table_monotonic_names :
  table_monotonic_names = ["Arc"; "Concave"; "Ramp"; "Sigmoid"; "SShape"; "ZShape"]%string.
Proof. reflexivity. Qed.

(* ------------------------------------------------------------------ shape-level summary *)

(* parameters for which the term is a genuine monotonic edge *)
Definition tsukamoto_valid (s : shape R) : Prop :=
  match s with
  | Sh_Arc a b h => a <> b /\ 0 < h <= 1
  | Sh_Concave i e h => i <> e /\ 0 < h <= 1
  | Sh_Ramp a b h => a <> b /\ 0 < h <= 1
  | Sh_Sigmoid i sl h => sl <> 0 /\ 0 < h <= 1
  | Sh_SShape a b h => a < b /\ 0 < h <= 1
  | Sh_ZShape a b h => a < b /\ 0 < h <= 1
  | _ => False
  end.

(* direction of the term *)
Definition shape_increasing (s : shape R) : Prop :=
  match s with
  | Sh_Arc a b _ => a < b
  | Sh_Concave i e _ => i < e
  | Sh_Ramp a b _ => a < b
  | Sh_Sigmoid _ sl _ => 0 < sl
  | Sh_SShape _ _ _ => True
  | _ => False
  end.
Definition shape_decreasing (s : shape R) : Prop :=
  match s with
  | Sh_Arc a b _ => b < a
  | Sh_Concave i e _ => e < i
  | Sh_Ramp a b _ => b < a
  | Sh_Sigmoid _ sl _ => sl < 0
  | Sh_ZShape _ _ _ => True
  | _ => False
  end.

Lemma valid_direction (s : shape R) : tsukamoto_valid s -> shape_increasing s \/ shape_decreasing s.
Proof.
  assert (Hd : forall a b : R, a <> b -> a < b \/ b < a).
  { intros a b Hab. destruct (Rtotal_order a b) as [L | [E | G]]; [left; exact L | contradiction | right; exact G]. }
  destruct s; cbn [tsukamoto_valid shape_increasing shape_decreasing]; intros H; try contradiction; destruct H as [H _].
  - apply Hd; exact H.
  - apply Hd; exact H.
  - apply Hd; exact H.
  - destruct (Hd _ _ H) as [L | G]; [right; exact L | left; exact G].
  - left; exact I.
  - right; exact I.
Qed.

Lemma shape_inverse (s : shape R) (z : R -> R) (y : R) :
  tsukamoto_valid s -> shape_tsukamoto s = Some z -> 0 < y < shape_height s ->
  shape_membership s (z y) = y.
Proof.
  destruct s; cbn [tsukamoto_valid shape_tsukamoto shape_height shape_membership];
    intros Hv Hz Hy; try contradiction; injection Hz as <-; destruct Hv as [Hv _].
  - apply Arc_inverse; assumption.
  - apply Concave_inverse; assumption.
  - apply Ramp_inverse; assumption.
  - apply Sigmoid_inverse; assumption.
  - apply SShape_inverse; assumption.
  - apply ZShape_inverse; assumption.
Qed.

Lemma shape_z_monotone_inc (s : shape R) (z : R -> R) (y1 y2 : R) :
  tsukamoto_valid s -> shape_increasing s -> shape_tsukamoto s = Some z ->
  0 < y1 -> y1 <= y2 -> y2 < shape_height s -> z y1 <= z y2.
Proof.
  destruct s; cbn [tsukamoto_valid shape_increasing shape_tsukamoto shape_height];
    intros Hv Hd Hz H1 H12 H2; try contradiction; injection Hz as <-; destruct Hv as [Hv [Hh _]].
  - apply Arc_z_monotone_inc; assumption.
  - apply Concave_z_monotone_inc; assumption.
  - apply Ramp_z_monotone_inc; assumption.
  - apply Sigmoid_z_monotone_inc; assumption.
  - apply SShape_z_monotone; assumption.
Qed.

Lemma shape_z_monotone_dec (s : shape R) (z : R -> R) (y1 y2 : R) :
  tsukamoto_valid s -> shape_decreasing s -> shape_tsukamoto s = Some z ->
  0 < y1 -> y1 <= y2 -> y2 < shape_height s -> z y2 <= z y1.
Proof.
  destruct s; cbn [tsukamoto_valid shape_decreasing shape_tsukamoto shape_height];
    intros Hv Hd Hz H1 H12 H2; try contradiction; injection Hz as <-; destruct Hv as [Hv [Hh _]].
  - apply Arc_z_monotone_dec; assumption.
  - apply Concave_z_monotone_dec; assumption.
  - apply Ramp_z_monotone_dec; assumption.
  - apply Sigmoid_z_monotone_dec; assumption.
  - apply ZShape_z_monotone; assumption.
Qed.

(* ------------------------------------------------------------------ elementwise (arrays = lists) *)

Lemma map_inverse (mu z : R -> R) (h : R) (ys : list R) :
  (forall y, 0 < y < h -> mu (z y) = y) ->
  Forall (fun y => 0 < y < h) ys -> map mu (map z ys) = ys.
Proof.
  intros Hinv Hall. induction Hall as [| y ys Hy _ IH]; cbn [map]; [reflexivity |].
  rewrite (Hinv y Hy), IH. reflexivity.
Qed.

Lemma shape_inverse_map (s : shape R) (z : R -> R) (ys : list R) :
  tsukamoto_valid s -> shape_tsukamoto s = Some z -> Forall (fun y => 0 < y < shape_height s) ys ->
  map (shape_membership s) (map z ys) = ys.
Proof.
  intros Hv Hz Hall. apply map_inverse with (h := shape_height s); [| exact Hall].
  intros y Hy. apply shape_inverse; assumption.
Qed.

(* ------------------------------------------------------------------ helpers for concrete examples *)

Lemma example_via_inverse (mu z : R -> R) (y x : R) : z y = x -> mu (z y) = y -> z y = x /\ mu x = y.
Proof. intros <- H; split; [reflexivity | exact H]. Qed.

Lemma sqrt_sixteenth : sqrt (1 / 16) = 1 / 4.
Proof. replace (1 / 16) with ((1 / 4) * (1 / 4)) by lra. apply sqrt_square; lra. Qed.

Lemma sqrt_64_25 : sqrt (64 / 25) = 8 / 5.
Proof. replace (64 / 25) with ((8 / 5) * (8 / 5)) by lra. apply sqrt_square; lra. Qed.

Lemma Arc_example_inc : Arc_tsukamoto 0 2 (1 / 2) (3 / 10) = 2 / 5.
Proof.
  rewrite Arc_tsukamoto_R. destruct (Rltb_spec 0 2); [| lra].
  replace ((2 - 0) * (2 - 0) - 3 / 10 * (2 - 0) / (1 / 2) * (3 / 10 * (2 - 0) / (1 / 2))) with (64 / 25) by lra.
  rewrite sqrt_64_25. lra.
Qed.

Lemma Arc_example_dec : Arc_tsukamoto 2 0 (1 / 2) (3 / 10) = 8 / 5.
Proof.
  rewrite Arc_tsukamoto_R. destruct (Rltb_spec 2 0); [lra |].
  replace ((0 - 2) * (0 - 2) - 3 / 10 * (0 - 2) / (1 / 2) * (3 / 10 * (0 - 2) / (1 / 2))) with (64 / 25) by lra.
  rewrite sqrt_64_25. lra.
Qed.

Lemma SShape_example_low : SShape_tsukamoto 0 2 (1 / 2) (1 / 16) = 1 / 2.
Proof.
  rewrite SShape_tsukamoto_R. destruct (Rleb_spec (1 / 16) (1 / 2 / 2)); [| lra].
  replace (1 / 16 / (2 * (1 / 2))) with (1 / 16) by lra. rewrite sqrt_sixteenth. lra.
Qed.

Lemma SShape_example_high : SShape_tsukamoto 0 2 (1 / 2) (7 / 16) = 3 / 2.
Proof.
  rewrite SShape_tsukamoto_R. destruct (Rleb_spec (7 / 16) (1 / 2 / 2)); [lra |].
  replace ((1 / 2 - 7 / 16) / (2 * (1 / 2))) with (1 / 16) by lra. rewrite sqrt_sixteenth. lra.
Qed.

Lemma ZShape_example_low : ZShape_tsukamoto 0 2 (1 / 2) (1 / 16) = 3 / 2.
Proof.
  rewrite ZShape_tsukamoto_R. destruct (Rleb_spec (1 / 16) (1 / 2 / 2)); [| lra].
  replace (1 / 16 / (2 * (1 / 2))) with (1 / 16) by lra. rewrite sqrt_sixteenth. lra.
Qed.

Lemma ZShape_example_high : ZShape_tsukamoto 0 2 (1 / 2) (7 / 16) = 1 / 2.
Proof.
  rewrite ZShape_tsukamoto_R. destruct (Rleb_spec (7 / 16) (1 / 2 / 2)); [lra |].
  replace ((1 / 2 - 7 / 16) / (2 * (1 / 2))) with (1 / 16) by lra. rewrite sqrt_sixteenth. lra.
Qed.

Lemma Sigmoid_example_inc : Sigmoid_tsukamoto 0 1 (1 / 2) (1 / 6) = - ln 2.
Proof.
  rewrite Sigmoid_tsukamoto_R. replace (1 / 2 / (1 / 6) - 1) with 2 by lra. field.
Qed.

Lemma Sigmoid_example_dec : Sigmoid_tsukamoto 0 (-1) (1 / 2) (1 / 6) = ln 2.
Proof.
  rewrite Sigmoid_tsukamoto_R. replace (1 / 2 / (1 / 6) - 1) with 2 by lra. field.
Qed.

(* ------------------------------------------------------------------ start > end for the S/Z pair: witnesses *)

Lemma SShape_reversed_refuted : exists s e h y : R,
  e < s /\ 0 < h <= 1 /\ 0 < y < h /\ SShape_membership s e h (SShape_tsukamoto s e h y) <> y.
Proof.
  exists 2, 0, (1 / 2), (1 / 4). repeat split; try lra.
  rewrite SShape_reversed_not_inverse by lra. lra.
Qed.

Lemma ZShape_reversed_refuted : exists s e h y : R,
  e < s /\ 0 < h <= 1 /\ 0 < y < h /\ ZShape_membership s e h (ZShape_tsukamoto s e h y) <> y.
Proof.
  exists 2, 0, (1 / 2), (1 / 4). repeat split; try lra.
  rewrite ZShape_reversed_not_inverse by lra. lra.
Qed.
