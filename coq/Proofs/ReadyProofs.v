(* ReadyProofs.v — proofs about Model/Ready.v (property C19).
   1. the textual test of is_ready sees every connective of a whitespace-separated rule;
   2. what an empty message list of is_ready (as written / fixed) guarantees;
   3. under those guarantees plus the absence of the "disjunction hole", every Err branch of the abstract `process` is
      unreachable; conversely a completed `process` had every operator its rules walk through;
   4. needed-but-missing operators are reported (all five by the fixed check, all but the disjunction by the code as written);
   5. the concrete witness of finding F9 and the statements for whichever check mirrors the current code (THE SWITCH). *)
From Coq Require Import ZArith Bool List String Arith Lia.
From VF Require Import GenNorm GenHedge GenTerm GenOpTable Core Ready.
Import ListNotations.
Local Open Scope list_scope.

(* ================================================================ 1. texts *)
Lemma renders_nonempty : forall x t, renders x t -> t <> [].
Proof.
  intros x t H; induction H as [v hs t tok toks | a l r tl tr Hl IHl Hr IHr | x tx Hx IHx]; try discriminate.
  destruct tl; [contradiction | discriminate].
Qed.

Lemma occurs_before_last_mid : forall kw l1 b l2, occurs_before_last kw (l1 ++ kw :: b :: l2) = true.
Proof.
  intros kw l1 b l2; induction l1 as [| a l1 IH]; cbn [app occurs_before_last].
  - now rewrite String.eqb_refl.
  - destruct (l1 ++ kw :: b :: l2) eqn:E.
    + destruct l1; discriminate.
    + rewrite IH; apply orb_true_r.
Qed.

(* kw is a token with a token before and a token after it *)
Definition inner (kw : string) (t : list string) : Prop :=
  exists a l1 b l2, t = (a :: l1) ++ kw :: b :: l2.

Lemma inner_text_has : forall kw t, inner kw t -> text_has kw t = true.
Proof.
  intros kw t (a & l1 & b & l2 & ->); cbn [app text_has]; apply occurs_before_last_mid.
Qed.

Lemma renders_inner : forall x t, renders x t -> forall a, uses a x = true -> inner (rd_kw a) t.
Proof.
  intros x t H; induction H as [v hs t tok toks | a' l r tl tr Hl IHl Hr IHr | x tx Hx IHx]; intros a Hu.
  - discriminate.
  - cbn [uses] in Hu.
    pose proof (renders_nonempty _ _ Hl) as Nl; pose proof (renders_nonempty _ _ Hr) as Nr.
    destruct tl as [| c tl']; [contradiction |]; destruct tr as [| d tr']; [contradiction |].
    apply orb_true_iff in Hu; destruct Hu as [Hu | Hu]; [apply orb_true_iff in Hu; destruct Hu as [Hu | Hu] |].
    + apply eqb_prop in Hu; subst a'. now exists c, tl', d, tr'.
    + destruct (IHl a Hu) as (a0 & l1 & b & l2 & E); rewrite E.
      exists a0, l1, b, (l2 ++ rd_kw a' :: d :: tr').
      now rewrite <- !app_assoc.
    + destruct (IHr a Hu) as (a0 & l1 & b & l2 & E); rewrite E.
      exists c, (tl' ++ rd_kw a' :: a0 :: l1), b, l2.
      cbn [app]; rewrite <- !app_assoc; reflexivity.
  - destruct (IHx a Hu) as (a0 & l1 & b & l2 & E); rewrite E.
    exists "("%string, (a0 :: l1), b, (l2 ++ [")"%string]).
    cbn [app]; rewrite <- !app_assoc; reflexivity.
Qed.

Lemma renders_text_has : forall x t a, renders x t -> uses a x = true -> text_has (rd_kw a) t = true.
Proof. intros x t a H Hu; apply inner_text_has; eapply renders_inner; eauto. Qed.

(* ================================================================ generic list facts *)
Lemma In_nth_error_ex : forall {A} (l : list A) x, In x l -> exists k, nth_error l k = Some x.
Proof. intros A l x H; apply In_nth_error; exact H. Qed.

Section Proofs.
  Context {T : Type}.
  Implicit Types (e : engine T) (b : block T) (r : rule T) (v : output_var T) (tx : texts).

  Lemma count_rules_zero : forall (f : nat -> rule T -> bool) rs k,
    count_rules f k rs = 0 -> forall j r, nth_error rs j = Some r -> f (k + j) r = false.
  Proof.
    intros f rs; induction rs as [| r0 rs IH]; intros k H j r Hj.
    - destruct j; discriminate.
    - cbn [count_rules] in H. destruct j as [| j]; cbn [nth_error] in Hj.
      + injection Hj as <-. rewrite Nat.add_0_r. destruct (f k r0); [discriminate | reflexivity].
      + replace (k + S j) with (S k + j) by lia. apply IH; [| exact Hj]. destruct (f k r0); [discriminate | exact H].
  Qed.

  Lemma count_rules_pos : forall (f : nat -> rule T -> bool) rs k j r,
    nth_error rs j = Some r -> f (k + j) r = true -> 0 < count_rules f k rs.
  Proof.
    intros f rs k j r Hj Hf.
    destruct (count_rules f k rs) eqn:E; [| lia].
    rewrite (count_rules_zero f rs k E j r Hj) in Hf; discriminate.
  Qed.

  (* ================================================================ 2. what an empty message list guarantees *)
  Lemma outs_msgs_nil : forall vs k, outs_msgs k vs = [] -> forall j v, nth_error vs j = Some v -> out_msgs (k + j) v = [].
  Proof.
    induction vs as [| v0 vs IH]; intros k H j v Hj.
    - destruct j; discriminate.
    - cbn [outs_msgs] in H; apply app_eq_nil in H; destruct H as [H0 H1].
      destruct j as [| j]; cbn [nth_error] in Hj.
      + injection Hj as <-. now rewrite Nat.add_0_r.
      + replace (k + S j) with (S k + j) by lia. now apply IH.
  Qed.

  Lemma outs_msgs_in : forall vs k j v m, nth_error vs j = Some v -> In m (out_msgs (k + j) v) -> In m (outs_msgs k vs).
  Proof.
    induction vs as [| v0 vs IH]; intros k j v m Hj Hm.
    - destruct j; discriminate.
    - cbn [outs_msgs]; apply in_or_app. destruct j as [| j]; cbn [nth_error] in Hj.
      + injection Hj as <-. rewrite Nat.add_0_r in Hm. now left.
      + right. replace (k + S j) with (S k + j) in Hm by lia. eapply IH; eauto.
  Qed.

  Section GenFacts.
    Variable bm : engine T -> texts -> nat -> block T -> list msg.

    Lemma blocks_msgs_nil : forall e tx bs k, blocks_msgs bm e tx k bs = [] ->
      forall i b, nth_error bs i = Some b -> bm e tx (k + i) b = [].
    Proof.
      intros e tx; induction bs as [| b0 bs IH]; intros k H i b Hi.
      - destruct i; discriminate.
      - cbn [blocks_msgs] in H; apply app_eq_nil in H; destruct H as [H0 H1].
        destruct i as [| i]; cbn [nth_error] in Hi.
        + injection Hi as <-. now rewrite Nat.add_0_r.
        + replace (k + S i) with (S k + i) by lia. now apply IH.
    Qed.

    Lemma blocks_msgs_in : forall e tx bs k i b m, nth_error bs i = Some b -> In m (bm e tx (k + i) b) -> In m (blocks_msgs bm e tx k bs).
    Proof.
      intros e tx; induction bs as [| b0 bs IH]; intros k i b m Hi Hm.
      - destruct i; discriminate.
      - cbn [blocks_msgs]; apply in_or_app. destruct i as [| i]; cbn [nth_error] in Hi.
        + injection Hi as <-. rewrite Nat.add_0_r in Hm. now left.
        + right. replace (k + S i) with (S k + i) in Hm by lia. eapply IH; eauto.
    Qed.

    Lemma is_ready_gen_nil : forall e tx, is_ready_gen bm e tx = [] ->
      (forall j v, nth_error (e_outputs e) j = Some v -> out_msgs j v = []) /\
      (forall i b, nth_error (e_blocks e) i = Some b -> bm e tx i b = []).
    Proof.
      intros e tx H; unfold is_ready_gen in H.
      repeat (apply app_eq_nil in H; let H0 := fresh "H" in destruct H as [H0 H]).
      split.
      - intros j v Hj. exact (outs_msgs_nil _ 0 H2 j v Hj).
      - intros i b Hi. exact (blocks_msgs_nil e tx _ 0 H i b Hi).
    Qed.

    Lemma is_ready_gen_in_out : forall e tx j v m, nth_error (e_outputs e) j = Some v -> In m (out_msgs j v) -> In m (is_ready_gen bm e tx).
    Proof.
      intros e tx j v m Hj Hm; unfold is_ready_gen.
      apply in_or_app; right; apply in_or_app; right; apply in_or_app; left.
      exact (outs_msgs_in _ 0 j v m Hj Hm).
    Qed.

    Lemma is_ready_gen_in_block : forall e tx i b m, nth_error (e_blocks e) i = Some b -> In m (bm e tx i b) -> In m (is_ready_gen bm e tx).
    Proof.
      intros e tx i b m Hi Hm; unfold is_ready_gen.
      do 4 (apply in_or_app; right).
      exact (blocks_msgs_in e tx _ 0 i b m Hi Hm).
    Qed.
  End GenFacts.

  (* what both versions of the check establish when they report nothing … *)
  Definition ready_core (e : engine T) (tx : texts) : Prop :=
    (forall j v, nth_error (e_outputs e) j = Some v ->
       ov_terms v <> [] /\ ov_defuzzifier v <> None /\ (is_integral (ov_defuzzifier v) = true -> ov_aggregation v <> None)) /\
    (forall i b, nth_error (e_blocks e) i = Some b ->
       (b_conjunction b = None -> conjunction_needed tx i b = 0) /\
       (b_implication b = None -> implication_needed e b = 0)).
  (* … and what only the fixed one does *)
  Definition disjunction_checked (e : engine T) (tx : texts) : Prop :=
    forall i b, nth_error (e_blocks e) i = Some b -> b_disjunction b = None -> disjunction_needed tx i b = 0.

  Lemma out_msgs_nil_facts : forall j v, out_msgs j v = [] ->
    ov_terms v <> [] /\ ov_defuzzifier v <> None /\ (is_integral (ov_defuzzifier v) = true -> ov_aggregation v <> None).
  Proof.
    intros j v H; unfold out_msgs in H.
    apply app_eq_nil in H; destruct H as [H1 H]; apply app_eq_nil in H; destruct H as [H2 H3].
    repeat split.
    - intro E; rewrite E in H1; discriminate.
    - intro E; rewrite E in H2; discriminate.
    - intros Hi E; rewrite E, Hi in H3; discriminate.
  Qed.

  Lemma needed_guard : forall (n : nat) (A : Type) (o : option A) (l : list msg) (m : msg),
    (if Nat.ltb 0 n && negb (is_some o) then m :: l else []) = [] -> o = None -> n = 0.
  Proof.
    intros n A o l m H E; subst o; cbn [is_some negb] in H; rewrite andb_true_r in H.
    destruct n; [reflexivity | discriminate].
  Qed.

  Lemma ready_as_written_core : forall e tx, is_ready_as_written e tx = [] -> ready_core e tx.
  Proof.
    intros e tx H; apply is_ready_gen_nil in H; destruct H as [Ho Hb]; split.
    - intros j v Hj; apply (out_msgs_nil_facts j); auto.
    - intros i b Hi; specialize (Hb i b Hi); unfold block_msgs_as_written in Hb.
      apply app_eq_nil in Hb; destruct Hb as [_ Hb]; apply app_eq_nil in Hb; destruct Hb as [Hc Him].
      split; intro E.
      + eapply needed_guard; eauto.
      + unfold implication_msg in Him; eapply needed_guard; eauto.
  Qed.

  Lemma ready_fixed_core : forall e tx, is_ready_fixed e tx = [] -> ready_core e tx /\ disjunction_checked e tx.
  Proof.
    intros e tx H; apply is_ready_gen_nil in H; destruct H as [Ho Hb]; split; [split |].
    - intros j v Hj; apply (out_msgs_nil_facts j); auto.
    - intros i b Hi; specialize (Hb i b Hi); unfold block_msgs_fixed in Hb.
      apply app_eq_nil in Hb; destruct Hb as [_ Hb]; apply app_eq_nil in Hb; destruct Hb as [Hc Hb];
        apply app_eq_nil in Hb; destruct Hb as [Hd Him].
      split; intro E.
      + eapply needed_guard; eauto.
      + unfold implication_msg in Him; eapply needed_guard; eauto.
    - intros i b Hi E; specialize (Hb i b Hi); unfold block_msgs_fixed in Hb.
      apply app_eq_nil in Hb; destruct Hb as [_ Hb]; apply app_eq_nil in Hb; destruct Hb as [Hc Hb];
        apply app_eq_nil in Hb; destruct Hb as [Hd Him].
      unfold disjunction_msg in Hd; eapply needed_guard; eauto.
  Qed.

  (* the fixed check leaves no hole (for whitespace-separated rules) *)
  Lemma disjunction_checked_no_hole : forall e tx, disjunction_checked e tx -> ws_tokens e tx -> ~ disjunction_hole e.
  Proof.
    intros e tx Hd Hws (b & Hb & _ & Hnone & r & x & Hr & Hl & Hx & Hu).
    destruct (In_nth_error_ex _ _ Hb) as [i Hi]; destruct (In_nth_error_ex _ _ Hr) as [k Hk].
    pose proof (Hd i b Hi Hnone) as Hz; unfold disjunction_needed in Hz.
    pose proof (count_rules_zero _ _ 0 Hz k r Hk) as Hf; cbn beta in Hf.
    pose proof (renders_text_has x (tx i k) false (Hws i b k r x Hi Hk Hl Hx) Hu) as Ht.
    cbn [rd_kw Nat.add] in Ht, Hf. congruence.
  Qed.

  (* ================================================================ 3. process *)
  Variable term_err : term T -> bool -> option err.
  Variable trig : nat -> list nat.

  Notation aact := (@aact T).
  Notation flog := (@flog T).

  (* ---- 3a. a completed walk had its operators *)
  Lemma antecedent_none_ops : forall conj disj e x, antecedent_raises term_err conj disj e x = None ->
    (uses true x = true -> conj = true) /\ (uses false x = true -> disj = true).
  Proof.
    intros conj disj e x; induction x as [v hs t | a l IHl r IHr]; intro H.
    - split; discriminate.
    - cbn [antecedent_raises] in H.
      destruct (if a then conj else disj) eqn:Eop; [| discriminate].
      destruct (antecedent_raises term_err conj disj e l) eqn:El; [discriminate |].
      destruct (IHl eq_refl) as [Hl1 Hl2]; destruct (IHr H) as [Hr1 Hr2].
      split; intro Hu; cbn [uses] in Hu; destruct a; cbn [Bool.eqb orb] in Hu; auto;
        apply orb_true_iff in Hu; destruct Hu; auto.
  Qed.

  Lemma run_interleaved_ok_activations : forall e b fires krs log log',
    run_interleaved term_err e b fires krs log = Ok log' ->
    forall k r, In (k, r) krs -> rule_loaded r = true -> rule_activate term_err e b r = None.
  Proof.
    intros e b fires; induction krs as [| [k0 r0] krs IH]; intros log log' H k r Hin Hl.
    - contradiction.
    - cbn [run_interleaved] in H. destruct Hin as [E | Hin].
      + injection E as -> ->. rewrite Hl in H. destruct (rule_activate term_err e b r); [discriminate | reflexivity].
      + destruct (rule_loaded r0); [| eauto].
        destruct (rule_activate term_err e b r0); [discriminate |].
        destruct (fires k0); [| eauto].
        destruct (rule_trigger e b r0 log); [eauto | discriminate].
  Qed.

  Lemma run_degrees_none_activations : forall e b rs, run_degrees term_err e b rs = None ->
    forall r, In r rs -> rule_loaded r = true -> rule_activate term_err e b r = None.
  Proof.
    intros e b; induction rs as [| r0 rs IH]; intros H r Hin Hl; [contradiction |].
    cbn [run_degrees] in H. destruct Hin as [-> | Hin].
    - rewrite Hl in H. destruct (rule_activate term_err e b r); [discriminate | reflexivity].
    - destruct (rule_loaded r0); [| eauto]. destruct (rule_activate term_err e b r0); [discriminate | eauto].
  Qed.

  Lemma in_indexed : forall (rs : list (rule T)) r, In r rs -> exists k, In (k, r) (indexed rs).
  Proof.
    intros rs r H; unfold indexed. generalize 0.
    induction rs as [| r0 rs IH]; intro n; [contradiction |].
    cbn [List.length seq combine]. destruct H as [-> | H].
    - exists n; now left.
    - destruct (IH H (S n)) as [k Hk]; exists k; now right.
  Qed.

  Lemma block_activate_ok_activations : forall e i b log log', block_activate term_err trig e i b log = Ok log' ->
    forall r, In r (b_rules b) -> rule_loaded r = true -> rule_activate term_err e b r = None.
  Proof.
    intros e i b log log' H r Hin Hl; unfold block_activate in H.
    destruct (in_indexed _ _ Hin) as [k Hk].
    destruct (b_activation b) as [[| n th | n th | n | n | | c th] |]; try discriminate;
      try (eapply run_interleaved_ok_activations; eauto; fail).
    - eapply run_interleaved_ok_activations; eauto. apply in_rev; rewrite rev_involutive; exact Hk.
    - destruct (run_degrees term_err e b (b_rules b)) eqn:E; [discriminate |]. eapply run_degrees_none_activations; eauto.
    - destruct (run_degrees term_err e b (b_rules b)) eqn:E; [discriminate |]. eapply run_degrees_none_activations; eauto.
    - destruct (run_degrees term_err e b (b_rules b)) eqn:E; [discriminate |]. eapply run_degrees_none_activations; eauto.
  Qed.

  Lemma run_blocks_ok_activations : forall e bs i log log', run_blocks term_err trig e i bs log = Ok log' ->
    forall b r, In b bs -> b_enabled b = true -> In r (b_rules b) -> rule_loaded r = true -> rule_activate term_err e b r = None.
  Proof.
    intros e; induction bs as [| b0 bs IH]; intros i log log' H b r Hb Hen Hr Hl; [contradiction |].
    cbn [run_blocks] in H. destruct Hb as [-> | Hb].
    - rewrite Hen in H. destruct (block_activate term_err trig e i b log) eqn:E; [| discriminate].
      eapply block_activate_ok_activations; eauto.
    - destruct (b_enabled b0); [| eauto]. destruct (block_activate term_err trig e i b0 log); [eauto | discriminate].
  Qed.

  (* a completed process() never met the hole *)
  Lemma process_none_no_hole : forall e, process_raises term_err trig e = None -> ~ disjunction_hole e.
  Proof.
    intros e H (b & Hb & Hen & Hnone & r & x & Hr & Hl & Hx & Hu).
    unfold process_raises in H. destruct (run_blocks term_err trig e 0 (e_blocks e) []) eqn:E; [| discriminate].
    pose proof (run_blocks_ok_activations e _ _ _ _ E b r Hb Hen Hr Hl) as Ha.
    unfold rule_activate in Ha; rewrite Hx, Hnone in Ha.
    destruct (antecedent_none_ops _ _ _ _ Ha) as [_ Hd]. specialize (Hd Hu). discriminate.
  Qed.

  (* ---- 3b. nothing raises *)
  Definition outputs_have_terms (e : engine T) : Prop := forall j v, nth_error (e_outputs e) j = Some v -> ov_terms v <> [].
  Definition inputs_terms_ok (e : engine T) : Prop := forall iv t, In iv (e_inputs e) -> In t (iv_terms iv) -> term_err t false = None.

  Lemma term_ref_ok_nth : forall hs t (terms : list (term T)), term_ref_ok hs t terms = true -> last_is_any hs = false ->
    exists k tm, t = Some k /\ nth_error terms k = Some tm.
  Proof.
    intros hs t terms H Hany; unfold term_ref_ok in H; rewrite Hany in H; cbn [orb] in H.
    destruct t as [k |]; [| discriminate]. apply Nat.ltb_lt in H.
    destruct (nth_error terms k) eqn:E; [eauto | apply nth_error_None in E; lia].
  Qed.

  Lemma antecedent_ok : forall conj disj e x,
    outputs_have_terms e -> inputs_terms_ok e -> expr_ok e x = true ->
    (uses true x = true -> conj = true) -> (uses false x = true -> disj = true) ->
    antecedent_raises term_err conj disj e x = None.
  Proof.
    intros conj disj e x Hout Hin; induction x as [v hs t | a l IHl r IHr]; intros Hok Hc Hd.
    - cbn [antecedent_raises]. destruct v as [i | j]; cbn [expr_ok var_info] in *.
      + destruct (nth_error (e_inputs e) i) as [iv |] eqn:Ei; [| discriminate]; cbn [option_map].
        apply andb_true_iff in Hok; destruct Hok as [Hne Href].
        destruct (iv_terms iv) as [| t0 ts] eqn:Et; [discriminate |].
        destruct (negb (iv_enabled iv)); [reflexivity |].
        destruct (last_is_any hs) eqn:Hany; [reflexivity |].
        destruct (term_ref_ok_nth _ _ _ Href Hany) as (k & tm & -> & Hk). rewrite Hk.
        apply (Hin iv tm); [eapply nth_error_In; eauto | rewrite Et; eapply nth_error_In; eauto].
      + destruct (nth_error (e_outputs e) j) as [ov |] eqn:Ej; [| discriminate]; cbn [option_map].
        pose proof (Hout j ov Ej) as Hne.
        destruct (ov_terms ov) as [| t0 ts] eqn:Et; [congruence |]. cbn [is_nil orb] in Hok.
        destruct (negb (ov_enabled ov)); [reflexivity |].
        destruct (last_is_any hs) eqn:Hany; [reflexivity |].
        destruct (term_ref_ok_nth _ _ _ Hok Hany) as (k & tm & -> & Hk). now rewrite Hk.
    - cbn [expr_ok] in Hok; apply andb_true_iff in Hok; destruct Hok as [Hl Hr].
      cbn [antecedent_raises uses] in *.
      assert (Hop : (if a then conj else disj) = true).
      { destruct a; [apply Hc | apply Hd]; reflexivity. }
      rewrite Hop, IHl.
      + apply IHr; auto; intro Hu; [apply Hc | apply Hd]; rewrite Hu; now rewrite !orb_true_r.
      + exact Hl.
      + intro Hu; apply Hc; rewrite Hu; now rewrite orb_true_r.
      + intro Hu; apply Hd; rewrite Hu; now rewrite orb_true_r.
  Qed.

  (* the invariant of the fuzzy outputs: every Activated sits in an existing output variable, its term is one of the
     variable's, and it carries an implication operator whenever the variable is defuzzified by integration *)
  Definition log_ok (e : engine T) (log : flog) : Prop :=
    forall j a, In (j, a) log -> exists v, nth_error (e_outputs e) j = Some v /\ In (aa_term a) (ov_terms v) /\
                                           (is_integral (ov_defuzzifier v) = true -> aa_impl a = true).

  Lemma modify_ok : forall e impl cs log,
    outputs_have_terms e -> forallb (concl_ok e) cs = true ->
    (impl = false -> existsb (concl_integral e) cs = false) ->
    log_ok e log -> exists log', modify e impl cs log = Ok log' /\ log_ok e log'.
  Proof.
    intros e impl cs; induction cs as [| c cs IH]; intros log Hout Hok Himpl Hlog.
    - exists log; split; [reflexivity | exact Hlog].
    - cbn [forallb] in Hok; apply andb_true_iff in Hok; destruct Hok as [Hc Hcs].
      assert (Himpl' : impl = false -> existsb (concl_integral e) cs = false).
      { intro E; specialize (Himpl E); cbn [existsb] in Himpl; apply orb_false_iff in Himpl; tauto. }
      cbn [modify]. unfold concl_ok in Hc.
      destruct (nth_error (e_outputs e) (c_var c)) as [v |] eqn:Ev; [| discriminate].
      pose proof (Hout _ _ Ev) as Hne.
      destruct (ov_terms v) as [| t0 ts] eqn:Et; [congruence |]. cbn [is_nil orb] in Hc. apply Nat.ltb_lt in Hc.
      destruct (ov_enabled v); [| apply IH; auto].
      destruct (nth_error (t0 :: ts) (c_term c)) as [tm |] eqn:Etm; [| apply nth_error_None in Etm; lia].
      apply IH; auto.
      intros j a Hin; apply in_app_or in Hin; destruct Hin as [Hin | [E | []]]; [auto |].
      injection E as <- <-. exists v; split; [exact Ev |]; split.
      + rewrite Et; eapply nth_error_In; eauto.
      + cbn [aa_impl]. intro Hint. destruct impl; [reflexivity |].
        specialize (Himpl eq_refl); cbn [existsb] in Himpl; apply orb_false_iff in Himpl; destruct Himpl as [Hci _].
        unfold concl_integral in Hci; rewrite Ev in Hci; congruence.
  Qed.

  (* a block whose loaded rules all activate and trigger cleanly *)
  Definition block_good (e : engine T) (b : block T) : Prop :=
    forall r, In r (b_rules b) -> rule_loaded r = true ->
      rule_activate term_err e b r = None /\
      forall log, log_ok e log -> exists log', rule_trigger e b r log = Ok log' /\ log_ok e log'.

  Lemma run_interleaved_good : forall e b fires, block_good e b -> forall krs log,
    (forall k r, In (k, r) krs -> In r (b_rules b)) -> log_ok e log ->
    exists log', run_interleaved term_err e b fires krs log = Ok log' /\ log_ok e log'.
  Proof.
    intros e b fires Hg; induction krs as [| [k r] krs IH]; intros log Hsub Hlog.
    - exists log; split; [reflexivity | exact Hlog].
    - assert (Hsub' : forall k r, In (k, r) krs -> In r (b_rules b)) by (intros; eapply Hsub; right; eauto).
      cbn [run_interleaved]. destruct (rule_loaded r) eqn:Hl; [| apply IH; auto].
      destruct (Hg r (Hsub k r (or_introl eq_refl)) Hl) as [Ha Ht]. rewrite Ha.
      destruct (fires k); [| apply IH; auto].
      destruct (Ht log Hlog) as (log1 & -> & Hlog1). apply IH; auto.
  Qed.

  Lemma run_degrees_good : forall e b, block_good e b -> forall rs, incl rs (b_rules b) -> run_degrees term_err e b rs = None.
  Proof.
    intros e b Hg; induction rs as [| r rs IH]; intro Hsub; [reflexivity |].
    cbn [run_degrees]. assert (Hsub' : incl rs (b_rules b)) by (intros x Hx; apply Hsub; now right).
    destruct (rule_loaded r) eqn:Hl; [| auto].
    destruct (Hg r (Hsub r (or_introl eq_refl)) Hl) as [-> _]; auto.
  Qed.

  Lemma run_triggers_good : forall e b, block_good e b -> forall order log, log_ok e log ->
    exists log', run_triggers e b order log = Ok log' /\ log_ok e log'.
  Proof.
    intros e b Hg; induction order as [| k order IH]; intros log Hlog.
    - exists log; split; [reflexivity | exact Hlog].
    - cbn [run_triggers]. destruct (nth_error (b_rules b) k) as [r |] eqn:Ek; [| auto].
      destruct (rule_loaded r) eqn:Hl; [| auto].
      destruct (Hg r (nth_error_In _ _ Ek) Hl) as [_ Ht].
      destruct (Ht log Hlog) as (log1 & -> & Hlog1). auto.
  Qed.

  Lemma indexed_sub : forall (rs : list (rule T)) k r, In (k, r) (indexed rs) -> In r rs.
  Proof. intros rs k r H; unfold indexed in H; eapply in_combine_r; eauto. Qed.

  Lemma block_activate_good : forall e i b log, block_good e b -> b_activation b <> None -> log_ok e log ->
    exists log', block_activate term_err trig e i b log = Ok log' /\ log_ok e log'.
  Proof.
    intros e i b log Hg Ha Hlog; unfold block_activate.
    destruct (b_activation b) as [[| n th | n th | n | n | | c th] |]; try congruence;
      try (apply run_interleaved_good; auto; intros; eapply indexed_sub; eauto; fail);
      try (rewrite run_degrees_good by (auto using incl_refl); apply run_triggers_good; auto; fail).
    apply run_interleaved_good; auto. intros k r Hin; apply in_rev in Hin; eapply indexed_sub; eauto.
  Qed.

  Lemma run_blocks_good : forall e bs i log,
    (forall b, In b bs -> b_enabled b = true -> block_good e b /\ b_activation b <> None) -> log_ok e log ->
    exists log', run_blocks term_err trig e i bs log = Ok log' /\ log_ok e log'.
  Proof.
    intros e; induction bs as [| b bs IH]; intros i log Hg Hlog.
    - exists log; split; [reflexivity | exact Hlog].
    - cbn [run_blocks]. assert (Hg' : forall b, In b bs -> b_enabled b = true -> block_good e b /\ b_activation b <> None)
        by (intros; apply Hg; [now right | assumption]).
      destruct (b_enabled b) eqn:Hen; [| auto].
      destruct (Hg b (or_introl eq_refl) Hen) as [Hb Ha].
      destruct (block_activate_good e i b log Hb Ha Hlog) as (log1 & -> & Hlog1). auto.
  Qed.

  (* ---- defuzzification *)
  Lemma fuzzy_of_in : forall j (log : flog) a, In a (fuzzy_of j log) -> In (j, a) log.
  Proof.
    intros j log a H; unfold fuzzy_of in H. apply in_map_iff in H; destruct H as ([j' a'] & E & H).
    cbn [snd] in E; subst a'. apply filter_In in H; destruct H as [H Hj]; cbn [fst] in Hj.
    apply Nat.eqb_eq in Hj; now subst j'.
  Qed.

  Lemma activated_raise_none : forall acts : list aact,
    (forall a, In a acts -> aa_impl a = true /\ term_err (aa_term a) false = None) -> activated_raise term_err acts = None.
  Proof.
    induction acts as [| a acts IH]; intro H; [reflexivity |].
    cbn [activated_raise]. destruct (H a (or_introl eq_refl)) as [-> ->]. apply IH; intros; apply H; now right.
  Qed.

  Lemma group_reps_sub : forall (acts : list aact) seen t, In t (group_reps seen acts) -> exists a, In a acts /\ aa_term a = t.
  Proof.
    induction acts as [| a acts IH]; intros seen t H; [contradiction |].
    cbn [group_reps] in H. destruct (existsb _ seen).
    - destruct (IH _ _ H) as (a' & Ha' & E); exists a'; split; [now right | exact E].
    - destruct H as [<- | H]; [exists a; split; [now left | reflexivity] |].
      destruct (IH _ _ H) as (a' & Ha' & E); exists a'; split; [now right | exact E].
  Qed.

  Lemma terms_raise_none : forall ts m, (forall t, In t ts -> term_err t m = None) -> terms_raise term_err m ts = None.
  Proof.
    induction ts as [| t ts IH]; intros m H; [reflexivity |].
    cbn [terms_raise]. rewrite (H t (or_introl eq_refl)). apply IH; intros; apply H; now right.
  Qed.

  Lemma wtype_eqb_eq : forall x y : wtype, wtype_eqb x y = true <-> x = y.
  Proof. intros [] []; cbn; split; intro; try reflexivity; try discriminate. Qed.

  Lemma weighted_none : forall ty v (acts : list aact),
    (forall a, In a acts -> In (aa_term a) (ov_terms v)) ->
    (forall t, In t (ov_terms v) -> term_err t (tsukamoto_mode ty t) = None) ->
    (ty = WAutomatic -> forall t t', In t (ov_terms v) -> In t' (ov_terms v) -> ready_term_wtype t = ready_term_wtype t') ->
    weighted_raises term_err ty acts = None.
  Proof.
    intros ty v acts Hsub Hterm Hhom; unfold weighted_raises.
    assert (Hreps : forall t, In t (group_reps [] acts) -> In t (ov_terms v)).
    { intros t Ht; destruct (group_reps_sub _ _ _ Ht) as (a & Ha & <-); auto. }
    destruct ty.
    - (* Automatic *)
      specialize (Hhom eq_refl). unfold infer_wtype.
      destruct acts as [| a0 rest]; [reflexivity |].
      assert (Hall : forallb (fun b : aact => wtype_eqb (ready_term_wtype (aa_term b)) (ready_term_wtype (aa_term a0))) rest = true).
      { apply forallb_forall; intros b Hb; apply wtype_eqb_eq; apply Hhom; apply Hsub; [now right | now left]. }
      rewrite Hall. apply terms_raise_none; intros t Ht.
      pose proof (Hterm t (Hreps t Ht)) as H; cbn [tsukamoto_mode] in H.
      rewrite (Hhom (aa_term a0) t (Hsub a0 (or_introl eq_refl)) (Hreps t Ht)). exact H.
    - apply terms_raise_none; intros t Ht; exact (Hterm t (Hreps t Ht)).
    - apply terms_raise_none; intros t Ht; exact (Hterm t (Hreps t Ht)).
  Qed.

  Lemma defuzz_raises_none : forall e j v log,
    nth_error (e_outputs e) j = Some v -> log_ok e log ->
    ov_defuzzifier v <> None -> (is_integral (ov_defuzzifier v) = true -> ov_aggregation v <> None) ->
    out_terms_ok term_err v -> defuzz_raises term_err j v log = None.
  Proof.
    intros e j v log Hj Hlog Hd Hagg Hterms; unfold defuzz_raises.
    destruct (negb (ov_enabled v)); [reflexivity |].
    assert (Hacts : forall a, In a (fuzzy_of j log) -> In (aa_term a) (ov_terms v) /\ (is_integral (ov_defuzzifier v) = true -> aa_impl a = true)).
    { intros a Ha; apply fuzzy_of_in in Ha; destruct (Hlog _ _ Ha) as (v' & Hv' & Hin & Himp).
      rewrite Hj in Hv'; injection Hv' as <-; auto. }
    unfold out_terms_ok in Hterms.
    destruct (ov_defuzzifier v) as [[k res | avg ty] |] eqn:Ed; [| | congruence].
    - unfold integral_raises. destruct (fuzzy_of j log) as [| a0 rest] eqn:Ef; [reflexivity |].
      destruct (ov_aggregation v); [| exfalso; apply Hagg; reflexivity]. cbn [is_some].
      apply activated_raise_none; intros a Ha; destruct (Hacts a Ha) as [Hin Himp]; split; [apply Himp; reflexivity | auto].
    - destruct Hterms as [Ht Hh]. eapply weighted_none; eauto. intros a Ha; apply (Hacts a Ha).
  Qed.

  Lemma defuzz_all_none : forall e log vs k,
    (forall idx v, nth_error vs idx = Some v -> defuzz_raises term_err (k + idx) v log = None) ->
    defuzz_all term_err k vs log = None.
  Proof.
    intros e log; induction vs as [| v vs IH]; intros k H; [reflexivity |].
    cbn [defuzz_all]. pose proof (H 0 v eq_refl) as H0; rewrite Nat.add_0_r in H0; rewrite H0.
    apply IH; intros idx v' Hv'. replace (S k + idx) with (k + S idx) by lia. apply H; exact Hv'.
  Qed.

  (* ---- 3c. the core theorem: readiness facts + no hole => process completes *)
  Theorem process_ok_core : forall e tx,
    ready_core e tx -> has_activation e -> ws_tokens e tx -> wf_terms term_err e -> ~ disjunction_hole e ->
    process_raises term_err trig e = None.
  Proof.
    intros e tx [Hro Hrb] Hact Hws (Hrules & Hins & Houts) Hhole.
    assert (Hterms : outputs_have_terms e) by (intros j v Hj; apply (Hro j v Hj)).
    assert (Hgood : forall b, In b (e_blocks e) -> b_enabled b = true -> block_good e b /\ b_activation b <> None).
    { intros b Hb Hen; split; [| apply Hact; auto].
      destruct (In_nth_error_ex _ _ Hb) as [i Hi]. destruct (Hrb i b Hi) as [Hconj Himpl].
      intros r Hr Hl. destruct (In_nth_error_ex _ _ Hr) as [k Hk].
      pose proof (Hrules b r Hb Hr) as Hok; unfold rule_ok in Hok; rewrite Hl in Hok; cbn [negb orb] in Hok.
      apply andb_true_iff in Hok; destruct Hok as [Hx Hcs].
      pose proof Hl as Hl'; unfold rule_loaded in Hl'.
      destruct (r_antecedent r) as [x |] eqn:Ex; [| discriminate].
      split.
      - unfold rule_activate; rewrite Ex. apply antecedent_ok; auto.
        + intro Hu. destruct (b_conjunction b) eqn:Ec; [reflexivity | exfalso].
          pose proof (count_rules_zero _ _ 0 (Hconj eq_refl) k r Hk) as Hf; cbn beta in Hf.
          pose proof (renders_text_has x (tx i k) true (Hws i b k r x Hi Hk Hl Ex) Hu) as Ht.
          cbn [rd_kw Nat.add] in Ht, Hf; congruence.
        + intro Hu. destruct (b_disjunction b) eqn:Ed; [reflexivity | exfalso].
          apply Hhole; exists b; repeat split; auto. exists r, x; auto.
      - intros log Hlog; unfold rule_trigger; rewrite Hl.
        destruct (r_enabled r); [| exists log; auto].
        apply modify_ok; auto.
        intro Eimp. destruct (b_implication b) eqn:Ei; [discriminate |].
        pose proof (count_rules_zero _ _ 0 (Himpl eq_refl) k r Hk) as Hf; cbn beta in Hf.
        unfold rule_needs_implication in Hf; rewrite Hl in Hf; exact Hf. }
    unfold process_raises.
    destruct (run_blocks_good e (e_blocks e) 0 [] Hgood) as (log & -> & Hlog); [intros j a [] |].
    apply (defuzz_all_none e); intros idx v Hv; cbn [Nat.add].
    destruct (Hro idx v Hv) as (_ & Hd & Hagg).
    eapply defuzz_raises_none; eauto. apply Houts; eapply nth_error_In; eauto.
  Qed.

  (* the sharp form: a ready engine (either check) completes exactly when it has no hole *)
  Theorem process_ok_iff_no_hole : forall e tx,
    ready_core e tx -> has_activation e -> ws_tokens e tx -> wf_terms term_err e ->
    (process_raises term_err trig e = None <-> ~ disjunction_hole e).
  Proof.
    intros e tx Hr Ha Hws Hwf; split; [apply process_none_no_hole | eapply process_ok_core; eauto].
  Qed.
End Proofs.

(* ================================================================ 3d. the statements about the two checks *)
Theorem ready_fixed_process_ok : ready_process_ok_statement (@is_ready_fixed).
Proof.
  intros T term_err trig e tx Hr Ha Hws Hwf.
  destruct (ready_fixed_core e tx Hr) as [Hc Hd].
  eapply process_ok_core; eauto. eapply disjunction_checked_no_hole; eauto.
Qed.

(* the code as written: true with the extra hypothesis that no enabled block lacking a disjunction operator has a loaded
   rule using `or` — and that hypothesis is exactly what is missing *)
Theorem ready_as_written_process_ok_partial :
  forall (T : Type) (term_err : term T -> bool -> option err) (trig : nat -> list nat) (e : engine T) (tx : texts),
    is_ready_as_written e tx = [] -> has_activation e -> ws_tokens e tx -> wf_terms term_err e ->
    ~ disjunction_hole e -> process_raises term_err trig e = None.
Proof. intros; eapply process_ok_core; eauto using ready_as_written_core. Qed.

Theorem ready_as_written_process_iff :
  forall (T : Type) (term_err : term T -> bool -> option err) (trig : nat -> list nat) (e : engine T) (tx : texts),
    is_ready_as_written e tx = [] -> has_activation e -> ws_tokens e tx -> wf_terms term_err e ->
    (process_raises term_err trig e = None <-> ~ disjunction_hole e).
Proof. intros; eapply process_ok_iff_no_hole; eauto using ready_as_written_core. Qed.

(* ================================================================ 4. missing operators are reported *)
Section Reported.
  Context {T : Type}.
  Variable bm : engine T -> texts -> nat -> block T -> list msg.

  Lemma guard_in : forall (n : nat) (A : Type) (o : option A) (l : list msg) (m : msg),
    0 < n -> o = None -> In m (if Nat.ltb 0 n && negb (is_some o) then m :: l else []).
  Proof.
    intros n A o l m Hn ->; cbn [is_some negb]; rewrite andb_true_r.
    destruct n; [lia | now left].
  Qed.

  Lemma conjunction_needed_pos : forall (e : engine T) tx i b, ws_tokens e tx -> nth_error (e_blocks e) i = Some b ->
    block_uses true b -> 0 < conjunction_needed tx i b.
  Proof.
    intros e tx i b Hws Hi (r & x & Hr & Hl & Hx & Hu).
    destruct (In_nth_error_ex _ _ Hr) as [k Hk]. unfold conjunction_needed.
    eapply count_rules_pos; eauto. cbn beta; cbn [Nat.add].
    exact (renders_text_has x (tx i k) true (Hws i b k r x Hi Hk Hl Hx) Hu).
  Qed.

  Lemma disjunction_needed_pos : forall (e : engine T) tx i b, ws_tokens e tx -> nth_error (e_blocks e) i = Some b ->
    block_uses false b -> 0 < disjunction_needed tx i b.
  Proof.
    intros e tx i b Hws Hi (r & x & Hr & Hl & Hx & Hu).
    destruct (In_nth_error_ex _ _ Hr) as [k Hk]. unfold disjunction_needed.
    eapply count_rules_pos; eauto. cbn beta; cbn [Nat.add].
    exact (renders_text_has x (tx i k) false (Hws i b k r x Hi Hk Hl Hx) Hu).
  Qed.

  Lemma implication_needed_pos : forall (e : engine T) b r, In r (b_rules b) -> rule_needs_implication e r = true ->
    0 < implication_needed e b.
  Proof.
    intros e b r Hr Hn. destruct (In_nth_error_ex _ _ Hr) as [k Hk]. unfold implication_needed.
    eapply count_rules_pos; eauto.
  Qed.

  (* the part shared by both versions of the block check *)
  Hypothesis bm_conj : forall e tx i b, 0 < conjunction_needed tx i b -> b_conjunction b = None ->
    In (MMissing OpConjunction i (conjunction_needed tx i b)) (bm e tx i b).
  Hypothesis bm_impl : forall e tx i b, 0 < implication_needed e b -> b_implication b = None ->
    In (MMissing OpImplication i (implication_needed e b)) (bm e tx i b).

  Lemma reported_conjunction : forall (e : engine T) tx idx, ws_tokens e tx ->
    needs OpConjunction idx e -> absent OpConjunction idx e -> exists n, In (MMissing OpConjunction idx n) (is_ready_gen bm e tx).
  Proof.
    intros e tx idx Hws (b & Hb & Hu) (b' & Hb' & Hnone). rewrite Hb in Hb'; injection Hb' as <-.
    eexists; eapply is_ready_gen_in_block; eauto. apply bm_conj; auto. eapply conjunction_needed_pos; eauto.
  Qed.

  Lemma reported_implication : forall (e : engine T) tx idx,
    needs OpImplication idx e -> absent OpImplication idx e -> exists n, In (MMissing OpImplication idx n) (is_ready_gen bm e tx).
  Proof.
    intros e tx idx (b & r & Hb & Hr & Hn) (b' & Hb' & Hnone). rewrite Hb in Hb'; injection Hb' as <-.
    eexists; eapply is_ready_gen_in_block; eauto. apply bm_impl; auto. eapply implication_needed_pos; eauto.
  Qed.

  Lemma reported_aggregation : forall (e : engine T) tx idx,
    needs OpAggregation idx e -> absent OpAggregation idx e -> exists n, In (MMissing OpAggregation idx n) (is_ready_gen bm e tx).
  Proof.
    intros e tx idx (v & Hv & Hint) (v' & Hv' & Hnone). rewrite Hv in Hv'; injection Hv' as <-.
    exists 0; eapply is_ready_gen_in_out; eauto. unfold out_msgs.
    apply in_or_app; right; apply in_or_app; right. rewrite Hnone, Hint; now left.
  Qed.

  Lemma reported_defuzzifier : forall (e : engine T) tx idx,
    needs OpDefuzzifier idx e -> absent OpDefuzzifier idx e -> exists n, In (MMissing OpDefuzzifier idx n) (is_ready_gen bm e tx).
  Proof.
    intros e tx idx (v & Hv) (v' & Hv' & Hnone). rewrite Hv in Hv'; injection Hv' as <-.
    exists 0; eapply is_ready_gen_in_out; eauto. unfold out_msgs.
    apply in_or_app; right; apply in_or_app; left. rewrite Hnone; now left.
  Qed.
End Reported.

Lemma as_written_conj : forall (T : Type) (e : engine T) tx i b, 0 < conjunction_needed tx i b -> b_conjunction b = None ->
  In (MMissing OpConjunction i (conjunction_needed tx i b)) (block_msgs_as_written e tx i b).
Proof.
  intros T e tx i b Hn Hnone; unfold block_msgs_as_written.
  apply in_or_app; right; apply in_or_app; left. apply guard_in; auto.
Qed.
Lemma as_written_impl : forall (T : Type) (e : engine T) tx i b, 0 < implication_needed e b -> b_implication b = None ->
  In (MMissing OpImplication i (implication_needed e b)) (block_msgs_as_written e tx i b).
Proof.
  intros T e tx i b Hn Hnone; unfold block_msgs_as_written, implication_msg.
  apply in_or_app; right; apply in_or_app; right. apply guard_in; auto.
Qed.
Lemma fixed_conj : forall (T : Type) (e : engine T) tx i b, 0 < conjunction_needed tx i b -> b_conjunction b = None ->
  In (MMissing OpConjunction i (conjunction_needed tx i b)) (block_msgs_fixed e tx i b).
Proof.
  intros T e tx i b Hn Hnone; unfold block_msgs_fixed.
  apply in_or_app; right; apply in_or_app; left. apply guard_in; auto.
Qed.
Lemma fixed_impl : forall (T : Type) (e : engine T) tx i b, 0 < implication_needed e b -> b_implication b = None ->
  In (MMissing OpImplication i (implication_needed e b)) (block_msgs_fixed e tx i b).
Proof.
  intros T e tx i b Hn Hnone; unfold block_msgs_fixed, implication_msg.
  apply in_or_app; right; apply in_or_app; right; apply in_or_app; right. apply guard_in; auto.
Qed.

Theorem missing_reported_fixed : forall op, missing_reported_statement (@is_ready_fixed) op.
Proof.
  intros op T e tx idx Hws Hn Ha; destruct op.
  - eapply reported_conjunction; eauto using fixed_conj.
  - destruct Hn as (b & Hb & Hu); destruct Ha as (b' & Hb' & Hnone). rewrite Hb in Hb'; injection Hb' as <-.
    eexists; eapply is_ready_gen_in_block; eauto. unfold block_msgs_fixed, disjunction_msg.
    apply in_or_app; right; apply in_or_app; right; apply in_or_app; left.
    apply guard_in; auto. eapply disjunction_needed_pos; eauto.
  - eapply reported_implication; eauto using fixed_impl.
  - eapply reported_aggregation; eauto.
  - eapply reported_defuzzifier; eauto.
Qed.

Theorem missing_reported_as_written_partial : forall op, op <> OpDisjunction -> missing_reported_statement (@is_ready_as_written) op.
Proof.
  intros op Hop T e tx idx Hws Hn Ha; destruct op.
  - eapply reported_conjunction; eauto using as_written_conj.
  - congruence.
  - eapply reported_implication; eauto using as_written_impl.
  - eapply reported_aggregation; eauto.
  - eapply reported_defuzzifier; eauto.
Qed.

(* the nested check does report a missing disjunction when the conjunction is needed and missing too *)
Theorem missing_disjunction_as_written_if_conjunction : forall (T : Type) (e : engine T) tx idx b,
  ws_tokens e tx -> nth_error (e_blocks e) idx = Some b -> block_uses false b -> b_disjunction b = None ->
  block_uses true b -> b_conjunction b = None ->
  exists n, In (MMissing OpDisjunction idx n) (is_ready_as_written e tx).
Proof.
  intros T e tx idx b Hws Hb Hor Hd Hand Hc.
  eexists; eapply is_ready_gen_in_block; eauto. unfold block_msgs_as_written.
  apply in_or_app; right; apply in_or_app; left.
  pose proof (conjunction_needed_pos e tx idx b Hws Hb Hand) as Hn.
  rewrite Hc; cbn [is_some negb]; rewrite andb_true_r.
  destruct (conjunction_needed tx idx b) eqn:E; [lia |]. cbn [Nat.ltb Nat.leb]. right.
  unfold disjunction_msg. apply guard_in; auto. eapply disjunction_needed_pos; eauto.
Qed.

(* ================================================================ 5. the witness of F9 *)
Definition w_tri (n : string) : term unit := TShape n (Sh_Triangle tt tt tt tt).
Definition w_input : input_var unit :=
  {| iv_name := "a"; iv_enabled := true; iv_min := tt; iv_max := tt; iv_lock_range := false;
     iv_terms := [w_tri "lo"; w_tri "hi"]; iv_value := tt |}.
Definition w_output : output_var unit :=
  {| ov_name := "o"; ov_enabled := true; ov_min := tt; ov_max := tt; ov_lock_range := false; ov_lock_previous := false;
     ov_default := tt; ov_aggregation := Some (SN S_Maximum); ov_defuzzifier := Some (DIntegral Centroid 100);
     ov_terms := [w_tri "x"]; ov_value := tt; ov_previous := tt; ov_fuzzy := [] |}.
(* if a is lo or a is hi then o is x *)
Definition w_rule : rule unit :=
  {| r_enabled := true; r_weight := tt;
     r_antecedent := Some (EOp false (EProp (VIn 0) [] (Some 0)) (EProp (VIn 0) [] (Some 1)));
     r_consequent := [{| c_var := 0; c_hedges := []; c_term := 0 |}]; r_degree := tt; r_triggered := false |}.
(* conjunction PRESENT, disjunction absent *)
Definition w_block : block unit :=
  {| b_name := ""; b_enabled := true; b_conjunction := Some (TN T_Minimum); b_disjunction := None;
     b_implication := Some (TN T_Minimum); b_activation := Some AGeneral; b_rules := [w_rule] |}.
Definition w_engine : engine unit :=
  {| e_name := "F9"; e_inputs := [w_input]; e_outputs := [w_output]; e_blocks := [w_block] |}.
Definition w_texts : texts := texts_of [[["a"; "is"; "lo"; "or"; "a"; "is"; "hi"]]]%string.
Definition no_term_err : term unit -> bool -> option err := fun _ _ => None.
Definition no_trig : nat -> list nat := fun _ => [].

Lemma w_ready : is_ready_as_written w_engine w_texts = [].
Proof. vm_compute; reflexivity. Qed.
Lemma w_fixed_reports : is_ready_fixed w_engine w_texts = [MMissing OpDisjunction 0 1].
Proof. vm_compute; reflexivity. Qed.
Lemma w_has_activation : has_activation w_engine.
Proof. intros b [<- | []] _; discriminate. Qed.
Lemma w_ws_tokens : ws_tokens w_engine w_texts.
Proof.
  intros i b k r x Hb Hr _ Hx.
  destruct i as [| [| i]]; try discriminate. injection Hb as <-.
  destruct k as [| [| k]]; try discriminate. injection Hr as <-.
  injection Hx as <-.
  change (w_texts 0 0) with (List.app ["a"; "is"; "lo"]%string (rd_kw false :: ["a"; "is"; "hi"]%string)).
  apply R_op; apply R_prop.
Qed.
Lemma w_wf_terms : wf_terms no_term_err w_engine.
Proof.
  split; [| split].
  - intros b r [<- | []] [<- | []]; reflexivity.
  - intros iv t _ _; reflexivity.
  - intros v [<- | []]; intros t _; reflexivity.
Qed.
Lemma w_raises : process_raises no_term_err no_trig w_engine = Some EValue.
Proof. vm_compute; reflexivity. Qed.
Lemma w_hole : disjunction_hole w_engine.
Proof.
  exists w_block; split; [now left |]; split; [reflexivity |]; split; [reflexivity |].
  exists w_rule; eexists; split; [now left |]; split; [reflexivity |]; split; reflexivity.
Qed.
Lemma w_needs : needs OpDisjunction 0 w_engine /\ absent OpDisjunction 0 w_engine.
Proof.
  split; exists w_block; split; try reflexivity.
  exists w_rule; eexists; split; [now left |]; split; [reflexivity |]; split; reflexivity.
Qed.

Theorem ready_process_ok_refuted : ~ ready_process_ok_statement (@is_ready_as_written).
Proof.
  intro H.
  pose proof (H unit no_term_err no_trig w_engine w_texts w_ready w_has_activation w_ws_tokens w_wf_terms) as E.
  rewrite w_raises in E; discriminate.
Qed.

Theorem missing_reported_refuted : ~ missing_reported_statement (@is_ready_as_written) OpDisjunction.
Proof.
  intro H. destruct w_needs as [Hn Ha].
  destruct (H unit w_engine w_texts 0 w_ws_tokens Hn Ha) as [n Hin].
  rewrite w_ready in Hin; exact Hin.
Qed.

(* the second shape of the hole: conjunction and disjunction BOTH absent, rules using only `or` *)
Definition w_block2 : block unit :=
  {| b_name := ""; b_enabled := true; b_conjunction := None; b_disjunction := None;
     b_implication := Some (TN T_Minimum); b_activation := Some AGeneral; b_rules := [w_rule] |}.
Definition w_engine2 : engine unit :=
  {| e_name := "F9b"; e_inputs := [w_input]; e_outputs := [w_output]; e_blocks := [w_block2] |}.
Lemma w2_ready_and_raises :
  is_ready_as_written w_engine2 w_texts = [] /\ process_raises no_term_err no_trig w_engine2 = Some EValue.
Proof. split; vm_compute; reflexivity. Qed.

(* ================================================================ the statements for the check that mirrors the CURRENT code *)
Theorem ready_process_ok_current :
  if disjunction_check_nested then ~ ready_process_ok_statement (@is_ready) else ready_process_ok_statement (@is_ready).
Proof. first [exact ready_process_ok_refuted | exact ready_fixed_process_ok]. Qed.

Theorem missing_disjunction_reported_current :
  if disjunction_check_nested then ~ missing_reported_statement (@is_ready) OpDisjunction
  else missing_reported_statement (@is_ready) OpDisjunction.
Proof. first [exact missing_reported_refuted | exact (missing_reported_fixed OpDisjunction)]. Qed.

(* these hold for the current code whichever way the switch stands *)
Theorem ready_process_ok_partial :
  forall (T : Type) (term_err : term T -> bool -> option err) (trig : nat -> list nat) (e : engine T) (tx : texts),
    is_ready e tx = [] -> has_activation e -> ws_tokens e tx -> wf_terms term_err e ->
    ~ disjunction_hole e -> process_raises term_err trig e = None.
Proof.
  first [ exact ready_as_written_process_ok_partial
        | intros T term_err trig e tx Hr Ha Hws Hwf _; exact (ready_fixed_process_ok T term_err trig e tx Hr Ha Hws Hwf) ].
Qed.

Theorem ready_process_iff_no_hole :
  forall (T : Type) (term_err : term T -> bool -> option err) (trig : nat -> list nat) (e : engine T) (tx : texts),
    is_ready e tx = [] -> has_activation e -> ws_tokens e tx -> wf_terms term_err e ->
    (process_raises term_err trig e = None <-> ~ disjunction_hole e).
Proof.
  first [ exact ready_as_written_process_iff
        | intros T term_err trig e tx Hr Ha Hws Hwf; destruct (ready_fixed_core e tx Hr) as [Hc _];
          eapply process_ok_iff_no_hole; eauto ].
Qed.

Theorem missing_reported_partial : forall op, op <> OpDisjunction -> missing_reported_statement (@is_ready) op.
Proof.
  first [ exact missing_reported_as_written_partial | intros op _; exact (missing_reported_fixed op) ].
Qed.

(* the witness, packaged *)
Theorem ready_process_ok_witness :
  exists (e : engine unit) (tx : texts),
    is_ready_as_written e tx = [] /\ has_activation e /\ ws_tokens e tx /\ wf_terms no_term_err e /\
    process_raises no_term_err no_trig e = Some EValue /\
    needs OpDisjunction 0 e /\ absent OpDisjunction 0 e /\
    is_ready_fixed e tx = [MMissing OpDisjunction 0 1].
Proof.
  exists w_engine, w_texts.
  exact (conj w_ready (conj w_has_activation (conj w_ws_tokens (conj w_wf_terms (conj w_raises
         (conj (proj1 w_needs) (conj (proj2 w_needs) w_fixed_reports))))))).
Qed.

(* ================================================================ 6. non-vacuity: a fully equipped engine *)
(* two inputs, an integral and a weighted output, two blocks (General / Highest), rules with `and`, `or`, parentheses, a hedge *)
Definition g_const (n : string) : term unit := TShape n (Sh_Constant tt).
Definition g_input (n : string) : input_var unit :=
  {| iv_name := n; iv_enabled := true; iv_min := tt; iv_max := tt; iv_lock_range := false;
     iv_terms := [w_tri "lo"; w_tri "hi"]; iv_value := tt |}.
Definition g_out_integral (agg : option snormx) (d : option defuzzifier) : output_var unit :=
  {| ov_name := "o"; ov_enabled := true; ov_min := tt; ov_max := tt; ov_lock_range := false; ov_lock_previous := false;
     ov_default := tt; ov_aggregation := agg; ov_defuzzifier := d;
     ov_terms := [w_tri "x"; w_tri "y"]; ov_value := tt; ov_previous := tt; ov_fuzzy := [] |}.
Definition g_out_weighted (d : option defuzzifier) : output_var unit :=
  {| ov_name := "p"; ov_enabled := true; ov_min := tt; ov_max := tt; ov_lock_range := false; ov_lock_previous := false;
     ov_default := tt; ov_aggregation := None; ov_defuzzifier := d;
     ov_terms := [g_const "k1"; g_const "k2"]; ov_value := tt; ov_previous := tt; ov_fuzzy := [] |}.
Definition g_p (i t : nat) : expr := EProp (VIn i) [] (Some t).
(* if a is lo and b is hi or a is very hi then o is x and p is k1 *)
Definition g_rule0 : rule unit :=
  {| r_enabled := true; r_weight := tt;
     r_antecedent := Some (EOp false (EOp true (g_p 0 0) (g_p 1 1)) (EProp (VIn 0) [HG H_Very] (Some 1)));
     r_consequent := [{| c_var := 0; c_hedges := []; c_term := 0 |}; {| c_var := 1; c_hedges := []; c_term := 0 |}];
     r_degree := tt; r_triggered := false |}.
(* if ( a is lo or b is lo ) then o is y *)
Definition g_rule1 : rule unit :=
  {| r_enabled := true; r_weight := tt;
     r_antecedent := Some (EOp false (g_p 0 0) (g_p 1 0));
     r_consequent := [{| c_var := 0; c_hedges := []; c_term := 1 |}];
     r_degree := tt; r_triggered := false |}.
Definition g_block (c : option tnormx) (d : option snormx) (i : option tnormx) (a : activation unit) (rs : list (rule unit)) : block unit :=
  {| b_name := ""; b_enabled := true; b_conjunction := c; b_disjunction := d; b_implication := i;
     b_activation := Some a; b_rules := rs |}.
Definition g_engine : engine unit :=
  {| e_name := "good"; e_inputs := [g_input "a"; g_input "b"];
     e_outputs := [g_out_integral (Some (SN S_Maximum)) (Some (DIntegral Centroid 100)); g_out_weighted (Some (DWeighted true WAutomatic))];
     e_blocks := [g_block (Some (TN T_Minimum)) (Some (SN S_Maximum)) (Some (TN T_Minimum)) AGeneral [g_rule0];
                  g_block None (Some (SN S_Maximum)) (Some (TN T_Minimum)) (AHighest 1%Z) [g_rule1]] |}.
Definition g_texts : texts :=
  texts_of [[["a"; "is"; "lo"; "and"; "b"; "is"; "hi"; "or"; "a"; "is"; "very"; "hi"]];
            [["("; "a"; "is"; "lo"; "or"; "b"; "is"; "lo"; ")"]]]%string.
Definition g_trig : nat -> list nat := fun _ => [0].

Lemma g_ws_tokens : ws_tokens g_engine g_texts.
Proof.
  intros i b k r x Hb Hr _ Hx.
  destruct i as [| [| [| i]]]; try discriminate; injection Hb as <-;
    (destruct k as [| [| k]]; try discriminate); injection Hr as <-; injection Hx as <-.
  - change (g_texts 0 0) with
      (List.app (List.app ["a"; "is"; "lo"]%string (rd_kw true :: ["b"; "is"; "hi"]%string)) (rd_kw false :: ["a"; "is"; "very"; "hi"]%string)).
    repeat (apply R_op || apply R_prop).
  - change (g_texts 1 0) with
      ("("%string :: List.app (List.app ["a"; "is"; "lo"]%string (rd_kw false :: ["b"; "is"; "lo"]%string)) [")"%string]).
    apply R_paren; apply R_op; apply R_prop.
Qed.

Lemma g_has_activation : has_activation g_engine.
Proof. intros b [<- | [<- | []]] _; discriminate. Qed.

Lemma g_wf_terms : wf_terms no_term_err g_engine.
Proof.
  split; [| split].
  - intros b r [<- | [<- | []]] [<- | []]; reflexivity.
  - intros iv t _ _; reflexivity.
  - intros v [<- | [<- | []]].
    + intros t _; reflexivity.
    + split; [intros t _; reflexivity |].
      intros _ t t' [<- | [<- | []]] [<- | [<- | []]]; reflexivity.
Qed.

(* all hypotheses of ready_fixed_process_ok hold of it (so they are jointly satisfiable by an engine using every operator),
   both checks report nothing, and the conclusion is observed by computation as well *)
Theorem ready_hypotheses_inhabited :
  is_ready_fixed g_engine g_texts = [] /\ is_ready_as_written g_engine g_texts = [] /\
  has_activation g_engine /\ ws_tokens g_engine g_texts /\ wf_terms no_term_err g_engine /\
  needs OpConjunction 0 g_engine /\ needs OpDisjunction 0 g_engine /\ needs OpDisjunction 1 g_engine /\
  needs OpImplication 0 g_engine /\ needs OpAggregation 0 g_engine /\
  process_raises no_term_err g_trig g_engine = None.
Proof.
  refine (conj _ (conj _ (conj g_has_activation (conj g_ws_tokens (conj g_wf_terms (conj _ (conj _ (conj _ (conj _ (conj _ _))))))))));
    try (vm_compute; reflexivity).
  - eexists; split; [reflexivity |]. exists g_rule0; eexists; repeat apply conj; [now left | reflexivity | reflexivity | reflexivity].
  - eexists; split; [reflexivity |]. exists g_rule0; eexists; repeat apply conj; [now left | reflexivity | reflexivity | reflexivity].
  - eexists; split; [reflexivity |]. exists g_rule1; eexists; repeat apply conj; [now left | reflexivity | reflexivity | reflexivity].
  - eexists; exists g_rule0; repeat apply conj; [reflexivity | now left | reflexivity].
  - eexists; split; reflexivity.
Qed.

(* the same engine with all five operators removed: each one is needed and absent, and the fixed check reports the five
   (the check as written reports four: the conjunction is missing too, so here even the nested disjunction check fires for
   block 0 — but not for block 1, whose rule uses only `or`) *)
Definition g_engine_stripped : engine unit :=
  {| e_name := "stripped"; e_inputs := [g_input "a"; g_input "b"];
     e_outputs := [g_out_integral None (Some (DIntegral Centroid 100)); g_out_weighted None];
     e_blocks := [g_block None None None AGeneral [g_rule0]; g_block None None (Some (TN T_Minimum)) (AHighest 1%Z) [g_rule1]] |}.

Theorem missing_hypotheses_inhabited :
  ws_tokens g_engine_stripped g_texts /\
  (needs OpConjunction 0 g_engine_stripped /\ absent OpConjunction 0 g_engine_stripped) /\
  (needs OpDisjunction 0 g_engine_stripped /\ absent OpDisjunction 0 g_engine_stripped) /\
  (needs OpDisjunction 1 g_engine_stripped /\ absent OpDisjunction 1 g_engine_stripped) /\
  (needs OpImplication 0 g_engine_stripped /\ absent OpImplication 0 g_engine_stripped) /\
  (needs OpAggregation 0 g_engine_stripped /\ absent OpAggregation 0 g_engine_stripped) /\
  (needs OpDefuzzifier 1 g_engine_stripped /\ absent OpDefuzzifier 1 g_engine_stripped) /\
  is_ready_fixed g_engine_stripped g_texts =
    [MMissing OpAggregation 0 0; MMissing OpDefuzzifier 1 0;
     MMissing OpConjunction 0 1; MMissing OpDisjunction 0 1; MMissing OpImplication 0 1; MMissing OpDisjunction 1 1] /\
  is_ready_as_written g_engine_stripped g_texts =
    [MMissing OpAggregation 0 0; MMissing OpDefuzzifier 1 0;
     MMissing OpConjunction 0 1; MMissing OpDisjunction 0 1; MMissing OpImplication 0 1].
Proof.
  repeat apply conj; try (vm_compute; reflexivity).
  - intros i b k r x Hb Hr Hl Hx.
    destruct i as [| [| [| i]]]; try discriminate; injection Hb as <-;
      (destruct k as [| [| k]]; try discriminate); injection Hr as <-.
    + exact (g_ws_tokens 0 _ 0 g_rule0 x eq_refl eq_refl Hl Hx).
    + exact (g_ws_tokens 1 _ 0 g_rule1 x eq_refl eq_refl Hl Hx).
  - eexists; split; [reflexivity |]. exists g_rule0; eexists; repeat apply conj; [now left | reflexivity | reflexivity | reflexivity].
  - eexists; split; reflexivity.
  - eexists; split; [reflexivity |]. exists g_rule0; eexists; repeat apply conj; [now left | reflexivity | reflexivity | reflexivity].
  - eexists; split; reflexivity.
  - eexists; split; [reflexivity |]. exists g_rule1; eexists; repeat apply conj; [now left | reflexivity | reflexivity | reflexivity].
  - eexists; split; reflexivity.
  - eexists; exists g_rule0; repeat apply conj; [reflexivity | now left | reflexivity].
  - eexists; split; reflexivity.
  - eexists; split; reflexivity.
  - eexists; split; reflexivity.
  - eexists; reflexivity.
  - eexists; split; reflexivity.
Qed.

(* ================================================================ 7. the FULL statements for the current code
   (these two hold because THE SWITCH says the disjunction check is no longer nested; with the switch at `true` they fail
   to compile and `ready_process_ok_current` / `missing_disjunction_reported_current` state the refutation instead) *)
Theorem ready_process_ok : ready_process_ok_statement (@is_ready).
Proof. exact ready_fixed_process_ok. Qed.

Theorem missing_reported : forall op, missing_reported_statement (@is_ready) op.
Proof. exact missing_reported_fixed. Qed.
