(* RejectProofs.v — C16: malformed rule text is rejected cleanly.
   Model: Model/RuleText.v (Rule.parse, Rule.load, RuleBlock.load_rules) over Model/ShuntingYard.v, Model/Antecedent.v,
   Model/Consequent.v.

   1. tokens: str.split() of a blank-joined token list; Function.format_infix of a blank-joined antecedent
   2. Rule.parse on a rule-shaped token list; its errors are SyntaxError / ValueError
   3. the state machines never raise an internal error, except the final-state check of Antecedent.load (F6);
      exact characterisation; the repaired check never does
   4. a failed load never leaves the rule loaded; RuleBlock.load_rules
   5. an accepted rule is well formed: it exports and evaluates
   6. counting: what every accepted antecedent / consequent satisfies (token conservation of the shunting-yard, balance of
      parentheses, as many variables as `is` as terms as connectives + 1), hence the rejection of every single-token error
   7. the listed error classes
   8. witnesses *)
From Coq Require Import ZArith NArith Bool List String Ascii Lia Reals.
From VF Require Import Num NumR GenNorm GenHedge GenTerm GenOpTable Core ShuntingYard Antecedent Consequent Grammar
  ShuntingYardProofs AntecedentProofs ConsequentProofs RuleText.
Import ListNotations.
Set Implicit Arguments.
Local Open Scope string_scope.
Local Open Scope list_scope.

(* ================= 0. small facts ================= *)
Lemma kw_if : KW_IF = "if". Proof. reflexivity. Qed.
Lemma kw_then : KW_THEN = "then". Proof. reflexivity. Qed.
Lemma kw_with : KW_WITH = "with". Proof. reflexivity. Qed.

Ltac eval_has :=
  repeat match goal with
  | |- context [Antecedent.has ?a ?b] =>
      let v := eval vm_compute in (Antecedent.has a b) in change (Antecedent.has a b) with v
  | |- context [Consequent.has ?a ?b] =>
      let v := eval vm_compute in (Consequent.has a b) in change (Consequent.has a b) with v
  end.
Ltac eval_has_in H :=
  repeat match type of H with
  | context [Antecedent.has ?a ?b] =>
      let v := eval vm_compute in (Antecedent.has a b) in change (Antecedent.has a b) with v in H
  | context [Consequent.has ?a ?b] =>
      let v := eval vm_compute in (Consequent.has a b) in change (Consequent.has a b) with v in H
  end.

(* ================= 1. tokens ================= *)
Definition no_char (p : ascii -> bool) (s : string) : Prop := forallb (fun c => negb (p c)) (list_ascii_of_string s) = true.
(* a token as str.split() produces them, without `#` *)
Definition clean_tok (w : string) : Prop := w <> "" /\ no_char is_space w /\ no_char (Ascii.eqb "#"%char) w.

Lemma scan_nil_word w rest cur : no_char is_space w ->
  scan [] (String.append w rest) 0 cur = scan [] rest 0 (String.append cur w).
Proof.
  unfold no_char. revert cur. induction w as [|c w IH]; intros cur; cbn [String.append list_ascii_of_string forallb].
  - intros _. now rewrite append_empty_r.
  - intros H. apply andb_true_iff in H as [Hc Hw]. apply negb_true_iff in Hc. cbn [scan first_match find]. rewrite Hc.
    rewrite IH by assumption. now rewrite append_assoc'.
Qed.

Lemma emit_nonempty w l : w <> "" -> emit w l = w :: l.
Proof. intros H. unfold emit. destruct (String.eqb_spec w ""); [contradiction|reflexivity]. Qed.

Lemma split_join toks : Forall clean_tok toks -> split_ws (join_sp toks) = toks.
Proof.
  unfold split_ws. induction toks as [|w toks IH]; intros H; [reflexivity|].
  inversion H as [|? ? (Hne & Hsp & _) Htl]; subst. destruct toks as [|y tl].
  - cbn [join_sp]. rewrite <- (append_empty_r w) at 1. rewrite scan_nil_word by assumption. cbn. now rewrite emit_nonempty.
  - change (join_sp (w :: y :: tl)) with (String.append w (String.append " " (join_sp (y :: tl)))).
    rewrite scan_nil_word by assumption. cbn [String.append scan first_match find]. change (is_space " ") with true. cbn iota.
    rewrite emit_nonempty by assumption. f_equal. now apply IH.
Qed.

Lemma strip_comment_id s : no_char (Ascii.eqb "#"%char) s -> strip_comment s = s.
Proof.
  unfold no_char. induction s as [|c s IH]; cbn [list_ascii_of_string forallb strip_comment]; [reflexivity|].
  intros H. apply andb_true_iff in H as [Hc Hs]. apply negb_true_iff in Hc. rewrite Ascii.eqb_sym, Hc. now rewrite IH.
Qed.

Lemma no_char_append p a b : no_char p a -> no_char p b -> no_char p (String.append a b).
Proof.
  unfold no_char. induction a as [|c a IH]; cbn [String.append list_ascii_of_string forallb]; [auto|].
  intros H Hb. apply andb_true_iff in H as [Hc Ha]. rewrite Hc. cbn. now apply IH.
Qed.

Lemma no_char_join p toks : p " "%char = false -> Forall (no_char p) toks -> no_char p (join_sp toks).
Proof.
  intros Hsp. induction toks as [|w toks IH]; intros H; [reflexivity|]. inversion H; subst. destruct toks as [|y tl]; [assumption|].
  change (join_sp (w :: y :: tl)) with (String.append w (String.append " " (join_sp (y :: tl)))).
  apply no_char_append; [assumption|]. apply no_char_append; [|now apply IH]. unfold no_char. cbn. now rewrite Hsp.
Qed.

(* the tokens Rule.parse sees when the text is a blank-joined list of clean tokens *)
Theorem rule_tokens_join toks : Forall clean_tok toks -> rule_tokens (join_sp toks) = toks.
Proof.
  intros H. unfold rule_tokens. rewrite strip_comment_id; [now apply split_join|].
  apply no_char_join; [reflexivity|]. eapply Forall_impl; [|exact H]. now intros a (_ & _ & Ha).
Qed.

(* a token of an antecedent: a name without formula-operator characters, or a parenthesis *)
Definition ante_tok (w : string) : Prop := name_ok w = true \/ w = "(" \/ w = ")".

Lemma blanks_nil : blanks "". Proof. reflexivity. Qed.
Lemma blanks_sp : blanks " ". Proof. reflexivity. Qed.

Lemma spells_join toks : Forall ante_tok toks -> forall ws, blanks ws -> Spells toks (String.append ws (join_sp toks)).
Proof.
  induction toks as [|w toks IH]; intros H ws Hws.
  - cbn [join_sp]. rewrite append_empty_r. now constructor.
  - inversion H as [|? ? Hw Htl]; subst.
    assert (Hrest : exists text, join_sp (w :: toks) = String.append w text /\ boundary text /\ Spells toks text).
    { destruct toks as [|y tl].
      - exists "". cbn [join_sp]. rewrite append_empty_r. repeat split. constructor. exact blanks_nil.
      - exists (String.append " " (join_sp (y :: tl))). split; [reflexivity|]. split; [left; reflexivity|]. apply IH; [assumption|exact blanks_sp]. }
    destruct Hrest as (text & -> & Hb & Hs). destruct Hw as [Hw|[-> | ->]].
    + now apply Sp_name.
    + now apply Sp_lparen.
    + now apply Sp_rparen.
Qed.

(* Function.format_infix(" ".join(tokens)).split() = tokens *)
Theorem format_join toks : Forall ante_tok toks -> format_infix_tokens op_table KW_AND KW_OR (join_sp toks) = toks.
Proof. intros H. apply tokens_spelled. apply (spells_join H blanks_nil). Qed.

Lemma ante_tok_clean w : ante_tok w -> no_char (Ascii.eqb "#"%char) w -> clean_tok w.
Proof.
  intros [H|[-> | ->]] Hh; [|split; [discriminate|split; reflexivity]..].
  unfold name_ok in H. destruct w as [|c w]; [discriminate|]. split; [discriminate|]. split; [|exact Hh].
  unfold no_char. rewrite forallb_forall in *. intros a Ha. specialize (H a Ha). unfold name_char in H.
  apply andb_true_iff in H as [H _]. exact H.
Qed.

Lemma join_sp_nonempty toks : toks <> [] -> Forall (fun w => w <> "") toks -> join_sp toks <> "".
Proof.
  destruct toks as [|w tl]; [congruence|]. intros _ H. inversion H; subst. destruct tl; cbn [join_sp]; destruct w; try congruence; discriminate.
Qed.

(* ================= 2. Rule.parse ================= *)
Section ParseFacts.
  Variable is_float : string -> bool.
  Notation parse_loop := (RuleText.parse_loop is_float).
  Notation parse_tokens := (RuleText.parse_tokens is_float).

  Definition free_of (k : string) (l : list string) : Prop := Forall (fun w => w <> k) l.

  Lemma loop_if a : forall acc c w rest, free_of "then" a ->
    parse_loop (a ++ rest) PIf acc c w = parse_loop rest PIf (acc ++ a) c w.
  Proof.
    induction a as [|t a IH]; intros acc c w rest H; cbn [app]; [now rewrite app_nil_r|].
    inversion H; subst. cbn [RuleText.parse_loop]. rewrite kw_then. destruct (String.eqb_spec t "then"); [contradiction|].
    rewrite IH by assumption. now rewrite <- app_assoc.
  Qed.
  Lemma loop_then c : forall a acc w rest, free_of "with" c ->
    parse_loop (c ++ rest) PThen a acc w = parse_loop rest PThen a (acc ++ c) w.
  Proof.
    induction c as [|t c IH]; intros a acc w rest H; cbn [app]; [now rewrite app_nil_r|].
    inversion H; subst. cbn [RuleText.parse_loop]. rewrite kw_with. destruct (String.eqb_spec t "with"); [contradiction|].
    rewrite IH by assumption. now rewrite <- app_assoc.
  Qed.

  (* the tokens after the consequent *)
  Definition weight_tokens (w : option string) : list string := match w with Some t => ["with"; t] | None => [] end.
  Definition rule_toks (a c : list string) (w : option string) : list string := "if" :: a ++ "then" :: c ++ weight_tokens w.

  Theorem parse_shape a c w : a <> [] -> c <> [] -> free_of "then" a -> free_of "with" c ->
    match w with Some t => is_float t = true | None => True end ->
    parse_tokens (rule_toks a c w) = Ok (a, c, w).
  Proof.
    intros Ha Hc Fa Fc Hw. unfold RuleText.parse_tokens, rule_toks. cbn [RuleText.parse_loop]. rewrite kw_if. cbn [String.eqb Ascii.eqb Bool.eqb].
    rewrite loop_if by assumption. cbn [RuleText.parse_loop app]. rewrite kw_then. cbn [String.eqb Ascii.eqb Bool.eqb].
    rewrite loop_then by assumption. destruct w as [t|]; cbn [weight_tokens RuleText.parse_loop app].
    - rewrite kw_with. cbn [String.eqb Ascii.eqb Bool.eqb]. rewrite Hw. destruct a; [congruence|]. destruct c; [congruence|]. reflexivity.
    - destruct a; [congruence|]. destruct c; [congruence|]. reflexivity.
  Qed.

  (* every error of Rule.parse is a SyntaxError or the ValueError of float() *)
  Lemma parse_loop_err toks : forall st a c w x, parse_loop toks st a c w = Err x -> x = ESyntax \/ x = EValue.
  Proof.
    induction toks as [|t toks IH]; intros st a c w x; cbn [RuleText.parse_loop]; [discriminate|].
    destruct st.
    - destruct (String.eqb t KW_IF); [apply IH|]. intros [= <-]. now left.
    - destruct (String.eqb t KW_THEN); apply IH.
    - destruct (String.eqb t KW_WITH); apply IH.
    - destruct (is_float t); [apply IH|]. intros [= <-]. now right.
    - intros [= <-]. now left.
  Qed.
  Theorem parse_tokens_err toks x : parse_tokens toks = Err x -> x = ESyntax \/ x = EValue.
  Proof.
    unfold RuleText.parse_tokens. destruct (parse_loop toks PBegin [] [] None) as [[[[st a] c] w]|y] eqn:E.
    - destruct st; try (intros [= <-]; now left); destruct a; try (intros [= <-]; now left); destruct c; try (intros [= <-]; now left); discriminate.
    - intros [= <-]. eapply parse_loop_err; eauto.
  Qed.
  Lemma parse_tokens_nonempty toks a c w : parse_tokens toks = Ok (a, c, w) -> a <> [] /\ c <> [].
  Proof.
    unfold RuleText.parse_tokens. destruct (parse_loop toks PBegin [] [] None) as [[[[st a'] c'] w']|y]; [|discriminate].
    destruct st; try discriminate; destruct a'; try discriminate; destruct c'; try discriminate; intros [= <- <- <-]; split; discriminate.
  Qed.

  (* missing `if`: the first token is not the keyword *)
  Theorem parse_missing_if toks : hd_error toks <> Some "if" -> parse_tokens toks = Err ESyntax.
  Proof.
    unfold RuleText.parse_tokens. destruct toks as [|t toks]; [reflexivity|]. cbn [hd_error RuleText.parse_loop]. rewrite kw_if.
    destruct (String.eqb_spec t "if") as [->|]; [congruence|reflexivity].
  Qed.

  (* missing `then` *)
  Theorem parse_missing_then rest : free_of "then" rest -> parse_tokens ("if" :: rest) = Err ESyntax.
  Proof.
    intros H. unfold RuleText.parse_tokens. cbn [RuleText.parse_loop]. rewrite kw_if. cbn [String.eqb Ascii.eqb Bool.eqb].
    rewrite <- (app_nil_r rest). rewrite loop_if by assumption. reflexivity.
  Qed.

  (* a weight that is not a number: ValueError, whatever follows *)
  Theorem parse_non_numeric_weight a c t rest : free_of "then" a -> free_of "with" c -> is_float t = false ->
    parse_tokens ("if" :: a ++ "then" :: c ++ "with" :: t :: rest) = Err EValue.
  Proof.
    intros Fa Fc Ht. unfold RuleText.parse_tokens. cbn [RuleText.parse_loop]. rewrite kw_if. cbn [String.eqb Ascii.eqb Bool.eqb].
    rewrite loop_if by assumption. cbn [RuleText.parse_loop app]. rewrite kw_then. cbn [String.eqb Ascii.eqb Bool.eqb].
    rewrite loop_then by assumption. cbn [RuleText.parse_loop]. rewrite kw_with. cbn [String.eqb Ascii.eqb Bool.eqb]. now rewrite Ht.
  Qed.

  (* a token after the weight *)
  Theorem parse_trailing_after_weight a c t extra rest : free_of "then" a -> free_of "with" c -> is_float t = true ->
    parse_tokens ("if" :: a ++ "then" :: c ++ "with" :: t :: extra :: rest) = Err ESyntax.
  Proof.
    intros Fa Fc Ht. unfold RuleText.parse_tokens. cbn [RuleText.parse_loop]. rewrite kw_if. cbn [String.eqb Ascii.eqb Bool.eqb].
    rewrite loop_if by assumption. cbn [RuleText.parse_loop app]. rewrite kw_then. cbn [String.eqb Ascii.eqb Bool.eqb].
    rewrite loop_then by assumption. cbn [RuleText.parse_loop]. rewrite kw_with. cbn [String.eqb Ascii.eqb Bool.eqb]. now rewrite Ht.
  Qed.

  (* `with` without a weight *)
  Theorem parse_missing_weight a c : free_of "then" a -> free_of "with" c ->
    parse_tokens ("if" :: a ++ "then" :: c ++ ["with"]) = Err ESyntax.
  Proof.
    intros Fa Fc. unfold RuleText.parse_tokens. cbn [RuleText.parse_loop]. rewrite kw_if. cbn [String.eqb Ascii.eqb Bool.eqb].
    rewrite loop_if by assumption. cbn [RuleText.parse_loop app]. rewrite kw_then. cbn [String.eqb Ascii.eqb Bool.eqb].
    rewrite loop_then by assumption. cbn [RuleText.parse_loop]. rewrite kw_with. reflexivity.
  Qed.

  (* empty antecedent: never accepted *)
  Lemma loop_keeps_antecedent toks : forall st a cc ww st' a' c' w', st <> PBegin -> st <> PIf ->
    parse_loop toks st a cc ww = Ok (st', a', c', w') -> a' = a.
  Proof.
    induction toks as [|t toks IH]; intros st a cc ww st' a' c' w' H1 H2; cbn [RuleText.parse_loop]; [now intros [= _ <- _ _]|].
    destruct st; try congruence.
    - destruct (String.eqb t KW_WITH); apply IH; discriminate.
    - destruct (is_float t); [apply IH; discriminate|discriminate].
  Qed.
  Theorem parse_empty_antecedent rest : forall r, parse_tokens ("if" :: "then" :: rest) <> Ok r.
  Proof.
    intros r. unfold RuleText.parse_tokens. cbn [RuleText.parse_loop]. rewrite kw_if, kw_then. cbn [String.eqb Ascii.eqb Bool.eqb].
    destruct (parse_loop rest PThen [] [] None) as [[[[st a'] c'] w']|y] eqn:E; [|discriminate].
    apply loop_keeps_antecedent in E; try discriminate. subst a'. destruct st; discriminate.
  Qed.
End ParseFacts.

(* ================= 3. no internal error ================= *)
(* ---- the shunting-yard only raises SyntaxError *)
Lemma sy_step_err tbl t s x : step tbl t s = Err x -> x = ESyntax.
Proof.
  destruct s as [q st]. unfold step. destruct (lookup tbl t) as [e|] eqn:L.
  - cbn [negb]. destruct (en_is_function e); cbn [negb]; [discriminate|].
    destruct (String.eqb t ",").
    + destruct (pop_until_lparen st) as [ps r]. destruct r; [now intros [= <-]|discriminate].
    + destruct (pop_ops tbl e st); discriminate.
  - unfold is_paren_tok. destruct (String.eqb t ",") eqn:E3.
    + rewrite !orb_true_r. cbn [negb]. destruct (pop_until_lparen st) as [ps r]. destruct r; [now intros [= <-]|discriminate].
    + rewrite orb_false_r. destruct (String.eqb t "(") eqn:E1; cbn [orb negb]; [discriminate|].
      destruct (String.eqb t ")") eqn:E2; cbn [negb]; [|discriminate].
      destruct (pop_until_lparen st) as [ps r]. destruct r as [|top r']; [now intros [= <-]|].
      destruct r' as [|top' r'']; [discriminate|]. destruct (lookup tbl top') as [te|]; [destruct (en_is_function te)|]; discriminate.
Qed.
Lemma sy_run_err tbl toks : forall s x, run tbl toks s = Err x -> x = ESyntax.
Proof.
  induction toks as [|t toks IH]; intros s x; cbn [run]; [discriminate|].
  destruct (step tbl t s) as [s'|y] eqn:E; [apply IH|]. intros [= <-]. eapply sy_step_err; eauto.
Qed.
Lemma flush_err st : forall x, flush_stack st = Err x -> x = ESyntax.
Proof.
  induction st as [|top st IH]; intros x; cbn [flush_stack]; [discriminate|].
  destruct (String.eqb top "(" || String.eqb top ")"); [now intros [= <-]|]. destruct (flush_stack st); [discriminate|]. intros [= <-]. now apply IH.
Qed.
Theorem sy_err tbl toks x : infix_to_postfix tbl toks = Err x -> x = ESyntax.
Proof.
  unfold infix_to_postfix. destruct (run tbl toks ([], [])) as [[q st]|y] eqn:E.
  - destruct (flush_stack st) eqn:F; [discriminate|]. intros [= <-]. eapply flush_err; eauto.
  - intros [= <-]. eapply sy_run_err; eauto.
Qed.

(* ---- Antecedent.load: the reachable states; what is on the stack *)
Section AnteInv.
  Context {T : Type}.
  Variable e : engine T.

  (* a loaded node: the variable exists and has terms; the term exists, or the hedges end in `any` *)
  Inductive expr_ok : expr -> Prop :=
    | ok_term v hs k terms : var_terms e v = Some terms -> k < List.length terms -> expr_ok (EProp v hs (Some k))
    | ok_any v hs terms : var_terms e v = Some terms -> terms <> [] -> last_is_any hs = true -> expr_ok (EProp v hs None)
    | ok_op o l r : expr_ok l -> expr_ok r -> expr_ok (EOp o l r).

  Definition st_prop : N := 12.    (* s_hedge | s_term *)
  Definition st_next : N := 17.    (* s_variable | s_and_or *)

  Definition ainv (s : Antecedent.load_state) : Prop :=
    (fst s = Antecedent.s_variable /\ snd s = []) \/
    (fst s = Antecedent.s_is /\ exists v rest terms, snd s = EProp v [] None :: rest /\ var_terms e v = Some terms /\ terms <> [] /\ Forall expr_ok rest) \/
    (fst s = st_prop /\ exists v hs rest terms, snd s = EProp v hs None :: rest /\ var_terms e v = Some terms /\ terms <> [] /\ Forall expr_ok rest) \/
    (fst s = st_next /\ snd s <> [] /\ Forall expr_ok (snd s)).

  Lemma usable_terms tok v : usable_variable e tok = Some v -> exists terms, var_terms e v = Some terms /\ terms <> [].
  Proof.
    unfold usable_variable. destruct (lookup_variable e tok) as [r|]; [|discriminate].
    destruct (var_terms e r) as [[|a l]|] eqn:V; try discriminate. intros [= <-]. exists (a :: l). split; [exact V|discriminate].
  Qed.

  Lemma find_last_lt {A} (p : A -> bool) l k : find_last p l = Some k -> k < List.length l.
  Proof. intros H. destruct (find_last_some _ _ H) as (a & Ha & _). apply nth_error_Some. congruence. Qed.

  Lemma astep_inv tok s : ainv s ->
    match Antecedent.load_step e tok s with
    | Ok s' => ainv s'
    | Err x => x = ESyntax
    end.
  Proof.
    destruct s as [st stack]. unfold ainv. cbn [fst snd].
    intros [(-> & ->)|[(-> & v & rest & terms & -> & V & Hne & Hrest)|[(-> & v & hs & rest & terms & -> & V & Hne & Hrest)|(-> & Hne & Hst)]]];
      unfold Antecedent.load_step; eval_has; cbn [andb].
    - (* initial *)
      destruct (usable_variable e tok) as [v|] eqn:U.
      + destruct (usable_terms _ U) as (terms & V & Hne). right; left. cbn [fst snd]. split; [reflexivity|]. exists v, [], terms. auto.
      + reflexivity.
    - (* after a variable *)
      destruct (String.eqb KW_IS tok).
      + right; right; left. cbn [fst snd]. split; [reflexivity|]. exists v, [], rest, terms. auto.
      + reflexivity.
    - (* after `is` or a hedge *)
      destruct (hedge_of_name tok) as [h|] eqn:H.
      + destruct (hedgex_is_any (HG h)) eqn:A.
        * right; right; right. cbn [fst snd]. split; [reflexivity|]. split; [discriminate|]. constructor; [|exact Hrest].
          eapply ok_any; eauto. unfold last_is_any. now rewrite rev_unit.
        * right; right; left. cbn [fst snd]. split; [reflexivity|]. exists v, (hs ++ [HG h]), rest, terms. auto.
      + rewrite V. destruct (find_last (fun tm => String.eqb (term_name tm) tok) terms) as [k|] eqn:K.
        * right; right; right. cbn [fst snd]. split; [reflexivity|]. split; [discriminate|]. constructor; [|exact Hrest].
          eapply ok_term; eauto. eapply find_last_lt; eauto.
        * reflexivity.
    - (* after a term, `any` or a connective *)
      destruct (usable_variable e tok) as [v|] eqn:U.
      + destruct (usable_terms _ U) as (terms & V & Hnt). right; left. cbn [fst snd]. split; [reflexivity|]. exists v, stack, terms. auto.
      + destruct (String.eqb tok KW_AND || String.eqb tok KW_OR); [|reflexivity].
        destruct stack as [|xr [|xl rest]]; [reflexivity..|].
        right; right; right. cbn [fst snd]. split; [reflexivity|]. split; [discriminate|].
        inversion Hst as [|? ? Hr Hst']; subst. inversion Hst' as [|? ? Hl Hst'']; subst. constructor; [now constructor|assumption].
  Qed.

  Lemma arun_inv toks : forall s, ainv s ->
    match Antecedent.load_run e toks s with
    | Ok s' => ainv s'
    | Err x => x = ESyntax
    end.
  Proof.
    induction toks as [|t toks IH]; intros s Hs; cbn [Antecedent.load_run]; [exact Hs|].
    pose proof (astep_inv t Hs) as H. destruct (Antecedent.load_step e t s) as [s'|x]; [now apply IH|exact H].
  Qed.

  Lemma ainv_init : ainv (Antecedent.s_variable, []).
  Proof. left. auto. Qed.

  (* the final-state check: as written it raises TypeError exactly in the state hedge|term *)
  Lemma afinal_inv f6 s : ainv s ->
    match antecedent_final f6 s with
    | Ok x => expr_ok x
    | Err x => x = ESyntax \/ (x = EInternal /\ f6 = true /\ fst s = st_prop)
    end.
  Proof.
    destruct s as [st stack]. unfold ainv. cbn [fst snd].
    intros [(-> & ->)|[(-> & v & rest & terms & -> & V & Hne & Hrest)|[(-> & v & hs & rest & terms & -> & V & Hne & Hrest)|(-> & Hne & Hst)]]];
      unfold antecedent_final; eval_has; cbn [negb].
    - now left.
    - now left.
    - destruct f6; [right; auto|now left].
    - destruct stack as [|x [|y r]]; [now left| |now left]. now inversion Hst.
  Qed.

  Theorem antecedent_postfix_outcome f6 p :
    match antecedent_load_postfix f6 e p with
    | Ok x => expr_ok x
    | Err x => x = ESyntax \/
               (x = EInternal /\ f6 = true /\ exists stack, Antecedent.load_run e p (Antecedent.s_variable, []) = Ok (st_prop, stack))
    end.
  Proof.
    unfold antecedent_load_postfix. pose proof (arun_inv p ainv_init) as H.
    destruct (Antecedent.load_run e p (Antecedent.s_variable, [])) as [s|x]; [|now left].
    pose proof (afinal_inv f6 H) as F. destruct (antecedent_final f6 s) as [x|x]; [exact F|].
    destruct F as [F|(-> & -> & F)]; [now left|right]. destruct s as [st stack]. cbn in F. subst st. eauto.
  Qed.

  Theorem antecedent_outcome f6 text :
    match antecedent_load f6 e text with
    | Ok x => expr_ok x
    | Err x => x = ESyntax \/
               (x = EInternal /\ f6 = true /\ exists p stack, infix_to_postfix_text op_table KW_AND KW_OR text = Ok p /\
                                                Antecedent.load_run e p (Antecedent.s_variable, []) = Ok (st_prop, stack))
    end.
  Proof.
    unfold antecedent_load. destruct (String.eqb text ""); [now left|].
    destruct (infix_to_postfix_text op_table KW_AND KW_OR text) as [p|x] eqn:P.
    - pose proof (antecedent_postfix_outcome f6 p) as H. destruct (antecedent_load_postfix f6 e p) as [x|x]; [exact H|].
      destruct H as [H|(-> & -> & stack & H)]; [now left|right]. repeat split. eauto.
    - left. unfold infix_to_postfix_text in P. eapply sy_err; eauto.
  Qed.

  (* the loader of this file and Model/Antecedent.v's agree, except possibly on the exception raised in the final state
     hedge|term (F6: TypeError as written, SyntaxError once repaired) *)
  Theorem antecedent_load_agrees f6 text :
    antecedent_load f6 e text = Antecedent.load_text e text \/
    (exists p stack, infix_to_postfix_text op_table KW_AND KW_OR text = Ok p /\
                     Antecedent.load_run e p (Antecedent.s_variable, []) = Ok (st_prop, stack)).
  Proof.
    unfold antecedent_load, Antecedent.load_text. destruct (String.eqb text ""); [now left|].
    destruct (infix_to_postfix_text op_table KW_AND KW_OR text) as [p|x]; [|now left].
    unfold antecedent_load_postfix, Antecedent.load. pose proof (arun_inv p ainv_init) as H.
    destruct (Antecedent.load_run e p (Antecedent.s_variable, [])) as [[st stack]|x] eqn:R; [|now left].
    unfold ainv in H. cbn [fst snd] in H.
    destruct H as [(-> & ->)|[(-> & v & rest & terms & -> & V & Hne & Hrest)|[(-> & v & hs & rest & terms & -> & V & Hne & Hrest)|(-> & Hne & Hst)]]];
      unfold antecedent_final; eval_has; cbn [negb andb]; try (left; reflexivity).
    right. eauto.
  Qed.

  (* the state hedge|term is reached exactly after `is` or after a hedge other than `any` *)
  Lemma arun_app p1 p2 s : Antecedent.load_run e (p1 ++ p2) s =
    match Antecedent.load_run e p1 s with Ok s' => Antecedent.load_run e p2 s' | Err x => Err x end.
  Proof. revert s; induction p1 as [|t p1 IH]; intros s; cbn [app Antecedent.load_run]; [reflexivity|]. destruct (Antecedent.load_step e t s); [apply IH|reflexivity]. Qed.

  Theorem final_state_prop p stack : Antecedent.load_run e p (Antecedent.s_variable, []) = Ok (st_prop, stack) ->
    exists p' tok, p = p' ++ [tok] /\
      (tok = "is" \/ exists h, hedge_of_name tok = Some h /\ hedgex_is_any (HG h) = false).
  Proof.
    destruct p as [|t0 p0]; [discriminate|].
    destruct (@exists_last _ (t0 :: p0)) as (p' & tok & E); [discriminate|]. rewrite E. clear E.
    { rewrite arun_app. pose proof (arun_inv p' ainv_init) as H.
      destruct (Antecedent.load_run e p' (Antecedent.s_variable, [])) as [[st stk]|x]; [|discriminate].
      cbn [Antecedent.load_run]. intros R. exists p', tok. split; [reflexivity|]. revert R.
      unfold ainv in H. cbn [fst snd] in H.
      destruct H as [(-> & ->)|[(-> & v & rest & terms & -> & V & Hne & Hrest)|[(-> & v & hs & rest & terms & -> & V & Hne & Hrest)|(-> & Hne & Hst)]]];
        unfold Antecedent.load_step; eval_has; cbn [andb].
      + destruct (usable_variable e tok); discriminate.
      + destruct (String.eqb_spec KW_IS tok) as [<-|]; [now left|discriminate].
      + destruct (hedge_of_name tok) as [h|] eqn:Hh.
        * destruct (hedgex_is_any (HG h)) eqn:A; [discriminate|]. intros _. right. eauto.
        * rewrite V. destruct (find_last (fun tm => String.eqb (term_name tm) tok) terms); discriminate.
      + destruct (usable_variable e tok); [discriminate|]. destruct (String.eqb tok KW_AND || String.eqb tok KW_OR); [|discriminate].
        destruct stk as [|xr [|xl rest]]; discriminate. }
  Qed.
End AnteInv.

(* ---- Consequent.load only raises SyntaxError *)
Section ConsInv.
  Context {T : Type}.
  Variable e : engine T.

  Definition cinv (st : @lstate T) : Prop :=
    ls_state st = Consequent.s_variable \/
    (ls_state st = Consequent.s_is /\ ls_cur st <> None) \/
    (ls_state st = 12%N /\ ls_cur st <> None) \/
    ls_state st = 48%N.

  Lemma cstep_inv tok st : cinv st ->
    match Consequent.load_step e st tok with
    | Ok st' => cinv st'
    | Err x => x = ESyntax
    end.
  Proof.
    destruct st as [s d c]. unfold cinv. cbn [ls_state ls_cur].
    intros [->|[(-> & Hc)|[(-> & Hc)| ->]]];
      unfold Consequent.load_step, try_variable, try_is, try_hedge, try_term, try_and, token_error; cbn [ls_state ls_cur ls_done]; eval_has; cbn [andb orelse].
    - destruct (dict_get (@ov_name T) (e_outputs e) tok) as [[i v]|]; [destruct (var_truthy v)|]; cbn [orelse]; try reflexivity.
      right; left. cbn. split; [reflexivity|discriminate].
    - destruct (String.eqb "is" tok); cbn [orelse]; [|reflexivity]. right; right; left. cbn. auto.
    - destruct (hedge_lookup tok) as [h|]; cbn [orelse].
      + destruct c as [[[i v] hs]|]; [|congruence]. right; right; left. cbn. split; [reflexivity|discriminate].
      + destruct c as [[[i v] hs]|]; [|congruence]. destruct (dict_get (@term_name T) (ov_terms v) tok) as [[j t]|]; cbn [orelse]; [|reflexivity].
        right; right; right. reflexivity.
    - destruct (String.eqb "and" tok); cbn [orelse]; [|reflexivity]. left. reflexivity.
  Qed.

  Lemma crun_inv toks : forall st, cinv st ->
    match Consequent.load_run e st toks with
    | Ok st' => cinv st'
    | Err x => x = ESyntax
    end.
  Proof.
    induction toks as [|t toks IH]; intros st Hs; cbn [Consequent.load_run]; [exact Hs|].
    pose proof (cstep_inv t Hs) as H. destruct (Consequent.load_step e st t) as [st'|x]; cbn [bind]; [now apply IH|exact H].
  Qed.

  Theorem consequent_err toks x : Consequent.load e toks = Err x -> x = ESyntax.
  Proof.
    unfold Consequent.load. destruct toks as [|t toks]; [now intros [= <-]|].
    assert (Hi : cinv (@load_init T)) by (left; reflexivity).
    pose proof (crun_inv (t :: toks) Hi) as H. destruct (Consequent.load_run e load_init (t :: toks)) as [st|y]; cbn [bind]; [|now intros [= <-]].
    unfold load_final. repeat match goal with |- context [if ?b then _ else _] => destruct b end; try discriminate; now intros [= <-].
  Qed.

  (* a trailing token after a consequent that loads: rejected, whatever the token *)
  Theorem consequent_trailing toks cs extra : Consequent.load e toks = Ok cs -> Consequent.load e (toks ++ [extra]) = Err ESyntax.
  Proof.
    unfold Consequent.load. destruct toks as [|t toks]; [discriminate|]. cbn [app].
    assert (Hi : cinv (@load_init T)) by (left; reflexivity).
    assert (Happ : forall a b st, Consequent.load_run e st (a ++ b) = do st' <- Consequent.load_run e st a; Consequent.load_run e st' b).
    { induction a as [|x a IH]; intros b st; cbn [app Consequent.load_run bind]; [reflexivity|]. destruct (Consequent.load_step e st x); cbn [bind]; [apply IH|reflexivity]. }
    change (t :: toks ++ [extra]) with ((t :: toks) ++ [extra]). rewrite Happ.
    pose proof (crun_inv (t :: toks) Hi) as H. destruct (Consequent.load_run e load_init (t :: toks)) as [[s d c]|y]; cbn [bind]; [|discriminate].
    unfold cinv in H. cbn [ls_state ls_cur] in H. unfold load_final. cbn [ls_state ls_done].
    destruct H as [->|[(-> & Hc)|[(-> & Hc)| ->]]]; eval_has; cbn [negb]; try discriminate. intros _.
    cbn [Consequent.load_run]. unfold Consequent.load_step, try_variable, try_is, try_hedge, try_term, try_and, token_error; cbn [ls_state ls_cur ls_done]; eval_has; cbn [andb orelse].
    destruct (String.eqb "and" extra); cbn [orelse bind]; [|reflexivity]. unfold load_final. cbn [ls_state]. eval_has. reflexivity.
  Qed.
End ConsInv.

(* ================= 4. Rule.load / Rule.create / RuleBlock.load_rules ================= *)
Section RuleLevel.
  Context {T : Type}.
  Variable is_float : string -> bool.
  Variable e : engine T.

  Definition init_state : Antecedent.load_state := (Antecedent.s_variable, []).
  (* the antecedent text reaches the final-state check of Antecedent.load in the state hedge|term *)
  Definition ends_in_prop_state (antecedent_text : string) : Prop :=
    exists p stack, infix_to_postfix_text op_table KW_AND KW_OR antecedent_text = Ok p /\
                    Antecedent.load_run e p init_state = Ok (st_prop, stack).

  Definition loaded_ok (o : rule_obj) : Prop :=
    is_loaded o = true /\
    exists x, ro_expression o = Some x /\ expr_ok e x /\ ro_conclusions o <> [] /\ wf (e_outputs e) (ro_conclusions o).

  Theorem rule_load_outcome f6 o :
    match rule_load f6 e o with
    | (o', None) => loaded_ok o' /\ ro_text o' = ro_text o
    | (o', Some x) => is_loaded o' = false /\ ro_text o' = ro_text o /\
                      (x = ESyntax \/ (x = EInternal /\ f6 = true /\ ends_in_prop_state (rt_antecedent (ro_text o))))
    end.
  Proof.
    unfold rule_load. pose proof (antecedent_outcome e f6 (rt_antecedent (ro_text o))) as HA.
    destruct (antecedent_load f6 e (rt_antecedent (ro_text o))) as [x|y].
    - unfold consequent_load. destruct (Consequent.load e (split_ws (rt_consequent (ro_text o)))) as [cs|y] eqn:C.
      + destruct (load_wf _ _ C) as [Hne Hwf]. split; [|reflexivity]. split.
        * unfold is_loaded, antecedent_loaded, consequent_loaded. cbn. destruct cs; [congruence|reflexivity].
        * exists x. cbn. auto.
      + split; [unfold is_loaded, antecedent_loaded, consequent_loaded; reflexivity|]. split; [reflexivity|]. left. eapply consequent_err; eauto.
    - split; [reflexivity|]. split; [reflexivity|]. destruct HA as [->|(-> & -> & p & stack & H1 & H2)]; [now left|right].
      repeat split. exists p, stack. auto.
  Qed.

  Theorem create_outcome f6 text :
    match create_gen is_float f6 e text with
    | (o, None) => loaded_ok o /\ parse_text is_float text = Ok (ro_text o)
    | (o, Some x) => is_loaded o = false /\
        (x = ESyntax \/ x = EValue \/
         (x = EInternal /\ f6 = true /\ exists rt, parse_text is_float text = Ok rt /\ ends_in_prop_state (rt_antecedent rt)))
    end.
  Proof.
    unfold create_gen. destruct (parse_text is_float text) as [rt|y] eqn:P.
    - pose proof (rule_load_outcome f6 {| ro_text := rt; ro_expression := None; ro_conclusions := [] |}) as H.
      destruct (rule_load f6 e _) as [o' [x|]].
      + destruct H as (H1 & H2 & H3). split; [exact H1|]. destruct H3 as [->|(-> & -> & H3)]; [now left|]. right; right. repeat split. exists rt. auto.
      + destruct H as (H1 & H2). split; [exact H1|]. now rewrite H2.
    - split; [reflexivity|]. unfold parse_text, parse_rule in P. destruct (RuleText.parse_tokens is_float (rule_tokens text)) as [[[a c] w]|z] eqn:Q; [discriminate|].
      injection P as <-. destruct (parse_tokens_err _ _ Q) as [-> | ->]; auto.
  Qed.

  (* never loaded after a failed load *)
  Theorem failed_load_not_loaded_gen f6 text x : load_rule_gen is_float f6 e text = Err x -> is_loaded (state_after_gen is_float f6 e text) = false.
  Proof.
    unfold load_rule_gen, state_after_gen, as_result. pose proof (create_outcome f6 text) as H.
    destruct (create_gen is_float f6 e text) as [o [y|]]; [|discriminate]. intros _. exact (proj1 H).
  Qed.
  Theorem failed_reload_not_loaded f6 o x : snd (rule_load f6 e o) = Some x -> is_loaded (fst (rule_load f6 e o)) = false.
  Proof. pose proof (rule_load_outcome f6 o) as H. destruct (rule_load f6 e o) as [o' [y|]]; [|discriminate]. intros _. exact (proj1 H). Qed.

  (* an accepted rule is well formed *)
  Theorem accepted_rule_loaded f6 text o : load_rule_gen is_float f6 e text = Ok o -> loaded_ok o /\ parse_text is_float text = Ok (ro_text o).
  Proof.
    unfold load_rule_gen, as_result. pose proof (create_outcome f6 text) as H.
    destruct (create_gen is_float f6 e text) as [o' [y|]]; [discriminate|]. now intros [= <-].
  Qed.

  (* the errors: SyntaxError, ValueError, and the TypeError of F6 *)
  Theorem load_error_classes f6 text x : load_rule_gen is_float f6 e text = Err x ->
    x = ESyntax \/ x = EValue \/ (x = EInternal /\ f6 = true).
  Proof.
    unfold load_rule_gen, as_result. pose proof (create_outcome f6 text) as H.
    destruct (create_gen is_float f6 e text) as [o' [y|]]; [|discriminate]. intros [= <-].
    destruct H as (_ & [H|[H|(H1 & H2 & _)]]); auto.
  Qed.

  (* the repaired final-state check: never an internal error *)
  Theorem rule_load_no_internal_error_fixed text : load_fixed is_float e text <> Err EInternal.
  Proof. intros H. destruct (load_error_classes _ _ H) as [H1|[H1|(_ & H1)]]; discriminate. Qed.

  (* the check as written: exactly when the antecedent ends in the state hedge|term *)
  Theorem load_internal_error_iff text :
    load_as_written is_float e text = Err EInternal <->
    exists a c w, parse_rule is_float text = Ok (a, c, w) /\ ends_in_prop_state (join_sp a).
  Proof.
    split.
    - unfold load_as_written, load_rule_gen, as_result. pose proof (create_outcome true text) as H.
      destruct (create_gen is_float true e text) as [o' [y|]]; [|discriminate]. intros [= ->].
      destruct H as (_ & [H|[H|(_ & _ & rt & P & E)]]); try discriminate.
      unfold parse_text in P. destruct (parse_rule is_float text) as [[[a c] w]|z]; [|discriminate]. injection P as <-.
      exists a, c, w. auto.
    - intros (a & c & w & P & p & stack & S & R).
      unfold load_as_written, load_rule_gen, create_gen, parse_text. rewrite P. unfold rule_load. cbn [ro_text rt_antecedent].
      unfold antecedent_load. destruct (String.eqb_spec (join_sp a) "") as [E|_].
      + rewrite E in S. vm_compute in S. injection S as <-. discriminate.
      + rewrite S. unfold antecedent_load_postfix. fold init_state. rewrite R. reflexivity.
  Qed.

  (* ---- RuleBlock.load_rules: the only exception is RuntimeError; afterwards a rule is loaded iff its own load succeeded *)
  Lemma load_rules_loop_spec f6 rules :
    let '(rules', failed) := load_rules_loop f6 e rules in
    List.length rules' = List.length rules /\
    (failed = false -> Forall loaded_ok rules') /\
    (failed = true -> exists o', In o' rules' /\ is_loaded o' = false) /\
    Forall (fun o' => is_loaded o' = true -> loaded_ok o') rules'.
  Proof.
    induction rules as [|o rules IH]; cbn [load_rules_loop]; [repeat split; auto; discriminate|].
    pose proof (rule_load_outcome f6 (unload o)) as H. destruct (rule_load f6 e (unload o)) as [o' ex].
    destruct (load_rules_loop f6 e rules) as [rest failed]. destruct IH as (IH1 & IH2 & IH3 & IH4).
    destruct ex as [x|].
    - destruct H as (H1 & _). split; [cbn [List.length]; auto|]. split; [discriminate|]. split.
      + intros _. exists o'. split; [now left|exact H1].
      + constructor; [congruence|exact IH4].
    - destruct H as (H1 & _). split; [cbn [List.length]; auto|]. split; [|split].
      + intros F. constructor; auto.
      + intros F. destruct (IH3 F) as (o'' & Hin & Hl). exists o''. split; [now right|exact Hl].
      + constructor; auto.
  Qed.
  Theorem load_rules_outcome f6 rules :
    match load_rules_gen f6 e rules with
    | (rules', None) => Forall loaded_ok rules'
    | (rules', Some x) => x = ERuntime /\ exists o', In o' rules' /\ is_loaded o' = false
    end.
  Proof.
    unfold load_rules_gen. pose proof (load_rules_loop_spec f6 rules) as H. destruct (load_rules_loop f6 e rules) as [rules' failed].
    destruct H as (_ & H2 & H3 & _). destruct failed; [split; auto|auto].
  Qed.
End RuleLevel.

(* ================= 5. an accepted rule exports and evaluates ================= *)
Section Evaluate.
  Context {T : Type} {NT : Num T}.
  Variable e : engine T.
  Variable membership : term T -> T -> result T.
  Hypothesis membership_total : forall tm x, exists y, membership tm x = Ok y.     (* Term.membership does not raise *)

  Lemma var_terms_some v terms : var_terms e v = Some terms ->
    (exists b, Antecedent.var_enabled e v = Some b) /\ (exists n, var_name e v = Some n) /\
    match v with
    | VIn i => exists iv, nth_error (e_inputs e) i = Some iv
    | VOut i => exists ov, nth_error (e_outputs e) i = Some ov
    end.
  Proof.
    destruct v as [i|i]; cbn [var_terms Antecedent.var_enabled var_name].
    - destruct (nth_error (e_inputs e) i) as [iv|]; [|discriminate]. intros _. cbn. repeat split; eauto.
    - destruct (nth_error (e_outputs e) i) as [ov|]; [|discriminate]. intros _. cbn. repeat split; eauto.
  Qed.

  (* Antecedent.activation_degree raises none of its structural errors on a loaded tree, whatever the operators *)
  Theorem expr_ok_evaluates conj disj x : expr_ok e x ->
    exists d, activation_degree membership (Some conj) (Some disj) e x = Ok d.
  Proof.
    induction 1 as [v hs k terms V Hk|v hs terms V Hne Hany|o l r Hl [dl IHl] Hr [dr IHr]].
    - destruct (var_terms_some _ V) as ((b & Hb) & _ & Hv). cbn [activation_degree]. rewrite V, Hb.
      destruct terms as [|t0 terms']; [cbn in Hk; lia|]. destruct b; cbn [negb]; [|eauto].
      destruct (last_is_any hs); [eauto|].
      destruct (nth_error (t0 :: terms') k) as [tm|] eqn:N; [|apply nth_error_None in N; lia].
      destruct v as [i|i]; destruct Hv as [w Hw]; rewrite Hw.
      + destruct (membership_total tm (iv_value w)) as [y ->]. cbn [bind]. eauto.
      + cbn [bind]. eauto.
    - destruct (var_terms_some _ V) as ((b & Hb) & _ & Hv). cbn [activation_degree]. rewrite V, Hb.
      destruct terms as [|t0 terms']; [congruence|]. destruct b; cbn [negb]; [|eauto]. rewrite Hany. eauto.
    - destruct o; cbn [activation_degree]; rewrite IHl, IHr; cbn [bind]; eauto.
  Qed.

  (* Antecedent.postfix() / infix() / prefix() render a loaded tree *)
  Theorem expr_ok_exports x : expr_ok e x -> exists p, postfix_tokens e x = Ok p.
  Proof.
    induction 1 as [v hs k terms V Hk|v hs terms V Hne Hany|o l r Hl [pl IHl] Hr [pr IHr]].
    - destruct (var_terms_some _ V) as (_ & (n & Hn) & _). cbn [postfix_tokens]. rewrite V, Hn.
      destruct (nth_error terms k) as [tm|] eqn:N; [eauto|apply nth_error_None in N; lia].
    - destruct (var_terms_some _ V) as (_ & (n & Hn) & _). cbn [postfix_tokens]. rewrite V, Hn. eauto.
    - cbn [postfix_tokens]. rewrite IHl, IHr. cbn [bind]. eauto.
  Qed.

  (* Rule.activate_with and Rule.trigger on an accepted rule *)
  Theorem accepted_rule_evaluates is_float f6 text o w conj disj degree imp enabled :
    load_rule_gen is_float f6 e text = Ok o ->
    exists x cs, ro_expression o = Some x /\ ro_conclusions o = cs /\
      let r := {| r_enabled := enabled; r_weight := w; r_antecedent := Some x; r_consequent := cs; r_degree := degree; r_triggered := false |} in
      rule_loaded r = true /\
      (exists p, postfix_tokens e x = Ok p) /\
      (exists d, rule_activate_with membership (Some conj) (Some disj) e r = Ok d) /\
      (exists r' outs', Consequent.trigger r imp (e_outputs e) = Ok (r', outs')).
  Proof.
    intros H. destruct (accepted_rule_loaded _ _ _ _ H) as ((_ & x & Hx & Hok & Hne & Hwf) & _).
    exists x, (ro_conclusions o). split; [exact Hx|]. split; [reflexivity|]. cbn zeta.
    assert (L : forall en dg, rule_loaded {| r_enabled := en; r_weight := w; r_antecedent := Some x; r_consequent := ro_conclusions o; r_degree := dg; r_triggered := false |} = true).
    { intros. unfold rule_loaded. cbn. destruct (ro_conclusions o); [congruence|reflexivity]. }
    split; [apply L|]. split; [now apply expr_ok_exports|]. split.
    - unfold rule_activate_with. rewrite L. cbn [r_antecedent r_weight]. destruct (expr_ok_evaluates conj disj Hok) as [d ->]. cbn [bind]. eauto.
    - unfold Consequent.trigger, trigger_with. rewrite L. cbn [negb r_enabled r_degree r_consequent]. destruct enabled; [|eauto].
      destruct (modify_gen_extended code_has_F1 degree imp Hne Hwf) as (outs' & M & _). unfold Consequent.modify. rewrite M. cbn [bind]. eauto.
  Qed.
End Evaluate.

(* ================= 6. counting ================= *)
Definition cnt (P : string -> bool) (l : list string) : nat := List.length (filter P l).
Lemma cnt_app P a b : cnt P (a ++ b) = cnt P a + cnt P b.
Proof. unfold cnt. now rewrite filter_app, app_length. Qed.
Lemma cnt_cons P x l : cnt P (x :: l) = (if P x then 1 else 0) + cnt P l.
Proof. unfold cnt. cbn. destruct (P x); reflexivity. Qed.
Lemma cnt_nil P : cnt P [] = 0. Proof. reflexivity. Qed.
Lemma cnt_zero P l : Forall (fun s => P s = false) l -> cnt P l = 0.
Proof. induction 1 as [|x l Hx _ IH]; [reflexivity|]. now rewrite cnt_cons, Hx, IH. Qed.

Definition is_lp (s : string) : bool := String.eqb s "(".
Definition is_rp (s : string) : bool := String.eqb s ")".

(* ---- the shunting-yard conserves every token except parentheses and commas, and accepts balanced parentheses only *)
Section SYCount.
  Variable tbl : table.
  Hypothesis TOK : table_ok tbl.

  Lemma pop_until_split st : forall ps r, pop_until_lparen st = (ps, r) ->
    st = ps ++ r /\ Forall (fun s => is_lp s = false) ps /\ (r = [] \/ exists r', r = "(" :: r').
  Proof.
    induction st as [|top st IH]; intros ps r; cbn [pop_until_lparen].
    - intros [= <- <-]. repeat split; auto.
    - destruct (String.eqb_spec top "(") as [->|NE].
      + intros [= <- <-]. repeat split; eauto.
      + destruct (pop_until_lparen st) as [ps' r'] eqn:E. intros [= <- <-]. destruct (IH _ _ eq_refl) as (H1 & H2 & H3).
        split; [cbn; now rewrite <- H1|]. split; [|exact H3]. constructor; [|exact H2]. unfold is_lp. now apply String.eqb_neq.
  Qed.

  Lemma pop_ops_split en st : forall ps r, pop_ops tbl en st = (ps, r) -> st = ps ++ r /\ Forall (in_tbl tbl) ps.
  Proof.
    induction st as [|top st IH]; intros ps r; cbn [pop_ops].
    - intros [= <- <-]. auto.
    - destruct (lookup tbl top) as [te|] eqn:L; [|intros [= <- <-]; auto].
      destruct (pops en te); [|intros [= <- <-]; auto].
      destruct (pop_ops tbl en st) as [ps' r'] eqn:E. intros [= <- <-]. destruct (IH _ _ eq_refl) as (H1 & H2).
      split; [cbn; now rewrite <- H1|]. constructor; [now exists te|exact H2].
  Qed.

  Lemma flush_split st : forall ps, flush_stack st = Ok ps -> ps = st /\ Forall (fun s => is_lp s = false) st.
  Proof.
    induction st as [|top st IH]; intros ps; cbn [flush_stack]; [intros [= <-]; auto|].
    destruct (String.eqb top "(") eqn:E1; cbn [orb]; [discriminate|]. destruct (String.eqb top ")"); [discriminate|].
    destruct (flush_stack st) as [ps'|]; [|discriminate]. intros [= <-]. destruct (IH _ eq_refl) as (-> & H). split; [reflexivity|]. now constructor.
  Qed.

  Lemma in_tbl_not_lp s : in_tbl tbl s -> is_lp s = false.
  Proof. intros H. now destruct (in_tbl_not_paren TOK H) as (H1 & _). Qed.

  Definition paren_free (P : string -> bool) : Prop := P "(" = false /\ P ")" = false /\ P "," = false.

  (* one step: tokens are conserved (parentheses and commas excepted); the "(" on the stack count the open parentheses *)
  Lemma step_counts P t q st q' st' : paren_free P -> step tbl t (q, st) = Ok (q', st') ->
    cnt P q' + cnt P st' = cnt P q + cnt P st + cnt P [t] /\
    cnt is_lp st' + cnt is_rp [t] = cnt is_lp st + cnt is_lp [t].
  Proof.
    intros (P1 & P2 & P3). unfold step. destruct (lookup tbl t) as [en|] eqn:L.
    - assert (Hin : in_tbl tbl t) by now exists en. destruct (in_tbl_not_paren TOK Hin) as (N1 & N2 & N3).
      assert (Hc : cnt is_rp [t] = 0 /\ cnt is_lp [t] = 0) by (unfold is_rp, is_lp; rewrite !cnt_cons, N1, N2; auto). destruct Hc as [-> ->].
      cbn [negb]. destruct (en_is_function en); cbn [negb].
      + intros [= <- <-]. rewrite !cnt_cons, !cnt_nil. unfold is_lp at 1. rewrite N1. lia.
      + rewrite N3. destruct (pop_ops tbl en st) as [ps r] eqn:E. intros [= <- <-]. destruct (pop_ops_split _ _ E) as (-> & Hps).
        rewrite !cnt_app, !cnt_cons, !cnt_nil. unfold is_lp at 1. rewrite N1.
        assert (cnt is_lp ps = 0) as -> by (apply cnt_zero; eapply Forall_impl; [|exact Hps]; apply in_tbl_not_lp). lia.
    - unfold is_paren_tok. destruct (String.eqb_spec t ",") as [->|N3].
      + rewrite !orb_true_r. cbn [negb]. destruct (pop_until_lparen st) as [ps r] eqn:E. destruct (pop_until_split _ E) as (-> & Hps & Hr).
        destruct r as [|top r]; [discriminate|]. intros [= <- <-]. rewrite !cnt_app, !cnt_cons, !cnt_nil, P3. cbn [is_rp is_lp String.eqb Ascii.eqb Bool.eqb].
        rewrite (cnt_zero _ Hps). lia.
      + rewrite orb_false_r. destruct (String.eqb_spec t "(") as [->|N1]; cbn [orb negb].
        * intros [= <- <-]. rewrite !cnt_cons, !cnt_nil, P1. cbn [is_rp is_lp String.eqb Ascii.eqb Bool.eqb]. lia.
        * destruct (String.eqb_spec t ")") as [->|N2]; cbn [negb].
          -- destruct (pop_until_lparen st) as [ps r] eqn:E. destruct (pop_until_split _ E) as (-> & Hps & Hr).
             destruct r as [|top r']; [discriminate|]. destruct Hr as [Hr|(r0 & Hr)]; [discriminate|]. injection Hr as -> ->.
             assert (G : forall qq ss, (qq, ss) = (q ++ ps, r0) \/ (exists top r1 te, r0 = top :: r1 /\ lookup tbl top = Some te /\ (qq, ss) = (q ++ ps ++ [top], r1)) ->
                         cnt P qq + cnt P ss = cnt P q + (cnt P (ps ++ "(" :: r0)) + cnt P [")"] /\
                         cnt is_lp ss + cnt is_rp [")"] = cnt is_lp (ps ++ "(" :: r0) + cnt is_lp [")"]).
             { intros qq ss [[= -> ->]|(top & r1 & te & -> & Lt & [= -> ->])];
                 rewrite !cnt_app, !cnt_cons, ?cnt_app, ?cnt_cons, !cnt_nil, P1, P2, (cnt_zero _ Hps); cbn [is_rp is_lp String.eqb Ascii.eqb Bool.eqb]; [lia|].
               assert (in_tbl tbl top) as Ht by now exists te. rewrite (in_tbl_not_lp Ht). lia. }
             destruct r0 as [|top r1]; [intros [= <- <-]; apply G; now left|].
             destruct (lookup tbl top) as [te|] eqn:Lt; [destruct (en_is_function te)|]; intros [= <- <-]; apply G; try (now left).
             right. exists top, r1, te. auto.
          -- intros [= <- <-]. rewrite !cnt_app, !cnt_cons, !cnt_nil.
             assert (is_rp t = false) as -> by (unfold is_rp; now apply String.eqb_neq).
             assert (is_lp t = false) as -> by (unfold is_lp; now apply String.eqb_neq). lia.
  Qed.

  Lemma run_counts P toks : paren_free P -> forall q st q' st', run tbl toks (q, st) = Ok (q', st') ->
    cnt P q' + cnt P st' = cnt P q + cnt P st + cnt P toks /\
    cnt is_lp st' + cnt is_rp toks = cnt is_lp st + cnt is_lp toks.
  Proof.
    intros HP. induction toks as [|t toks IH]; intros q st q' st'; cbn [run].
    - intros [= <- <-]. rewrite !cnt_nil. lia.
    - destruct (step tbl t (q, st)) as [[q1 st1]|] eqn:E; [|discriminate]. intros R.
      destruct (step_counts _ _ _ HP E) as (A1 & A2). destruct (IH _ _ _ _ R) as (B1 & B2).
      change (t :: toks) with ([t] ++ toks). rewrite !cnt_app. lia.
  Qed.

  Theorem sy_conserves P toks p : paren_free P -> infix_to_postfix tbl toks = Ok p -> cnt P p = cnt P toks.
  Proof.
    intros HP. unfold infix_to_postfix. destruct (run tbl toks ([], [])) as [[q st]|] eqn:R; [|discriminate].
    destruct (flush_stack st) as [ps|] eqn:F; [|discriminate]. intros [= <-]. destruct (flush_split _ F) as (-> & _).
    destruct (@run_counts P toks HP _ _ _ _ R) as (A & _). rewrite cnt_app. rewrite !cnt_nil in A. lia.
  Qed.

  Theorem sy_balanced toks p : infix_to_postfix tbl toks = Ok p -> cnt is_lp toks = cnt is_rp toks.
  Proof.
    unfold infix_to_postfix. destruct (run tbl toks ([], [])) as [[q st]|] eqn:R; [|discriminate].
    destruct (flush_stack st) as [ps|] eqn:F; [|discriminate]. intros _. destruct (flush_split _ F) as (_ & Hst).
    assert (HP : paren_free (fun _ => false)) by (repeat split).
    destruct (@run_counts _ toks HP _ _ _ _ R) as (_ & B). rewrite (cnt_zero _ Hst), !cnt_nil in B. lia.
  Qed.
End SYCount.

(* ---- token classes of an engine whose names are unambiguous *)
Definition is_is (s : string) : bool := String.eqb s "is".
Definition is_any (s : string) : bool := String.eqb s "any".
Definition is_conn (s : string) : bool := String.eqb s "and" || String.eqb s "or".
Definition is_and (s : string) : bool := String.eqb s "and".
(* names with a meaning of their own in an antecedent or a consequent: hedges (incl. `any`), `is`, `and`, `or`, parentheses, comma *)
Definition reserved (s : string) : bool := is_hedge_name s || is_is s || is_conn s || is_paren_tok s.

Lemma hedge_of_name_eq tok h : hedge_of_name tok = Some h -> tok = hedge_name h.
Proof. unfold hedge_of_name. intros H. apply find_some in H as [_ H]. apply String.eqb_eq in H. now subst. Qed.

Section Classes.
  Context {T : Type}.
  Variable e : engine T.

  Definition var_named (s : string) : bool :=
    existsb (fun v => String.eqb (iv_name v) s) (e_inputs e) || existsb (fun v => String.eqb (ov_name v) s) (e_outputs e).
  Definition out_named (s : string) : bool := existsb (fun v => String.eqb (ov_name v) s) (e_outputs e).
  Definition all_terms : list (term T) := flat_map (@iv_terms T) (e_inputs e) ++ flat_map (@ov_terms T) (e_outputs e).
  Definition term_named (s : string) : bool := existsb (fun t => String.eqb (term_name t) s) all_terms.

  (* variable names, term names and reserved words are pairwise disjoint *)
  Definition names_distinctb : bool :=
    forallb (fun v => negb (term_named (iv_name v)) && negb (reserved (iv_name v))) (e_inputs e) &&
    forallb (fun v => negb (term_named (ov_name v)) && negb (reserved (ov_name v))) (e_outputs e) &&
    forallb (fun t => negb (reserved (term_name t))) all_terms.
  Definition names_distinct : Prop := names_distinctb = true.

  Hypothesis D : names_distinct.

  Lemma var_not_term_reserved s : var_named s = true -> term_named s = false /\ reserved s = false.
  Proof.
    unfold names_distinct, names_distinctb in D. rewrite !andb_true_iff, !forallb_forall in D. destruct D as [[Di Do] _].
    unfold var_named. rewrite orb_true_iff, !existsb_exists. intros [(v & Hin & Hn)|(v & Hin & Hn)]; apply String.eqb_eq in Hn; subst s.
    - specialize (Di v Hin). apply andb_true_iff in Di as [A B]. now apply negb_true_iff in A, B.
    - specialize (Do v Hin). apply andb_true_iff in Do as [A B]. now apply negb_true_iff in A, B.
  Qed.
  Lemma term_not_reserved s : term_named s = true -> reserved s = false /\ var_named s = false.
  Proof.
    intros H. split.
    - unfold names_distinct, names_distinctb in D. rewrite !andb_true_iff, !forallb_forall in D. destruct D as [_ Dt].
      unfold term_named in H. rewrite existsb_exists in H. destruct H as (t & Hin & Hn). apply String.eqb_eq in Hn. subst s.
      specialize (Dt t Hin). now apply negb_true_iff in Dt.
    - destruct (var_named s) eqn:V; [|reflexivity]. destruct (var_not_term_reserved _ V). congruence.
  Qed.
  Lemma reserved_not_name s : reserved s = true -> var_named s = false /\ term_named s = false.
  Proof.
    intros H. split.
    - destruct (var_named s) eqn:V; [|reflexivity]. destruct (var_not_term_reserved _ V). congruence.
    - destruct (term_named s) eqn:V; [|reflexivity]. destruct (term_not_reserved _ V). congruence.
  Qed.
  Lemma not_reserved s : reserved s = false -> is_is s = false /\ is_any s = false /\ is_conn s = false /\ is_hedge_name s = false /\ is_paren_tok s = false.
  Proof.
    unfold reserved. rewrite !orb_false_iff. intros [[[H1 H2] H3] H4]. repeat split; auto.
    unfold is_any. destruct (String.eqb_spec s "any") as [->|]; [|reflexivity]. discriminate.
  Qed.

  (* the five counters move as follows on the tokens the loaders accept *)
  Definition class5 (s : string) : bool * bool * bool * bool * bool := (var_named s, is_is s, term_named s, is_any s, is_conn s).

  Lemma find_last_exists {A} (p : A -> bool) l k : find_last p l = Some k -> existsb p l = true.
  Proof. intros H. destruct (find_last_some _ _ H) as (a & Ha & Pa). apply existsb_exists. exists a. split; [eapply nth_error_In; eauto|exact Pa]. Qed.

  Lemma lookup_variable_named tok v : lookup_variable e tok = Some v -> var_named tok = true.
  Proof.
    unfold lookup_variable, var_named.
    destruct (find_last (fun v0 => String.eqb (ov_name v0) tok) (e_outputs e)) as [j|] eqn:Eo.
    - intros _. rewrite (find_last_exists _ _ Eo). apply orb_true_r.
    - destruct (find_last (fun v0 => String.eqb (iv_name v0) tok) (e_inputs e)) as [i|] eqn:Ei; [|discriminate].
      intros _. now rewrite (find_last_exists _ _ Ei).
  Qed.
  Lemma class_var tok v : usable_variable e tok = Some v -> class5 tok = (true, false, false, false, false).
  Proof.
    unfold usable_variable. destruct (lookup_variable e tok) as [r|] eqn:L; [|discriminate]. intros _.
    pose proof (lookup_variable_named _ L) as V. destruct (var_not_term_reserved _ V) as [Ht Hr].
    destruct (not_reserved _ Hr) as (H1 & H2 & H3 & _). unfold class5. now rewrite V, Ht, H1, H2, H3.
  Qed.
  Lemma class_reserved s : reserved s = true -> class5 s = (false, is_is s, false, is_any s, is_conn s).
  Proof. intros H. destruct (reserved_not_name _ H) as [Hv Ht]. unfold class5. now rewrite Hv, Ht. Qed.
  Lemma class_is : class5 "is" = (false, true, false, false, false).
  Proof. now rewrite class_reserved. Qed.
  Lemma class_hedge tok h : hedge_of_name tok = Some h -> class5 tok = (false, false, false, hedgex_is_any (HG h), false).
  Proof. intros H. apply hedge_of_name_eq in H. subst tok. rewrite class_reserved; destruct h; reflexivity. Qed.
  Lemma class_conn tok : is_conn tok = true -> class5 tok = (false, false, false, false, true).
  Proof.
    intros H. rewrite class_reserved; [|unfold reserved; rewrite H; now rewrite !orb_true_r].
    unfold is_conn in H. apply orb_true_iff in H as [H|H]; apply String.eqb_eq in H; subst; reflexivity.
  Qed.
  Lemma var_terms_in v terms tm : var_terms e v = Some terms -> In tm terms -> In tm all_terms.
  Proof.
    unfold all_terms. intros V Hin. apply in_or_app. destruct v as [i|i]; cbn [var_terms] in V.
    - destruct (nth_error (e_inputs e) i) as [iv|] eqn:N; [|discriminate]. injection V as <-. left. apply in_flat_map. exists iv. split; [eapply nth_error_In; eauto|exact Hin].
    - destruct (nth_error (e_outputs e) i) as [ov|] eqn:N; [|discriminate]. injection V as <-. right. apply in_flat_map. exists ov. split; [eapply nth_error_In; eauto|exact Hin].
  Qed.
  Lemma class_term_named tok : term_named tok = true -> class5 tok = (false, false, true, false, false).
  Proof.
    intros Ht. destruct (term_not_reserved _ Ht) as [Hr Hv]. destruct (not_reserved _ Hr) as (H1 & H2 & H3 & _).
    unfold class5. now rewrite Ht, Hv, H1, H2, H3.
  Qed.
  Lemma class_term tok v terms k : var_terms e v = Some terms -> find_last (fun tm => String.eqb (term_name tm) tok) terms = Some k ->
    class5 tok = (false, false, true, false, false).
  Proof.
    intros V K. apply class_term_named. destruct (find_last_some _ _ K) as (tm & Hn & Pn).
    unfold term_named. apply existsb_exists. exists tm. split; [|exact Pn]. eapply var_terms_in; eauto. eapply nth_error_In; eauto.
  Qed.

  Definition b2n (b : bool) : nat := if b then 1 else 0.
  Definition cv := cnt var_named.
  Definition ci := cnt is_is.
  Definition ct := cnt term_named.
  Definition ca := cnt is_any.
  Definition co := cnt is_conn.
  Lemma counts_snoc q tok : let '(bv, bi, bt, ba, bo) := class5 tok in
    cv (q ++ [tok]) = cv q + b2n bv /\ ci (q ++ [tok]) = ci q + b2n bi /\ ct (q ++ [tok]) = ct q + b2n bt /\
    ca (q ++ [tok]) = ca q + b2n ba /\ co (q ++ [tok]) = co q + b2n bo.
  Proof. unfold class5, cv, ci, ct, ca, co. rewrite !cnt_app, !cnt_cons, !cnt_nil. unfold b2n. repeat split; lia. Qed.

  (* ---- Antecedent.load: the counters after each state *)
  Definition top_prop (stack : list expr) : Prop := exists v hs t rest terms, stack = EProp v hs t :: rest /\ var_terms e v = Some terms.
  Definition kinv (q : list string) (s : Antecedent.load_state) : Prop :=
    let '(st, stack) := s in
    (st = Antecedent.s_variable /\ q = [] /\ stack = []) \/
    (st = Antecedent.s_is /\ cv q = ci q + 1 /\ ci q = ct q + ca q /\ List.length stack + co q = cv q /\ top_prop stack) \/
    (st = 12%N /\ cv q = ci q /\ ci q = ct q + ca q + 1 /\ List.length stack + co q = cv q /\ top_prop stack) \/
    (st = 17%N /\ cv q = ci q /\ ci q = ct q + ca q /\ List.length stack + co q = cv q).

  Lemma kstep q tok s s' : kinv q s -> Antecedent.load_step e tok s = Ok s' -> kinv (q ++ [tok]) s'.
  Proof.
    destruct s as [st stack]. unfold kinv.
    intros [(-> & -> & ->)|[(-> & K1 & K2 & K3 & v & hs & t & rest & terms & -> & V)|[(-> & K1 & K2 & K3 & v & hs & t & rest & terms & -> & V)|(-> & K1 & K2 & K3)]]];
      unfold Antecedent.load_step; eval_has; cbn [andb].
    - destruct (usable_variable e tok) as [v|] eqn:U; [|discriminate]. intros [= <-].
      pose proof (counts_snoc [] tok) as C. rewrite (class_var _ U) in C. destruct C as (C1 & C2 & C3 & C4 & C5). cbn [app] in *.
      right; left. split; [reflexivity|]. destruct (usable_terms _ _ U) as (terms & V & _). cbn [b2n List.length] in *.
      assert (Z0 : cv [] = 0 /\ ci [] = 0 /\ ct [] = 0 /\ ca [] = 0 /\ co [] = 0) by (repeat split; reflexivity). destruct Z0 as (? & ? & ? & ? & ?).
      repeat split; try lia. exists v, [], None, [], terms. auto.
    - destruct (String.eqb_spec KW_IS tok) as [<-|]; [|discriminate]. intros [= <-].
      pose proof (counts_snoc q KW_IS) as C. rewrite kw_is, class_is in C. destruct C as (C1 & C2 & C3 & C4 & C5). cbn [b2n] in *.
      right; right; left. split; [reflexivity|]. rewrite kw_is. repeat split; try lia. exists v, hs, t, rest, terms. auto.
    - destruct (hedge_of_name tok) as [h|] eqn:H.
      + pose proof (counts_snoc q tok) as C. rewrite (class_hedge _ H) in C. destruct C as (C1 & C2 & C3 & C4 & C5).
        destruct (hedgex_is_any (HG h)); intros [= <-]; cbn [b2n List.length] in *.
        * right; right; right. repeat split; try lia.
        * right; right; left. repeat split; try lia. exists v, (hs ++ [HG h]), t, rest, terms. auto.
      + rewrite V. destruct (find_last (fun tm => String.eqb (term_name tm) tok) terms) as [k|] eqn:K; [|discriminate]. intros [= <-].
        pose proof (counts_snoc q tok) as C. rewrite (class_term _ _ V K) in C. destruct C as (C1 & C2 & C3 & C4 & C5). cbn [b2n List.length] in *.
        right; right; right. repeat split; try lia.
    - destruct (usable_variable e tok) as [v|] eqn:U.
      + intros [= <-]. pose proof (counts_snoc q tok) as C. rewrite (class_var _ U) in C. destruct C as (C1 & C2 & C3 & C4 & C5). cbn [b2n List.length] in *.
        right; left. destruct (usable_terms _ _ U) as (terms & V & _). repeat split; try lia. exists v, [], None, stack, terms. auto.
      + destruct (String.eqb tok KW_AND || String.eqb tok KW_OR) eqn:O; [|discriminate].
        destruct stack as [|xr [|xl rest]]; try discriminate. intros [= <-].
        pose proof (counts_snoc q tok) as C. rewrite (class_conn _ O) in C. destruct C as (C1 & C2 & C3 & C4 & C5). cbn [b2n List.length] in *.
        right; right; right. repeat split; try lia.
  Qed.

  Lemma krun toks : forall q s s', kinv q s -> Antecedent.load_run e toks s = Ok s' -> kinv (q ++ toks) s'.
  Proof.
    induction toks as [|t toks IH]; intros q s s' K; cbn [Antecedent.load_run].
    - intros [= <-]. now rewrite app_nil_r.
    - destruct (Antecedent.load_step e t s) as [s1|] eqn:E; [|discriminate]. intros R.
      replace (q ++ t :: toks) with ((q ++ [t]) ++ toks) by now rewrite <- app_assoc.
      eapply IH; [|exact R]. eapply kstep; eauto.
  Qed.

  (* what every accepted postfix stream satisfies *)
  Theorem accepted_postfix_counts f6 p x : antecedent_load_postfix f6 e p = Ok x ->
    cv p = ci p /\ ci p = ct p + ca p /\ cv p = co p + 1.
  Proof.
    unfold antecedent_load_postfix. destruct (Antecedent.load_run e p (Antecedent.s_variable, [])) as [[st stack]|] eqn:R; [|discriminate].
    assert (K0 : kinv [] (Antecedent.s_variable, [])) by (left; auto).
    pose proof (@krun p [] _ _ K0 R) as K. cbn [app] in K. unfold kinv in K.
    destruct K as [(-> & -> & ->)|[(-> & K1 & K2 & K3 & _)|[(-> & K1 & K2 & K3 & _)|(-> & K1 & K2 & K3)]]];
      unfold antecedent_final; eval_has; cbn [negb]; try discriminate.
    - destruct f6; discriminate.
    - destruct stack as [|y [|z r]]; try discriminate. intros _. cbn [List.length] in K3. lia.
  Qed.

  Lemma class_paren_free : paren_free var_named /\ paren_free is_is /\ paren_free term_named /\ paren_free is_any /\ paren_free is_conn.
  Proof.
    assert (R1 : reserved "(" = true) by reflexivity. assert (R2 : reserved ")" = true) by reflexivity. assert (R3 : reserved "," = true) by reflexivity.
    destruct (reserved_not_name _ R1), (reserved_not_name _ R2), (reserved_not_name _ R3). repeat split; auto.
  Qed.

  (* as many variables as `is`, as terms or final `any`, as connectives + 1; as many "(" as ")" *)
  Definition balanced (ta : list string) : Prop :=
    cv ta = ci ta /\ ci ta = ct ta + ca ta /\ cv ta = co ta + 1 /\ cnt is_lp ta = cnt is_rp ta.

  Theorem accepted_tokens_balanced f6 ta p x :
    infix_to_postfix op_table ta = Ok p -> antecedent_load_postfix f6 e p = Ok x -> balanced ta.
  Proof.
    intros S L. destruct (accepted_postfix_counts _ _ L) as (A1 & A2 & A3).
    destruct class_paren_free as (P1 & P2 & P3 & P4 & P5).
    unfold balanced, cv, ci, ct, ca, co in *.
    rewrite <- (sy_conserves op_table_ok ta P1 S), <- (sy_conserves op_table_ok ta P2 S), <- (sy_conserves op_table_ok ta P3 S),
            <- (sy_conserves op_table_ok ta P4 S), <- (sy_conserves op_table_ok ta P5 S).
    repeat split; auto. exact (sy_balanced op_table_ok ta S).
  Qed.

  Theorem accepted_antecedent_balanced f6 text x : antecedent_load f6 e text = Ok x ->
    balanced (format_infix_tokens op_table KW_AND KW_OR text).
  Proof.
    unfold antecedent_load. destruct (String.eqb text ""); [discriminate|]. unfold infix_to_postfix_text.
    destruct (infix_to_postfix op_table (format_infix_tokens op_table KW_AND KW_OR text)) as [p|] eqn:S; [|discriminate].
    intros L. eapply accepted_tokens_balanced; eauto.
  Qed.
End Classes.

(* ---- Consequent.load: the counters after each state *)
Section ConsCount.
  Context {T : Type}.
  Variable e : engine T.
  Hypothesis D : names_distinct e.

  Definition cand := cnt is_and.
  Definition cur_ok (st : @lstate T) : Prop := exists i v hs, ls_cur st = Some (i, v, hs) /\ nth_error (e_outputs e) i = Some v.
  Definition qinv (q : list string) (st : @lstate T) : Prop :=
    (ls_state st = Consequent.s_variable /\ cv e q = ci q /\ ci q = ct e q /\ cv e q = cand q) \/
    (ls_state st = Consequent.s_is /\ cv e q = ci q + 1 /\ ci q = ct e q /\ cv e q = cand q + 1 /\ cur_ok st) \/
    (ls_state st = 12%N /\ cv e q = ci q /\ ci q = ct e q + 1 /\ cv e q = cand q + 1 /\ cur_ok st) \/
    (ls_state st = 48%N /\ cv e q = ci q /\ ci q = ct e q /\ cv e q = cand q + 1).

  Lemma not_conn_not_and t : is_conn t = false -> is_and t = false.
  Proof. unfold is_conn, is_and. now intros H%orb_false_iff. Qed.
  Lemma cand_snoc q tok : cand (q ++ [tok]) = cand q + b2n (is_and tok).
  Proof. unfold cand. rewrite cnt_app, cnt_cons, cnt_nil. unfold b2n. lia. Qed.

  Lemma out_var_named tok i v : dict_get (@ov_name T) (e_outputs e) tok = Some (i, v) -> var_named e tok = true.
  Proof.
    intros H. apply dict_get_nth in H as [Hn Hk]. unfold var_named. apply orb_true_iff. right. apply existsb_exists.
    exists v. split; [eapply nth_error_In; eauto|]. now apply String.eqb_eq.
  Qed.
  Lemma out_term_named tok i v j tm : nth_error (e_outputs e) i = Some v -> dict_get (@term_name T) (ov_terms v) tok = Some (j, tm) ->
    term_named e tok = true.
  Proof.
    intros Hv H. apply dict_get_nth in H as [Hn Hk]. unfold term_named. apply existsb_exists. exists tm. split; [|now apply String.eqb_eq].
    unfold all_terms. apply in_or_app. right. apply in_flat_map. exists v. split; eapply nth_error_In; eauto.
  Qed.

  Lemma qstep q tok st st' : qinv q st -> Consequent.load_step e st tok = Ok st' -> qinv (q ++ [tok]) st'.
  Proof.
    destruct st as [s d c]. unfold qinv, cur_ok. cbn [ls_state ls_cur].
    intros [(-> & K1 & K2 & K3)|[(-> & K1 & K2 & K3 & i & v & hs & -> & Hv)|[(-> & K1 & K2 & K3 & i & v & hs & -> & Hv)|(-> & K1 & K2 & K3)]]];
      unfold Consequent.load_step, try_variable, try_is, try_hedge, try_term, try_and, token_error; cbn [ls_state ls_cur ls_done]; eval_has; cbn [andb orelse].
    - destruct (dict_get (@ov_name T) (e_outputs e) tok) as [[i v]|] eqn:G; [destruct (var_truthy v)|]; cbn [orelse]; try discriminate.
      intros [= <-]. pose proof (out_var_named _ G) as V. destruct (var_not_term_reserved D _ V) as [Ht Hr]. destruct (not_reserved _ Hr) as (H1 & _ & H3 & _).
      pose proof (counts_snoc e q tok) as C. unfold class5 in C. rewrite V, Ht, H1 in C. destruct C as (C1 & C2 & C3 & _).
      pose proof (cand_snoc q tok) as C4. rewrite (not_conn_not_and _ H3) in C4. cbn [b2n] in *.
      right; left. cbn [ls_state ls_cur]. repeat split; try lia. apply dict_get_nth in G as [G _]. exists i, v, []. auto.
    - destruct (String.eqb_spec "is" tok) as [<-|]; cbn [orelse]; [|discriminate]. intros [= <-].
      pose proof (counts_snoc e q "is") as C. rewrite (class_is D) in C. destruct C as (C1 & C2 & C3 & _).
      pose proof (cand_snoc q "is") as C4. cbn [b2n is_and String.eqb Ascii.eqb Bool.eqb] in *.
      right; right; left. cbn [ls_state ls_cur]. repeat split; try lia. exists i, v, hs. auto.
    - destruct (hedge_lookup tok) as [h|] eqn:H; cbn [orelse].
      + intros [= <-]. change (hedge_lookup tok) with (hedge_of_name tok) in H.
        pose proof (counts_snoc e q tok) as C. rewrite (class_hedge D _ H) in C. destruct C as (C1 & C2 & C3 & _).
        pose proof (cand_snoc q tok) as C4. apply hedge_of_name_eq in H. assert (A : is_and tok = false) by (subst tok; now destruct h). rewrite A in C4. cbn [b2n] in *.
        right; right; left. cbn [ls_state ls_cur]. repeat split; try lia. exists i, v, (hs ++ [HG h]). auto.
      + destruct (dict_get (@term_name T) (ov_terms v) tok) as [[j tm]|] eqn:G; cbn [orelse]; [|discriminate]. intros [= <-].
        pose proof (@out_term_named tok i v j tm Hv G) as Ht. pose proof (counts_snoc e q tok) as C. rewrite (class_term_named D _ Ht) in C. destruct C as (C1 & C2 & C3 & _).
        destruct (term_not_reserved D _ Ht) as [Hr _]. destruct (not_reserved _ Hr) as (_ & _ & H3 & _).
        pose proof (cand_snoc q tok) as C4. rewrite (not_conn_not_and _ H3) in C4. cbn [b2n] in *.
        right; right; right. cbn [ls_state]. repeat split; lia.
    - destruct (String.eqb_spec "and" tok) as [<-|]; cbn [orelse]; [|discriminate]. intros [= <-].
      assert (O : is_conn "and" = true) by reflexivity.
      pose proof (counts_snoc e q "and") as C. rewrite (class_conn D _ O) in C. destruct C as (C1 & C2 & C3 & _).
      pose proof (cand_snoc q "and") as C4. cbn [b2n is_and String.eqb Ascii.eqb Bool.eqb] in *.
      left. cbn [ls_state]. repeat split; lia.
  Qed.

  Lemma qrun toks : forall q st st', qinv q st -> Consequent.load_run e st toks = Ok st' -> qinv (q ++ toks) st'.
  Proof.
    induction toks as [|t toks IH]; intros q st st' K; cbn [Consequent.load_run].
    - intros [= <-]. now rewrite app_nil_r.
    - destruct (Consequent.load_step e st t) as [s1|] eqn:E; cbn [bind]; [|discriminate]. intros R.
      replace (q ++ t :: toks) with ((q ++ [t]) ++ toks) by now rewrite <- app_assoc.
      eapply IH; [|exact R]. eapply qstep; eauto.
  Qed.

  (* as many output variables as `is` as terms as `and` + 1 *)
  Definition cbalanced (c : list string) : Prop := cv e c = ci c /\ ci c = ct e c /\ cv e c = cand c + 1.

  Theorem accepted_consequent_balanced toks cs : Consequent.load e toks = Ok cs -> cbalanced toks.
  Proof.
    unfold Consequent.load. destruct toks as [|t toks]; [discriminate|].
    destruct (Consequent.load_run e load_init (t :: toks)) as [[s d c]|] eqn:R; cbn [bind]; [|discriminate].
    assert (K0 : qinv [] (@load_init T)) by (left; repeat split; reflexivity).
    pose proof (@qrun (t :: toks) [] _ _ K0 R) as K. cbn [app] in K. unfold qinv in K. cbn [ls_state] in K.
    unfold load_final. cbn [ls_state].
    destruct K as [(-> & K1 & K2 & K3)|[(-> & K1 & K2 & K3 & _)|[(-> & K1 & K2 & K3 & _)|(-> & K1 & K2 & K3)]]]; eval_has; cbn [negb]; try discriminate.
    intros _. unfold cbalanced. auto.
  Qed.
End ConsCount.

(* ================= 7. the listed error classes ================= *)
Section Reject.
  Context {T : Type}.
  Variable is_float : string -> bool.
  Variable e : engine T.

  (* rejected, whichever final-state check the code has; with the repaired check the exception is SyntaxError *)
  Definition rejected (text : string) : Prop :=
    forall f6, exists x, load_rule_gen is_float f6 e text = Err x /\ (f6 = false -> x = ESyntax).
  Lemma rejected_current text : rejected text -> exists x, load_rule is_float e text = Err x.
  Proof. intros H. destruct (H code_has_F6) as (x & Hx & _). now exists x. Qed.
  Lemma rejected_fixed text : rejected text -> load_fixed is_float e text = Err ESyntax.
  Proof. intros H. destruct (H false) as (x & Hx & Hs). now rewrite <- (Hs eq_refl). Qed.

  Lemma parse_error_rejected text : parse_rule is_float text = Err ESyntax -> rejected text.
  Proof. intros P f6. exists ESyntax. unfold load_rule_gen, create_gen, parse_text. rewrite P. auto. Qed.

  (* ---- the shape of a rule text: blank-joined clean tokens, keywords only in their places *)
  Record rule_shape (a c : list string) (w : option string) : Prop := {
    sh_a : a <> []; sh_c : c <> [];
    sh_then : free_of "then" a; sh_with : free_of "with" c;
    sh_w : match w with Some t => is_float t = true | None => True end;
    sh_ante : Forall ante_tok a;
    sh_clean : Forall clean_tok (rule_toks a c w) }.

  Lemma shape_parse a c w : rule_shape a c w -> parse_rule is_float (join_sp (rule_toks a c w)) = Ok (a, c, w).
  Proof. intros S. unfold parse_rule. rewrite rule_tokens_join by apply S. apply parse_shape; apply S. Qed.
  Lemma shape_tokens a c w : rule_shape a c w -> format_infix_tokens op_table KW_AND KW_OR (join_sp a) = a.
  Proof. intros S. apply format_join. apply S. Qed.

  Section WithDistinctNames.
  Hypothesis D : names_distinct e.

  (* ---- the core: an antecedent whose tokens are not balanced is rejected *)
  Theorem unbalanced_antecedent_rejected text a c w : parse_rule is_float text = Ok (a, c, w) ->
    ~ balanced e (format_infix_tokens op_table KW_AND KW_OR (join_sp a)) -> rejected text.
  Proof.
    intros P NB f6. unfold load_rule_gen, create_gen, parse_text. rewrite P.
    pose proof (rule_load_outcome e f6 {| ro_text := {| rt_antecedent := join_sp a; rt_consequent := join_sp c; rt_weight := w |}; ro_expression := None; ro_conclusions := [] |}) as H.
    unfold rule_load in *. cbn [ro_text rt_antecedent] in *.
    destruct (antecedent_load f6 e (join_sp a)) as [x|y] eqn:A.
    - exfalso. apply NB. eapply accepted_antecedent_balanced; eauto.
    - exists y. split; [reflexivity|]. destruct H as (_ & _ & [->|(_ & -> & _)]); [auto|discriminate].
  Qed.

  Theorem unbalanced_rejected a c w : rule_shape a c w -> ~ balanced e a -> rejected (join_sp (rule_toks a c w)).
  Proof. intros S NB. eapply unbalanced_antecedent_rejected; [now apply shape_parse|]. now rewrite (shape_tokens S). Qed.

  (* ---- how one token moves the balance *)
  Definition weight4 (t : string) : nat * nat * nat * nat * nat * nat :=
    (b2n (var_named e t), b2n (is_is t), b2n (term_named e t) + b2n (is_any t), b2n (is_conn t), b2n (is_lp t), b2n (is_rp t)).
  Definition neutral (t : string) : Prop :=
    let '(v, i, tm, o, l, r) := weight4 t in v = i /\ i = tm /\ v = o /\ l = r.

  Lemma balanced_delete pre t post : balanced e (pre ++ t :: post) -> balanced e (pre ++ post) -> neutral t.
  Proof.
    unfold balanced, neutral, weight4, cv, ci, ct, ca, co. rewrite !cnt_app, !cnt_cons. unfold b2n. intros (A1 & A2 & A3 & A4) (B1 & B2 & B3 & B4).
    repeat split; lia.
  Qed.
  Lemma balanced_segment pre seg post : balanced e (pre ++ seg ++ post) -> balanced e (pre ++ post) ->
    cv e seg = ci seg /\ ci seg = ct e seg + ca seg /\ cv e seg = co seg /\ cnt is_lp seg = cnt is_rp seg.
  Proof.
    unfold balanced, cv, ci, ct, ca, co. rewrite !cnt_app. intros (A1 & A2 & A3 & A4) (B1 & B2 & B3 & B4). repeat split; lia.
  Qed.
  Lemma balanced_substitute pre t u post : balanced e (pre ++ t :: post) -> balanced e (pre ++ u :: post) ->
    let '(v, i, tm, o, l, r) := weight4 t in let '(v', i', tm', o', l', r') := weight4 u in
    v + i' = i + v' /\ i + tm' = tm + i' /\ v + o' = o + v' /\ l + r' = r + l'.
  Proof.
    unfold balanced, weight4, cv, ci, ct, ca, co. rewrite !cnt_app, !cnt_cons. unfold b2n. intros (A1 & A2 & A3 & A4) (B1 & B2 & B3 & B4).
    repeat split; lia.
  Qed.

  (* the weights of the token classes *)
  Lemma weight_is : weight4 "is" = (0, 1, 0, 0, 0, 0).
  Proof. unfold weight4. assert (R : reserved "is" = true) by reflexivity. destruct (reserved_not_name D _ R) as [-> ->]. reflexivity. Qed.
  Lemma weight_conn t : is_conn t = true -> weight4 t = (0, 0, 0, 1, 0, 0).
  Proof.
    intros H. unfold is_conn in H. apply orb_true_iff in H as [H|H]; apply String.eqb_eq in H; subst; unfold weight4.
    - assert (R : reserved "and" = true) by reflexivity. destruct (reserved_not_name D _ R) as [-> ->]. reflexivity.
    - assert (R : reserved "or" = true) by reflexivity. destruct (reserved_not_name D _ R) as [-> ->]. reflexivity.
  Qed.
  Lemma weight_var t : var_named e t = true -> weight4 t = (1, 0, 0, 0, 0, 0).
  Proof.
    intros V. unfold weight4. destruct (var_not_term_reserved D _ V) as [Ht Hr]. destruct (not_reserved _ Hr) as (H1 & H2 & H3 & _ & H5).
    rewrite V, Ht, H1, H2, H3. unfold is_paren_tok in H5. rewrite !orb_false_iff in H5. destruct H5 as [[L R] _]. unfold is_lp, is_rp. now rewrite L, R.
  Qed.
  Lemma weight_term t : term_named e t = true -> weight4 t = (0, 0, 1, 0, 0, 0).
  Proof.
    intros V. unfold weight4. destruct (term_not_reserved D _ V) as [Hr Hv]. destruct (not_reserved _ Hr) as (H1 & H2 & H3 & _ & H5).
    rewrite V, Hv, H1, H2, H3. unfold is_paren_tok in H5. rewrite !orb_false_iff in H5. destruct H5 as [[L R] _]. unfold is_lp, is_rp. now rewrite L, R.
  Qed.
  Lemma weight_any : weight4 "any" = (0, 0, 1, 0, 0, 0).
  Proof. unfold weight4. assert (R : reserved "any" = true) by reflexivity. destruct (reserved_not_name D _ R) as [-> ->]. reflexivity. Qed.
  Lemma weight_lp : weight4 "(" = (0, 0, 0, 0, 1, 0).
  Proof. unfold weight4. assert (R : reserved "(" = true) by reflexivity. destruct (reserved_not_name D _ R) as [-> ->]. reflexivity. Qed.
  Lemma weight_rp : weight4 ")" = (0, 0, 0, 0, 0, 1).
  Proof. unfold weight4. assert (R : reserved ")" = true) by reflexivity. destruct (reserved_not_name D _ R) as [-> ->]. reflexivity. Qed.
  (* a name the engine does not know and that is no keyword, hedge or parenthesis *)
  Definition unknown_name (u : string) : Prop := var_named e u = false /\ term_named e u = false /\ reserved u = false.
  Lemma weight_unknown u : unknown_name u -> weight4 u = (0, 0, 0, 0, 0, 0).
  Proof.
    intros (Hv & Ht & Hr). unfold weight4. destruct (not_reserved _ Hr) as (H1 & H2 & H3 & _ & H5).
    rewrite Hv, Ht, H1, H2, H3. unfold is_paren_tok in H5. rewrite !orb_false_iff in H5. destruct H5 as [[L R] _]. unfold is_lp, is_rp. now rewrite L, R.
  Qed.

  Ltac by_weight W := let N := fresh in intros N; unfold neutral in N; rewrite W in N; cbn in N; lia.

  (* a token that counts: its removal or its insertion unbalances the antecedent *)
  Definition counted (t : string) : Prop :=
    t = "is" \/ is_conn t = true \/ var_named e t = true \/ term_named e t = true \/ t = "any" \/ t = "(" \/ t = ")".
  Lemma counted_not_neutral t : counted t -> ~ neutral t.
  Proof.
    intros [->|[H|[H|[H|[->|[->| ->]]]]]].
    - by_weight weight_is. - by_weight (weight_conn _ H). - by_weight (weight_var _ H). - by_weight (weight_term _ H).
    - by_weight weight_any. - by_weight weight_lp. - by_weight weight_rp.
  Qed.

  (* ---- one token of a counted class deleted from / inserted into a balanced antecedent (in particular: an accepted one) *)
  Theorem token_deleted_rejected pre t post c w : counted t -> balanced e (pre ++ t :: post) ->
    rule_shape (pre ++ post) c w -> rejected (join_sp (rule_toks (pre ++ post) c w)).
  Proof.
    intros Ct B S. apply unbalanced_rejected; [exact S|]. intros B'. exact (counted_not_neutral Ct (balanced_delete _ _ _ B B')).
  Qed.
  Theorem token_inserted_rejected pre t post c w : counted t -> balanced e (pre ++ post) ->
    rule_shape (pre ++ t :: post) c w -> rejected (join_sp (rule_toks (pre ++ t :: post) c w)).
  Proof.
    intros Ct B S. apply unbalanced_rejected; [exact S|]. intros B'. exact (counted_not_neutral Ct (balanced_delete _ _ _ B' B)).
  Qed.

  (* missing `is` *)
  Theorem missing_is pre post c w : balanced e (pre ++ "is" :: post) -> rule_shape (pre ++ post) c w ->
    rejected (join_sp (rule_toks (pre ++ post) c w)).
  Proof. apply token_deleted_rejected. now left. Qed.

  (* missing variable / missing term (or final `any`) *)
  Theorem missing_variable pre v post c w : var_named e v = true -> balanced e (pre ++ v :: post) -> rule_shape (pre ++ post) c w ->
    rejected (join_sp (rule_toks (pre ++ post) c w)).
  Proof. intros V. apply token_deleted_rejected. right; right; now left. Qed.
  Theorem missing_term pre t post c w : term_named e t = true \/ t = "any" -> balanced e (pre ++ t :: post) -> rule_shape (pre ++ post) c w ->
    rejected (join_sp (rule_toks (pre ++ post) c w)).
  Proof. intros [V| ->]; apply token_deleted_rejected; [right; right; right; now left|right; right; right; right; now left]. Qed.

  (* missing operand: a connective with one operand — a dangling / doubled connective, a missing connective,
     or a whole proposition removed next to a connective *)
  Theorem dangling_connective pre o post c w : is_conn o = true -> balanced e (pre ++ post) -> rule_shape (pre ++ o :: post) c w ->
    rejected (join_sp (rule_toks (pre ++ o :: post) c w)).
  Proof. intros O. apply token_inserted_rejected. right; now left. Qed.
  Theorem missing_connective pre o post c w : is_conn o = true -> balanced e (pre ++ o :: post) -> rule_shape (pre ++ post) c w ->
    rejected (join_sp (rule_toks (pre ++ post) c w)).
  Proof. intros O. apply token_deleted_rejected. right; now left. Qed.
  Theorem missing_operand pre seg post c w : cv e seg <> co seg -> balanced e (pre ++ seg ++ post) -> rule_shape (pre ++ post) c w ->
    rejected (join_sp (rule_toks (pre ++ post) c w)).
  Proof.
    intros Hseg B S. apply unbalanced_rejected; [exact S|]. intros B'. destruct (balanced_segment _ _ _ B B') as (_ & _ & H & _). contradiction.
  Qed.
  (* the segment `v is h1 … hk t` of a proposition has one variable and no connective *)
  Lemma proposition_segment v hs tg : var_named e v = true -> (match tg with TTerm n => term_named e n = true | TAny => True end) ->
    cv e (prop_tokens v hs tg) <> co (prop_tokens v hs tg).
  Proof.
    intros V Htg. unfold prop_tokens, cv, co. rewrite !cnt_cons, !cnt_app, !cnt_cons, !cnt_nil.
    pose proof (weight_var _ V) as Wv. unfold weight4 in Wv. injection Wv as Wv _ _ Wo _ _.
    assert (Hh : cnt is_conn (map hedge_name hs) = 0).
    { apply cnt_zero. apply Forall_forall. intros s Hs. apply in_map_iff in Hs as (h & <- & _). now destruct h. }
    assert (Ht : is_conn (target_token tg) = false).
    { destruct tg as [n|]; [|reflexivity]. cbn [target_token]. pose proof (weight_term _ Htg) as W. unfold weight4 in W. injection W as _ _ _ W _ _.
      destruct (is_conn n); [discriminate|reflexivity]. }
    rewrite Hh, Ht. destruct (var_named e v); [|discriminate]. destruct (is_conn v); [discriminate|]. cbn. lia.
  Qed.

  (* unknown variable / unknown term: a name of the rule replaced by a name the engine does not know *)
  Theorem unknown_variable pre v u post c w : var_named e v = true -> unknown_name u -> balanced e (pre ++ v :: post) ->
    rule_shape (pre ++ u :: post) c w -> rejected (join_sp (rule_toks (pre ++ u :: post) c w)).
  Proof.
    intros V U B S. apply unbalanced_rejected; [exact S|]. intros B'. pose proof (balanced_substitute _ _ _ _ B B') as H.
    rewrite (weight_var _ V), (weight_unknown U) in H. lia.
  Qed.
  Theorem unknown_term pre t u post c w : term_named e t = true -> unknown_name u -> balanced e (pre ++ t :: post) ->
    rule_shape (pre ++ u :: post) c w -> rejected (join_sp (rule_toks (pre ++ u :: post) c w)).
  Proof.
    intros V U B S. apply unbalanced_rejected; [exact S|]. intros B'. pose proof (balanced_substitute _ _ _ _ B B') as H.
    rewrite (weight_term _ V), (weight_unknown U) in H. lia.
  Qed.

  (* unbalanced parenthesis: one "(" or ")" too many or too few *)
  Theorem unbalanced_parenthesis_extra pre t post c w : t = "(" \/ t = ")" -> balanced e (pre ++ post) -> rule_shape (pre ++ t :: post) c w ->
    rejected (join_sp (rule_toks (pre ++ t :: post) c w)).
  Proof. intros [-> | ->]; apply token_inserted_rejected; unfold counted; auto 10. Qed.
  Theorem unbalanced_parenthesis_missing pre t post c w : t = "(" \/ t = ")" -> balanced e (pre ++ t :: post) -> rule_shape (pre ++ post) c w ->
    rejected (join_sp (rule_toks (pre ++ post) c w)).
  Proof. intros [-> | ->]; apply token_deleted_rejected; unfold counted; auto 10. Qed.

  (* ---- the same on the consequent side *)
  Lemma shape_consequent_clean a c w : rule_shape a c w -> Forall clean_tok c.
  Proof.
    intros S. pose proof (sh_clean S) as C. unfold rule_toks in C. inversion C as [|? ? _ C']; subst. apply Forall_app in C' as [_ C'].
    inversion C' as [|? ? _ C'']; subst. apply Forall_app in C'' as [C'' _]. exact C''.
  Qed.
  Theorem unbalanced_consequent_rejected a c w : rule_shape a c w -> ~ cbalanced e c -> rejected (join_sp (rule_toks a c w)).
  Proof.
    intros S NB f6. unfold load_rule_gen, create_gen, parse_text. rewrite (shape_parse S).
    pose proof (rule_load_outcome e f6 {| ro_text := {| rt_antecedent := join_sp a; rt_consequent := join_sp c; rt_weight := w |}; ro_expression := None; ro_conclusions := [] |}) as H.
    unfold rule_load in *. cbn [ro_text rt_antecedent rt_consequent] in *.
    destruct (antecedent_load f6 e (join_sp a)) as [x|y].
    - unfold consequent_load in *. rewrite (split_join (shape_consequent_clean S)) in *.
      destruct (Consequent.load e c) as [cs|y] eqn:L.
      + exfalso. apply NB. eapply accepted_consequent_balanced; eauto.
      + exists y. split; [reflexivity|]. intros _. eapply consequent_err; eauto.
    - exists y. split; [reflexivity|]. destruct H as (_ & _ & [->|(_ & -> & _)]); [auto|discriminate].
  Qed.

  Definition cweight (t : string) : nat * nat * nat * nat := (b2n (var_named e t), b2n (is_is t), b2n (term_named e t), b2n (is_and t)).
  Lemma cbalanced_delete pre t post : cbalanced e (pre ++ t :: post) -> cbalanced e (pre ++ post) ->
    let '(v, i, tm, o) := cweight t in v = i /\ i = tm /\ v = o.
  Proof.
    unfold cbalanced, cweight, cv, ci, ct, cand. rewrite !cnt_app, !cnt_cons. unfold b2n. intros (A1 & A2 & A3) (B1 & B2 & B3). repeat split; lia.
  Qed.
  Lemma cbalanced_substitute pre t u post : cbalanced e (pre ++ t :: post) -> cbalanced e (pre ++ u :: post) ->
    let '(v, i, tm, o) := cweight t in let '(v', i', tm', o') := cweight u in v + i' = i + v' /\ i + tm' = tm + i' /\ v + o' = o + v'.
  Proof.
    unfold cbalanced, cweight, cv, ci, ct, cand. rewrite !cnt_app, !cnt_cons. unfold b2n. intros (A1 & A2 & A3) (B1 & B2 & B3). repeat split; lia.
  Qed.
  Lemma weight4_cweight t v i tm o l r : weight4 t = (v, i, tm, o, l, r) -> o = 0 -> is_any t = false -> cweight t = (v, i, tm, 0).
  Proof.
    unfold weight4, cweight. intros [= <- <- <- <- _ _] Ho Ha. rewrite Ha. cbn [b2n]. rewrite Nat.add_0_r.
    destruct (is_conn t) eqn:C; [discriminate|]. now rewrite (not_conn_not_and _ C).
  Qed.
  (* a token that counts in a consequent: `is`, `and`, a variable name, a term name *)
  Definition ccounted (t : string) : Prop := t = "is" \/ t = "and" \/ var_named e t = true \/ term_named e t = true.
  Lemma ccounted_weight t : ccounted t -> exists v i tm o, cweight t = (v, i, tm, o) /\ ~ (v = i /\ i = tm /\ v = o).
  Proof.
    intros [->|[->|[H|H]]].
    - exists 0, 1, 0, 0. split; [|lia]. apply (weight4_cweight weight_is); reflexivity.
    - exists 0, 0, 0, 1. split; [|lia]. unfold cweight. assert (R : reserved "and" = true) by reflexivity. destruct (reserved_not_name D _ R) as [-> ->]. reflexivity.
    - exists 1, 0, 0, 0. split; [|lia]. apply (weight4_cweight (weight_var _ H)); [reflexivity|].
      destruct (var_not_term_reserved D _ H) as [_ Hr]. now destruct (not_reserved _ Hr) as (_ & ? & _).
    - exists 0, 0, 1, 0. split; [|lia]. apply (weight4_cweight (weight_term _ H)); [reflexivity|].
      destruct (term_not_reserved D _ H) as [Hr _]. now destruct (not_reserved _ Hr) as (_ & ? & _).
  Qed.
  Theorem consequent_token_deleted_rejected a pre t post w : ccounted t -> cbalanced e (pre ++ t :: post) ->
    rule_shape a (pre ++ post) w -> rejected (join_sp (rule_toks a (pre ++ post) w)).
  Proof.
    intros Ct B S. apply unbalanced_consequent_rejected; [exact S|]. intros B'. pose proof (cbalanced_delete _ _ _ B B') as H.
    destruct (ccounted_weight Ct) as (v & i & tm & o & E & N). rewrite E in H. contradiction.
  Qed.
  Theorem consequent_token_inserted_rejected a pre t post w : ccounted t -> cbalanced e (pre ++ post) ->
    rule_shape a (pre ++ t :: post) w -> rejected (join_sp (rule_toks a (pre ++ t :: post) w)).
  Proof.
    intros Ct B S. apply unbalanced_consequent_rejected; [exact S|]. intros B'. pose proof (cbalanced_delete _ _ _ B' B) as H.
    destruct (ccounted_weight Ct) as (v & i & tm & o & E & N). rewrite E in H. contradiction.
  Qed.
  Theorem consequent_unknown_name a pre t u post w : var_named e t = true \/ term_named e t = true -> unknown_name u ->
    cbalanced e (pre ++ t :: post) -> rule_shape a (pre ++ u :: post) w -> rejected (join_sp (rule_toks a (pre ++ u :: post) w)).
  Proof.
    intros Ht U B S. apply unbalanced_consequent_rejected; [exact S|]. intros B'. pose proof (cbalanced_substitute _ _ _ _ B B') as H.
    assert (Eu : cweight u = (0, 0, 0, 0)).
    { apply (weight4_cweight (weight_unknown U)); [reflexivity|]. destruct U as (_ & _ & Hr). now destruct (not_reserved _ Hr) as (_ & ? & _). }
    rewrite Eu in H. destruct Ht as [Ht|Ht].
    - assert (ccounted t) as Ct by (right; right; now left). rewrite (weight4_cweight (weight_var _ Ht) eq_refl) in H.
      + lia.
      + destruct (var_not_term_reserved D _ Ht) as [_ Hr]. now destruct (not_reserved _ Hr) as (_ & ? & _).
    - rewrite (weight4_cweight (weight_term _ Ht) eq_refl) in H.
      + lia.
      + destruct (term_not_reserved D _ Ht) as [Hr _]. now destruct (not_reserved _ Hr) as (_ & ? & _).
  Qed.
  End WithDistinctNames.

  (* parentheses alone: no hypothesis on the names *)
  Theorem unbalanced_parentheses_rejected a c w : rule_shape a c w -> cnt is_lp a <> cnt is_rp a -> rejected (join_sp (rule_toks a c w)).
  Proof.
    intros S NB f6. unfold load_rule_gen, create_gen, parse_text. rewrite (shape_parse S). unfold rule_load. cbn [ro_text rt_antecedent].
    unfold antecedent_load. destruct (String.eqb (join_sp a) ""); [exists ESyntax; auto|].
    unfold infix_to_postfix_text. rewrite (shape_tokens S). destruct (infix_to_postfix op_table a) as [p|y] eqn:P.
    - exfalso. apply NB. exact (sy_balanced op_table_ok a P).
    - exists y. split; [reflexivity|]. intros _. eapply sy_err; eauto.
  Qed.

  (* ---- the keyword and weight classes (no hypothesis on the engine) *)
  Theorem missing_if toks : Forall clean_tok toks -> hd_error toks <> Some "if" -> rejected (join_sp toks).
  Proof. intros C H. apply parse_error_rejected. unfold parse_rule. rewrite rule_tokens_join by assumption. now apply parse_missing_if. Qed.
  Theorem missing_then rest : Forall clean_tok ("if" :: rest) -> free_of "then" rest -> rejected (join_sp ("if" :: rest)).
  Proof. intros C H. apply parse_error_rejected. unfold parse_rule. rewrite rule_tokens_join by assumption. now apply parse_missing_then. Qed.
  Theorem trailing_token_after_weight a c t extra rest : Forall clean_tok ("if" :: a ++ "then" :: c ++ "with" :: t :: extra :: rest) ->
    free_of "then" a -> free_of "with" c -> is_float t = true -> rejected (join_sp ("if" :: a ++ "then" :: c ++ "with" :: t :: extra :: rest)).
  Proof. intros C Fa Fc Ht. apply parse_error_rejected. unfold parse_rule. rewrite rule_tokens_join by assumption. now apply parse_trailing_after_weight. Qed.
  Theorem missing_weight a c : Forall clean_tok ("if" :: a ++ "then" :: c ++ ["with"]) ->
    free_of "then" a -> free_of "with" c -> rejected (join_sp ("if" :: a ++ "then" :: c ++ ["with"])).
  Proof. intros C Fa Fc. apply parse_error_rejected. unfold parse_rule. rewrite rule_tokens_join by assumption. now apply parse_missing_weight. Qed.
  (* a weight that is not a number: ValueError *)
  Theorem non_numeric_weight a c t rest f6 : Forall clean_tok ("if" :: a ++ "then" :: c ++ "with" :: t :: rest) ->
    free_of "then" a -> free_of "with" c -> is_float t = false ->
    load_rule_gen is_float f6 e (join_sp ("if" :: a ++ "then" :: c ++ "with" :: t :: rest)) = Err EValue.
  Proof.
    intros C Fa Fc Ht. unfold load_rule_gen, create_gen, parse_text, parse_rule. rewrite rule_tokens_join by assumption.
    now rewrite parse_non_numeric_weight.
  Qed.
  (* a token after a consequent that loads (no weight): rejected, whatever the token *)
  Theorem trailing_token_after_consequent a c extra : rule_shape a (c ++ [extra]) None ->
    (exists cs, Consequent.load e c = Ok cs) -> rejected (join_sp (rule_toks a (c ++ [extra]) None)).
  Proof.
    intros S (cs & L) f6. unfold load_rule_gen, create_gen, parse_text. rewrite (shape_parse S).
    pose proof (rule_load_outcome e f6 {| ro_text := {| rt_antecedent := join_sp a; rt_consequent := join_sp (c ++ [extra]); rt_weight := None |}; ro_expression := None; ro_conclusions := [] |}) as H.
    unfold rule_load in *. cbn [ro_text rt_antecedent rt_consequent] in *.
    assert (Hc : Forall clean_tok (c ++ [extra])).
    { pose proof (sh_clean S) as C. unfold rule_toks in C. inversion C as [|? ? _ C']; subst. apply Forall_app in C' as [_ C'].
      inversion C' as [|? ? _ C'']; subst. apply Forall_app in C'' as [C'' _]. exact C''. }
    destruct (antecedent_load f6 e (join_sp a)) as [x|y].
    - unfold consequent_load in *. rewrite (split_join Hc) in *. rewrite (consequent_trailing _ _ extra L) in *. exists ESyntax. auto.
    - exists y. split; [reflexivity|]. destruct H as (_ & _ & [->|(_ & -> & _)]); [auto|discriminate].
  Qed.
End Reject.

(* ---- every antecedent printed from the grammar (Spec/Grammar.v Part B, names as in C06) is balanced: the rejection
        theorems above apply to every rule generated from the grammar with one injected error *)
Section GrammarLink.
  Context {T : Type}.
  Variable e : engine T.

  (* Model/Antecedent.v's loader and this file's agree on success (whichever final-state check Antecedent.v models) *)
  Lemma aload_ok_gen f6 p x : Antecedent.load e p = Ok x -> antecedent_load_postfix f6 e p = Ok x.
  Proof.
    unfold Antecedent.load, antecedent_load_postfix. pose proof (@arun_inv T e p _ (ainv_init e)) as H.
    destruct (Antecedent.load_run e p (Antecedent.s_variable, [])) as [[st stack]|y]; [|discriminate].
    unfold ainv in H. cbn [fst snd] in H.
    destruct H as [(-> & ->)|[(-> & v & rest & terms & -> & V & Hne & Hrest)|[(-> & v & hs & rest & terms & -> & V & Hne & Hrest)|(-> & Hne & Hst)]]];
      unfold antecedent_final; eval_has; cbn [negb andb]; try discriminate.
    intros H; exact H.
  Qed.

  Theorem grammar_balanced t ta : Prints 0 t ta -> names_ok e t -> names_distinct e -> balanced e ta.
  Proof.
    intros HP Hn D. destruct (names_ok_resolves Hn) as [x Hx]. pose proof (antecedent_load_complete HP Hn Hx) as H.
    unfold AntecedentProofs.parse_tokens in H. destruct (infix_to_postfix op_table ta) as [p|] eqn:S; [|discriminate].
    eapply accepted_tokens_balanced; [exact D|exact S|]. apply (aload_ok_gen true). exact H.
  Qed.
End GrammarLink.

(* a rule whose antecedent is written according to the grammar (names as in C06) and whose consequent loads is accepted,
   with the tree the grammar denotes: the rules the rejection theorems start from exist for every grammar tree *)
Section GrammarAccept.
  Context {T : Type}.
  Variable is_float : string -> bool.
  Variable e : engine T.

  Lemma ante_tok_nonempty w : ante_tok w -> w <> "".
  Proof. intros [H|[-> | ->]]; try discriminate. destruct w; [discriminate|discriminate]. Qed.

  Theorem grammar_rule_accepted f6 t a c w x cs :
    rule_shape is_float a c w -> Prints 0 t a -> names_ok e t -> resolve e t = Some x -> Consequent.load e c = Ok cs ->
    load_rule_gen is_float f6 e (join_sp (rule_toks a c w)) =
    Ok {| ro_text := {| rt_antecedent := join_sp a; rt_consequent := join_sp c; rt_weight := w |};
          ro_expression := Some x; ro_conclusions := cs |}.
  Proof.
    intros S HP Hn Hx Hc. unfold load_rule_gen, create_gen, parse_text. rewrite (shape_parse S). unfold rule_load. cbn [ro_text rt_antecedent rt_consequent].
    assert (A : antecedent_load f6 e (join_sp a) = Ok x).
    { unfold antecedent_load. destruct (String.eqb_spec (join_sp a) "") as [E|_].
      - exfalso. revert E. apply join_sp_nonempty; [apply S|]. eapply Forall_impl; [|exact (sh_ante S)]. apply ante_tok_nonempty.
      - unfold infix_to_postfix_text. rewrite (shape_tokens S). pose proof (antecedent_load_complete HP Hn Hx) as H.
        unfold AntecedentProofs.parse_tokens in H. destruct (infix_to_postfix op_table a) as [p|]; [|discriminate]. now apply aload_ok_gen. }
    rewrite A. unfold consequent_load. rewrite (split_join (shape_consequent_clean S)), Hc. reflexivity.
  Qed.
End GrammarAccept.

(* ================= 8. witnesses ================= *)
Section Witness.
  Context {T : Type} {NT : Num T}.

  Definition wt (name : string) : term T := TLinear name [].
  Definition w_in (name : string) (terms : list (term T)) : input_var T :=
    {| iv_name := name; iv_enabled := true; iv_min := zero; iv_max := one; iv_lock_range := false; iv_terms := terms; iv_value := zero |}.
  Definition w_out (name : string) (terms : list (term T)) : output_var T :=
    {| ov_name := name; ov_enabled := true; ov_min := zero; ov_max := one; ov_lock_range := false; ov_lock_previous := false;
       ov_default := zero; ov_aggregation := None; ov_defuzzifier := None; ov_terms := terms; ov_value := zero; ov_previous := zero; ov_fuzzy := [] |}.
  (* inputs a {lo, hi}, b {lo, hi}; outputs x {p}, y {q} *)
  Definition w_engine : engine T :=
    {| e_name := "w"; e_inputs := [w_in "a" [wt "lo"; wt "hi"]; w_in "b" [wt "lo"; wt "hi"]];
       e_outputs := [w_out "x" [wt "p"]; w_out "y" [wt "q"]]; e_blocks := [] |}.

  Definition isf := ascii_float_syntax.
  Definition w_ante : list string := ["a"; "is"; "lo"; "and"; "("; "b"; "is"; "very"; "hi"; "or"; "a"; "is"; "any"; ")"].
  Definition w_cons : list string := ["x"; "is"; "p"; "and"; "y"; "is"; "not"; "q"].
  Definition w_text : string := join_sp (rule_toks w_ante w_cons (Some "0.5")).

  Lemma w_text_eq : w_text = "if a is lo and ( b is very hi or a is any ) then x is p and y is not q with 0.5".
  Proof. reflexivity. Qed.

  Definition w_expr : expr :=
    EOp true (EProp (VIn 0) [] (Some 0))
             (EOp false (EProp (VIn 1) [HG H_Very] (Some 1)) (EProp (VIn 0) [HG H_Any] None)).
  Definition w_concl : list conclusion :=
    [{| c_var := 0; c_hedges := []; c_term := 0 |}; {| c_var := 1; c_hedges := [HG H_Not]; c_term := 0 |}].

  (* the valid rule is accepted (by either variant of the code), with this tree *)
  Lemma w_accepted f6 : load_rule_gen isf f6 w_engine w_text =
    Ok {| ro_text := {| rt_antecedent := join_sp w_ante; rt_consequent := join_sp w_cons; rt_weight := Some "0.5" |};
          ro_expression := Some w_expr; ro_conclusions := w_concl |}.
  Proof. destruct f6; vm_compute; reflexivity. Qed.

  Lemma w_distinct : names_distinct w_engine.
  Proof. vm_compute. reflexivity. Qed.

  Lemma w_balanced : balanced w_engine w_ante.
  Proof. vm_compute. repeat split. Qed.

  Ltac solve_forall := repeat (first [apply Forall_nil | apply Forall_cons]); try (vm_compute; tauto); try (vm_compute; intuition congruence).

  (* F6: the antecedent ends in `is` *)
  Lemma w_F6_as_written : load_as_written isf w_engine "if a is then x is p" = Err EInternal.
  Proof. vm_compute. reflexivity. Qed.
  Lemma w_F6_fixed : load_fixed isf w_engine "if a is then x is p" = Err ESyntax.
  Proof. vm_compute. reflexivity. Qed.
  Lemma w_F6_hedge_as_written : load_as_written isf w_engine "if a is very then x is p" = Err EInternal.
  Proof. vm_compute. reflexivity. Qed.
  (* a failed consequent leaves the antecedent loaded, the rule not loaded *)
  Lemma w_consequent_failure f6 :
    let o := state_after_gen isf f6 w_engine "if a is lo then x is" in
    load_rule_gen isf f6 w_engine "if a is lo then x is" = Err ESyntax /\
    antecedent_loaded o = true /\ consequent_loaded o = false /\ is_loaded o = false.
  Proof. destruct f6; vm_compute; auto. Qed.

  (* one injected error of each class in the valid rule: rejected (computed on the model) *)
  Definition w_mutants : list (string * string) :=
    [("missing_if", "a is lo and ( b is very hi or a is any ) then x is p and y is not q with 0.5");
     ("missing_then", "if a is lo and ( b is very hi or a is any ) x is p and y is not q with 0.5");
     ("missing_is", "if a is lo and ( b very hi or a is any ) then x is p and y is not q with 0.5");
     ("missing_is (consequent)", "if a is lo and ( b is very hi or a is any ) then x p and y is not q with 0.5");
     ("missing_operand", "if a is lo and ( b is very hi or ) then x is p and y is not q with 0.5");
     ("missing_operand (dangling and)", "if a is lo and then x is p and y is not q with 0.5");
     ("missing_operand (consequent)", "if a is lo then x is p and with 0.5");
     ("missing_term", "if a is lo and ( b is very or a is any ) then x is p and y is not q with 0.5");
     ("missing_term (consequent)", "if a is lo then x is p and y is not with 0.5");
     ("missing_variable", "if is lo and ( b is very hi or a is any ) then x is p and y is not q with 0.5");
     ("missing_variable (consequent)", "if a is lo then is p and y is not q");
     ("unknown_variable", "if c is lo and ( b is very hi or a is any ) then x is p and y is not q with 0.5");
     ("unknown_variable (consequent)", "if a is lo then z is p");
     ("unknown_term", "if a is mid and ( b is very hi or a is any ) then x is p and y is not q with 0.5");
     ("unknown_term (consequent: a term of another variable)", "if a is lo then x is q");
     ("unbalanced_parenthesis", "if a is lo and ( b is very hi or a is any then x is p and y is not q with 0.5");
     ("unbalanced_parenthesis (extra)", "if a is lo and ( b is very hi or a is any ) ) then x is p and y is not q with 0.5");
     ("trailing_token", "if a is lo then x is p with 0.5 y");
     ("trailing_token (no weight)", "if a is lo then x is p y")].
  Lemma w_mutants_rejected f6 : forallb (fun m => match load_rule_gen isf f6 w_engine (snd m) with Err ESyntax => true | _ => false end) w_mutants = true.
  Proof. destruct f6; vm_compute; reflexivity. Qed.
  Lemma w_non_numeric_weight f6 : load_rule_gen isf f6 w_engine "if a is lo then x is p with heavy" = Err EValue.
  Proof. destruct f6; vm_compute; reflexivity. Qed.

  (* the hypotheses of the rejection theorems are inhabited: `missing_is` applied to the valid rule *)
  Definition w_ante_no_is : list string := ["a"; "is"; "lo"; "and"; "("; "b"] ++ ["very"; "hi"; "or"; "a"; "is"; "any"; ")"].
  Lemma w_shape_no_is : rule_shape isf w_ante_no_is w_cons (Some "0.5").
  Proof.
    split; try discriminate; try reflexivity; unfold free_of, w_ante_no_is, w_cons, rule_toks; cbn [app weight_tokens].
    - solve_forall.
    - solve_forall.
    - repeat (first [apply Forall_nil | apply Forall_cons]); vm_compute; tauto.
    - repeat (first [apply Forall_nil | apply Forall_cons]); (split; [discriminate|split; reflexivity]).
  Qed.
  Lemma w_missing_is_by_theorem : rejected isf w_engine (join_sp (rule_toks w_ante_no_is w_cons (Some "0.5"))).
  Proof. exact (missing_is w_distinct ["a"; "is"; "lo"; "and"; "("; "b"] ["very"; "hi"; "or"; "a"; "is"; "any"; ")"] w_balanced w_shape_no_is). Qed.

  (* RuleBlock.load_rules: one good and one bad rule -> RuntimeError, the good one stays loaded *)
  Lemma w_load_rules f6 :
    let rules := [fst (create_gen isf f6 w_engine "if a is lo then x is p"); fst (create_gen isf f6 w_engine "if a is lo then z is p")] in
    let r := load_rules_gen f6 w_engine rules in
    snd r = Some ERuntime /\ map is_loaded (fst r) = [true; false].
  Proof. destruct f6; vm_compute; auto. Qed.
End Witness.

(* ---- the status of "never an internal error" as a function of the switch *)
Theorem no_internal_error_status (f6 : bool) :
  if f6 then exists text, @load_rule_gen R isf f6 (@w_engine R NumR) text = Err EInternal
  else forall (T : Type) (is_float : string -> bool) (e : engine T) text, load_rule_gen is_float f6 e text <> Err EInternal.
Proof.
  destruct f6.
  - exists "if a is then x is p". vm_compute. reflexivity.
  - intros T is_float e text. apply rule_load_no_internal_error_fixed.
Qed.

(* ================= 9. FllImporter (Model/Fll.v): every failure is a syntax, value or lookup error ================= *)
From VF Require Fll.
Module FllReject.
Import Fll.

(* r does not fail, or fails with SyntaxError, ValueError or KeyError *)
Definition ni {A} (r : result A) : Prop := forall x, r = Err x -> x = ESyntax \/ x = EValue \/ x = ELookup.
Lemma ni_ok {A} (a : A) : ni (Ok a). Proof. intros x; discriminate. Qed.
Lemma ni_syntax {A} : ni (@Err A ESyntax). Proof. intros x [= <-]; auto. Qed.
Lemma ni_value {A} : ni (@Err A EValue). Proof. intros x [= <-]; auto. Qed.
Lemma ni_lookup {A} : ni (@Err A ELookup). Proof. intros x [= <-]; auto. Qed.
Lemma ni_bind {A B} (r : result A) (f : A -> result B) : ni r -> (forall a, ni (f a)) -> ni (bind r f).
Proof. unfold ni. destruct r as [a|y]; cbn; [intros _ H; apply H|intros H _ x [= <-]; now apply H]. Qed.
#[local] Hint Resolve ni_ok ni_syntax ni_value ni_lookup : ni.

(* breaks a goal `ni (…)` along ifs, matches, binds and destructuring lets *)
Ltac ni_step :=
  match goal with
  | |- ni (Ok _) => apply ni_ok
  | |- ni (Err ESyntax) => apply ni_syntax
  | |- ni (Err EValue) => apply ni_value
  | |- ni (Err ELookup) => apply ni_lookup
  | |- ni (bind _ _) => apply ni_bind; [|intros ?]
  | |- ni (if ?b then _ else _) => destruct b
  | |- ni (match ?x with _ => _ end) => destruct x
  | |- ni (let '(_, _) := ?x in _) => destruct x
  end.
Ltac ni_auto := repeat (first [solve [auto with ni] | ni_step]).

(* a value as extract_key_value returns it: stripped, hence empty or starting with a non-blank character *)
Definition headed (v : string) : Prop := match v with EmptyString => True | String c _ => is_ws c = false end.
Lemma lstrip_headed v : headed (lstrip v).
Proof. induction v as [|c v IH]; cbn; [exact I|]. destruct (is_ws c) eqn:E; [exact IH|exact E]. Qed.
Lemma rstrip_headed v : headed v -> headed (rstrip v).
Proof. destruct v as [|c v]; cbn; [auto|]. intros H. rewrite H, andb_false_r. exact H. Qed.
Lemma strip_headed v : headed (strip v).
Proof. unfold strip. apply rstrip_headed, lstrip_headed. Qed.
Lemma lstrip_of_headed v : headed v -> lstrip v = v.
Proof. destruct v as [|c v]; cbn; [reflexivity|]. now intros ->. Qed.

(* value.split(maxsplit=1) of a non-empty stripped value has one or two parts: values[0] exists *)
Lemma split_max_1 v : headed v -> v <> "" -> (exists a, split_max 1 v = [a]) \/ (exists a b, split_max 1 v = [a; b]).
Proof.
  intros H Hne. cbn [split_max]. rewrite (lstrip_of_headed _ H). destruct v as [|c v]; [congruence|].
  destruct (span_tok (String c v)) as [t r]. cbn [split_max]. destruct (lstrip r); eauto.
Qed.

Section Import.
  Variable num : Type.
  Variable parse : string -> option num.
  Variables n_nan n_pinf n_ninf n_one n_zero : num.

  Lemma ni_parse_all toks : ni (parse_all parse toks).
  Proof. induction toks as [|t r IH]; cbn [parse_all]; ni_auto. Qed.
  Lemma ni_parse_num s : ni (parse_num parse s).
  Proof. unfold parse_num. ni_auto. Qed.
  Lemma ni_parse_int s : ni (parse_int s).
  Proof. unfold parse_int. ni_auto. Qed.
  Lemma ni_import_bool v : ni (import_bool v).
  Proof. unfold import_bool. ni_auto. Qed.
  #[local] Hint Resolve ni_parse_all ni_parse_num ni_parse_int ni_import_bool : ni.
  Lemma ni_import_range v : ni (import_range parse v).
  Proof. unfold import_range. ni_auto. Qed.
  Lemma ni_import_tnorm v : ni (import_tnorm v).
  Proof. unfold import_tnorm. ni_auto. Qed.
  Lemma ni_import_snorm v : ni (import_snorm v).
  Proof. unfold import_snorm. ni_auto. Qed.
  Lemma ni_construct_defuzzifier n : ni (construct_defuzzifier n).
  Proof. unfold construct_defuzzifier. ni_auto. Qed.
  Lemma ni_configure_defuzzifier f p : ni (configure_defuzzifier f p).
  Proof. unfold configure_defuzzifier. ni_auto. Qed.
  #[local] Hint Resolve ni_import_range ni_import_tnorm ni_import_snorm ni_construct_defuzzifier ni_configure_defuzzifier : ni.
  Lemma ni_import_defuzzifier v : headed v -> ni (import_defuzzifier v).
  Proof.
    intros H. unfold import_defuzzifier. destruct (String.eqb_spec v "") as [->|Hne]; cbn [orb]; [apply ni_ok|].
    destruct (String.eqb v "none"); [apply ni_ok|].
    destruct (@split_max_1 v H Hne) as [(a & ->)|(a & b & ->)]; ni_auto.
  Qed.
  Lemma ni_construct_activation n : ni (construct_activation n_zero n).
  Proof. unfold construct_activation. ni_auto. Qed.
  Lemma ni_two_tokens p : ni (two_tokens p).
  Proof. unfold two_tokens. ni_auto. Qed.
  #[local] Hint Resolve ni_construct_activation ni_two_tokens : ni.
  Lemma ni_configure_activation a p : ni (configure_activation parse a p).
  Proof. unfold configure_activation. destruct a; ni_auto. Qed.
  #[local] Hint Resolve ni_configure_activation : ni.
  Lemma ni_import_activation v : headed v -> ni (import_activation parse n_zero v).
  Proof.
    intros H. unfold import_activation. destruct (String.eqb_spec v "") as [->|Hne]; cbn [orb]; [apply ni_ok|].
    destruct (String.eqb v "none"); [apply ni_ok|].
    destruct (@split_max_1 v H Hne) as [(a & ->)|(a & b & ->)]; ni_auto.
  Qed.
  Lemma ni_parse_shape_params ar hh p : ni (parse_shape_params parse n_one ar hh p).
  Proof. unfold parse_shape_params. ni_auto. Qed.
  Lemma ni_configure_discrete n p : ni (configure_discrete parse n_one n p).
  Proof. unfold configure_discrete. ni_auto. Qed.
  #[local] Hint Resolve ni_parse_shape_params ni_configure_discrete : ni.
  Lemma ni_construct_term cls n ps : ni (construct_term parse n_nan n_one cls n ps).
  Proof. unfold construct_term. ni_auto. Qed.
  #[local] Hint Resolve ni_construct_term : ni.
  Lemma ni_import_term kraw v : ni (import_term parse n_nan n_one kraw v).
  Proof. unfold import_term. ni_auto. Qed.
  Lemma ni_rule_fsm toks : forall st a c w, ni (rule_fsm parse toks st a c w).
  Proof. induction toks as [|t r IH]; intros st a c w; cbn [rule_fsm]; [apply ni_ok|]. destruct st; ni_auto. Qed.
  #[local] Hint Resolve ni_rule_fsm : ni.
  Lemma ni_parse_rule text : ni (parse_rule parse n_one text).
  Proof. unfold parse_rule. ni_auto. Qed.
  #[local] Hint Resolve ni_parse_rule ni_import_term : ni.
  Lemma ni_import_rule kraw v : ni (import_rule parse n_one kraw v).
  Proof. unfold import_rule. ni_auto. Qed.
  #[local] Hint Resolve ni_import_rule ni_import_defuzzifier ni_import_activation : ni.

  Lemma key_value_headed l kraw key value : key_value l = Ok (kraw, key, value) -> headed value.
  Proof. unfold key_value. destruct (split_colon (clean_line l)) as [[k v]|]; [|discriminate]. intros [= _ _ <-]. apply strip_headed. Qed.
  Lemma ni_key_value l : ni (key_value l).
  Proof. unfold key_value. ni_auto. Qed.

  Lemma ni_fold_block {S} (f : string -> string -> string -> S -> result S) :
    (forall kraw key value s, headed value -> ni (f kraw key value s)) -> forall lines s, ni (fold_block f lines s).
  Proof.
    intros Hf. induction lines as [|line rest IH]; intros s; cbn [fold_block]; [apply ni_ok|].
    destruct (String.eqb (clean_line line) ""); [apply IH|].
    destruct (key_value (clean_line line)) as [[[kraw key] value]|x] eqn:K; cbn [bind].
    - apply ni_bind; [apply Hf; eapply key_value_headed; eauto|intros ?; apply IH].
    - intros y [= <-]. eapply ni_key_value; eauto.
  Qed.

  Lemma ni_input_line kraw key value v : ni (input_line parse n_nan n_one kraw key value v).
  Proof. unfold input_line. destruct v. ni_auto. Qed.
  Lemma ni_output_line kraw key value v : headed value -> ni (output_line parse n_nan n_one kraw key value v).
  Proof. intros H. unfold output_line. destruct v. ni_auto. Qed.
  Lemma ni_block_line kraw key value b : headed value -> ni (block_line parse n_one n_zero kraw key value b).
  Proof. intros H. unfold block_line. destruct b. ni_auto. Qed.
  Lemma ni_engine_line kraw key value (e : fll_engine num) : ni (engine_line kraw key value e).
  Proof. unfold engine_line. destruct e. ni_auto. Qed.

  Lemma ni_process component block e : ni (process parse n_nan n_pinf n_ninf n_one n_zero component block e).
  Proof.
    unfold process, import_input, import_output, import_block. destruct e.
    repeat match goal with |- ni (if ?b then _ else _) => destruct b end.
    - apply ni_fold_block. intros; apply ni_engine_line.
    - apply ni_bind; [apply ni_bind; [apply ni_fold_block; intros; apply ni_input_line|intros []; apply ni_ok]|intros ?; apply ni_ok].
    - apply ni_bind; [apply ni_bind; [apply ni_fold_block; intros; now apply ni_output_line|intros []; apply ni_ok]|intros ?; apply ni_ok].
    - apply ni_bind; [apply ni_fold_block; intros; now apply ni_block_line|intros ?; apply ni_ok].
    - apply ni_ok.
  Qed.

  Lemma ni_engine_loop lines : forall component block e, ni (engine_loop parse n_nan n_pinf n_ninf n_one n_zero lines component block e).
  Proof.
    induction lines as [|line rest IH]; intros component block e; cbn [engine_loop].
    - destruct (String.eqb component ""); [apply ni_ok|apply ni_process].
    - destruct (String.eqb (clean_line line) ""); [apply IH|].
      apply ni_bind; [apply ni_key_value|]. intros [[kraw key] value]. destruct (is_header key); [|apply IH].
      apply ni_bind; [destruct (String.eqb component ""); [apply ni_ok|apply ni_process]|intros ?; apply IH].
  Qed.

  (* every failure of FllImporter.from_string is a SyntaxError, ValueError or KeyError … *)
  Theorem fll_import_error_classes lines x : import_ parse n_nan n_pinf n_ninf n_one n_zero lines = Err x ->
    x = ESyntax \/ x = EValue \/ x = ELookup.
  Proof. unfold import_. apply ni_engine_loop. Qed.
  (* … never an internal error *)
  Corollary fll_import_no_internal_error lines : import_ parse n_nan n_pinf n_ninf n_one n_zero lines <> Err EInternal.
  Proof. intros H. destruct (fll_import_error_classes _ H) as [E|[E|E]]; discriminate. Qed.
End Import.
End FllReject.
