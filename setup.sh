#!/bin/bash
# Build the framework from files on disk only (offline): translate /repo's kernels, build every Coq file.
set -e
cd "$(dirname "$0")"
export PYTHONPATH="${VERIF_REPO:-/repo}:$PWD/tools" PYTHONHASHSEED=0 PYTHONDONTWRITEBYTECODE=1
mkdir -p coq/Gen work evidence replays
/venv/bin/python tools/translate.py coq/Gen
cd coq
coq_makefile -f _CoqProject -o Makefile >/dev/null
timeout 3000 make -j16 2>&1 | tail -5
# no declared axioms / admitted proofs / disabled checks anywhere in the development
if grep -rnE '\b(Admitted|admit|Axiom|Parameter|Conjecture|Unset Guard Checking|bypass_check|Admit Obligations)\b' --include='*.v' . | grep -v '^\./Gen/.*(\*' ; then
  echo "forbidden construct found"; exit 1
fi
echo setup-ok
