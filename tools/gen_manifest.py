#!/usr/bin/env python3
"""Writes /verif/MANIFEST.json from the table below (one entry per claimed property)."""
import json, os

HERE = os.path.dirname(os.path.dirname(os.path.abspath(__file__)))
ALL = [f"C{i:02d}" for i in range(1, 21)]
CLAIMED = {
    "C04": dict(
        text="Theorems over the reals about the Gallina translation of every norm kernel regenerated from norm.py on each run (closed forms, range, commutativity, monotonicity, associativity, identity, annihilator, min/max bounds, duality), plus a bit-exact binary64 correspondence of the same translated kernels against NumPy on the exhaustive dyadic grid, random and special values, and a direct law/formula oracle on the implementation.",
        note="Coq kernel + vm_compute; stdlib Reals axioms (sig_forall_dec, sig_not_dec, classic, functional_extensionality_dep); the translator tools/translate.py; PrimFloat = IEEE binary64; R-level theorems do not speak about rounding.",
        technique="Rocq proof over R of a model regenerated from source by a translator + bit-exact correspondence (vm_compute on PrimFloat)",
        ref="DESIGN.md §3 C04"),
    "C05": dict(
        text="Theorems over the reals about the Gallina translation of every hedge kernel regenerated from hedge.py on each run (closed forms, range, fix points, monotonicity, ordering, mutual inverses, involution), plus a bit-exact binary64 correspondence (libm pow results recorded by an observer clone) and a direct oracle on the implementation.",
        note="As C04; libm pow(x,2) results are taken from the implementation.",
        technique="Rocq proof over R of a model regenerated from source by a translator + bit-exact correspondence (vm_compute on PrimFloat)",
        ref="DESIGN.md §3 C05"),
    "C20": dict(
        text="Theorems by induction over settings programs (arbitrary nesting depth, raise at any point, direct assignments): every key named by a context has its previous value after the context on normal and exceptional exit, unnamed keys are untouched by the context, observations inside see the temporary values; hand-written model of Settings.context tied to the code by an exact correspondence over exhaustive/sampled programs run on the real fl.settings, plus a direct oracle on raw Python objects.",
        note="Coq kernel + vm_compute; all theorems closed under the global context (no axioms); the model of Settings.context is hand-written (tied by correspondence only); Python's contextmanager/generator semantics trusted.",
        technique="Rocq proof (induction on programs) about a hand model + exact correspondence on operation sequences",
        ref="DESIGN.md §3 C20"),
    "C03": dict(
        text="Theorems over the reals about the Gallina translation of every shape term regenerated from term.py on each run: membership = height x documented closed form under the term's validity predicate, range [0,height], break-point values, monotonicity of exactly the terms that declare it; over the extended reals (NaN, +-inf with IEEE special-value rules): NaN exactly when x is NaN, values at +-inf, infinite shoulders; bit-exact binary64 correspondence of the same kernels (and of a hand model of numpy.interp for Discrete) against NumPy at every parameter value and its float neighbours, +-inf, NaN, scalar/1-d/2-d; float-level range/NaN/break-point statements are searched, not proved.",
        note="Coq kernel + vm_compute; stdlib Reals axioms; translator; exp/cos/power/libm-pow results recorded from the implementation; R/ER theorems do not speak about rounding (the float-level statements are marked partial in the evidence); Discrete is a hand model of numpy.interp.",
        technique="Rocq proof over R and extended reals of a model regenerated from source + bit-exact correspondence (vm_compute on PrimFloat)",
        ref="DESIGN.md §3 C03"),
    "C11": dict(
        text="Theorems over the reals about the translated tsukamoto kernels: membership(tsukamoto(y)) = y for 0<y<height (both directions), z monotone in y in the term's direction, z inside the support, tsukamoto defined iff the class declares itself monotonic (generated table); bit-exact binary64 correspondence incl. y next to 0, height/2, height; float-level inverse within 1e-6 h searched, not proved.",
        note="As C03; log and libm pow results recorded from the implementation.",
        technique="Rocq proof over R of a model regenerated from source + bit-exact correspondence (vm_compute on PrimFloat)",
        ref="DESIGN.md §3 C11"),
    "C07": dict(
        text="Hand model of Consequent.load / Consequent.modify / Rule.trigger (as written, incl. the known leak of hedged degrees) with theorems for arbitrary conclusion lists: each enabled conclusion adds exactly one activated term carrying its term, the block's implication and the sanitised degree; nothing is added for disabled variables or rules; the running-degree characterisation of the code as written, the documented spec under the leak-free condition, its kernel-checked refutation in general (known finding), and the full spec + independence for the repaired loop; sanitize NaN/-inf -> 0, +inf -> 1. Exact correspondence of fuzzy-output contents on real rules (scalar and batch degrees, special values, all orders, flags) and a direct per-conclusion oracle.",
        note="Coq kernel + vm_compute; stdlib Reals axioms where R is used; hand model tied by correspondence only; libm pow recorded from the implementation; known finding modify:hedged-degree-leaks is reported as KNOWN-FINDING.",
        technique="Rocq proof (induction over conclusions) about a hand model + exact correspondence on generated rules",
        ref="DESIGN.md §3 C07"),
}
PENDING_REASON = "check under construction in this round (planned in DESIGN.md §3); not claimed until its theorems and correspondence run"

def main():
    checks = []
    for pid in ALL:
        if pid not in CLAIMED:
            continue
        c = CLAIMED[pid]
        checks.append({
            "property_id": pid,
            "quick_cmd": f"./check {pid} quick",
            "thorough_cmd": f"./check {pid} thorough",
            "evidence_file": f"/verif/evidence/{pid}.json",
            "replay_cmd_template": f"./check {pid} --replay {{path}}",
            "engine": "rocq-model",
            "level_claimed": {"category": "proof", "text": c["text"], "design_ref": c["ref"]},
            "level_note": c["note"],
            "technique": c["technique"],
        })
    m = {
        "version": 1,
        "setup_cmd": "./setup.sh",
        "hooks": {
            "guard": "PYFUZZYLITE_VERIF",
            "enable": "no source hooks are used: observers are clones of the modules built inside the harness process (tools/vlib.py observed_module)",
            "baseline_off_cmd": "cd /repo && /venv/bin/python -m pytest -ra -q -p no:cacheprovider --timeout=900 --continue-on-collection-errors",
            "source_commits": [],
            "add_only": True,
        },
        "engines": [{"name": "rocq-model", "path": "/verif/coq", "serves_properties": sorted(CLAIMED), "kind_free_text": "Coq 8.16.1 development: Num interface (R / PrimFloat instances), kernels regenerated from /repo by tools/translate.py, hand models tied by a correspondence harness (tools/props/*.py)"}],
        "checks": checks,
        "not_applicable": [{"property_id": p, "reason": PENDING_REASON} for p in ALL if p not in CLAIMED],
        "notes": "See DESIGN.md. ./check <id> quick|thorough regenerates the model from /repo's working tree, rebuilds the proofs, runs the correspondence and the failing-input search.",
    }
    json.dump(m, open(os.path.join(HERE, "MANIFEST.json"), "w"), indent=1)

if __name__ == "__main__":
    main()
