#!/usr/bin/env python3
"""Writes /verif/MANIFEST.json from the table below (one entry per claimed property)."""
import json, os

HERE = os.path.dirname(os.path.dirname(os.path.abspath(__file__)))
ALL = [f"C{i:02d}" for i in range(1, 21)]
CLAIMED = {
    "C04": dict(
        text="Theorems over the reals about the Gallina translation of every norm kernel regenerated from norm.py on each run (closed forms, range, commutativity, monotonicity, associativity, identity, annihilator, min/max bounds, duality), plus a bit-exact binary64 correspondence of the same translated kernels against NumPy on the exhaustive dyadic grid, random and special values, and a direct law/formula oracle on the implementation. Binary64 level (C04b, through Flocq): every law is proved for all doubles of [0,1] or refuted by a computed witness, per norm; the proved ones are checked exactly (no tolerance) on the implementation.",
        note="Coq kernel + vm_compute; stdlib Reals axioms (sig_forall_dec, sig_not_dec, classic, functional_extensionality_dep) and FloatAxioms (specification of the primitive float operations); the translator tools/translate.py; PrimFloat = IEEE binary64.",
        technique="Rocq proof over R of a model regenerated from source by a translator + bit-exact correspondence (vm_compute on PrimFloat)",
        ref="DESIGN.md §3 C04"),
    "C05": dict(
        text="Theorems over the reals about the Gallina translation of every hedge kernel regenerated from hedge.py on each run (closed forms, range, fix points, monotonicity, ordering, mutual inverses, involution), plus a bit-exact binary64 correspondence (libm pow results recorded by an observer clone) and a direct oracle on the implementation. Binary64 level (C05b): range, fixed points, monotonicity on doubles and very(x) <= x <= somewhat(x) proved for all doubles of [0,1]; involution and inverse pairs refuted by witness; the proved laws are checked exactly on the implementation (monotonicity on consecutive doubles).",
        note="As C04; libm pow(x,2) results are taken from the implementation.",
        technique="Rocq proof over R of a model regenerated from source by a translator + bit-exact correspondence (vm_compute on PrimFloat)",
        ref="DESIGN.md §3 C05"),
    "C20": dict(
        text="Theorems by induction over settings programs (arbitrary nesting depth, raise at any point, direct assignments): every key named by a context has its previous value after the context on normal and exceptional exit, unnamed keys are untouched by the context, observations inside see the temporary values; hand-written model of Settings.context tied to the code by an exact correspondence over exhaustive/sampled programs run on the real fl.settings, plus a direct oracle on raw Python objects.",
        note="Coq kernel + vm_compute; all theorems closed under the global context (no axioms); the model of Settings.context is hand-written (tied by correspondence only); Python's contextmanager/generator semantics trusted.",
        technique="Rocq proof (induction on programs) about a hand model + exact correspondence on operation sequences",
        ref="DESIGN.md §3 C20"),
    "C03": dict(
        text="Theorems over the reals about the Gallina translation of every shape term regenerated from term.py on each run: membership = height x documented closed form under the term's validity predicate, range [0,height], break-point values, monotonicity of exactly the terms that declare it; over the extended reals (NaN, +-inf with IEEE special-value rules): NaN exactly when x is NaN, values at +-inf, infinite shoulders; for Discrete (hand model of numpy.interp) the documented piecewise-linear interpolation, range, continuity, monotonicity and NaN behaviour (C03d); bit-exact binary64 correspondence of the same kernels (and of a hand model of numpy.interp for Discrete) against NumPy at every parameter value and its float neighbours, +-inf, NaN, scalar/1-d/2-d; float-level range/NaN/break-point statements are searched, not proved.",
        note="Coq kernel + vm_compute; stdlib Reals axioms; translator; exp/cos/power/libm-pow results recorded from the implementation; R/ER theorems do not speak about rounding; at the binary64 level (C03e/C03f, through Flocq, FloatAxioms) NaN-iff and range [0,height] are PROVED for every double x for Rectangle, Binary, Ramp, Triangle, Trapezoid, refuted by ulp-level/underflow witnesses for Concave, SemiEllipse, Arc, and searched only for the remaining terms (marked partial in the evidence); the attempt found and led to the repair of an SShape defect (fix 5d81399); Discrete is a hand model of numpy.interp.",
        technique="Rocq proof over R and extended reals of a model regenerated from source + bit-exact correspondence (vm_compute on PrimFloat)",
        ref="DESIGN.md §3 C03"),
    "C11": dict(
        text="Theorems over the reals about the translated tsukamoto kernels: membership(tsukamoto(y)) = y for 0<y<height (both directions), z monotone in y in the term's direction, z inside the support, tsukamoto defined iff the class declares itself monotonic (generated table); bit-exact binary64 correspondence incl. y next to 0, height/2, height; float-level inverse within 1e-6 h searched, not proved.",
        note="As C03; log and libm pow results recorded from the implementation; C11b: binary64-level finiteness, z(0) = start and monotonicity of Ramp/Concave inverses proved for all doubles (containment on the end side refuted by ulp-level witnesses), checked exactly on the implementation.",
        technique="Rocq proof over R of a model regenerated from source + bit-exact correspondence (vm_compute on PrimFloat)",
        ref="DESIGN.md §3 C11"),
    "C07": dict(
        text="Hand model of Consequent.load / Consequent.modify / Rule.trigger (as written, incl. the known leak of hedged degrees) with theorems for arbitrary conclusion lists: each enabled conclusion adds exactly one activated term carrying its term, the block's implication and the sanitised degree; nothing is added for disabled variables or rules; the running-degree characterisation of the code as written, the documented spec under the leak-free condition, its kernel-checked refutation in general (known finding), and the full spec + independence for the repaired loop; sanitize NaN/-inf -> 0, +inf -> 1. Exact correspondence of fuzzy-output contents on real rules (scalar and batch degrees, special values, all orders, flags) and a direct per-conclusion oracle.",
        note="Coq kernel + vm_compute; stdlib Reals axioms where R is used; hand model tied by correspondence only; libm pow recorded from the implementation; known finding modify:hedged-degree-leaks is reported as KNOWN-FINDING.",
        technique="Rocq proof (induction over conclusions) about a hand model + exact correspondence on generated rules",
        ref="DESIGN.md §3 C07"),
    "C01": dict(
        text="Model of Engine.process in scalar mode composed from the component models (antecedent evaluation, consequent modification, the seven activation methods, integral and weighted defuzzifiers, output cascade, translated term/norm/hedge kernels) and theorems that process equals the declaratively stated documented pipeline - for EVERY engine and all seven activation methods (Spec/PipelineAll.v: interleaved evaluation/triggering for First/Last/Threshold, two-phase selection for Highest/Lowest/Proportional; Properties/C01b.v), with the General-only form (Spec/Pipeline.v) and its corollaries in Properties/C01.v and the form with Function terms evaluated by the formula model in Properties/C01c.v: ordered contributions, rules see exactly the contributions so far, disabled rules/blocks/variables contribute nothing, stale fuzzy outputs and rule state are ignored, inputs are never changed, stored degrees are the firing degrees - proved for arbitrary engines by induction over blocks and rules, generic in the number type. Bit-exact correspondence of every observable (output value, previous value, each fuzzy-output term and degree, each rule's degree and triggered flag, or the exception class) on generated engines x rows with all activation methods, plus an independent Python re-statement of the pipeline as direct oracle.",
        note="Coq kernel + vm_compute; generic theorems closed under the global context (Highest/Lowest instances for binary64 use the standard library's FloatAxioms, for R the Reals axioms; C01c uses functional_extensionality_dep); hand models tied by correspondence; rule trees are taken from the implementation's loaded rules (parsing is C06); Linear terms and Function terms over + - * / are generated and evaluated by the formula model; Python value kinds not modelled; known finding pipeline:hedged-consequent-leak reported as KNOWN-FINDING.",
        technique="Rocq refinement proof (model of process = declarative pipeline spec) + bit-exact correspondence on generated engines",
        ref="DESIGN.md §3 C01, §9"),
    "C06": dict(
        text="Character-level model of Function.format_infix, the shunting-yard over the operator table regenerated from factory.py, and Antecedent.load/activation_degree; theorems: shunting-yard completeness for every printing of an expression tree with minimal or redundant parentheses (unbounded, by induction on the printing derivation), tokeniser lemma for glued parentheses, load of any grammar-derived antecedent yields its tree, evaluation equals the reference semantics (hedges nearest the term first, any = 1, disabled variable = 0, output variables read the grouped activation degree), rule degree = weight x semantics, and-binds-tighter / left-associativity / parentheses-override corollaries; table facts by computation on the generated table. Exact correspondence of Antecedent.postfix() and activate_with bits over generated trees, spellings, operator pairs incl. non-commutative lambda operators.",
        note="Coq kernel + vm_compute; closed under the global context except any_yields_one (Reals axioms); hand model tied by correspondence; names_ok side conditions (no variable named like a formula function, ASCII, no operator characters in names) are stated hypotheses.",
        technique="Rocq proof (shunting-yard completeness, parser/evaluator vs grammar semantics) + exact correspondence",
        ref="DESIGN.md §3 C06"),
    "C08": dict(
        text="Model of the seven Activation.activate loops as written, generic in the rule state; theorems for blocks of any length: the sequence of trigger calls equals the declarative selection of each method (General, First/Last with count and threshold, Highest/Lowest with ties broken by insertion order, Threshold comparators, Proportional normalisation), triggered flag iff selected, enabled and degree > 0, unselected and unloaded rules untouched, vector degrees rejected by every method but General. Exact correspondence of the whole call log, final degrees and flags against real RuleBlocks (exhaustive small blocks, random blocks with ties/NaN/inf, batches).",
        note="Coq kernel + vm_compute; Highest/Lowest on binary64 use the standard library's FloatAxioms (ltb_spec, eqb_spec, opp_spec) about primitive floats, over R the Reals axioms; heapq trusted to pop in key order; hand model tied by correspondence.",
        technique="Rocq proof (loops = declarative selections) + exact correspondence on call logs",
        ref="DESIGN.md §3 C08"),
    "C09": dict(
        text="Model of NumPy's pairwise summation and nan-reductions and of the five integral defuzzifiers line by line; theorems: pairwise sum = plain sum over R, midpoints formula/range/monotonicity, closed forms of Centroid, SOM/MOM/LOM and Bisector, result in [min,max], SOM <= MOM <= LOM, NaN exactly when every sample is zero (over the extended reals), centroid translation, batch = rows. Bit-exact correspondence for resolutions 1..1000 incl. the pairwise block edges, arbitrary ranges, scalar and batch.",
        note="Coq kernel + vm_compute; stdlib Reals axioms; hand model of NumPy 1.26.4 reductions validated bit-for-bit; known finding batch:resolution-1 reported as KNOWN-FINDING.",
        technique="Rocq proof over R / extended reals of a hand model + bit-exact correspondence",
        ref="DESIGN.md §3 C09"),
    "C10": dict(
        text="Model of Aggregated.grouped_terms, WeightedDefuzzifier.infer_type and both weighted defuzzifiers; theorems: grouping (first-occurrence order, folded degrees), weighted average/sum closed forms over R, average of constants between min and max, NaN iff no activations or all weights zero and zero-degree activations are neutral (extended reals), type inference, Tsukamoto requires monotonic terms. Exact correspondence incl. repeated names, every aggregation operator, batch degrees, special values.",
        note="Coq kernel + vm_compute; stdlib Reals axioms; hand model tied by correspondence; Linear/Function term values passed as tables.",
        technique="Rocq proof over R / extended reals of a hand model + exact correspondence",
        ref="DESIGN.md §3 C10"),
    "C13": dict(
        text="Operation language (set input, process, restart, copy, switch, edit rule/output/block) over a store of engine values built on the engine model; theorems: processing is history-free and idempotent on output values without lock-previous for all seven activation methods (Properties/C13b.v; General-only forms in C13.v), process preserves structure, restart erases history and yields the fresh state, every operation touches the current engine only. Exact correspondence of every live engine's observables after every step of generated operation sequences; implementation-side oracles for idempotence, equality with a freshly built engine, restart cleanliness, and an object-graph check that a copy shares no mutable object with its original.",
        note="Coq kernel + vm_compute; closed under the global context; copy() is the identity on values in the model: independence of the Python object graphs is checked on the implementation only (ids + behaviour), not proved; engines with Linear/Function terms are checked on the implementation only.",
        technique="Rocq proof about operation sequences on the engine model + exact correspondence + object-graph oracle",
        ref="DESIGN.md §3 C13"),
    "C18": dict(
        text="Model of Op.increment, the grid resolution (with the integer-root correction loops), the grid loop, header/row selection and the reader; theorems: the grid is exactly the lexicographic enumeration of the product of ranges with the last input fastest (any number of inputs), each-variable grids are equidistant from minimum to maximum, k is the largest integer with k^n <= v for every starting estimate of the root, rows = k^n, reader rows are exactly the non-blank non-comment lines after the skipped ones; composed with the engine model (C18b): every written row is the row's inputs followed by the outputs the scalar engine model produces from the restarted state in grid order, independent of the engine's state before the call. Correspondence: the numeric matrix computed from the ENGINE model against the matrix handed to numpy.savetxt; grid shapes for v up to 2000 x n = 1..4 x both scopes, whole exported texts byte for byte, reader texts.",
        note="Coq kernel + vm_compute; stdlib Reals axioms; number formatting and engine outputs are parameters supplied by the harness; hand model tied by correspondence.",
        technique="Rocq proof (enumeration, integer root) about a hand model + exact correspondence on exported text",
        ref="DESIGN.md §3 C18"),
    "C19": dict(
        text="Control-flow model of Engine.is_ready and of the first exception Engine.process raises (all seven activation methods, integral and weighted outputs), abstracting numbers away; theorems for every engine: ready + activation methods + whitespace-separated tokens + well-formed terms imply process raises nothing, and every needed but missing conjunction, disjunction, implication, aggregation or defuzzifier is reported; exact characterisation of the old hole kept as lemmas; the control-flow model is proved sound with respect to the numeric engine model (C19b): ready + the hypotheses imply that Engine.process of the model that is tied bit-for-bit to the implementation returns Ok, for all seven activation methods. Exhaustive correspondence over 2^5 operator subsets x rule shapes x defuzzifier kinds x blocks plus random structure: message kinds and exception classes.",
        note="Coq kernel + vm_compute; closed under the global context; numeric layers are parameters (term errors, non-General selections); hand model tied by correspondence.",
        technique="Rocq proof about a control-flow model + exhaustive correspondence over configuration cells",
        ref="DESIGN.md §3 C19"),
    "C02": dict(
        text="NumPy-lite model of array values with their shapes (0-d/1-d/2-d, atleast_2d, transpose, squeeze, broadcasting) and a vectorised model of Engine.process following the code's shapes; theorem batch_eq_rows: for every engine with General activation (integral defuzzifiers at resolution >= 2 or a one-row batch, no Linear term under an integral defuzzifier) and every batch, the vectorised model equals the scalar model folded over the rows with values and previous values carried from row to row, errors included; component theorems for Activated/Aggregated membership, defuzzifiers, weighted defuzzifiers, the cascade (split invariance with singleton cuts) and the input_values setter/getter; kernel-checked refutation at resolution 1 (known finding). Correspondence: implementation batch vs implementation row-by-row floats (exact), Coq rows model vs float mode, Coq batch model vs batch mode incl. shapes, all shipped examples.",
        note="Coq kernel + vm_compute; closed under the global context (binary64 laws via the standard library's FloatAxioms); hand models tied by correspondence; Function terms not modelled on batches; batch_eq_rows uses one numeric reading of numpy.float64**2 on both sides; C02b proves that every generated kernel is the same function in the scalar and the array reading (and the direct oracle compares them); known finding batch:resolution-1 reported as KNOWN-FINDING.",
        technique="Rocq proof (vectorised model = scalar model folded over rows) + exact three-way correspondence",
        ref="DESIGN.md §3 C02, §9"),
    "C12": dict(
        text="Model of OutputVariable.defuzzify / clear / the clipping value setter on batches; theorems for every sequence and every split: row-wise cascade specification (defuzzified value; most recent value under lock-previous; default; clip), split invariance over all cuts into successive calls, previous value = last value before the call, disabled variable untouched, failures atomic (with the one empty-batch corner characterised), clear resets, value in range when locked - generic over the number type under min/max laws proved for an exact instance and for binary64. Exhaustive correspondence over value sequences x cuts x 12 settings x failures x clear, in all value kinds (ndarray, 0-d, numpy.float64, float).",
        note="Coq kernel + vm_compute; binary64 order laws via the standard library's FloatAxioms; hand model tied by correspondence.",
        technique="Rocq proof (state machine invariants, split invariance) + exhaustive correspondence on histories",
        ref="DESIGN.md §3 C12"),
    "C14": dict(
        text="Model of the FuzzyLite Language printer and importer over an FLL-level syntax tree with abstract numbers (assumption A-fmt: printing/parsing round-trips at d decimals, instantiated concretely); theorems: import(export e) = normalize e, export(normalize e) = export e under the stability hypothesis (its necessity kernel-checked), export/import/export fixed point, any accepted text normalises in one cycle, representable engines are unchanged; a stricter import that also loads every rule (C16 model) and parses every Function formula (C17 model) refines the plain import, never fails with an internal error and round-trips exported engines whose rules load (C14b); configure arities taken from the table regenerated from term.py. Correspondence: model export = implementation text line by line, model import = implementation's re-import (or the same error class), on engines over every registered class and on accepted/rejected variants; direct oracle on text fixed point, structure and bit-equal outputs.",
        note="Coq kernel + vm_compute; closed under the global context; A-fmt (Python's %.df / float() round-trip) is a Section hypothesis instantiated by a token instance; import_ itself does not load rules/formulas (import_checked in C14b does, mirroring that rules are loaded against the engine built so far); known findings fll:rule-enabled-lost, fll:height-rounds-into-tolerance, fll:function-variables-lost reported as KNOWN-FINDING.",
        technique="Rocq proof (printer/parser round trip over an abstract number interface) + exact text correspondence",
        ref="DESIGN.md §3 C14"),
    "C17": dict(
        text="Model of the formula tokeniser, shunting-yard (shared, over the table regenerated from factory.py), postfix-to-tree builder, Node.evaluate and Function.membership's variable resolution; theorems: the generated table equals the documented one (any edit of precedence/associativity/arity/method breaks it), postfix/tree bijection, parse completeness for every printing with minimal or redundant parentheses over the whole table, evaluation = mathematical denotation over R incl. relational indicators and min/max, precedence/associativity corollaries, ill-formed token lists rejected with a syntax error. Exact correspondence of postfix, tree and values (scalar and arrays, transcendental results recorded) on generated formulas and ill-formed variants.",
        note="Coq kernel + vm_compute; stdlib Reals axioms for eval_denotes; transcendental/rounding functions are oracle lookups recorded from the implementation; the tokeniser with arbitrary spacing is covered by correspondence only; known finding parse:compensating-arity-accepted reported as KNOWN-FINDING.",
        technique="Rocq proof (parser completeness, evaluator denotation, table identity) + exact correspondence",
        ref="DESIGN.md §3 C17"),
    "C16": dict(
        text="Model of Rule.parse and the rule-loading sequence on top of the shared antecedent/consequent/shunting-yard models, and of the FLL importer; theorems for EVERY text: loading never ends in an internal error (the old crash characterised exactly and kept as a lemma about the as-written variant), a failed load never leaves a rule reporting loaded, every other failure is a syntax or value error, accepted rules are well formed and can be exported and evaluated, and rules with exactly one injected error of each listed class (missing if/then/is/operand/term/variable, unknown variable/term, unbalanced parenthesis, non-numeric or missing weight, trailing token) are rejected - via token-conservation/balance invariants of the shunting-yard; FLL import fails only with syntax/value/lookup errors. Exact correspondence of exception class, loaded flags and loaded trees on mutated rule texts and FLL documents.",
        note="Coq kernel + vm_compute; closed under the global context; float() recognition is a parameter instantiated by a decidable ASCII class checked against Python on every run; hand models tied by correspondence; no grammar-soundness claim (postfix-ordered antecedents are accepted by the code).",
        technique="Rocq proof (state-machine invariants for all texts) + exact correspondence on a malformed stream",
        ref="DESIGN.md §3 C16"),
    "C15": dict(
        text="Model of the Python representation: constructor call trees produced by as_constructor/construction_arguments with every __repr__ override's dropped-field rule and every __init__ signature REGENERATED from /repo on each run (tools/translate_signatures.py, fail closed), and of Python's call semantics for these constructors; theorems for every class of the translated table and every alias setting: construct(repr c) = normalize c, repr is a fixed point of normalize, the encapsulated export evaluates to the same constructor tree, and rule texts round-trip through Rule.parse for every rule whose tokens satisfy a computable predicate (no hypothesis on the text left). Correspondence: the implementation's repr text parsed with Python's ast equals the model's tree; executing the library's import statement and evaluating the export rebuilds an object with equal repr, equal FLL and bit-identical outputs, for aliases fl / empty / * / custom, plain and encapsulated, formatted and unformatted, and per component.",
        note="Coq kernel + vm_compute; closed under the global context; Python's parser/eval/keyword binding and black are trusted (theorems are about call trees, not text); repr(float) round-trip is a hypothesis instantiated concretely; known findings pyrepr:rule-enabled-lost and pyrepr:encapsulated-name-shadows-library reported as KNOWN-FINDING.",
        technique="Rocq proof (construct . repr = normalize over signatures regenerated from source) + exact correspondence via Python's ast",
        ref="DESIGN.md §3 C15"),
}
PENDING_REASON = "check under construction in this round (planned in DESIGN.md §3); not claimed until its theorems and correspondence run"

def main():
    checks = []
    for pid in ALL:
        if pid not in CLAIMED:
            continue
        c = CLAIMED[pid]
        checks.append({
            "property_id": pid,
            "quick_cmd": f"./check {pid} quick",
            "thorough_cmd": f"./check {pid} thorough",
            "evidence_file": f"/verif/evidence/{pid}.json",
            "replay_cmd_template": f"./check {pid} --replay {{path}}",
            "engine": "rocq-model",
            "level_claimed": {"category": "proof", "text": c["text"], "design_ref": c["ref"]},
            "level_note": c["note"],
            "technique": c["technique"],
        })
    m = {
        "version": 1,
        "setup_cmd": "./setup.sh",
        "hooks": {
            "guard": "PYFUZZYLITE_VERIF",
            "enable": "no source hooks are used: observers are clones of the modules built inside the harness process (tools/vlib.py observed_module)",
            "baseline_off_cmd": "cd /repo && /venv/bin/python -m pytest -ra -q -p no:cacheprovider --timeout=900 --continue-on-collection-errors",
            "source_commits": [],
            "add_only": True,
        },
        "engines": [{"name": "rocq-model", "path": "/verif/coq", "serves_properties": sorted(CLAIMED), "kind_free_text": "Coq 8.16.1 development: Num interface (R / PrimFloat instances), kernels regenerated from /repo by tools/translate.py, hand models tied by a correspondence harness (tools/props/*.py)"}],
        "checks": checks,
        "not_applicable": [{"property_id": p, "reason": PENDING_REASON} for p in ALL if p not in CLAIMED],
        "notes": "See DESIGN.md. ./check <id> quick|thorough regenerates the model from /repo's working tree, rebuilds the proofs, runs the correspondence and the failing-input search.",
    }
    json.dump(m, open(os.path.join(HERE, "MANIFEST.json"), "w"), indent=1)

if __name__ == "__main__":
    main()
