"""Shared by C03 / C11: parameter generators, structured x sets and docstring oracles for the shape terms."""
from __future__ import annotations

import math

import vlib

inf = math.inf

# constructor parameter names in __init__ order (after name) are taken from the implementation at run time.


def heights(rng):
    return rng.choice([1.0, 1.0, 0.5, 0.3, 0.75, 1e-3, rng.uniform(0.05, 1.0)])


def _pt(rng):
    k = rng.random()
    if k < 0.5:
        return round(rng.uniform(-10, 10), rng.choice([0, 1, 2]))
    if k < 0.85:
        return rng.uniform(-10, 10)
    if k < 0.95:
        return rng.uniform(-1e6, 1e6)
    return rng.uniform(-1e-3, 1e-3)


def _sorted_distinct(rng, n, adjacent=False, p_adj=0.05):
    while True:
        v = sorted(_pt(rng) for _ in range(n))
        if all(a < b for a, b in zip(v, v[1:])):
            break
    if adjacent and n >= 2 and rng.random() < p_adj:
        # two consecutive parameters only 1-3 ulps apart: valid, and the place where rounded midpoints and differences
        # coincide with the parameters themselves (SShape returned 2*height at x = end there before the fix 5d81399)
        i = rng.randrange(n - 1)
        w = v[i]
        for _ in range(rng.choice([1, 1, 2, 3])):
            w = math.nextafter(w, inf)
        if i + 2 >= n or w < v[i + 2]:
            v[i + 1] = w
    return v


def gen_params(name: str, rng, vertical: bool = False, adjacent: bool = False) -> dict:
    """A valid parameterisation of the term (both directions, degenerate vertical edges, infinite shoulders)."""
    h = heights(rng)
    if name in ("Arc", "Ramp", "Concave"):
        a, b = _sorted_distinct(rng, 2, adjacent)
        if rng.random() < 0.5:
            a, b = b, a
        k = "inflection" if name == "Concave" else "start"
        return {k: a, "end": b, "height": h}
    if name in ("SShape", "ZShape"):
        a, b = _sorted_distinct(rng, 2, adjacent, 0.3)  # rounded midpoints coincide with the end points there
        if vertical and rng.random() < 0.12:
            b = a  # degenerate vertical edge: a step at start
        return {"start": a, "end": b, "height": h}
    if name in ("Rectangle", "SemiEllipse"):
        a, b = _sorted_distinct(rng, 2, adjacent)
        if rng.random() < 0.3:
            a, b = b, a
        return {"start": a, "end": b, "height": h}
    if name == "Binary":
        s = _pt(rng)
        d = rng.choice([inf, -inf, inf, -inf, s + abs(_pt(rng)) + 1, s - abs(_pt(rng)) - 1])
        return {"start": s, "direction": d, "height": h}
    if name == "Bell":
        return {"center": _pt(rng), "width": rng.choice([1, -1]) * rng.uniform(0.1, 5), "slope": rng.choice([0.5, 1.0, 1.5, 2.0, 3.0, rng.uniform(0.2, 6)]), "height": h}
    if name == "Constant":
        return {"value": rng.choice([_pt(rng), 0.0, inf, -inf, math.nan])}
    if name == "Cosine":
        return {"center": _pt(rng), "width": rng.uniform(0.1, 8), "height": h}
    if name == "Spike":
        return {"center": _pt(rng), "width": rng.uniform(0.1, 8), "height": h}
    if name == "Gaussian":
        return {"mean": _pt(rng), "standard_deviation": rng.uniform(0.05, 5), "height": h}
    if name == "GaussianProduct":
        a, b = sorted([_pt(rng), _pt(rng)])
        return {"mean_a": a, "standard_deviation_a": rng.uniform(0.05, 5), "mean_b": b, "standard_deviation_b": rng.uniform(0.05, 5), "height": h}
    if name == "Sigmoid":
        return {"inflection": _pt(rng), "slope": rng.choice([1, -1]) * rng.uniform(0.1, 20), "height": h}
    if name in ("SigmoidDifference", "SigmoidProduct"):
        a, b = _sorted_distinct(rng, 2, adjacent)
        rising = rng.uniform(0.2, 10)
        falling = rng.uniform(0.2, 10) * (1 if name == "SigmoidDifference" else -1)
        return {"left": a, "rising": rising, "falling": falling, "right": b, "height": h}
    if name == "Triangle":
        k = rng.random()
        if k < 0.6:
            a, b, c = _sorted_distinct(rng, 3, adjacent)
        elif k < 0.7:
            a, c = _sorted_distinct(rng, 2, adjacent); b = a  # vertical left edge
        elif k < 0.8:
            a, c = _sorted_distinct(rng, 2, adjacent); b = c  # vertical right edge
        elif k < 0.9:
            b, c = _sorted_distinct(rng, 2, adjacent); a = -inf
        else:
            a, b = _sorted_distinct(rng, 2, adjacent); c = inf
        return {"left": a, "top": b, "right": c, "height": h}
    if name == "Trapezoid":
        k = rng.random()
        a, b, c, d = _sorted_distinct(rng, 4, adjacent)
        if k < 0.5:
            pass
        elif k < 0.6:
            b = a
        elif k < 0.7:
            c = d
        elif k < 0.75:
            c = b
        elif k < 0.875:
            a = -inf
        else:
            d = inf
        return {"bottom_left": a, "top_left": b, "top_right": c, "bottom_right": d, "height": h}
    if name == "PiShape":
        a, b, c, d = _sorted_distinct(rng, 4, adjacent, 0.3)
        k = rng.random()
        if k < 0.2:
            c = b
        elif vertical and k < 0.3:
            d = c  # vertical right edge
        elif vertical and k < 0.4:
            b = a  # vertical left edge
        elif vertical and k < 0.5:
            b, c = c, b  # crossed edges (top_left > top_right): still the documented product of the two shapes
        return {"bottom_left": a, "top_left": b, "top_right": c, "bottom_right": d, "height": h}
    raise KeyError(name)


def breakpoints(name: str, p: dict) -> list[float]:
    vals = [v for k, v in p.items() if k not in ("height", "slope", "rising", "falling", "standard_deviation", "standard_deviation_a", "standard_deviation_b", "width", "direction")]
    out = list(vals)
    if name in ("SShape", "ZShape", "Arc", "Ramp", "Concave", "Rectangle", "SemiEllipse"):
        a, b = vals[0], vals[1]
        out.append(0.5 * (a + b))
        out.append(a + (b - a) / 2)
    if name == "Concave":
        # pole of the two quotients (e-i)/(2e-i-x), (i-e)/(i-2e+x): lies in the branch np.where discards
        out.append(2.0 * p["end"] - p["inflection"])
    if name in ("Cosine",):
        out += [p["center"] - 0.5 * p["width"], p["center"] + 0.5 * p["width"]]
    if name == "PiShape":
        out += [0.5 * (p["bottom_left"] + p["top_left"]), 0.5 * (p["top_right"] + p["bottom_right"])]
    return [v for v in out if v == v]


def gen_xs(name: str, p: dict, rng, n_random: int) -> list[tuple[float, str]]:
    """Structured x values with a class label: breakpoints and both float neighbours, interior, far, ±inf, NaN."""
    xs: list[tuple[float, str]] = []
    bps = breakpoints(name, p)
    for b in bps:
        if math.isinf(b):
            xs.append((b, "breakpoint"))
            continue
        for v in vlib.neighbours(b):
            xs.append((v, "breakpoint" if v == b else "neighbour"))
    fin = [b for b in bps if math.isfinite(b)] or [0.0]
    lo, hi = min(fin), max(fin)
    span = max(hi - lo, 1.0)
    for _ in range(n_random):
        k = rng.random()
        if k < 0.7:
            xs.append((rng.uniform(lo - 0.25 * span, hi + 0.25 * span), "interior"))
        elif k < 0.9:
            xs.append((rng.uniform(lo - 5 * span, hi + 5 * span), "wide"))
        else:
            xs.append((rng.choice([1e300, -1e300, 1e-300, 0.0, -0.0]), "extreme"))
    xs += [(inf, "inf"), (-inf, "inf"), (math.nan, "nan")]
    return xs


# ---------------------------------------------------------------- documented closed forms (docstrings of term.py)
def _sig(x, i, s):
    try:
        return 1.0 / (1.0 + math.exp(-s * (x - i)))
    except OverflowError:
        return 0.0


def _gauss(x, m, sd):
    return math.exp(-((x - m) ** 2) / (2 * sd * sd))


def _below_mid(x, s, e, strict):
    """x < (s+e)/2 (strict) or x <= (s+e)/2, decided in exact arithmetic: the documented case distinction is about real
    numbers, and for start/end a few ulps apart the ROUNDED midpoint coincides with an end point."""
    if math.isinf(x) or math.isinf(s) or math.isinf(e):
        m = 0.5 * (s + e)
        return x < m if strict else x <= m
    from fractions import Fraction
    l, r = 2 * Fraction(x), Fraction(s) + Fraction(e)
    return l < r if strict else l <= r


def _sshape(x, s, e):
    if x <= s:
        return 0.0
    if x >= e:
        return 1.0
    if _below_mid(x, s, e, False):
        return 2 * ((x - s) / (e - s)) ** 2
    return 1 - 2 * ((x - e) / (e - s)) ** 2


def _zshape(x, s, e):
    if x <= s:
        return 1.0
    if x >= e:
        return 0.0
    if _below_mid(x, s, e, True):
        return 1 - 2 * ((x - s) / (e - s)) ** 2
    return 2 * ((x - e) / (e - s)) ** 2


def doc_shape(name: str, p: dict, x: float) -> float:
    """Documented membership WITHOUT the height factor, for a non-NaN x (may be ±inf)."""
    if name == "Arc":
        s, e = p["start"], p["end"]
        r = e - s
        c = e  # centre: s + r
        if (s < e and s <= x <= e) or (s > e and e <= x <= s):
            return math.sqrt(max(0.0, r * r - (x - c) ** 2)) / abs(r)
        return 1.0 if ((s > e and x < e) or (s < e and x > e)) else 0.0
    if name == "Bell":
        if math.isinf(x):
            return 0.0
        return 1.0 / (1.0 + abs((x - p["center"]) / p["width"]) ** (2 * p["slope"]))
    if name == "Binary":
        s, d = p["start"], p["direction"]
        return 1.0 if ((d > s and x >= s) or (d < s and x <= s)) else 0.0
    if name == "Concave":
        i, e = p["inflection"], p["end"]
        if i <= e and x < e:
            return 0.0 if x == -inf else (e - i) / (2 * e - i - x)
        if i > e and x > e:
            return 0.0 if x == inf else (i - e) / (i - 2 * e + x)
        return 1.0
    if name == "Cosine":
        c, w = p["center"], p["width"]
        if math.isfinite(x) and c - 0.5 * w <= x <= c + 0.5 * w:
            return 0.5 * (1 + math.cos(2.0 / w * math.pi * (x - c)))
        return 0.0
    if name == "Gaussian":
        return 0.0 if math.isinf(x) else _gauss(x, p["mean"], p["standard_deviation"])
    if name == "GaussianProduct":
        if math.isinf(x):
            return 0.0
        a = _gauss(x, p["mean_a"], p["standard_deviation_a"]) if x < p["mean_a"] else 1.0
        b = _gauss(x, p["mean_b"], p["standard_deviation_b"]) if x > p["mean_b"] else 1.0
        return a * b
    if name == "PiShape":
        return _sshape(x, p["bottom_left"], p["top_left"]) * _zshape(x, p["top_right"], p["bottom_right"])
    if name == "Ramp":
        s, e = p["start"], p["end"]
        if s < x < e:
            return (x - s) / (e - s)
        if e < x < s:
            return (s - x) / (s - e)
        if (s < e and x >= e) or (s > e and x <= e):
            return 1.0
        return 0.0
    if name == "Rectangle":
        s, e = min(p["start"], p["end"]), max(p["start"], p["end"])
        return 1.0 if s <= x <= e else 0.0
    if name == "SemiEllipse":
        s, e = min(p["start"], p["end"]), max(p["start"], p["end"])
        r = (e - s) / 2
        c = s + r
        if s <= x <= e:
            return math.sqrt(max(0.0, (x - s) * (e - x))) / r
        return 0.0
    if name == "Sigmoid":
        if math.isinf(x):
            return 1.0 if (x > 0) == (p["slope"] > 0) else 0.0
        return _sig(x, p["inflection"], p["slope"])
    if name in ("SigmoidDifference", "SigmoidProduct"):
        def sg(x, i, s):
            if math.isinf(x):
                return 1.0 if (x > 0) == (s > 0) else 0.0
            return _sig(x, i, s)
        a = sg(x, p["left"], p["rising"])
        b = sg(x, p["right"], p["falling"])
        return abs(a - b) if name == "SigmoidDifference" else a * b
    if name == "Spike":
        return 0.0 if math.isinf(x) else math.exp(-abs(10.0 / p["width"] * (x - p["center"])))
    if name == "SShape":
        return _sshape(x, p["start"], p["end"])
    if name == "ZShape":
        return _zshape(x, p["start"], p["end"])
    if name == "Trapezoid":
        a, b, c, d = p["bottom_left"], p["top_left"], p["top_right"], p["bottom_right"]
        if x < a or x > d:
            return 0.0
        if (b <= x <= c) or (a == -inf and x < b) or (d == inf and x > c):
            return 1.0
        if x < b:
            return (x - a) / (b - a)
        return (d - x) / (d - c)
    if name == "Triangle":
        a, b, c = p["left"], p["top"], p["right"]
        if x < a or x > c:
            return 0.0
        if x == b or (a == -inf and x < b) or (c == inf and x > b):
            return 1.0
        if x < b:
            return (x - a) / (b - a)
        return (c - x) / (c - b)
    raise KeyError(name)


MONOTONIC_DIRECTION = {  # +1 increasing, -1 decreasing, from the parameters
    "Arc": lambda p: 1 if p["start"] < p["end"] else -1,
    "Concave": lambda p: 1 if p["inflection"] <= p["end"] else -1,
    "Ramp": lambda p: 1 if p["start"] < p["end"] else -1,
    "Sigmoid": lambda p: 1 if p["slope"] > 0 else -1,
    "SShape": lambda p: 1,
    "ZShape": lambda p: -1,
}

NATIVE = {"Arc", "Binary", "Concave", "Constant", "PiShape", "Ramp", "Rectangle", "SemiEllipse", "SShape", "Trapezoid", "Triangle", "ZShape"}
SHAPES = ["Arc", "Bell", "Binary", "Concave", "Constant", "Cosine", "Gaussian", "GaussianProduct", "PiShape", "Ramp", "Rectangle", "SemiEllipse",
          "Sigmoid", "SigmoidDifference", "SigmoidProduct", "Spike", "SShape", "Trapezoid", "Triangle", "ZShape"]
