"""Shared machinery of the checks: build, Coq case evaluation, observer clones, evidence, verdict."""
from __future__ import annotations

import ast
import fcntl
import hashlib
import json
import math
import os
import random
import re
import shutil
import subprocess
import sys
import time
import types

VERIF = os.path.dirname(os.path.dirname(os.path.abspath(__file__)))
REPO = os.environ.get("VERIF_REPO", "/repo")
COQ = os.path.join(VERIF, "coq")
WORK = os.path.join(VERIF, "work")
NPROC = min(16, os.cpu_count() or 4)

STD_AXIOMS_NOTE = (
    "axioms reported by Print Assumptions are all declared by Coq's standard library "
    "(ClassicalDedekindReals.sig_forall_dec, sig_not_dec, FunctionalExtensionality.functional_extensionality_dep, "
    "Classical_Prop.classic where Reals lemmas need them); none is declared by this development"
)


# --------------------------------------------------------------------------- context
class Ctx:
    def __init__(self, pid: str, tier: str, seed: int):
        self.pid = pid
        self.tier = tier
        self.seed = seed
        self.rng = random.Random((seed * 1000003) ^ int(hashlib.sha256(pid.encode()).hexdigest()[:8], 16))
        self.work = os.path.join(WORK, pid)
        shutil.rmtree(self.work, ignore_errors=True)
        os.makedirs(self.work, exist_ok=True)
        self.t0 = time.time()
        self.source_changed = anchored_sources_changed(pid)

    def n(self, quick: int, thorough: int) -> int:
        """Case count for this tier.  When the anchored source files differ from the ones recorded at the last
        passing baseline (source_hashes.json), the quick tier explores 5x more (bounded by the thorough count)."""
        if self.tier == "thorough":
            return thorough
        if self.source_changed:
            return max(quick, min(thorough, quick * 5))
        return quick


def anchored_files(pid: str) -> list[str]:
    try:
        for line in open(os.path.join(VERIF, "properties.jsonl")):
            p = json.loads(line)
            if p["id"] == pid:
                return sorted(set(p["anchors"]["files"]))
    except Exception:
        pass
    return []


def source_hashes(pid: str) -> dict[str, str]:
    out = {}
    for f in anchored_files(pid):
        try:
            out[f] = hashlib.sha256(open(os.path.join(REPO, f), "rb").read()).hexdigest()[:16]
        except OSError:
            out[f] = "missing"
    return out


def anchored_sources_changed(pid: str) -> bool:
    try:
        recorded = json.load(open(os.path.join(VERIF, "source_hashes.json"))).get(pid)
    except Exception:
        return False
    return recorded is not None and recorded != source_hashes(pid)


# --------------------------------------------------------------------------- float <-> Coq
def fhex(x: float) -> str:
    """A Python float as a Coq PrimFloat literal (exact)."""
    x = float(x)
    if x != x:
        return "PrimFloat.nan"
    if x == math.inf:
        return "PrimFloat.infinity"
    if x == -math.inf:
        return "PrimFloat.neg_infinity"
    h = x.hex()
    if h.startswith("-"):
        return f"(-{h[1:]})%float"
    return f"{h}%float"


def coq_list(items) -> str:
    return "[" + "; ".join(items) + "]"


def coq_string(s: str) -> str:
    return '"' + s.replace('"', '""') + '"'


def same_float(a: float, b: float) -> bool:
    a = float(a)
    b = float(b)
    return (a != a and b != b) or a == b


# --------------------------------------------------------------------------- build
class BuildResult:
    def __init__(self):
        self.ok = True
        self.translation_errors: list[str] = []
        self.failed: str | None = None  # file:line
        self.error_text: str = ""
        self.theorems: list[str] = []
        self.assumptions: dict[str, list[str]] = {}
        self.lemma_count = 0
        self.wall = 0.0
        self.forbidden: list[str] = []
        self.other_translation_errors: list[str] = []

    def broken_obligation(self) -> str:
        if self.translation_errors:
            return "translation:" + self.translation_errors[0]
        if self.forbidden:
            return "forbidden-construct:" + self.forbidden[0]
        return f"proof:{self.failed}"


FORBIDDEN = re.compile(r"\b(Admitted|admit|Axiom|Axioms|Parameter|Parameters|Conjecture|Abort All|Unset Guard Checking|bypass_check|Admit Obligations|Unset Positivity Checking|Unset Universe Checking)\b")


def scan_forbidden() -> list[str]:
    bad = []
    for root, _, files in os.walk(COQ):
        for f in files:
            if f.endswith(".v"):
                p = os.path.join(root, f)
                txt = open(p).read()
                txt = re.sub(r"\(\*.*?\*\)", "", txt, flags=re.S)
                for m in FORBIDDEN.finditer(txt):
                    bad.append(f"{os.path.relpath(p, COQ)}:{m.group(0)}")
    return bad


def _run(cmd, cwd=None, timeout=None, env=None):
    try:
        p = subprocess.run(cmd, cwd=cwd, timeout=timeout, capture_output=True, text=True, env=env)
        return p.returncode, p.stdout + p.stderr
    except subprocess.TimeoutExpired as e:
        out = (e.stdout or b"").decode(errors="replace") if isinstance(e.stdout, bytes) else (e.stdout or "")
        return 124, out + "\nTIMEOUT"


def translate_and_make(targets: list[str], timeout: int = 1500) -> BuildResult:
    """Regenerate coq/Gen from /repo's working tree and (re)build the targets. Serialised by a file lock."""
    res = BuildResult()
    t0 = time.time()
    os.makedirs(WORK, exist_ok=True)
    with open(os.path.join(VERIF, ".build.lock"), "w") as lock:
        fcntl.flock(lock, fcntl.LOCK_EX)
        sys.path.insert(0, os.path.join(VERIF, "tools"))
        import translate  # noqa

        try:
            errs = translate.run(os.path.join(COQ, "Gen"))
            res.translation_errors = [str(e) for e in errs]
        except Exception as e:  # fail closed
            res.translation_errors = [f"translator crashed: {type(e).__name__}: {e}"]
        res.forbidden = scan_forbidden()
        if not os.path.exists(os.path.join(COQ, "Makefile")) or os.path.getmtime(os.path.join(COQ, "Makefile")) < os.path.getmtime(os.path.join(COQ, "_CoqProject")):
            _run(["coq_makefile", "-f", "_CoqProject", "-o", "Makefile"], cwd=COQ)
        rc, out = _run(["make", "-j", str(NPROC), "-k"] + targets, cwd=COQ, timeout=timeout)
        if rc != 0:
            res.ok = False
            m = re.search(r'File "\./([^"]+)", line (\d+)', out)
            res.failed = f"{m.group(1)}:{m.group(2)}" if m else "make"
            idx = out.find("Error")
            res.error_text = out[max(0, (m.start() if m else idx) - 0):][:3000] if (m or idx >= 0) else out[-3000:]
    if res.translation_errors or res.forbidden:
        res.ok = False
    res.wall = time.time() - t0
    return res


def scope_translation_errors(pid: str, res: BuildResult) -> None:
    """A translation error counts against a property only if it concerns one of the property's anchored source files
    (an error in another file still fails this property's build when one of its Coq files depends on the missing
    definition: that is then reported by `make`)."""
    files = {os.path.basename(f) for f in anchored_files(pid)}
    mine, others = [], []
    for e in res.translation_errors:
        src = e.split(":", 1)[0].strip()
        (mine if (src in files or (src == "signatures" and pid == "C15") or src.startswith("translator crashed")) else others).append(e)
    res.translation_errors = mine
    res.other_translation_errors = others
    if not mine and not res.forbidden and res.failed is None:
        res.ok = True


def pins_changed() -> list[str]:
    try:
        return [l for l in open(os.path.join(COQ, "Gen", "PINS_CHANGED.txt")).read().splitlines() if l.strip()]
    except OSError:
        return []


def auto_targets(pid: str) -> list[str]:
    """The .vo files the property files import (`From VF Require Import …`), so that everything they need is rebuilt
    from the regenerated Gen even when a property module forgets to list it."""
    mods: set[str] = set()
    for f in property_files(pid):
        txt = open(os.path.join(COQ, "Properties", f)).read()
        txt = re.sub(r"\(\*.*?\*\)", "", txt, flags=re.S)
        for m in re.finditer(r"From VF Require (?:Import|Export)?\s*([^.]+)\.", txt):
            mods.update(m.group(1).split())
    out = []
    for mod in sorted(mods):
        for sub in ("Num", "Gen", "Spec", "Model", "Proofs"):
            if os.path.exists(os.path.join(COQ, sub, mod + ".v")) or (sub == "Gen" and mod.startswith("Gen")):
                out.append(f"{sub}/{mod}.vo")
                break
    return out


def property_files(pid: str) -> list[str]:
    """Properties/<pid>.v and optional parts Properties/<pid>a.v, <pid>b.v, ..."""
    d = os.path.join(COQ, "Properties")
    return sorted(f for f in os.listdir(d) if re.fullmatch(rf"{pid}[a-z]?\.v", f))


def start_property_file(pid: str, res: BuildResult, work: str):
    """Start coqc on the property files themselves (in the background, while the correspondence runs): the final
    `exact` steps are re-checked on every run and Print Assumptions is captured for the evidence."""
    files = property_files(pid)
    res.theorems = []
    for f in files:
        txt = open(os.path.join(COQ, "Properties", f)).read()
        res.theorems += re.findall(r"^\s*(?:Theorem|Example)\s+([A-Za-z0-9_']+)", txt, flags=re.M)
    if not files:
        res.ok = False
        res.failed = f"Properties/{pid}.v missing"
        return None
    if not res.ok:
        return None
    procs = []
    for f in files:
        procs.append((f, subprocess.Popen(["coqc", "-R", ".", "VF", "-w", "-notation-overridden", "-o", os.path.join(work, f + "o"), f"Properties/{f}"],
                                          cwd=COQ, stdout=subprocess.PIPE, stderr=subprocess.STDOUT, text=True)))
    return procs


def finish_property_file(pid: str, res: BuildResult, procs) -> None:
    if not procs:
        return
    axioms: set[str] = set()
    closed = 0
    deps_txt = ""
    for f, proc in procs:
        try:
            out, _ = proc.communicate(timeout=1500)
            rc = proc.returncode
        except subprocess.TimeoutExpired:
            proc.kill()
            rc, out = 124, "TIMEOUT"
        if rc != 0:
            res.ok = False
            m = re.search(r'File "\./([^"]+)", line (\d+)', out)
            res.failed = f"{m.group(1)}:{m.group(2)}" if m else f"Properties/{f}"
            res.error_text = out[-3000:]
            continue
        for block in re.split(r"\n(?=Axioms:|Closed under the global context)", out):
            if block.startswith("Closed under"):
                closed += 1
            elif block.startswith("Axioms:"):
                for m in re.finditer(r"^([A-Za-z_][A-Za-z0-9_.']*)\s*:", block, flags=re.M):
                    if m.group(1) != "Axioms":
                        axioms.add(m.group(1))
        deps_txt += open(os.path.join(COQ, "Properties", f)).read()
    res.assumptions = {"axioms": sorted(axioms), "closed_theorems": [str(closed)]}
    deps = re.findall(r"From VF Require Import ([^.]+)\.", deps_txt)
    n = 0
    for d in set(" ".join(deps).split()):
        for sub in ("Proofs", "Spec", "Model", "Num"):
            p = os.path.join(COQ, sub, d + ".v")
            if os.path.exists(p):
                n += len(re.findall(r"^\s*(?:Lemma|Theorem|Corollary|Fact|Example)\s", open(p).read(), flags=re.M))
    res.lemma_count = n


# --------------------------------------------------------------------------- running cases inside Coq
CASE_HEADER = """From Coq Require Import ZArith Bool List String Uint63 PrimFloat.
From VF Require Import Num NumF.
{imports}
Import ListNotations.
Local Open Scope list_scope.
"""


def run_coq_cases(work: str, name: str, imports: str, groups: list[tuple[str, str, list[str]]], chunk: int = 400, timeout: int = 900) -> tuple[list[int], str]:
    """groups: (case_type, checker_fn, case_literals).  `checker_fn : case_type -> bool` (true = agrees).
    Case k of the flattened sequence gets global index k.  Returns the mismatching indices."""
    files = []
    k = 0
    fileno = 0
    for ctype, checker, lits in groups:
        for i in range(0, len(lits), chunk):
            part = lits[i : i + chunk]
            fn = os.path.join(work, f"{name}_{fileno}.v")
            with open(fn, "w") as f:
                f.write(CASE_HEADER.format(imports=imports))
                f.write(f"Definition cases : list (int * ({ctype})) := [\n")
                f.write(";\n".join(f"({k + j}%uint63, {lit})" for j, lit in enumerate(part)))
                f.write("\n].\n")
                f.write(f"Definition bad := flat_map (fun c : int * ({ctype}) => if ({checker}) (snd c) then [] else [fst c]) cases.\n")
                f.write('Eval vm_compute in (("MISMATCH"%string, bad)).\n')
            files.append(fn)
            k += len(part)
            fileno += 1
    procs = []
    bad: list[int] = []
    log = ""
    pending = list(files)
    running: list[tuple[subprocess.Popen, str]] = []
    t_end = time.time() + timeout
    while pending or running:
        while pending and len(running) < NPROC:
            fn = pending.pop(0)
            p = subprocess.Popen(
                ["coqc", "-R", COQ, "VF", "-w", "-notation-overridden,-abstract-large-number", fn],
                cwd=work, stdout=subprocess.PIPE, stderr=subprocess.STDOUT, text=True,
            )
            running.append((p, fn))
        still = []
        for p, fn in running:
            if p.poll() is None:
                if time.time() > t_end:
                    p.kill()
                    log += f"\n{fn}: TIMEOUT"
                    bad.append(-1)
                else:
                    still.append((p, fn))
                continue
            out = p.stdout.read()
            if p.returncode != 0:
                log += f"\n{fn}: coqc failed:\n{out[-2000:]}"
                bad.append(-1)
                continue
            m = re.search(r'\("MISMATCH"(?:%string)?,\s*\[(.*?)\]\)', out, flags=re.S)
            if not m:
                log += f"\n{fn}: unparsable output:\n{out[-500:]}"
                bad.append(-1)
                continue
            body = m.group(1).strip()
            if body:
                bad += [int(x.replace("%uint63", "").replace("%sint63", "").strip()) for x in body.split(";") if x.strip()]
        running = still
        if running:
            time.sleep(0.05)
    return sorted(bad), log


# --------------------------------------------------------------------------- observer clones
TAGS = {"exp": 0, "log": 1, "cos": 2, "power": 3, "pow2": 4}


class Recorder:
    def __init__(self):
        self.table: list[tuple[int, float, float, float]] = []
        self.on = True

    def reset(self):
        self.table = []

    def take(self):
        t = self.table
        self.table = []
        # dedupe, keep order
        seen = set()
        out = []
        for e in t:
            key = (e[0], fkey(e[1]), fkey(e[2]))
            if key not in seen:
                seen.add(key)
                out.append(e)
        return out

    def rec(self, tag: str, args, result):
        import numpy as np

        if not self.on:
            return
        arrs = [np.asarray(a, dtype=float) for a in args] + [np.asarray(result, dtype=float)]
        if len(args) == 1:
            arrs.insert(1, np.zeros(()))
        try:
            bs = np.broadcast_arrays(*arrs)
        except ValueError:
            return
        if bs[0].size > 4096:
            return
        for a, b, r in zip(*(x.ravel() for x in bs)):
            self.table.append((TAGS[tag], float(a), float(b), float(r)))


def fkey(x: float):
    x = float(x)
    return "nan" if x != x else (x, math.copysign(1.0, x))


RECORDER = Recorder()


def _rec_pow(a, b):
    r = a**b
    if isinstance(b, (int, float)) and not isinstance(b, bool) and b == 2:
        RECORDER.rec("pow2", [a], r)
    return r


def _rec_np(name, fn, *args):
    r = fn(*args)
    RECORDER.rec(name, list(args), r)
    return r


class _Rewriter(ast.NodeTransformer):
    def visit_BinOp(self, node):
        self.generic_visit(node)
        if isinstance(node.op, ast.Pow):
            return ast.copy_location(ast.Call(func=ast.Name(id="REC_POW_", ctx=ast.Load()), args=[node.left, node.right], keywords=[]), node)
        return node

    def visit_Call(self, node):
        self.generic_visit(node)
        f = node.func
        if isinstance(f, ast.Attribute) and isinstance(f.value, ast.Name) and f.value.id == "np" and f.attr in ("exp", "log", "cos", "power") and not node.keywords:
            return ast.copy_location(
                ast.Call(func=ast.Name(id="REC_NP_", ctx=ast.Load()), args=[ast.Constant(value=f.attr), f] + node.args, keywords=[]), node
            )
        return node


_OBSERVED: dict[str, types.ModuleType] = {}


def observed_module(modname: str) -> types.ModuleType:
    """A clone of fuzzylite.<modname> in which `**`, np.exp/log/cos/power record (argument -> result).
    /repo is not touched; the clone is compiled from the source file of the imported module."""
    if modname in _OBSERVED:
        return _OBSERVED[modname]
    import importlib

    real = importlib.import_module(f"fuzzylite.{modname}")
    src = open(real.__file__).read()
    tree = _Rewriter().visit(ast.parse(src))
    ast.fix_missing_locations(tree)
    mod = types.ModuleType(f"fuzzylite.{modname}__observed")
    mod.__package__ = "fuzzylite"
    mod.__file__ = real.__file__
    mod.__dict__["REC_POW_"] = _rec_pow
    mod.__dict__["REC_NP_"] = _rec_np
    sys.modules[mod.__name__] = mod
    exec(compile(tree, real.__file__, "exec"), mod.__dict__)
    _OBSERVED[modname] = mod
    return mod


class patch_observed:
    """Context manager: while active, the shape terms' membership/tsukamoto and the hedges' hedge methods of the REAL
    classes are replaced by the observer clones' functions (same source, with `**`, exp, log, cos, power recording).
    /repo is not touched; everything is restored on exit."""

    def __init__(self):
        self.saved = []

    def __enter__(self):
        import importlib

        for modname, methods in (("term", ("membership", "tsukamoto")), ("hedge", ("hedge",))):
            real = importlib.import_module(f"fuzzylite.{modname}")
            obs = observed_module(modname)
            for name, cls in list(vars(real).items()):
                if isinstance(cls, type) and cls.__module__ == real.__name__ and hasattr(obs, name):
                    if name in ("Term", "Activated", "Aggregated", "Linear", "Function", "Discrete", "Hedge", "HedgeLambda", "HedgeFunction"):
                        continue
                    for m in methods:
                        if m in vars(cls):
                            self.saved.append((cls, m, vars(cls)[m]))
                            setattr(cls, m, vars(getattr(obs, name))[m])
        return self

    def __exit__(self, *exc):
        for cls, m, f in self.saved:
            setattr(cls, m, f)
        self.saved = []
        return False


def oracle_lit(table) -> str:
    return coq_list(f"({t}%nat, {fhex(a)}, {fhex(b)}, {fhex(r)})" for t, a, b, r in table)


# --------------------------------------------------------------------------- structured floats
def neighbours(x: float) -> list[float]:
    if x != x or math.isinf(x):
        return [x]
    return [math.nextafter(x, -math.inf), x, math.nextafter(x, math.inf)]


SPECIALS = [math.nan, math.inf, -math.inf, 0.0, -0.0]


# --------------------------------------------------------------------------- known findings / verdict
def load_known() -> list[dict]:
    p = os.path.join(VERIF, "known_findings.json")
    if not os.path.exists(p):
        return []
    for _ in range(5):
        try:
            return [e for e in json.load(open(p)).get("findings", []) if e.get("status") == "known"]
        except json.JSONDecodeError:  # being rewritten by an editor: retry
            time.sleep(0.2)
    raise


class Verdict:
    def __init__(self, ctx: Ctx):
        self.ctx = ctx
        self.violations: list[dict] = []  # concrete failing inputs {signature, what, replay:{...}}
        self.broken: list[dict] = []  # broken obligations / correspondences without a failing input
        self.known_hits: dict[str, int] = {}

    def add_violation(self, signature: str, what: str, replay: dict):
        for k in load_known():
            if k["property"] == self.ctx.pid and re.fullmatch(k["signature"], signature):
                self.known_hits[k["signature"]] = self.known_hits.get(k["signature"], 0) + 1
                return
        self.violations.append({"signature": signature, "what": what, "replay": replay})

    def add_broken(self, kind: str, name: str, detail: str):
        self.broken.append({"kind": kind, "name": name, "detail": detail[:4000]})

    def finish(self, evidence: dict) -> int:
        ctx = self.ctx
        os.makedirs(os.path.join(VERIF, "replays"), exist_ok=True)
        for k in load_known():
            if k["property"] == ctx.pid and k["signature"] in self.known_hits:
                print(f"KNOWN-FINDING: property={ctx.pid} {k['what']} ({self.known_hits[k['signature']]} hits this run)")
        rc = 0
        nviol = 0
        if self.violations:
            v = self.violations[0]
            path = os.path.join(VERIF, "replays", f"{ctx.pid}-{ctx.tier}-{ctx.seed}.json")
            json.dump({"property": ctx.pid, "violations": self.violations[:20], "broken": self.broken}, open(path, "w"), indent=1, default=str)
            print(f"VIOLATION property={ctx.pid} replay={path}  # {v['what'][:200]}")
            rc = 1
            nviol = len(self.violations)
        elif self.broken:
            path = os.path.join(VERIF, "replays", f"{ctx.pid}-{ctx.tier}-{ctx.seed}.json")
            json.dump({"property": ctx.pid, "violations": [], "broken": self.broken, "note": "no concrete failing input was found by the search; the named theorem/correspondence no longer checks"}, open(path, "w"), indent=1, default=str)
            b = self.broken[0]
            print(f"VIOLATION property={ctx.pid} replay={path}  # {b['kind']} {b['name']} no longer checks; no-failing-input-found")
            rc = 1
            nviol = len(self.broken)
        evidence["violations"] = nviol
        evidence["wall_s"] = round(time.time() - ctx.t0, 2)
        os.makedirs(os.path.join(VERIF, "evidence"), exist_ok=True)
        json.dump(evidence, open(os.path.join(VERIF, "evidence", f"{ctx.pid}.json"), "w"), indent=1, default=str)
        if not os.environ.get("VERIF_KEEP_WORK"):
            shutil.rmtree(ctx.work, ignore_errors=True)   # generated case files and their .vo are large
        return rc


def base_evidence(ctx: Ctx, build: BuildResult, targets: list[str]) -> dict:
    nthm = len(build.theorems)
    return {
        "property_id": ctx.pid,
        "tier": ctx.tier,
        "seed": ctx.seed,
        "level": "proof",
        "coverage": {
            "obligations": max(nthm, 1),
            "discharged": nthm if build.ok else 0,
            "checker_cmd": f"cd /verif/coq && make {' '.join(targets)} && coqc -R . VF Properties/{ctx.pid}.v  (run by ./check {ctx.pid} {ctx.tier})",
            "trusted_base": [
                "Coq 8.16.1 kernel + vm_compute (no native_compute)",
                "tools/translate.py (Python ast -> Gallina), validated each run bit-for-bit against the source kernels",
                "Print Assumptions: " + (", ".join(build.assumptions.get("axioms", [])) or "closed under the global context"),
                STD_AXIOMS_NOTE,
            ],
            "theorems": build.theorems,
            "supporting_lemmas": build.lemma_count,
            "build_wall_s": round(build.wall, 1),
            "build_ok": build.ok,
        },
        "assumptions": [],
        "wall_s": 0.0,
    }
