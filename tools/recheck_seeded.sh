#!/bin/bash
# recheck_seeded.sh <out file> <dir> ... : re-runs each seeded change against its own property's quick check (scratch copies)
# and appends "<name> caught|MISSED input|noinput <violation line>" to <out file>.
OUT="$1"; shift
for d in "$@"; do
  name=$(basename "$d"); pid=${name%%_*}
  out=$(/verif/tools/run_seeded.sh "$pid" "$d" 2>&1)
  v=$(echo "$out" | grep -m1 "^VIOLATION" | sed 's/replay=\S*//' | cut -c1-260)
  if [ -z "$v" ]; then echo "$name MISSED" >> "$OUT"
  elif echo "$v" | grep -q "no-failing-input-found"; then echo "$name caught noinput $v" >> "$OUT"
  else echo "$name caught input $v" >> "$OUT"; fi
done
