"""Exact (tolerance-free) direct oracles derived from the binary64-level theorems of
coq/Properties/C04b.v, C05b.v and C03e.v (Proofs/FloatLevel.v, NormFloat.v, HedgeFloat.v, TermFloat.v).

Each check asserts on the IMPLEMENTATION exactly what a theorem states for every binary64 input of the stated
domain, so on the unchanged tree it cannot fire (the generated kernels are tied to the implementation by the
bit-exact correspondence of the same check); a change that breaks a law only at the ulp level yields a concrete
failing input.  Laws that were REFUTED at the float level (C04b_*_refuted, C05b_*_refuted) are not checked here.
Every random choice derives from ctx.rng."""
from __future__ import annotations

import inspect
import math

import numpy as np

inf = math.inf


def chain(x: float, k: int, lo: float = 0.0, hi: float = 1.0) -> list[float]:
    """x and its k binary64 neighbours on each side, clipped to [lo, hi]."""
    out = [x] if lo <= x <= hi else []
    u = d = x
    for _ in range(k):
        u = math.nextafter(u, inf)
        d = math.nextafter(d, -inf)
        if lo <= u <= hi:
            out.append(u)
        if lo <= d <= hi:
            out.append(d)
    return out


def _same_bits(r: float, v: float) -> bool:
    return r == v and math.copysign(1.0, r) == math.copysign(1.0, v)


class _Reporter:
    """At most one violation per signature (the first, i.e. a concrete input); counts checks."""

    def __init__(self, verdict):
        self.verdict = verdict
        self.seen: set[str] = set()
        self.checks = 0
        self.violations = 0

    def fail(self, sig: str, what: str, replay: dict):
        self.violations += 1
        if sig in self.seen:
            return
        self.seen.add(sig)
        self.verdict.add_violation(sig, what, replay)


# ----------------------------------------------------------------------------------------------- C05b: hedges
HEDGE_ENDS = {"Any": (1.0, 1.0), "Not": (1.0, 0.0), "Extremely": (0.0, 1.0), "Seldom": (0.0, 1.0), "Somewhat": (0.0, 1.0), "Very": (0.0, 1.0)}
HEDGE_THEOREM = {n: f"C05b_{n}_float" for n in HEDGE_ENDS}


def unit_points(rng, n_random: int, n_centres: int, k: int) -> list[float]:
    pts: set[float] = set()
    for c in (0.0, 0.25, 0.5, 0.75, 1.0, 0.125, 2.0 ** -53, 2.0 ** -26, 1 - 2.0 ** -27, 2.0 ** -537, 2.0 ** -1022):
        pts.update(chain(c, k))
    for _ in range(n_centres):
        pts.update(chain(rng.random(), k))
        pts.update(chain(rng.random() * 2.0 ** -rng.randint(1, 1070), 6))
        pts.update(chain(1.0 - rng.random() * 2.0 ** -rng.randint(1, 52), 6))
    pts.update(rng.random() for _ in range(n_random))
    pts.update([2.0 ** -60, 2.0 ** -600, 5e-324, 0.1, 0.2, 0.3, 0.7, 0.9])
    return sorted(p for p in pts if 0.0 <= p <= 1.0)


def hedges(ctx, verdict, fl) -> dict:
    """range [0,1], end points (bitwise), monotone (not: antitone) — also on consecutive doubles —, very x <= x <= somewhat x."""
    rep = _Reporter(verdict)
    xs = unit_points(ctx.rng, ctx.n(3000, 40000), ctx.n(25, 200), ctx.n(50, 80))
    arr = np.array(xs)
    scalar_idx = sorted(set(range(0, len(xs), max(1, len(xs) // ctx.n(1500, 12000)))))
    res: dict[str, np.ndarray] = {}
    for name, (v0, v1) in HEDGE_ENDS.items():
        h = getattr(fl, name)()
        thm = HEDGE_THEOREM[name]
        with np.errstate(all="ignore"):
            ra = np.asarray(h.hedge(arr.copy()), dtype=float)
            if ra.shape != arr.shape:  # reported by the shape checks of the module
                ra = np.resize(ra, arr.shape)
            modes = [("array", arr, ra)]
            sx = [xs[i] for i in scalar_idx]
            sr = []
            for x in sx:
                try:
                    sr.append(float(np.asarray(h.hedge(x)).ravel()[0]))
                except Exception:  # noqa  (reported by the scalar stream of the module)
                    sr.append(math.nan)
            modes.append(("scalar", np.array(sx), np.array(sr)))
        res[name] = ra
        for mode, X, R in modes:
            rep.checks += 2 * len(X)
            bad = ~((R >= 0.0) & (R <= 1.0))
            if bad.any():
                i = int(np.flatnonzero(bad)[0])
                rep.fail("hedge:float-range", f"{name}.hedge({float(X[i])!r}) = {float(R[i])!r} is not in [0,1] ({mode} mode; {thm}: hrangeF for every binary64 x of [0,1])",
                         {"hedge": name, "x": float(X[i]), "got": float(R[i]), "mode": mode})
            d = np.diff(R)
            bad = (d > 0) if name == "Not" else (d < 0)
            if bad.any():
                i = int(np.flatnonzero(bad)[0])
                word = "antitone" if name == "Not" else "monotone"
                rep.fail("hedge:float-monotone", f"{name} is not {word} in binary64: {name}({float(X[i])!r}) = {float(R[i])!r} but {name}({float(X[i + 1])!r}) = {float(R[i + 1])!r} "
                         f"({mode} mode; {thm}: {'hantiF' if name == 'Not' else 'hmonoF'})", {"hedge": name, "x": float(X[i]), "x1": float(X[i + 1]), "got": float(R[i]), "got1": float(R[i + 1]), "mode": mode})
        with np.errstate(all="ignore"):
            e = [float(np.asarray(h.hedge(v)).ravel()[0]) for v in (0.0, 1.0)] + [float(v) for v in np.asarray(h.hedge(np.array([0.0, 1.0])), dtype=float)]
        rep.checks += 4
        for got, want, x in zip(e, (v0, v1, v0, v1), (0.0, 1.0, 0.0, 1.0)):
            if not _same_bits(got, want):
                rep.fail("hedge:float-endpoints", f"{name}.hedge({x}) = {got!r}, expected exactly {want!r} ({thm}: hendsF)", {"hedge": name, "x": x, "got": got})
    rep.checks += 2 * len(arr)
    bad = ~(res["Very"] <= arr)
    if bad.any():
        i = int(np.flatnonzero(bad)[0])
        rep.fail("hedge:float-order", f"very({xs[i]!r}) = {float(res['Very'][i])!r} > x (C05b_very_le_id_le_somewhat_float)", {"hedge": "Very", "x": xs[i], "got": float(res["Very"][i])})
    bad = ~(arr <= res["Somewhat"])
    if bad.any():
        i = int(np.flatnonzero(bad)[0])
        rep.fail("hedge:float-order", f"somewhat({xs[i]!r}) = {float(res['Somewhat'][i])!r} < x (C05b_very_le_id_le_somewhat_float)", {"hedge": "Somewhat", "x": xs[i], "got": float(res["Somewhat"][i])})
    return {"exact_float_law_checks": rep.checks, "exact_float_law_violations": rep.violations, "points": len(xs), "consecutive_double_chains": True}


# ----------------------------------------------------------------------------------------------- C04b: norms
TN = ["AlgebraicProduct", "BoundedDifference", "DrasticProduct", "EinsteinProduct", "HamacherProduct", "Minimum", "NilpotentMinimum"]
ALL7 = {"range", "comm", "mono", "assoc", "ident", "annih", "bound"}
# exactly the laws PROVED in Properties/C04b.v (theorem C04b_<Norm>_float); refuted ones are absent
NORM_LAWS = {
    "AlgebraicProduct": {"range", "comm", "mono", "ident", "annih", "bound"},
    "BoundedDifference": {"range", "comm", "mono", "annih"},
    "DrasticProduct": ALL7,
    "EinsteinProduct": {"range", "comm", "ident", "annih", "bound"},
    "HamacherProduct": {"range", "comm", "annih"},
    "Minimum": ALL7,
    "NilpotentMinimum": {"range", "comm", "mono", "assoc", "annih", "bound"},
    "AlgebraicSum": {"range", "comm", "ident"},
    "BoundedSum": {"range", "comm", "mono", "ident", "annih", "bound"},
    "DrasticSum": ALL7,
    "EinsteinSum": {"range", "comm", "ident", "annih"},
    "HamacherSum": {"comm", "ident"},
    "Maximum": ALL7,
    "NilpotentMaximum": ALL7,
    "NormalizedSum": {"range", "comm", "mono", "ident", "annih", "bound"},
    "UnboundedSum": {"range02", "comm", "mono", "ident", "bound"},
}


def norm_points(rng, n_random: int) -> list[float]:
    pts: set[float] = {0.0, 1.0, 0.5, 0.25, 0.75, 2.0 ** -60, 2.0 ** -53, 2.0 ** -52, 2.0 ** -54, 1.5 * 2.0 ** -54, 2.0 ** -26, 2.0 ** -27,
                       5e-324, 2.0 ** -1022, 2.0 ** -537, 2.0 ** -538, 2.0 ** -600, 1e-17, 1e-200}
    for c in (0.5, 1.0, 0.0, 2.0 ** -53, 2.0 ** -54, 2.0 ** -52, 0.25, 0.75, 1 - 2.0 ** -27):
        pts.update(chain(c, 3))
    for a in (0.1, 0.2, 0.3, 0.4, 0.7, 0.6, 0.9, 0.8, 1 / 3, 2 / 3):  # ties a + b == 1.0 and their neighbours
        pts.update(chain(a, 1))
        pts.update(chain(1.0 - a, 1))
    for _ in range(n_random // 4):
        a = rng.random()
        pts.add(a)
        pts.update(chain(1.0 - a, 1))
        pts.add(rng.random() * 2.0 ** -rng.randint(1, 60))
        pts.add(1.0 - rng.random() * 2.0 ** -rng.randint(20, 53))
    pts.update(rng.random() for _ in range(n_random // 2))
    return sorted(p for p in pts if 0.0 <= p <= 1.0)


def norms(ctx, verdict, fl) -> dict:
    rep = _Reporter(verdict)
    V = norm_points(ctx.rng, ctx.n(360, 1400))
    v = np.array(V)
    col, row = v.reshape(-1, 1), v.reshape(1, -1)
    A, B = np.broadcast_arrays(col, row)
    n = len(V)
    small = sorted(set(V[:: max(1, n // ctx.n(28, 48))] + [0.0, 1.0, 0.5, 0.1, 0.9, 0.3, 0.7, 2.0 ** -60, math.nextafter(1.0, 0.0)]))
    scal_pairs = [(ctx.rng.choice(V), ctx.rng.choice(V)) for _ in range(ctx.n(1500, 12000))]
    mats = {}
    for name, laws in NORM_LAWS.items():
        norm = getattr(fl, name)()
        thm = f"C04b_{name}_float"
        is_t = name in TN
        e_id, e_an = (1.0, 0.0) if is_t else (0.0, 1.0)
        with np.errstate(all="ignore"):
            M = np.asarray(norm.compute(col.copy(), row.copy()), dtype=float)
        if M.shape != (n, n):
            M = np.resize(M, (n, n))
        mats[name] = M

        def f(a, b, norm=norm):
            with np.errstate(all="ignore"):
                return float(np.asarray(norm.compute(a, b)).ravel()[0])

        def first(mask):
            i, j = np.argwhere(mask)[0]
            return float(A[i, j]), float(B[i, j]), float(M[i, j])

        if "range" in laws or "range02" in laws:
            hi = 1.0 if "range" in laws else 2.0
            rep.checks += M.size
            bad = ~((M >= 0.0) & (M <= hi))
            if bad.any():
                a, b, r = first(bad)
                rep.fail(f"norm:{name}-float-range", f"{name}.compute({a!r}, {b!r}) = {r!r} is not in [0,{hi:g}] ({thm}: rangeF for all binary64 a, b of [0,1])", {"norm": name, "a": a, "b": b, "got": r})
        if "comm" in laws:
            rep.checks += M.size
            bad = ~((M == M.T) | ~(np.isfinite(M) | np.isfinite(M.T)))
            if bad.any():
                a, b, r = first(bad)
                rep.fail(f"norm:{name}-float-comm", f"{name} is not commutative in binary64: compute({a!r}, {b!r}) = {r!r} but compute({b!r}, {a!r}) = {f(b, a)!r} ({thm}: commL/commF)",
                         {"norm": name, "a": a, "b": b, "got": r})
        if "bound" in laws:
            rep.checks += M.size
            bad = ~(M <= np.minimum(A, B)) if is_t else ~(M >= np.maximum(A, B))
            if bad.any():
                a, b, r = first(bad)
                rep.fail(f"norm:{name}-float-{'le_min' if is_t else 'ge_max'}", f"{name}.compute({a!r}, {b!r}) = {r!r} is {'above min' if is_t else 'below max'}(a,b) ({thm}: {'le_minF' if is_t else 'ge_maxF'})",
                         {"norm": name, "a": a, "b": b, "got": r})
        if "mono" in laws:
            rep.checks += 2 * M.size
            for axis, what in ((1, "second"), (0, "first")):
                d = np.diff(M, axis=axis) < 0
                if d.any():
                    i, j = np.argwhere(d)[0]
                    if axis == 1:
                        a, b, c, r0, r1 = V[i], V[j], V[j + 1], M[i, j], M[i, j + 1]
                        msg = f"{name}({a!r}, {b!r}) = {float(r0)!r} > {name}({a!r}, {c!r}) = {float(r1)!r}"
                    else:
                        a, b, c, r0, r1 = V[j], V[i], V[i + 1], M[i, j], M[i + 1, j]
                        msg = f"{name}({b!r}, {a!r}) = {float(r0)!r} > {name}({c!r}, {a!r}) = {float(r1)!r}"
                    rep.fail(f"norm:{name}-float-mono", f"{name} is not monotone in its {what} argument in binary64: {msg} although {b!r} <= {c!r} ({thm}: mono1F/mono2F)",
                             {"norm": name, "a": float(a), "b": float(b), "c": float(c)})
        if "ident" in laws or "annih" in laws:
            with np.errstate(all="ignore"):
                I = np.asarray(norm.compute(v.copy(), np.full_like(v, e_id)), dtype=float)
                Z = np.asarray(norm.compute(v.copy(), np.full_like(v, e_an)), dtype=float)
            if "ident" in laws:
                rep.checks += len(V)
                bad = ~(I == v)
                if bad.any():
                    i = int(np.flatnonzero(bad)[0])
                    rep.fail(f"norm:{name}-float-identity", f"{name}.compute({V[i]!r}, {e_id}) = {float(I[i])!r}, expected exactly {V[i]!r} ({thm}: identF)", {"norm": name, "a": V[i], "b": e_id, "got": float(I[i])})
            if "annih" in laws:
                rep.checks += len(V)
                bad = ~(Z == e_an)
                if bad.any():
                    i = int(np.flatnonzero(bad)[0])
                    rep.fail(f"norm:{name}-float-annihilator", f"{name}.compute({V[i]!r}, {e_an}) = {float(Z[i])!r}, expected exactly {e_an} ({thm}: annihF)", {"norm": name, "a": V[i], "b": e_an, "got": float(Z[i])})
        if "assoc" in laws:
            s = np.array(small)
            with np.errstate(all="ignore"):
                X, Y, Zz = np.meshgrid(s, s, s, indexing="ij")
                L = np.asarray(norm.compute(np.asarray(norm.compute(X, Y), dtype=float), Zz), dtype=float)
                R = np.asarray(norm.compute(X, np.asarray(norm.compute(Y, Zz), dtype=float)), dtype=float)
            rep.checks += L.size
            bad = ~(L == R)
            if bad.any():
                i, j, k = np.argwhere(bad)[0]
                rep.fail(f"norm:{name}-float-assoc", f"{name} is not associative in binary64 at ({float(s[i])!r}, {float(s[j])!r}, {float(s[k])!r}): {float(L[i, j, k])!r} vs {float(R[i, j, k])!r} "
                         f"({thm}: assocF — exact for this norm)", {"norm": name, "a": float(s[i]), "b": float(s[j]), "c": float(s[k])})
        # scalar mode (Python floats): the same point laws on a sample of pairs
        for a, b in scal_pairs:
            r = f(a, b)
            rep.checks += 1
            if "range" in laws and not (0.0 <= r <= 1.0):
                rep.fail(f"norm:{name}-float-range", f"{name}.compute({a!r}, {b!r}) = {r!r} is not in [0,1] (scalar mode; {thm}: rangeF)", {"norm": name, "a": a, "b": b, "got": r})
            if "comm" in laws:
                q = f(b, a)
                if not (r == q or not (math.isfinite(r) or math.isfinite(q))):
                    rep.fail(f"norm:{name}-float-comm", f"{name} is not commutative in binary64: compute({a!r}, {b!r}) = {r!r} but compute({b!r}, {a!r}) = {q!r} (scalar mode; {thm})", {"norm": name, "a": a, "b": b, "got": r})
            if "bound" in laws and not (r <= min(a, b) if is_t else r >= max(a, b)):
                rep.fail(f"norm:{name}-float-{'le_min' if is_t else 'ge_max'}", f"{name}.compute({a!r}, {b!r}) = {r!r} violates the min/max bound (scalar mode; {thm})", {"norm": name, "a": a, "b": b, "got": r})
        for a in small:
            if "ident" in laws:
                rep.checks += 1
                if not f(a, e_id) == a:
                    rep.fail(f"norm:{name}-float-identity", f"{name}.compute({a!r}, {e_id}) = {f(a, e_id)!r}, expected exactly {a!r} (scalar mode; {thm}: identF)", {"norm": name, "a": a, "b": e_id})
            if "annih" in laws:
                rep.checks += 1
                if not f(a, e_an) == e_an:
                    rep.fail(f"norm:{name}-float-annihilator", f"{name}.compute({a!r}, {e_an}) = {f(a, e_an)!r}, expected exactly {e_an} (scalar mode; {thm}: annihF)", {"norm": name, "a": a, "b": e_an})
    rep.checks += mats["NormalizedSum"].size
    bad = ~(mats["NormalizedSum"] == mats["BoundedSum"])
    if bad.any():
        i, j = np.argwhere(bad)[0]
        rep.fail("norm:NormalizedSum-float-is-BoundedSum", f"NormalizedSum({V[i]!r}, {V[j]!r}) = {float(mats['NormalizedSum'][i, j])!r} differs from BoundedSum = {float(mats['BoundedSum'][i, j])!r} "
                 "(C04b_NormalizedSum_is_BoundedSum_float)", {"norm": "NormalizedSum", "a": V[i], "b": V[j]})
    return {"exact_float_law_checks": rep.checks, "exact_float_law_violations": rep.violations, "operands": n, "laws_checked": {k: sorted(x) for k, x in NORM_LAWS.items()}}


# ----------------------------------------------------------------------------------------------- C03e: piecewise-linear terms
BIG = 2.0 ** 1022


def _coord(rng) -> float:
    k = rng.random()
    if k < 0.35:
        return round(rng.uniform(-10, 10), rng.choice([0, 1, 2]))
    if k < 0.6:
        return rng.uniform(-10, 10)
    if k < 0.7:
        return rng.uniform(-1e6, 1e6)
    if k < 0.8:
        return rng.choice([-1, 1]) * rng.random() * 2.0 ** rng.randint(-1074, -1000)
    if k < 0.9:
        return rng.choice([-1, 1]) * rng.uniform(0.5, 1.0) * 2.0 ** rng.randint(900, 1022)
    return rng.choice([0.0, BIG, -BIG, 1.0, 2.0 ** -1074, -(2.0 ** -1074), 0.1, 0.3])


def _ordered(rng, k: int) -> list[float]:
    """k finite coordinates in non-decreasing order, with equal neighbours (vertical edges) and 1-ulp widths."""
    v = sorted(_coord(rng) for _ in range(k))
    for i in range(1, k):
        q = rng.random()
        if q < 0.12:
            v[i] = v[i - 1]
        elif q < 0.24 and abs(v[i - 1]) < BIG:
            v[i] = math.nextafter(v[i - 1], inf)
    v = sorted(min(max(x, -BIG), BIG) for x in v)
    return v


def _height(rng) -> float:
    return rng.choice([1.0, 1.0, 0.5, 0.3, 0.75, 1e-3, rng.uniform(0.05, 1.0), math.nextafter(0.0, 1.0), 2.0 ** -1022, math.nextafter(1.0, 0.0)])


def _xs(rng, params: list[float], n_random: int) -> list[float]:
    xs: list[float] = [math.nan, inf, -inf, 0.0, -0.0, math.nextafter(inf, 0.0), -math.nextafter(inf, 0.0)]
    for p in params:
        xs += chain(p, 3, -inf, inf)
    fin = sorted(set(params))
    for a, b in zip(fin, fin[1:]):
        xs.append(a / 2 + b / 2)
        for _ in range(n_random):
            xs.append(a + (b - a) * rng.random() if math.isfinite(b - a) else rng.uniform(-1, 1) * BIG)
    lo, hi = fin[0], fin[-1]
    span = max(min(hi - lo, BIG), 1.0)
    xs += [lo - span * rng.random() for _ in range(n_random)] + [hi + span * rng.random() for _ in range(n_random)]
    xs += [rng.uniform(-1, 1) * 2.0 ** rng.randint(-1074, 1023) for _ in range(n_random)]
    return xs


def terms(ctx, verdict, fl) -> dict:
    """mu x is NaN iff x is NaN; otherwise mu x is finite and 0 <= mu x <= height, exactly — for finite parameters of magnitude
    at most 2^1022 in valid order (the hypotheses of C03e_*_float: C03e_no_overflow_small gives `fin (b - a)`)."""
    rep = _Reporter(verdict)
    n_par = ctx.n(300, 3000)
    n_rand = ctx.n(4, 10)
    dist = {}
    for name in ("Rectangle", "Binary", "Ramp", "Triangle", "Trapezoid"):
        cls = getattr(fl, name)
        thm = f"C03e_{name}_float"
        for _ in range(n_par):
            h = _height(ctx.rng)
            if name == "Rectangle":
                ps = [_coord(ctx.rng), _coord(ctx.rng)]  # any order: the kernel sorts
            elif name == "Binary":
                ps = [_coord(ctx.rng), _coord(ctx.rng)]
            elif name == "Ramp":
                ps = _ordered(ctx.rng, 2)
                if ps[0] == ps[1]:
                    ps[1] = math.nextafter(ps[1], inf) if ps[1] < BIG else math.nextafter(ps[0], -inf)
                    ps.sort()
                if ctx.rng.random() < 0.5:
                    ps.reverse()
            elif name == "Triangle":
                ps = _ordered(ctx.rng, 3)
            else:
                ps = _ordered(ctx.rng, 4)
            ps = [min(max(p, -BIG), BIG) for p in ps]
            t = cls("t", *ps, h)
            pnames = [q for q in inspect.signature(cls.__init__).parameters if q not in ("self", "name")]
            pdict = dict(zip(pnames, ps + [h]))
            xs = _xs(ctx.rng, ps, n_rand)
            xa = np.array(xs)
            with np.errstate(all="ignore"):
                try:
                    ra = np.asarray(t.membership(xa.copy()), dtype=float)
                    rs = [float(np.asarray(t.membership(x)).ravel()[0]) for x in xs[:: max(1, len(xs) // 12)]]
                except Exception:  # noqa  (reported by the exception checks of the module)
                    continue
            if ra.shape != xa.shape:
                continue
            for mode, X, R in (("array", xa, ra), ("scalar", np.array(xs[:: max(1, len(xs) // 12)]), np.array(rs))):
                rep.checks += len(X)
                xn, rn = np.isnan(X), np.isnan(R)
                bad = xn != rn
                if bad.any():
                    i = int(np.flatnonzero(bad)[0])
                    rep.fail(f"term:{name}-float-nan", f"{name}{tuple(ps)} height {h!r}: membership({float(X[i])!r}) = {float(R[i])!r} — NaN exactly when x is NaN is violated ({mode} mode; {thm}: mu_ok)",
                             {"term": name, "params": pdict, "x": "nan" if xn[i] else float(X[i]), "mode": mode})
                ok = ~xn & ~rn
                bad = ok & ~((R >= 0.0) & (R <= h))
                if bad.any():
                    i = int(np.flatnonzero(bad)[0])
                    rep.fail(f"term:{name}-float-range", f"{name}{tuple(ps)} height {h!r}: membership({float(X[i])!r}) = {float(R[i])!r} is not in [0, height] exactly ({mode} mode; {thm}: mu_ok for every binary64 x)",
                             {"term": name, "params": pdict, "x": float(X[i]), "got": float(R[i]), "mode": mode})
            dist[name] = dist.get(name, 0) + len(xs)
    return {"exact_float_law_checks": rep.checks, "exact_float_law_violations": rep.violations, "evaluations_per_term": dist,
            "domain": "finite parameters |p| <= 2^1022 (incl. subnormal, 1-ulp widths, vertical edges), heights in (0,1] incl. 5e-324; x: parameters +-3 ulp, interior, outside, +-inf, +-max, NaN"}


# ----------------------------------------------------------------------------------------------- C11b: Ramp.tsukamoto / Concave.tsukamoto
def tsukamoto(ctx, verdict, fl) -> dict:
    """Exactly C11b_Ramp_tsukamoto_float (|s|,|e| <= 2^1022, 0 < h <= 1, 0 <= y <= h: finite, z(0) = start bitwise-equal value,
    monotone in y in the direction of the term, never on the far side of start) and C11b_Concave_tsukamoto_float
    (|i|,|e| <= 2^500, 2^-500 <= y <= h: finite, monotone in y).  Containment on the side of `end` is refuted in C11b and
    therefore NOT checked."""
    rep = _Reporter(verdict)
    rng = ctx.rng
    for _ in range(ctx.n(400, 4000)):
        h = rng.choice([1.0, 0.5, 0.3, 0.75, 1e-3, rng.uniform(0.05, 1.0), 2.0 ** -1022, math.nextafter(1.0, 0.0)])
        ys = {0.0, h, h / 2, math.nextafter(h, 0.0), math.nextafter(0.0, 1.0)}
        for _ in range(ctx.n(12, 30)):
            ys.update(y for y in chain(h * rng.random(), 2, 0.0, h))
            ys.add(h * rng.random() * 2.0 ** -rng.randint(0, 200))
        ys = sorted(y for y in ys if 0.0 <= y <= h)
        # Ramp
        s, e = _coord(rng), _coord(rng)
        if s == e:
            e = math.nextafter(e, inf) if e < BIG else math.nextafter(e, -inf)
        t = fl.Ramp("t", s, e, h)
        with np.errstate(all="ignore"):
            z = [float(np.asarray(t.tsukamoto(y)).ravel()[0]) for y in ys]
        rep.checks += 3 * len(ys) + 1
        rp = {"term": "Ramp", "params": {"start": s, "end": e, "height": h}}
        if not z[0] == s:
            rep.fail("tsukamoto:Ramp-float-zero", f"Ramp({s!r}, {e!r}, {h!r}).tsukamoto(0.0) = {z[0]!r}, expected exactly start (C11b_Ramp_tsukamoto_float)", dict(rp, y=0.0, got=z[0]))
        for y, v in zip(ys, z):
            if not math.isfinite(v):
                rep.fail("tsukamoto:Ramp-float-finite", f"Ramp({s!r}, {e!r}, {h!r}).tsukamoto({y!r}) = {v!r} is not finite (C11b_Ramp_tsukamoto_float)", dict(rp, y=y, got=v))
            elif (s < e and v < s) or (e < s and v > s):
                rep.fail("tsukamoto:Ramp-float-near-side", f"Ramp({s!r}, {e!r}, {h!r}).tsukamoto({y!r}) = {v!r} lies on the far side of start (C11b_Ramp_tsukamoto_float)", dict(rp, y=y, got=v))
        for (y0, v0), (y1, v1) in zip(zip(ys, z), zip(ys[1:], z[1:])):
            if (s < e and v1 < v0) or (e < s and v1 > v0):
                rep.fail("tsukamoto:Ramp-float-monotone", f"Ramp({s!r}, {e!r}, {h!r}).tsukamoto is not monotone in binary64: z({y0!r}) = {v0!r}, z({y1!r}) = {v1!r} (C11b_Ramp_tsukamoto_float)",
                         dict(rp, y=y0, y1=y1, got=v0, got1=v1))
                break
        # Concave
        B = 2.0 ** 500
        i, e = max(min(_coord(rng), B), -B), max(min(_coord(rng), B), -B)
        if i == e:
            e = math.nextafter(e, inf)
        yc = [y for y in ys if y >= 2.0 ** -500]
        if not yc:
            continue
        t = fl.Concave("t", i, e, h)
        with np.errstate(all="ignore"):
            z = [float(np.asarray(t.tsukamoto(y)).ravel()[0]) for y in yc]
        rep.checks += 2 * len(yc)
        rp = {"term": "Concave", "params": {"inflection": i, "end": e, "height": h}}
        for y, v in zip(yc, z):
            if not math.isfinite(v):
                rep.fail("tsukamoto:Concave-float-finite", f"Concave({i!r}, {e!r}, {h!r}).tsukamoto({y!r}) = {v!r} is not finite (C11b_Concave_tsukamoto_float)", dict(rp, y=y, got=v))
        for (y0, v0), (y1, v1) in zip(zip(yc, z), zip(yc[1:], z[1:])):
            if (i < e and v1 < v0) or (e < i and v1 > v0):
                rep.fail("tsukamoto:Concave-float-monotone", f"Concave({i!r}, {e!r}, {h!r}).tsukamoto is not monotone in binary64: z({y0!r}) = {v0!r}, z({y1!r}) = {v1!r} (C11b_Concave_tsukamoto_float)",
                         dict(rp, y=y0, y1=y1, got=v0, got1=v1))
                break
    return {"exact_float_law_checks": rep.checks, "exact_float_law_violations": rep.violations}
