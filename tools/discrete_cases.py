"""Discrete term (numpy.interp) cases for C03."""
from __future__ import annotations

import math

import numpy as np

import vlib


def gen_table(rng):
    n = rng.choice([1, 2, 2, 3, 4, 5, 8])
    xs = sorted(rng.choice([round(rng.uniform(-5, 5), 1), rng.uniform(-5, 5)]) for _ in range(n))
    if n >= 3 and rng.random() < 0.3:  # vertical edge: repeated abscissa
        i = rng.randrange(n - 1)
        xs[i + 1] = xs[i]
    ys = [rng.choice([0.0, 1.0, 0.5, rng.random()]) for _ in range(n)]
    h = rng.choice([1.0, 0.5, 0.3, rng.uniform(0.05, 1)])
    return xs, ys, h


def doc(xs, ys, h, x):
    """Piecewise-linear interpolation through the points, clamped outside, as documented.
    None where the documentation does not fix the value (x on a repeated abscissa = vertical edge)."""
    if xs.count(x) > 1:
        return None
    if x <= xs[0]:
        return h * ys[0]
    if x >= xs[-1]:
        return h * ys[-1]
    for i in range(len(xs) - 1):
        if xs[i] <= x <= xs[i + 1] and xs[i] < xs[i + 1]:
            t = (x - xs[i]) / (xs[i + 1] - xs[i])
            return h * (ys[i] + t * (ys[i + 1] - ys[i]))
    return None


def cases(ctx, verdict, fl):
    lits, index = [], []
    nviol = 0
    evals = 0
    for _ in range(ctx.n(60, 1500)):
        xs, ys, h = gen_table(ctx.rng)
        flat = [v for pair in zip(xs, ys) for v in pair]
        term = fl.Discrete("d", flat, h)
        pts = []
        for x in xs:
            pts += vlib.neighbours(x)
        pts += [ctx.rng.uniform(xs[0] - 1, xs[-1] + 1) for _ in range(ctx.n(6, 20))] + [math.inf, -math.inf, math.nan, 0.5 * (xs[0] + xs[-1])]
        arr = np.array(pts)
        with np.errstate(all="ignore"):
            ra = np.asarray(term.membership(arr), dtype=float)
        xy_lit = vlib.coq_list(f"({vlib.fhex(a)}, {vlib.fhex(b)})" for a, b in zip(xs, ys))
        for x, r_arr in zip(pts, ra):
            with np.errstate(all="ignore"):
                r = float(term.membership(x))
            evals += 1
            if not vlib.same_float(r, float(r_arr)):
                verdict.add_violation("Discrete:array", f"Discrete{flat}.membership: array {r_arr} vs scalar {r} at {x}", {"term": "Discrete", "xy": flat, "height": h, "x": x}); nviol += 1
            lits.append(f"({xy_lit}, {vlib.fhex(h)}, {vlib.fhex(x)}, {vlib.fhex(r)})")
            index.append(("scalar", "Discrete", {"xy": flat, "height": h}, x, r))
            if x != x:
                if r == r and len(xs) > 1:  # a one-point table is degenerate: numpy.interp returns its single value for every x, NaN included
                    verdict.add_violation("Discrete:nan", f"Discrete.membership(NaN) = {r}", {"term": "Discrete", "xy": flat, "x": "nan"}); nviol += 1
                continue
            if r != r:
                verdict.add_violation("Discrete:nan", f"Discrete{flat}.membership({x}) is NaN", {"term": "Discrete", "xy": flat, "height": h, "x": x}); nviol += 1
                continue
            lo, hi = h * min(ys), h * max(ys)
            if not (lo - 1e-12 <= r <= hi + 1e-12):
                verdict.add_violation("Discrete:range", f"Discrete{flat}.membership({x}) = {r} outside [{lo},{hi}]", {"term": "Discrete", "xy": flat, "height": h, "x": x, "got": r}); nviol += 1
            want = doc(xs, ys, h, x)
            if want is not None and abs(r - want) > 1e-9:
                verdict.add_violation("Discrete:formula", f"Discrete{flat}.membership({x}) = {r}, documented interpolation {want}", {"term": "Discrete", "xy": flat, "height": h, "x": x, "got": r, "want": want}); nviol += 1
    groups = [("list (float * float) * float * float * float",
               "fun c => let '(xy, h, x, e) := c in feq (@Discrete_membership float (NumF true []) xy h x) e", lits)]
    return groups, index, nviol, evals
