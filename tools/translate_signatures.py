#!/usr/bin/env python3
"""Fail-closed translator for property C15: /repo's constructor signatures, `__init__` bodies and `__repr__`
overrides -> coq/Gen/GenSignatures.v.

For every concrete class of the modules term/variable/rule/engine/defuzzifier/activation/norm/hedge it emits
  * the module, the `__init__` parameters in order with their defaults (as syntactic tokens) and annotation kind,
  * the `__init__` body as a small init program (super() calls inlined, property setters resolved),
  * the rule applied by the `__repr__` found along the MRO (source of the fields, pops and their conditions,
    property reads, `positional=True`),
plus the enumerations, the names bound by `import fuzzylite` / `from fuzzylite import *`, and the constants used.

Every accepted construct is listed explicitly; anything else raises TranslationError, reported by the check as the
broken obligation `translation:<file>:<class>.<function>`.  Functions whose behaviour is modelled by hand in
Model/PyRepr.v (as_constructor, construction_arguments, repr_float, Rule.parse, …) are *pinned*: the translator
compares a hash of their normalised source with the hash of the version that was modelled, and raises on change.
"""
from __future__ import annotations

import ast
import hashlib
import os
import sys

REPO = os.environ.get("VERIF_REPO", "/repo")

MODULES = ["activation", "defuzzifier", "engine", "hedge", "norm", "rule", "term", "variable"]  # classes are read from these
AUX_MODULES = ["library", "exporter", "operation"]  # pinned functions only


class TranslationError(Exception):
    def __init__(self, where: str, msg: str):
        super().__init__(f"{where}: {msg}")
        self.where = where
        self.msg = msg


# --------------------------------------------------------------------------------------------- helpers
def strip_doc(body: list[ast.stmt]) -> list[ast.stmt]:
    if body and isinstance(body[0], ast.Expr) and isinstance(body[0].value, ast.Constant) and isinstance(body[0].value.value, str):
        return body[1:]
    return body


def canon_if(s: ast.stmt) -> ast.stmt:
    """`if c: T = a` / `else: T = b` (one target, the same in both branches) is the assignment `T = a if c else b`:
    both spellings are translated alike."""
    if isinstance(s, ast.If) and len(s.body) == 1 and len(s.orelse) == 1:
        a, b = s.body[0], s.orelse[0]
        if (isinstance(a, ast.Assign) and isinstance(b, ast.Assign) and len(a.targets) == 1 and len(b.targets) == 1
                and ast.unparse(a.targets[0]) == ast.unparse(b.targets[0])):
            n = ast.Assign(targets=[a.targets[0]], value=ast.IfExp(test=s.test, body=a.value, orelse=b.value), lineno=s.lineno, col_offset=s.col_offset)
            return ast.fix_missing_locations(n)
    return s


def canon_body(body: list[ast.stmt]) -> list[ast.stmt]:
    return [canon_if(x) for x in strip_doc(body)]


def str_test_param(n: ast.expr) -> str | None:
    """`isinstance(p, str)` -> p"""
    if (isinstance(n, ast.Call) and isinstance(n.func, ast.Name) and n.func.id == "isinstance" and len(n.args) == 2 and not n.keywords
            and isinstance(n.args[0], ast.Name) and isinstance(n.args[1], ast.Name) and n.args[1].id == "str"):
        return n.args[0].id
    return None


def norm_src(fn: ast.FunctionDef) -> str:
    """Normalised source of a function: docstring and decorators removed, `ast.unparse` layout."""
    n = ast.FunctionDef(name=fn.name, args=fn.args, body=strip_doc(fn.body) or [ast.Pass()], decorator_list=[], returns=None, lineno=0, col_offset=0)
    ast.fix_missing_locations(n)
    return ast.unparse(n)


def sha(text: str) -> str:
    return hashlib.sha256(text.encode()).hexdigest()[:16]


def q(s: str) -> str:
    return '"' + s.replace('"', '""') + '"'


def clist(items) -> str:
    return "[" + "; ".join(items) + "]"


def is_self_attr(n: ast.AST, attr: str | None = None) -> bool:
    return isinstance(n, ast.Attribute) and isinstance(n.value, ast.Name) and n.value.id == "self" and (attr is None or n.attr == attr)


class ClassInfo:
    def __init__(self, module: str, node: ast.ClassDef, qual: str):
        self.module = module
        self.node = node
        self.qual = qual  # "Threshold.Comparator" for nested classes
        self.name = node.name
        self.bases = [ast.unparse(b) for b in node.bases]
        self.methods: dict[str, ast.FunctionDef] = {}
        self.properties: dict[str, dict[str, ast.FunctionDef]] = {}
        self.abstract: set[str] = set()
        self.assigns: dict[str, ast.expr] = {}
        for n in node.body:
            if isinstance(n, ast.FunctionDef):
                decos = [ast.unparse(d) for d in n.decorator_list]
                if "property" in decos:
                    self.properties.setdefault(n.name, {})["get"] = n
                elif any(d.endswith(".setter") for d in decos):
                    self.properties.setdefault(n.name, {})["set"] = n
                else:
                    self.methods[n.name] = n
                    if "abstractmethod" in decos:
                        self.abstract.add(n.name)
            elif isinstance(n, ast.Assign) and len(n.targets) == 1 and isinstance(n.targets[0], ast.Name):
                self.assigns[n.targets[0].id] = n.value
            elif isinstance(n, ast.AnnAssign) and isinstance(n.target, ast.Name) and n.value is not None:
                self.assigns[n.target.id] = n.value


class World:
    def __init__(self):
        self.classes: dict[str, ClassInfo] = {}  # by qualified name
        self.trees: dict[str, ast.Module] = {}
        self.all: dict[str, list[str]] = {}

    def load(self):
        fl = os.path.join(REPO, "fuzzylite")
        for m in MODULES + AUX_MODULES + ["__init__"]:
            path = os.path.join(fl, m + ".py")
            try:
                self.trees[m] = ast.parse(open(path).read())
            except (OSError, SyntaxError) as e:
                raise TranslationError(f"{m}.py:<module>", f"cannot parse: {e}")
        for m in MODULES + AUX_MODULES:
            tree = self.trees[m]
            for n in tree.body:
                if isinstance(n, ast.Assign) and len(n.targets) == 1 and isinstance(n.targets[0], ast.Name) and n.targets[0].id == "__all__":
                    try:
                        self.all[m] = list(ast.literal_eval(n.value))
                    except ValueError:
                        raise TranslationError(f"{m}.py:__all__", "not a literal list")
            if m not in self.all:
                raise TranslationError(f"{m}.py:__all__", "module has no __all__")
            if m in MODULES:
                self._collect(m, tree.body, "")

    def _collect(self, module, body, prefix):
        for n in body:
            if isinstance(n, ast.ClassDef):
                qual = prefix + n.name
                if qual in self.classes:
                    raise TranslationError(f"{module}.py:{qual}", "duplicate class name across modules")
                self.classes[qual] = ClassInfo(module, n, qual)
                self._collect(module, n.body, qual + ".")

    # ---- MRO (single inheritance among the collected classes; multiple bases accepted only when the class defines
    # everything the translator looks up itself)
    def mro(self, ci: ClassInfo) -> list[ClassInfo]:
        out = [ci]
        known = [b for b in ci.bases if b in self.classes]
        if len(known) > 1:
            return out + [self.classes[b] for b in known]  # callers check own definitions, see lookup()
        if known:
            out += self.mro(self.classes[known[0]])
        return out

    def lookup(self, ci: ClassInfo, name: str, where: str):
        known = [b for b in ci.bases if b in self.classes]
        if len(known) > 1 and name not in ci.methods:
            raise TranslationError(where, f"multiple inheritance and no own {name}: C3 linearisation is not implemented")
        for c in self.mro(ci):
            if name in c.methods:
                return c, c.methods[name]
        return None, None

    def find_property(self, ci: ClassInfo, name: str):
        for c in self.mro(ci):
            if name in c.properties:
                return c, c.properties[name]
            # a plain method or class attribute of that name along the MRO is not expected
        return None, None

    def is_abstract(self, ci: ClassInfo) -> bool:
        need: set[str] = set()
        for c in reversed(self.mro(ci)):
            need |= c.abstract
            need -= {m for m in c.methods if m not in c.abstract}
        return bool(need)

    def is_enum(self, ci: ClassInfo) -> bool:
        return any(b in ("enum.Enum", "Enum") for b in ci.bases)

    def is_subclass(self, ci: ClassInfo, base: str) -> bool:
        return any(c.qual == base for c in self.mro(ci))


# --------------------------------------------------------------------------------------------- pinned sources
# sha256[:16] of norm_src() of the functions whose behaviour Model/PyRepr.v transcribes by hand.  `--pins` prints the
# current values.  A mismatch means the hand model may no longer describe the code.
PINS: dict[str, str] = {
    "library:Representation.__init__": "7be6e323a7680b31",
    "library:Representation.package_of": "fd5cf8c80ffa2c34",
    "library:Representation.import_statement": "1faa24a075e5481a",
    "library:Representation.as_constructor": "0c2c9bae5caa7344",
    "library:Representation.construction_arguments": "29e6fad139faa249",
    "library:Representation.repr_float": "2220ba794f80eafe",
    "library:Representation.repr_ndarray": "d45f61ba634d0475",
    "exporter:PythonExporter.__init__": "cecd679d97ed7f8a",
    "exporter:PythonExporter.format": "d422840cfa585ecb",
    "exporter:PythonExporter.encapsulate": "7b6b67d9cf753a3c",
    "exporter:PythonExporter.to_string": "a703b0b86e03196e",
    "operation:Operation.is_close": "6eb0f3762d297070",
    "operation:Operation.str": "75c45e2d909af349",
    "operation:Operation.class_name": "ce60bb3e985b100b",
    "operation:Operation.pascal_case": "52d39a8b8ff6f213",
    "operation:Operation.snake_case": "5339d62dac14bb4f",
    "rule:Rule.text.get": "3a7a9d84fdb62704",
    "rule:Rule.parse": "9c0ec93c301b4207",
    "rule:Rule.create": "3fc1ab7a0e7ea9ef",
    "rule:Rule.load": "0827f12ca9956779",
    "rule:Rule.is_loaded": "1d2e20f2379e5228",
    "rule:Antecedent.is_loaded": "4dbe33f14af9798d",
    "rule:Consequent.is_loaded": "370b93aff7aa1c9f",
    "rule:RuleBlock.load_rules": "53cdf061b875ac32",
    "term:Term.update_reference": "ef9202fd0bb656b0",
    "term:Linear.update_reference": "e04e3b9a7e4faf17",
    "term:Function.update_reference": "c1df5e6fd375cf4d",
    "term:Function.load": "4ad150723f695b01",
    "term:Function.is_loaded": "a8f3abcacf1c9392",
    "term:Discrete.__init__": "bfa89eb682372f36",
    "term:Activated.degree.get": "55269ed3d7f7bf56",
    "term:Activated.degree.set": "dd81680bd2e2653f",
    "variable:Variable.value.get": "bc15e19eb371d823",
    "variable:Variable.value.set": "d0379f24cf9e1727",
    "engine:Engine.__init__": "861e221c8493426e",
    "engine:Engine.variables.get": "7444bc9463de686d",
}


def pinned_functions(w: World) -> dict[str, ast.FunctionDef]:
    """name -> FunctionDef for everything in PINS (methods 'module:Class.method', properties 'module:Class.prop.get')."""
    out: dict[str, ast.FunctionDef] = {}

    def walk(module: str, body, prefix: str):
        for n in body:
            if isinstance(n, ast.ClassDef):
                walk(module, n.body, prefix + n.name + ".")
            elif isinstance(n, ast.FunctionDef):
                decos = [ast.unparse(d) for d in n.decorator_list]
                key = f"{module}:{prefix}{n.name}"
                if "property" in decos:
                    key += ".get"
                elif any(d.endswith(".setter") for d in decos):
                    key += ".set"
                out[key] = n

    for m in MODULES + AUX_MODULES:
        walk(m, w.trees[m].body, "")
    return out


def check_pins(w: World) -> list[TranslationError]:
    errs = []
    fns = pinned_functions(w)
    for key, want in PINS.items():
        module, name = key.split(":")
        if key not in fns:
            errs.append(TranslationError(f"{module}.py:{name}", "pinned function disappeared (hand-modelled in Model/PyRepr.v)"))
            continue
        got = sha(norm_src(fns[key]))
        if got != want:
            errs.append(TranslationError(f"{module}.py:{name}", f"source changed (hash {got}, modelled {want}): the hand model in Model/PyRepr.v must be re-validated"))
    return errs


# --------------------------------------------------------------------------------------------- defaults and kinds
def float_tok(v: float) -> str:
    if v != v:
        return "DNan"
    if v == float("inf"):
        return "DInf"
    if v == float("-inf"):
        return "DNegInf"
    num, den = float(v).as_integer_ratio()
    k = den.bit_length() - 1
    return f"(DFloat ({num}) ({-k}))"


def default_token(w: World, ci: ClassInfo, n: ast.expr, where: str) -> str:
    if isinstance(n, ast.Constant):
        v = n.value
        if v is None:
            return "DNone"
        if isinstance(v, bool):
            return f"(DBool {'true' if v else 'false'})"
        if isinstance(v, int):
            return f"(DInt ({v}))"
        if isinstance(v, float):
            return float_tok(v)
        if isinstance(v, str):
            return f"(DStr {q(v)})"
    if isinstance(n, ast.Name) and n.id == "nan":
        return "DNan"
    if isinstance(n, ast.Name) and n.id == "inf":
        return "DInf"
    if isinstance(n, ast.UnaryOp) and isinstance(n.op, ast.USub) and isinstance(n.operand, ast.Name) and n.operand.id == "inf":
        return "DNegInf"
    if isinstance(n, ast.Attribute):  # enum member: Type.Automatic / Comparator.GreaterThan (nested enum of the class)
        text = ast.unparse(n.value)
        cands = [qn for qn in w.classes if qn == text or qn == f"{ci.qual}.{text}" or qn.endswith("." + text)]
        cands = [qn for qn in cands if w.is_enum(w.classes[qn])]
        # the enum must be nested in a class of the MRO that defines the __init__
        if len(cands) >= 1:
            best = [qn for qn in cands if any(qn == f"{c.qual}.{text}" for c in w.mro(ci))] or cands
            if len(best) == 1:
                en = enum_info(w, w.classes[best[0]])
                if n.attr in en["by_name"]:
                    return f"(DEnum {q(best[0])} {q(en['by_name'][n.attr])})"
    raise TranslationError(where, f"unsupported default value: {ast.unparse(n)}")


KINDS = {
    "str": "KStr",
    "float": "KFloat",
    "int": "KInt",
    "bool": "KBool",
    "Scalar": "KScalar",
    "int | None": "KOptInt",
    "Term": '(KObj "Term")',
    "Function": '(KObj "Function")',
    "TNorm | None": '(KOptObj "TNorm")',
    "SNorm | None": '(KOptObj "SNorm")',
    "Activation | None": '(KOptObj "Activation")',
    "Defuzzifier | None": '(KOptObj "Defuzzifier")',
    "Antecedent | None": '(KOptObj "Antecedent")',
    "Consequent | None": '(KOptObj "Consequent")',
    "Engine | None": '(KOptObj "Engine")',
    "Iterable[Term] | None": '(KListObj "Term")',
    "Iterable[Activated] | None": '(KListObj "Activated")',
    "Iterable[Rule] | None": '(KListObj "Rule")',
    "Iterable[InputVariable] | None": '(KListObj "InputVariable")',
    "Iterable[OutputVariable] | None": '(KListObj "OutputVariable")',
    "Iterable[RuleBlock] | None": '(KListObj "RuleBlock")',
    "str | WeightedDefuzzifier.Type": '(KEnumOrStr "WeightedDefuzzifier.Type")',
    "Comparator | str": '(KEnumOrStr "Threshold.Comparator")',
    "dict[str, Scalar] | None": "KOptDict",
    "Sequence[float] | None": "KOptFloatList",
    "ScalarArray | Sequence[Floatable] | None": "KDiscreteValues",
    "Callable[[Scalar, Scalar], Scalar]": "KCallable",
    "Callable[[Scalar], Scalar]": "KCallable",
}


def param_kind(n: ast.expr | None, where: str) -> str:
    if n is None:
        raise TranslationError(where, "parameter without annotation")
    text = ast.unparse(n)
    if text not in KINDS:
        raise TranslationError(where, f"unsupported parameter annotation: {text}")
    return KINDS[text]


def enum_info(w: World, ci: ClassInfo) -> dict:
    """Members of an enum and the key its __repr__ prints ('name' for f"'{self.name}'", 'value' for f"'{self.value}'")."""
    where = f"{ci.module}.py:{ci.qual}.__repr__"
    members: list[tuple[str, object]] = []
    for n in ci.node.body:
        if isinstance(n, ast.Assign) and len(n.targets) == 1 and isinstance(n.targets[0], ast.Name):
            name = n.targets[0].id
            v = n.value
            if isinstance(v, ast.Constant) and isinstance(v.value, (str, int)):
                members.append((name, v.value))
            elif isinstance(v, ast.Call) and ast.unparse(v.func) in ("enum.auto", "auto"):
                members.append((name, len(members) + 1))
            elif isinstance(v, ast.Tuple) or isinstance(v, ast.Call):
                members.append((name, ast.unparse(v)))
            else:
                raise TranslationError(where, f"unsupported enum member: {ast.unparse(n)}")
    rp = ci.methods.get("__repr__")
    key = None
    if rp is not None:
        src = ast.unparse(ast.Module(body=strip_doc(rp.body), type_ignores=[]))
        if src == "return f\"'{self.name}'\"":
            key = "name"
        elif src == "return f\"'{self.value}'\"":
            key = "value"
        else:
            raise TranslationError(where, f"unsupported enum __repr__: {src}")
    by_name = {}
    for name, value in members:
        by_name[name] = name if key in (None, "name") else value
        if key == "value" and not isinstance(value, str):
            raise TranslationError(where, "enum printed by value has a non-string value")
    return {"key": key, "members": members, "by_name": by_name}


# --------------------------------------------------------------------------------------------- __init__ bodies
class InitTranslator:
    """Translates the __init__ of the concrete class `ci` (super() calls inlined) into a list of init statements."""

    def __init__(self, w: World, ci: ClassInfo):
        self.w = w
        self.ci = ci
        self.depth = 0

    # -- expressions over the parameters of the *current* frame; `env` maps a parameter/local name to an iexpr text
    def fexpr(self, n: ast.expr, env: dict[str, str], where: str) -> str:
        """Float arithmetic: params, self.<field>, locals, literals, + - * /."""
        if isinstance(n, ast.Constant) and isinstance(n.value, (int, float)) and not isinstance(n.value, bool):
            return f"(IConst {float_tok(float(n.value))})"
        if isinstance(n, ast.Name) and n.id in env:
            return env[n.id]
        if is_self_attr(n):
            return f"(IField {q(n.attr)})"
        if isinstance(n, ast.BinOp) and type(n.op) in (ast.Add, ast.Sub, ast.Mult, ast.Div):
            op = {ast.Add: "FAdd", ast.Sub: "FSub", ast.Mult: "FMul", ast.Div: "FDiv"}[type(n.op)]
            return f"(IBin {op} {self.fexpr(n.left, env, where)} {self.fexpr(n.right, env, where)})"
        raise TranslationError(where, f"unsupported arithmetic in __init__: {ast.unparse(n)}")

    def value(self, n: ast.expr, env: dict[str, str], where: str) -> str:
        """Right-hand side of `self.f = …` / argument of super().__init__(…) / of a nested constructor."""
        u = ast.unparse(n)
        if isinstance(n, ast.Name) and n.id in env:
            return env[n.id]
        if isinstance(n, ast.Constant):
            return f"(IConst {default_token(self.w, self.ci, n, where)})"
        if u == "nan" or u == "scalar(nan)":
            return "(IConst DNan)"
        if u == "scalar(0.0)":
            return "(IConst (DFloat (0) (0)))"
        if u == "array(False)":
            return "(IConst (DBool false))"
        if u == "[]":
            return "(IConst DEmptyList)"
        # list(p or [])
        if (isinstance(n, ast.Call) and isinstance(n.func, ast.Name) and n.func.id == "list" and len(n.args) == 1 and not n.keywords
                and isinstance(n.args[0], ast.BoolOp) and isinstance(n.args[0].op, ast.Or) and len(n.args[0].values) == 2
                and isinstance(n.args[0].values[0], ast.Name) and ast.unparse(n.args[0].values[1]) == "[]"):
            p = n.args[0].values[0].id
            self.need_param(p, env, where)
            return f"(IListOr {self.pname(p, env, where)})"
        # p or Cls()   /   p or IntegralDefuzzifier.default_resolution
        if isinstance(n, ast.BoolOp) and isinstance(n.op, ast.Or) and len(n.values) == 2 and isinstance(n.values[0], ast.Name):
            p = n.values[0].id
            self.need_param(p, env, where)
            alt = n.values[1]
            if isinstance(alt, ast.Call) and isinstance(alt.func, ast.Name) and not alt.args and not alt.keywords and alt.func.id in self.w.classes:
                return f"(IOrNew {self.pname(p, env, where)} {q(alt.func.id)})"
            if ast.unparse(alt) == "IntegralDefuzzifier.default_resolution":
                return f"(IOrDefaultResolution {self.pname(p, env, where)})"
        # Cls[p] if isinstance(p, str) else p   /   Cls(p) if isinstance(p, str) else p   (enumeration given by name / by value)
        if isinstance(n, ast.IfExp) and str_test_param(n.test) is not None and isinstance(n.orelse, ast.Name) and n.orelse.id == str_test_param(n.test):
            conv = self.enum_conv(n.body, str_test_param(n.test), env, where)
            if conv is not None:
                return conv
        # variables.copy() if variables else {}
        if isinstance(n, ast.IfExp) and isinstance(n.test, ast.Name) and ast.unparse(n.body) == f"{n.test.id}.copy()" and ast.unparse(n.orelse) == "{}":
            self.need_param(n.test.id, env, where)
            return f"(IDictCopyOr {self.pname(n.test.id, env, where)})"
        # nested construction with keyword arguments only: Aggregated(name=name, …)
        if isinstance(n, ast.Call) and isinstance(n.func, ast.Name) and n.func.id in self.w.classes and not n.args:
            kws = []
            for k in n.keywords:
                if k.arg is None:
                    raise TranslationError(where, "**kwargs in nested constructor")
                kws.append(f"({q(k.arg)}, {self.value(k.value, env, where)})")
            return f"(INew {q(n.func.id)} {clist(kws)})"
        raise TranslationError(where, f"unsupported value in __init__: {u}")

    def enum_conv(self, n: ast.expr, p: str, env: dict[str, str], where: str) -> str | None:
        """`Cls[p]` -> IEnumByName, `Cls(p)` -> IEnumByValue, for a translated enumeration Cls and the plain parameter p."""
        if isinstance(n, ast.Subscript) and isinstance(n.slice, ast.Name) and n.slice.id == p:
            kind, cls = "IEnumByName", ast.unparse(n.value)
        elif isinstance(n, ast.Call) and len(n.args) == 1 and not n.keywords and isinstance(n.args[0], ast.Name) and n.args[0].id == p:
            kind, cls = "IEnumByValue", ast.unparse(n.func)
        else:
            return None
        cands = [qn for qn, c in self.w.classes.items() if self.w.is_enum(c) and (qn == cls or qn.endswith("." + cls))]
        if len(cands) != 1:
            return None
        self.need_param(p, env, where)
        return f"({kind} {q(cands[0])} {self.pname(p, env, where)})"

    def need_param(self, p: str, env: dict[str, str], where: str):
        if p not in env or not env[p].startswith("(IParam "):
            raise TranslationError(where, f"`{p}` is not a plain parameter of the constructor being instantiated")

    def pname(self, p: str, env: dict[str, str], where: str) -> str:
        return env[p][len("(IParam "):-1]

    def assign(self, field: str, rhs: str, where: str) -> list[str]:
        """`self.field = rhs`, resolving a property of the instantiated class to what its setter stores."""
        owner, prop = self.w.find_property(self.ci, field)
        if prop is None:
            return [f"SSet {q(field)} {rhs}"]
        if "set" not in prop:
            raise TranslationError(where, f"assignment to read-only property `{field}`")
        body = ast.unparse(ast.Module(body=canon_body(prop["set"].body), type_ignores=[]))
        if body == f"self.fuzzy.{field} = value":
            return [f"SSetSub \"fuzzy\" {q(field)} {rhs}"]
        if body == "self._degree = np.nan_to_num(value, nan=0.0, neginf=0.0, posinf=1.0)":
            return [f"SSet \"_degree\" (ISanitizeDegree {rhs})"]
        if body == "self._value = np.clip(value, self.minimum, self.maximum) if self.lock_range else value":
            # numpy.clip(nan, a, b) = nan for every a, b: only the initialisation `self.value = scalar(nan)` is accepted
            if rhs != "(IConst DNan)":
                raise TranslationError(where, "Variable.value setter used in __init__ with a value other than scalar(nan)")
            return ['SSet "_value" (IConst DNan)']
        raise TranslationError(where, f"unsupported property setter for `{field}`: {body}")

    def cond(self, n: ast.expr, env, where) -> str:
        if isinstance(n, ast.BoolOp) and isinstance(n.op, ast.And) and len(n.values) == 2:
            return f"(CAndE {self.cond(n.values[0], env, where)} {self.cond(n.values[1], env, where)})"
        if isinstance(n, ast.Call) and ast.unparse(n.func) == "np.isnan" and len(n.args) == 1 and not n.keywords:
            return f"(CNanE {self.fexpr(n.args[0], env, where)})"
        raise TranslationError(where, f"unsupported condition in __init__: {ast.unparse(n)}")

    def block(self, body: list[ast.stmt], env: dict[str, str], where: str) -> list[str]:
        """Statements of an arithmetic `if` block: self.f = expr | local = expr."""
        out = []
        env = dict(env)
        for s in body:
            if isinstance(s, ast.Assign) and len(s.targets) == 1 and is_self_attr(s.targets[0]):
                out += self.assign(s.targets[0].attr, self.fexpr(s.value, env, where), where)
            elif isinstance(s, ast.Assign) and len(s.targets) == 1 and isinstance(s.targets[0], ast.Name):
                x = s.targets[0].id
                out.append(f"SLocal {q(x)} {self.fexpr(s.value, env, where)}")
                env[x] = f"(ILocal {q(x)})"
            else:
                raise TranslationError(where, f"unsupported statement in conditional block: {ast.unparse(s)[:80]}")
        return out

    def frame(self, owner: ClassInfo, fn: ast.FunctionDef, env: dict[str, str]) -> list[str]:
        """Translate the body of `owner.__init__` with its parameters bound as in env."""
        where = f"{owner.module}.py:{owner.qual}.__init__"
        self.depth += 1
        if self.depth > 6:
            raise TranslationError(where, "super() chain too deep")
        out: list[str] = []
        body = canon_body(fn.body)
        i = 0
        while i < len(body):
            s = body[i]
            u = ast.unparse(s)
            i += 1
            # ---- super().__init__(…)
            if isinstance(s, ast.Expr) and isinstance(s.value, ast.Call) and ast.unparse(s.value.func) == "super().__init__":
                parents = [b for b in owner.bases if b in self.w.classes]
                if len(parents) != 1:
                    raise TranslationError(where, "super().__init__ with zero or several known bases")
                pc, pfn = self.w.lookup(self.w.classes[parents[0]], "__init__", where)
                if pfn is None:
                    raise TranslationError(where, "super().__init__ resolves to object.__init__ with arguments" if (s.value.args or s.value.keywords) else "super().__init__() of object")
                pparams = signature(self.w, pc, pfn)
                penv: dict[str, str] = {}
                if len(s.value.args) > len(pparams):
                    raise TranslationError(where, "too many positional arguments to super().__init__")
                for (pn, pd, _), a in zip(pparams, s.value.args):
                    penv[pn] = self.value(a, env, where)
                for k in s.value.keywords:
                    if k.arg is None or k.arg in penv or k.arg not in [p[0] for p in pparams]:
                        raise TranslationError(where, f"bad keyword in super().__init__: {k.arg}")
                    penv[k.arg] = self.value(k.value, env, where)
                for pn, pd, _ in pparams:
                    if pn not in penv:
                        if pd is None:
                            raise TranslationError(where, f"super().__init__ misses required `{pn}`")
                        penv[pn] = f"(IConst {pd})"
                out += self.frame(pc, pfn, penv)
                continue
            # ---- pass
            if isinstance(s, ast.Pass):
                continue
            # ---- Discrete: the Sequence/None/ndarray dispatch (hand-modelled: IDiscreteValues; pinned)
            if owner.qual == "Discrete" and isinstance(s, ast.If) and u.startswith("if isinstance(values, Sequence):"):
                nxt = body[i] if i < len(body) else None
                if nxt is None or ast.unparse(nxt) != "self.values = values":
                    raise TranslationError(where, "Discrete.__init__: expected `self.values = values` after the dispatch")
                i += 1
                self.need_param("values", env, where)
                out.append(f'SSet "values" (IDiscreteValues {self.pname("values", env, where)})')
                continue
            # ---- p = Cls(p) if isinstance(p, str) else p   /   if isinstance(p, str): p = Cls(p)     (rebinding of a parameter;
            #      the if/else statement assigning an attribute was turned into `self.f = … if … else …` by canon_body)
            rebind = None
            if isinstance(s, ast.If) and not s.orelse and len(s.body) == 1 and str_test_param(s.test) is not None:
                a = s.body[0]
                if isinstance(a, ast.Assign) and len(a.targets) == 1 and isinstance(a.targets[0], ast.Name) and a.targets[0].id == str_test_param(s.test):
                    rebind = (a.targets[0].id, self.enum_conv(a.value, a.targets[0].id, env, where))
            elif (isinstance(s, ast.Assign) and len(s.targets) == 1 and isinstance(s.targets[0], ast.Name) and isinstance(s.value, ast.IfExp)
                  and str_test_param(s.value.test) == s.targets[0].id and isinstance(s.value.orelse, ast.Name) and s.value.orelse.id == s.targets[0].id):
                rebind = (s.targets[0].id, self.enum_conv(s.value.body, s.targets[0].id, env, where))
            if rebind is not None:
                if rebind[1] is None:
                    raise TranslationError(where, f"unsupported conversion of parameter `{rebind[0]}`: {u[:100]}")
                env = dict(env)
                env[rebind[0]] = rebind[1]
                continue
            # ---- if load: self.load()   (Function)  /  if load: <reference + rule loading loop>  (Engine)
            if isinstance(s, ast.If) and isinstance(s.test, ast.Name) and s.test.id in env and not s.orelse:
                self.need_param(s.test.id, env, where)
                inner = ast.unparse(ast.Module(body=s.body, type_ignores=[]))
                if inner == "self.load()":
                    hook = f"{owner.qual}.load"
                elif owner.qual == "Engine" and inner == "for variable in self.variables:\n    for term in variable.terms:\n        term.update_reference(self)\nfor rb in self.rule_blocks:\n    rb.load_rules(self)":
                    hook = "Engine.load"
                else:
                    raise TranslationError(where, f"unsupported conditional on parameter `{s.test.id}`: {inner[:80]}")
                out.append(f"SIf (CParamTrue {self.pname(s.test.id, env, where)}) [SHook {q(hook)}]")
                continue
            # ---- arithmetic conditional (Triangle / Trapezoid shorthand constructors)
            if isinstance(s, ast.If) and not s.orelse:
                out.append(f"SIf {self.cond(s.test, env, where)} {clist(self.block(s.body, env, where))}")
                continue
            # ---- self.f = value   /   self.f: T = value
            tgt = val = None
            if isinstance(s, ast.Assign) and len(s.targets) == 1:
                tgt, val = s.targets[0], s.value
            elif isinstance(s, ast.AnnAssign) and s.value is not None:
                tgt, val = s.target, s.value
            if tgt is not None and is_self_attr(tgt):
                out += self.assign(tgt.attr, self.value(val, env, where), where)
                continue
            raise TranslationError(where, f"unsupported statement: {u[:100]}")
        self.depth -= 1
        return out


def signature(w: World, owner: ClassInfo, fn: ast.FunctionDef) -> list[tuple[str, str | None, str]]:
    """[(name, default token or None, kind)] of an __init__, `self` excluded."""
    where = f"{owner.module}.py:{owner.qual}.__init__"
    a = fn.args
    if a.posonlyargs or a.kwonlyargs or a.vararg or a.kwarg:
        raise TranslationError(where, "positional-only / keyword-only / variadic parameters are not supported")
    names = [x.arg for x in a.args]
    if not names or names[0] != "self":
        raise TranslationError(where, "first parameter is not self")
    params = a.args[1:]
    defaults: list[ast.expr | None] = [None] * (len(params) - len(a.defaults)) + list(a.defaults)
    out = []
    for p, d in zip(params, defaults):
        out.append((p.arg, None if d is None else default_token(w, owner, d, where), param_kind(p.annotation, where + ":" + p.arg)))
    return out


# --------------------------------------------------------------------------------------------- __repr__ rules
def attr_path(w: World, ci: ClassInfo, n: ast.expr, where: str) -> list[str]:
    """`self.x` as the path of stored attributes it reads (through property getters of the instantiated class)."""
    if not is_self_attr(n):
        raise TranslationError(where, f"expected self.<attribute>: {ast.unparse(n)}")
    name = n.attr
    owner, prop = w.find_property(ci, name)
    if prop is None:
        return [name]
    body = ast.unparse(ast.Module(body=strip_doc(prop["get"].body), type_ignores=[]))
    if body == f"return self._{name}":
        return ["_" + name]
    if body == f"return self.fuzzy.{name}":
        return ["fuzzy", name]
    raise TranslationError(where, f"unsupported property getter for `{name}`: {body}")


def repr_cond(w: World, ci: ClassInfo, n: ast.expr, where: str) -> str:
    u = ast.unparse(n)
    if isinstance(n, ast.UnaryOp) and isinstance(n.op, ast.Not) and is_self_attr(n.operand):
        return f"(RFalsy {pathlit(attr_path(w, ci, n.operand, where))})"
    if is_self_attr(n):
        return f"(RTruthy {pathlit(attr_path(w, ci, n, where))})"
    if isinstance(n, ast.Call) and ast.unparse(n.func) == "Op.is_close" and len(n.args) == 2 and not n.keywords and is_self_attr(n.args[0]) \
            and isinstance(n.args[1], ast.Constant) and isinstance(n.args[1].value, float):
        return f"(RIsClose {pathlit(attr_path(w, ci, n.args[0], where))} {float_tok(n.args[1].value)})"
    if isinstance(n, ast.Compare) and len(n.ops) == 1 and isinstance(n.ops[0], ast.Eq) and is_self_attr(n.left):
        rhs = n.comparators[0]
        if ast.unparse(rhs) == "IntegralDefuzzifier.default_resolution":
            return f"(REqDefaultResolution {pathlit(attr_path(w, ci, n.left, where))})"
        if isinstance(rhs, ast.Attribute):
            en = ast.unparse(rhs.value)
            if en in w.classes and w.is_enum(w.classes[en]):
                info = enum_info(w, w.classes[en])
                if rhs.attr in info["by_name"]:
                    return f"(REqEnum {pathlit(attr_path(w, ci, n.left, where))} {q(en)} {q(info['by_name'][rhs.attr])})"
    raise TranslationError(where, f"unsupported condition: {u}")


def pathlit(p: list[str]) -> str:
    return clist(q(x) for x in p)


def as_constructor_call(n: ast.stmt, where: str) -> tuple[bool, bool]:
    """`return representation.as_constructor(self[, fields][, positional=True])` -> (passes `fields`, positional)."""
    if not (isinstance(n, ast.Return) and isinstance(n.value, ast.Call) and ast.unparse(n.value.func) == "representation.as_constructor"):
        raise TranslationError(where, f"expected `return representation.as_constructor(...)`: {ast.unparse(n)[:80]}")
    c = n.value
    if not c.args or ast.unparse(c.args[0]) != "self" or len(c.args) > 2:
        raise TranslationError(where, f"unsupported arguments: {ast.unparse(c)}")
    has_fields = len(c.args) == 2
    if has_fields and ast.unparse(c.args[1]) != "fields":
        raise TranslationError(where, f"unsupported fields argument: {ast.unparse(c.args[1])}")
    positional = False
    for k in c.keywords:
        if k.arg == "positional" and isinstance(k.value, ast.Constant) and isinstance(k.value.value, bool):
            positional = k.value.value
        else:
            raise TranslationError(where, f"unsupported keyword: {ast.unparse(k)}")  # cast_as is never used by the library's own __repr__
    return has_fields, positional


def str_const(n: ast.AST) -> str | None:
    return n.value if isinstance(n, ast.Constant) and isinstance(n.value, str) else None


def str_list(n: ast.AST) -> list[str] | None:
    if isinstance(n, (ast.List, ast.Tuple, ast.Set)) and all(str_const(e) is not None for e in n.elts):
        return [e.value for e in n.elts]
    return None


class ReprInterpreter:
    """Interprets the body of a `__repr__` over a small subset: local lists of field names (literals, `append`, possibly under
    an `if` on self's attributes), the dict of fields (a copy of vars(self), a literal of self attributes, a comprehension
    over vars(self).items() filtered on the key names), its updates (pop / del / item assignment / update) and the final
    `representation.as_constructor(self, <dict>, positional=…)`.  The result is the rule (source, steps, positional);
    statement positions and local names do not matter."""

    def __init__(self, w: World, ci: ClassInfo, where: str):
        self.w, self.ci, self.where = w, ci, where
        self.lists: dict[str, list[tuple[str | None, str]]] = {}   # local -> [(condition or None, key)]
        self.dicts: dict[str, tuple[str, list[str]]] = {}          # local -> (source literal, steps)

    def err(self, msg: str, n: ast.AST | None = None) -> TranslationError:
        return TranslationError(self.where, msg + (": " + ast.unparse(n)[:100] if n is not None else ""))

    # ---- expressions denoting the dict of fields
    def dict_expr(self, n: ast.expr) -> tuple[str, list[str]]:
        u = ast.unparse(n)
        if u in ("vars(self).copy()", "dict(vars(self))", "{**vars(self)}", "vars(self)"):
            return ("RVars", [])
        if isinstance(n, ast.Name) and n.id in self.dicts:
            src, steps = self.dicts[n.id]
            return (src, list(steps))
        if isinstance(n, ast.Dict):
            ents = []
            for k, v in zip(n.keys, n.values):
                if k is None or str_const(k) is None:
                    raise self.err("non-literal key in fields dict", n)
                ents.append(f"({q(k.value)}, {pathlit(attr_path(self.w, self.ci, v, self.where))})")
            return (f"(RDict {clist(ents)})", [])
        if isinstance(n, ast.DictComp) and len(n.generators) == 1:
            g = n.generators[0]
            if (not g.is_async and isinstance(g.target, ast.Tuple) and len(g.target.elts) == 2 and all(isinstance(e, ast.Name) for e in g.target.elts)
                    and ast.unparse(g.iter) == "vars(self).items()" and isinstance(n.key, ast.Name) and isinstance(n.value, ast.Name)
                    and n.key.id == g.target.elts[0].id and n.value.id == g.target.elts[1].id):
                key = g.target.elts[0].id
                steps: list[str] = []
                for cond in g.ifs:
                    steps += self.key_filter(cond, key)
                return ("RVars", steps)
        raise self.err("unsupported source of fields", n)

    def key_filter(self, n: ast.expr, key: str) -> list[str]:
        """`key not in <names>` / `key != "x"` / conjunctions: the keys that are filtered out, as RDrop / RDropIf steps."""
        if isinstance(n, ast.BoolOp) and isinstance(n.op, ast.And):
            return [st for v in n.values for st in self.key_filter(v, key)]
        if isinstance(n, ast.UnaryOp) and isinstance(n.op, ast.Not) and isinstance(n.operand, ast.Compare):
            c = n.operand
            if len(c.ops) == 1 and isinstance(c.ops[0], ast.In) and isinstance(c.left, ast.Name) and c.left.id == key:
                return self.drops(c.comparators[0])
            if len(c.ops) == 1 and isinstance(c.ops[0], ast.Eq) and isinstance(c.left, ast.Name) and c.left.id == key and str_const(c.comparators[0]) is not None:
                return [f"RDrop {q(c.comparators[0].value)}"]
        if isinstance(n, ast.Compare) and len(n.ops) == 1 and isinstance(n.left, ast.Name) and n.left.id == key:
            if isinstance(n.ops[0], ast.NotIn):
                return self.drops(n.comparators[0])
            if isinstance(n.ops[0], ast.NotEq) and str_const(n.comparators[0]) is not None:
                return [f"RDrop {q(n.comparators[0].value)}"]
        raise self.err("unsupported filter on the field names", n)

    def drops(self, names: ast.expr) -> list[str]:
        lit = str_list(names)
        if lit is not None:
            entries = [(None, k) for k in lit]
        elif isinstance(names, ast.Name) and names.id in self.lists:
            entries = self.lists[names.id]
        else:
            raise self.err("unsupported collection of field names", names)
        return [f"RDrop {q(k)}" if c is None else f"RDropIf {c} {q(k)}" for c, k in entries]

    # ---- statements
    def simple(self, s: ast.stmt, cond: str | None) -> bool:
        """A statement that may also appear under `if <condition on self>:`.  Returns False when not recognised."""
        if isinstance(s, ast.Expr) and isinstance(s.value, ast.Call) and isinstance(s.value.func, ast.Attribute) and isinstance(s.value.func.value, ast.Name):
            c, obj, meth = s.value, s.value.func.value.id, s.value.func.attr
            if obj in self.lists and not c.keywords:
                if meth == "append" and len(c.args) == 1 and str_const(c.args[0]) is not None:
                    self.lists[obj].append((cond, c.args[0].value))
                    return True
                if meth == "extend" and len(c.args) == 1 and str_list(c.args[0]) is not None:
                    self.lists[obj] += [(cond, k) for k in str_list(c.args[0])]
                    return True
            if obj in self.dicts:
                src, steps = self.dicts[obj]
                if meth == "pop" and not c.keywords and len(c.args) in (1, 2) and str_const(c.args[0]) is not None:
                    k = q(c.args[0].value)
                    if len(c.args) == 1:
                        steps.append(f"RPop {k}" if cond is None else f"RPopIf {cond} {k}")
                    else:
                        steps.append(f"RDrop {k}" if cond is None else f"RDropIf {cond} {k}")
                    return True
                if meth == "update" and cond is None:
                    pairs: list[tuple[str, ast.expr]] = []
                    if len(c.args) == 1 and isinstance(c.args[0], ast.Dict) and not c.keywords:
                        for k, v in zip(c.args[0].keys, c.args[0].values):
                            if k is None or str_const(k) is None:
                                return False
                            pairs.append((k.value, v))
                    elif not c.args and all(k.arg is not None for k in c.keywords):
                        pairs = [(k.arg, k.value) for k in c.keywords]
                    else:
                        return False
                    for k, v in pairs:
                        steps.append(f"RSetAttr {q(k)} {pathlit(attr_path(self.w, self.ci, v, self.where))}")
                    return True
            return False
        if isinstance(s, ast.AugAssign) and isinstance(s.op, ast.Add) and isinstance(s.target, ast.Name) and s.target.id in self.lists and str_list(s.value) is not None:
            self.lists[s.target.id] += [(cond, k) for k in str_list(s.value)]
            return True
        if isinstance(s, ast.Delete) and len(s.targets) == 1 and isinstance(s.targets[0], ast.Subscript) and isinstance(s.targets[0].value, ast.Name) \
                and s.targets[0].value.id in self.dicts and str_const(s.targets[0].slice) is not None:
            k = q(s.targets[0].slice.value)
            self.dicts[s.targets[0].value.id][1].append(f"RPop {k}" if cond is None else f"RPopIf {cond} {k}")
            return True
        if (cond is None and isinstance(s, ast.Assign) and len(s.targets) == 1 and isinstance(s.targets[0], ast.Subscript) and isinstance(s.targets[0].value, ast.Name)
                and s.targets[0].value.id in self.dicts and str_const(s.targets[0].slice) is not None):
            self.dicts[s.targets[0].value.id][1].append(f"RSetAttr {q(s.targets[0].slice.value)} {pathlit(attr_path(self.w, self.ci, s.value, self.where))}")
            return True
        return False

    def run(self, body: list[ast.stmt]) -> str:
        for s in body[:-1]:
            tgt = val = None
            if isinstance(s, ast.Assign) and len(s.targets) == 1 and isinstance(s.targets[0], ast.Name):
                tgt, val = s.targets[0].id, s.value
            elif isinstance(s, ast.AnnAssign) and isinstance(s.target, ast.Name) and s.value is not None:
                tgt, val = s.target.id, s.value
            if tgt is not None:
                if str_list(val) is not None and not isinstance(val, ast.Set):
                    self.lists[tgt] = [(None, k) for k in str_list(val)]
                else:
                    self.dicts[tgt] = self.dict_expr(val)
                    self.lists.pop(tgt, None)
                continue
            if isinstance(s, ast.If) and not s.orelse:
                cond = repr_cond(self.w, self.ci, s.test, self.where)
                if all(self.simple(x, cond) for x in s.body):
                    continue
                raise self.err("unsupported conditional statement", s)
            if self.simple(s, None):
                continue
            raise self.err("unsupported statement", s)
        last = body[-1]
        if not (isinstance(last, ast.Return) and isinstance(last.value, ast.Call) and ast.unparse(last.value.func) == "representation.as_constructor"):
            raise self.err("expected `return representation.as_constructor(...)`", last)
        c = last.value
        args = list(c.args)
        positional = False
        fields_arg = None
        for k in c.keywords:
            if k.arg == "positional" and isinstance(k.value, ast.Constant) and isinstance(k.value.value, bool):
                positional = k.value.value
            elif k.arg == "fields":
                fields_arg = k.value
            else:
                raise self.err("unsupported keyword", last)  # cast_as is never used by the library's own __repr__
        if not args or ast.unparse(args[0]) != "self" or len(args) > 2 or (len(args) == 2 and fields_arg is not None):
            raise self.err("unsupported arguments", last)
        if len(args) == 2:
            fields_arg = args[1]
        if fields_arg is None or (isinstance(fields_arg, ast.Constant) and fields_arg.value is None):
            src, steps = "RVars", []
        else:
            src, steps = self.dict_expr(fields_arg)
        return f"(RConstructor {src} {clist(canonical_steps(steps))} {'true' if positional else 'false'})"


def canonical_steps(steps: list[str]) -> list[str]:
    """Item assignments commute with the removal of other keys: they are listed first (the order the pinned commit uses),
    so that equivalent spellings give the same rule."""
    def key(st: str) -> str:
        return st.split('"')[-2] if st.startswith("RSetAttr") is False else st.split('"')[1]
    sets = [st for st in steps if st.startswith("RSetAttr")]
    others = [st for st in steps if not st.startswith("RSetAttr")]
    set_keys = {st.split('"')[1] for st in sets}
    removed = {st.rsplit('"', 2)[-2] for st in others}
    if set_keys & removed:
        return steps  # an assigned key is also removed: keep the order of the code
    return sets + others


def repr_rule(w: World, ci: ClassInfo) -> str:
    where0 = f"{ci.module}.py:{ci.qual}.__repr__"
    owner, fn = w.lookup(ci, "__repr__", where0)
    if fn is None:
        return "RNone"
    where = f"{owner.module}.py:{owner.qual}.__repr__"
    body = strip_doc(fn.body)
    src = ast.unparse(ast.Module(body=body, type_ignores=[]))
    if src == "return f\"{Op.class_name(self, qualname=True)}.{Rule.create.__name__}('{self.text}')\"":
        return "RRuleCreate"
    if src == "return f'{Op.class_name(self, qualname=True)}(lambda a, b: ...)'":
        return "RLambdaStub"
    if not body:
        raise TranslationError(where, "empty body")
    return ReprInterpreter(w, ci, where).run(body)


# --------------------------------------------------------------------------------------------- namespace
def package_namespace(w: World) -> list[tuple[str, str]]:
    """(name, module) bound in the `fuzzylite` package namespace by its `from .m import *` lines (later lines shadow)."""
    ns: dict[str, str] = {}
    for n in w.trees["__init__"].body:
        if isinstance(n, ast.ImportFrom) and n.level == 1 and n.module and any(a.name == "*" for a in n.names):
            m = n.module
            if m in w.all:
                for name in w.all[m]:
                    ns[name] = m
            # modules that are not translated (benchmark, exporter, factory, importer, types) can only shadow a name we
            # need if they export it: check
            else:
                path = os.path.join(REPO, "fuzzylite", m + ".py")
                try:
                    tree = ast.parse(open(path).read())
                except (OSError, SyntaxError) as e:
                    raise TranslationError("__init__.py:<imports>", f"cannot parse {m}.py: {e}")
                names = None
                for s in tree.body:
                    if isinstance(s, ast.Assign) and len(s.targets) == 1 and isinstance(s.targets[0], ast.Name) and s.targets[0].id == "__all__":
                        names = list(ast.literal_eval(s.value))
                if names is None:
                    raise TranslationError("__init__.py:<imports>", f"{m}.py has no literal __all__")
                for name in names:
                    ns[name] = m
    return sorted(ns.items())


# --------------------------------------------------------------------------------------------- emission
PREAMBLE = """(* GENERATED by tools/translate_signatures.py from fuzzylite/*.py (sha256 {digest}) — do not edit.
   Constructor signatures, __init__ programs and __repr__ rules of every class that has a Python representation. *)
From Coq Require Import ZArith List String.
Import ListNotations.
Local Open Scope string_scope.

(* default values / constants, as syntactic tokens.  DFloat m e = m * 2^e exactly *)
Inductive dtok : Set :=
  | DNan | DInf | DNegInf | DFloat (m e : Z) | DInt (z : Z) | DStr (s : string) | DNone | DBool (b : bool)
  | DEnum (cls key : string) | DEmptyList | DEmptyDict.
(* annotation of a constructor parameter *)
Inductive pkind : Set :=
  | KStr | KFloat | KInt | KBool | KScalar | KOptInt | KObj (base : string) | KOptObj (base : string) | KListObj (base : string)
  | KEnumOrStr (cls : string) | KOptDict | KOptFloatList | KDiscreteValues | KCallable.
Record param : Set := {{ p_name : string; p_default : option dtok; p_kind : pkind }}.

(* __init__ bodies.  IParam p: the argument bound to p; IField f: self.f as assigned so far; ILocal x: local variable *)
Inductive fop : Set := FAdd | FSub | FMul | FDiv.
Inductive iexpr : Set :=
  | IParam (p : string) | IField (f : string) | ILocal (x : string) | IConst (d : dtok)
  | IBin (o : fop) (a b : iexpr)
  | IListOr (p : string)                    (* list(p or []) *)
  | IOrNew (p cls : string)                 (* p or Cls() *)
  | IOrDefaultResolution (p : string)       (* p or IntegralDefuzzifier.default_resolution *)
  | IEnumByName (cls p : string)            (* Cls[p] if isinstance(p, str) else p *)
  | IEnumByValue (cls p : string)           (* Cls(p) if isinstance(p, str) else p *)
  | IDictCopyOr (p : string)                (* p.copy() if p else {{}} *)
  | IDiscreteValues (p : string)            (* Discrete.__init__'s Sequence / None / ndarray dispatch *)
  | ISanitizeDegree (e : iexpr)             (* numpy.nan_to_num(e, nan=0.0, neginf=0.0, posinf=1.0): Activated.degree setter *)
  | INew (cls : string) (kwargs : list (string * iexpr)).   (* Cls(k=e, …) *)
Inductive icond : Set := CNanE (e : iexpr) | CAndE (a b : icond) | CParamTrue (p : string).
Inductive istmt : Set :=
  | SSet (f : string) (e : iexpr)           (* self.f = e *)
  | SSetSub (obj f : string) (e : iexpr)    (* self.obj.f = e   (a property setter) *)
  | SLocal (x : string) (e : iexpr)
  | SIf (c : icond) (body : list istmt)
  | SHook (name : string).                  (* a method call modelled by hand: Function.load, Engine.load *)

(* __repr__ rules.  Attributes are given as the path of stored attributes they read (property getters resolved) *)
Inductive rcond : Set :=
  | RFalsy (attr : list string) | RTruthy (attr : list string) | RIsClose (attr : list string) (c : dtok)
  | REqDefaultResolution (attr : list string) | REqEnum (attr : list string) (cls key : string).
Inductive rstep : Set :=
  | RPop (f : string) | RPopIf (c : rcond) (f : string)          (* fields.pop(f): KeyError when absent *)
  | RSetAttr (f : string) (path : list string)                   (* fields[f] = self.<path> *)
  | RDrop (f : string) | RDropIf (c : rcond) (f : string).       (* f filtered out of the dict / fields.pop(f, None) *)
Inductive rsrc : Set := RVars | RDict (entries : list (string * list string)).
Inductive repr_rule : Set :=
  | RConstructor (src : rsrc) (steps : list rstep) (positional : bool)   (* representation.as_constructor(self, fields, positional=…) *)
  | RRuleCreate                              (* f"{{Op.class_name(self, qualname=True)}}.create('{{self.text}}')" *)
  | RLambdaStub                              (* f"{{Op.class_name(self, qualname=True)}}(lambda a, b: ...)" *)
  | RNone.                                   (* no __repr__ in the library's hierarchy: object.__repr__ *)

Record class_sig : Set := {{
  cs_name : string; cs_module : string;
  cs_bases : list string;                    (* the MRO inside the library, nearest first, the class itself excluded *)
  cs_has_init : bool;                        (* false: x.__class__.__init__ == object.__init__ *)
  cs_params : list param; cs_init : list istmt; cs_repr : repr_rule }}.
Record enum_sig : Set := {{ en_name : string; en_module : string; en_by_value : bool; en_keys : list string }}.

"""


BASELINE_PATH = os.path.join(os.path.dirname(os.path.abspath(__file__)), "signatures_baseline.json")


def load_baseline() -> dict:
    """What the translator produced for the pinned commit (written by `--write-baseline`): per class the parameter list,
    the init program and the __repr__ rule; per enumeration its entry."""
    try:
        import json

        return json.load(open(BASELINE_PATH))
    except (OSError, ValueError):
        return {"classes": {}, "enums": {}}


def soft(where: str, fn: ast.FunctionDef | None, e: TranslationError) -> TranslationError:
    """A shape that is not recognised is not an error when the pinned commit's rule is known: that rule is kept and the
    function is reported like an edited pinned function (`source changed (hash …)`), i.e. as a hint to search deeper —
    the correspondence check (repr / rebuild of real objects against the model) still ties the model to the code."""
    h = sha(norm_src(fn)) if fn is not None else "?"
    return TranslationError(where, f"source changed (hash {h}, shape not recognised: {" ".join(e.msg.split())[:200]}): the rule recorded for the pinned commit is used; the correspondence check decides")


def generate(w: World, collect: dict | None = None) -> tuple[str, list[TranslationError]]:
    errors: list[TranslationError] = []
    errors += check_pins(w)
    base = load_baseline() if collect is None else {"classes": {}, "enums": {}}
    classes = []
    enums = []
    unsupported = []
    for qual, ci in sorted(w.classes.items(), key=lambda kv: (kv[1].module, kv[1].node.lineno)):
        where = f"{ci.module}.py:{qual}"
        try:
            if w.is_enum(ci):
                try:
                    info = enum_info(w, ci)
                    if info["key"] is None:
                        unsupported.append((qual, "enumeration without __repr__ override"))
                        continue
                    keys = [info["by_name"][n] for n, _ in info["members"]]
                    entry = f'{{| en_name := {q(qual)}; en_module := {q(ci.module)}; en_by_value := {"true" if info["key"] == "value" else "false"}; en_keys := {clist(q(str(k)) for k in keys)} |}}'
                except TranslationError as e:
                    if qual not in base["enums"]:
                        raise
                    entry = base["enums"][qual]
                    errors.append(soft(e.where, ci.methods.get("__repr__"), e))
                if collect is not None:
                    collect["enums"][qual] = entry
                enums.append(entry)
                continue
            if "." in qual:
                unsupported.append((qual, "nested class: as_constructor prints __name__, which the package namespace does not bind"))
                continue
            if w.is_abstract(ci):
                continue
            b = base["classes"].get(qual)
            try:
                rr = repr_rule(w, ci)
            except TranslationError as e:
                if b is None:
                    raise
                rr = b["repr"]
                errors.append(soft(e.where, w.lookup(ci, "__repr__", where)[1], e))
            if rr == "RNone":
                unsupported.append((qual, "no __repr__ override (object.__repr__)"))
                continue
            if qual not in w.all.get(ci.module, []):
                raise TranslationError(where + ".__repr__", "class with a __repr__ is not exported by its module's __all__")
            owner, fn = w.lookup(ci, "__init__", where + ".__init__")
            if fn is None:
                params, init, has_init = [], [], False
            else:
                params = signature(w, owner, fn)   # a parameter list that cannot be read stays an error (fail closed)
                has_init = True
            plits = [f'{{| p_name := {q(p)}; p_default := {"None" if d is None else "Some " + d}; p_kind := {k} |}}' for p, d, k in params]
            if fn is not None:
                try:
                    env = {p: f"(IParam {q(p)})" for p, _, _ in params}
                    init = InitTranslator(w, ci).frame(owner, fn, env)
                except TranslationError as e:
                    # the body is not recognised: the pinned commit's program is kept, provided the parameters are the same
                    if b is None or b["params"] != plits or not b["has_init"]:
                        raise
                    init = b["init"]
                    errors.append(soft(e.where, fn, e))
            if collect is not None:
                collect["classes"][qual] = {"params": plits, "init": init, "repr": rr, "has_init": has_init}
            bases = [c.qual for c in w.mro(ci)[1:]]
            classes.append(
                f"  {{| cs_name := {q(qual)}; cs_module := {q(ci.module)}; cs_bases := {clist(q(b) for b in bases)};\n"
                f"     cs_has_init := {'true' if has_init else 'false'};\n"
                f"     cs_params := {clist(plits)};\n"
                f"     cs_init := {clist(init)};\n"
                f"     cs_repr := {rr} |}}")
        except TranslationError as e:
            errors.append(e)
    # constants
    consts = []
    try:
        dr = w.classes["IntegralDefuzzifier"].assigns.get("default_resolution")
        if not (isinstance(dr, ast.Constant) and isinstance(dr.value, int) and not isinstance(dr.value, bool)):
            raise TranslationError("defuzzifier.py:IntegralDefuzzifier.default_resolution", "not an integer literal")
        consts.append(f"Definition default_resolution : Z := ({dr.value})%Z.")
        rule = w.classes["Rule"]
        for k in ("IF", "THEN", "WITH"):
            v = rule.assigns.get(k)
            if not (isinstance(v, ast.Constant) and isinstance(v.value, str)):
                raise TranslationError(f"rule.py:Rule.{k}", "not a string literal")
            consts.append(f"Definition rule_{k.lower()} : string := {q(v.value)}.")
        lib = {}
        for n in w.trees["library"].body:
            if isinstance(n, ast.AnnAssign) and isinstance(n.target, ast.Name) and n.value is not None:
                lib[n.target.id] = ast.unparse(n.value)
        for name, want in (("array", "np.array"), ("inf", "np.inf"), ("nan", "np.nan")):
            if lib.get(name) != want:
                raise TranslationError(f"library.py:{name}", f"expected `{name}: Final = {want}`")
            if name not in w.all["library"]:
                raise TranslationError(f"library.py:{name}", "not exported by __all__")
        ns = package_namespace(w)
    except TranslationError as e:
        errors.append(e)
        ns = []
    digest = hashlib.sha256()
    for m in sorted(w.trees):
        digest.update(open(os.path.join(REPO, "fuzzylite", m + ".py"), "rb").read())
    out = [PREAMBLE.format(digest=digest.hexdigest()[:16])]
    out.append("\n".join(consts) + "\n\n")
    out.append("Definition class_table : list class_sig := [\n" + ";\n".join(classes) + "\n].\n\n")
    out.append("Definition enum_table : list enum_sig := [\n  " + ";\n  ".join(enums) + "\n].\n\n")
    out.append("(* names bound in the namespace of the package `fuzzylite` by its star imports: (name, defining module) *)\n")
    out.append("Definition package_namespace : list (string * string) := [\n  " + ";\n  ".join(f"({q(a)}, {q(b)})" for a, b in ns) + "\n].\n\n")
    out.append("(* classes of these modules that have no usable Python representation, with the reason *)\n")
    out.append("Definition unsupported_classes : list (string * string) := [\n  " + ";\n  ".join(f"({q(a)}, {q(b)})" for a, b in unsupported) + "\n].\n")
    return "".join(out), errors


def write_if_changed(path: str, text: str) -> bool:
    try:
        if open(path).read() == text:
            return False
    except FileNotFoundError:
        pass
    os.makedirs(os.path.dirname(path), exist_ok=True)
    tmp = path + ".tmp%d" % os.getpid()
    with open(tmp, "w") as f:
        f.write(text)
    os.replace(tmp, path)
    return True


def run(out_dir: str) -> list[TranslationError]:
    """Regenerate <out_dir>/GenSignatures.v.  Returns the translation errors (the file is still written, with the
    classes that could be translated, so that the error is reported instead of a stale model being used)."""
    w = World()
    try:
        w.load()
        text, errors = generate(w)
    except TranslationError as e:
        return [e]
    write_if_changed(os.path.join(out_dir, "GenSignatures.v"), text)
    return errors


if __name__ == "__main__":
    if "--write-baseline" in sys.argv:
        import json

        w = World()
        w.load()
        got: dict = {"classes": {}, "enums": {}}
        text, errs = generate(w, collect=got)
        if errs:
            for e in errs:
                print("TRANSLATION-ERROR", e)
            sys.exit(1)
        json.dump(got, open(BASELINE_PATH, "w"), indent=1, sort_keys=True)
        print("baseline written:", BASELINE_PATH, len(got["classes"]), "classes")
        sys.exit(0)
    if "--pins" in sys.argv:
        w = World()
        w.load()
        fns = pinned_functions(w)
        for key in sorted(PINS):
            print(f'    "{key}": "{sha(norm_src(fns[key])) if key in fns else "MISSING"}",')
        sys.exit(0)
    out = [a for a in sys.argv[1:] if not a.startswith("--")]
    out_dir = out[0] if out else os.path.join(os.path.dirname(os.path.abspath(__file__)), "..", "coq", "Gen")
    errs = run(out_dir)
    for e in errs:
        print("TRANSLATION-ERROR", e)
    sys.exit(1 if errs else 0)
