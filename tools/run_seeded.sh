#!/bin/bash
# run_seeded.sh <property id> <dir with patch.diff [demo.py]> [tier]
# Applies the seeded change to a scratch worktree of /repo and runs the property's check from a scratch copy of /verif
# (so that neither /repo nor /verif/coq/Gen is disturbed while other work is going on). Prints the check's verdict.
set -u
PID="$1"; DIR="$(cd "$2" && pwd)"; TIER="${3:-quick}"
TAG="$(basename "$DIR")_$$"
ROOT="/tmp/vmut_$TAG"
rm -rf "$ROOT"; mkdir -p "$ROOT"
git -C /repo worktree add -q "$ROOT/repo" HEAD || exit 3
if ! git -C "$ROOT/repo" apply "$DIR/patch.diff"; then echo "PATCH-DOES-NOT-APPLY"; git -C /repo worktree remove --force "$ROOT/repo"; rm -rf "$ROOT"; exit 3; fi
rsync -a --exclude .git --exclude work --exclude replays --exclude evidence /verif/ "$ROOT/verif/"
mkdir -p "$ROOT/verif/evidence"
if [ -f "$DIR/demo.py" ]; then
  (cd "$ROOT/repo" && PYTHONPATH="$ROOT/repo" timeout 300 /venv/bin/python "$DIR/demo.py" >/dev/null 2>&1); echo "demo_with_patch_rc=$?"
  (cd /repo && PYTHONPATH=/repo timeout 300 /venv/bin/python "$DIR/demo.py" >/dev/null 2>&1); echo "demo_without_patch_rc=$?"
fi
(cd "$ROOT/verif" && VERIF_REPO="$ROOT/repo" timeout 3000 ./check "$PID" "$TIER" > "$ROOT/check.out" 2>&1; echo "check_rc=$?" >> "$ROOT/check.out")
grep -E "^(VIOLATION|KNOWN-FINDING|\[C|check_rc)" "$ROOT/check.out" | cut -c1-400
if ls "$ROOT/verif/replays/"*.json >/dev/null 2>&1; then mkdir -p "$DIR/replay"; cp "$ROOT/verif/replays/"*.json "$DIR/replay/" 2>/dev/null; fi
if [ -n "${KEEP_OUT:-}" ]; then cp "$ROOT/check.out" "$KEEP_OUT"; fi
git -C /repo worktree remove --force "$ROOT/repo"
rm -rf "$ROOT"
