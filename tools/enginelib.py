"""Engine generator, builder and Coq-literal printer shared by the engine-level checks (C01, C02, C13, …)."""
from __future__ import annotations

import math

import numpy as np

import termlib
import vlib

TNORMS = ["AlgebraicProduct", "BoundedDifference", "DrasticProduct", "EinsteinProduct", "HamacherProduct", "Minimum", "NilpotentMinimum"]
SNORMS = ["AlgebraicSum", "BoundedSum", "DrasticSum", "EinsteinSum", "HamacherSum", "Maximum", "NilpotentMaximum", "NormalizedSum", "UnboundedSum"]
HEDGES = ["any", "extremely", "not", "seldom", "somewhat", "very"]
INTEGRAL = ["Bisector", "Centroid", "LargestOfMaximum", "MeanOfMaximum", "SmallestOfMaximum"]
ALGEBRAIC_TERMS = ["Triangle", "Trapezoid", "Rectangle", "Ramp", "Binary", "Concave", "SShape", "ZShape", "PiShape", "Arc", "SemiEllipse"]
TRANSCENDENTAL_TERMS = ["Bell", "Cosine", "Gaussian", "GaussianProduct", "Sigmoid", "SigmoidDifference", "SigmoidProduct", "Spike"]
MONOTONIC_TERMS = ["Ramp", "Concave", "SShape", "ZShape", "Arc", "Sigmoid"]


# ------------------------------------------------------------------ wiring-sharp lambda operators (see Core.v)
def t_sharp(a, b):
    return a / 2 + b / 4 + 1 / 8


def s_sharp(a, b):
    return a / 4 + b / 2 + 1 / 16


def h_sharp(x):
    return x / 2 + 1 / 8


def make_tnorm(fl, name):
    if name is None:
        return None
    if name == "Sharp":
        return fl.NormLambda(t_sharp)
    return getattr(fl, name)()


def make_snorm(fl, name):
    if name is None:
        return None
    if name == "Sharp":
        return fl.NormLambda(s_sharp)
    return getattr(fl, name)()


# ------------------------------------------------------------------ generation
def gen_term(rng, name, lo, hi, classes):
    cls = rng.choice(classes)
    p = termlib.gen_params(cls, rng)
    # rescale the shape into the variable's range so that rules fire
    span = hi - lo

    def sc(v):
        if isinstance(v, float) and math.isfinite(v):
            return lo + (math.tanh(v / 10.0) * 0.5 + 0.5) * span
        return v

    q = {}
    for k, v in p.items():
        if k in ("height", "slope", "rising", "falling"):
            q[k] = v
        elif k in ("width", "standard_deviation", "standard_deviation_a", "standard_deviation_b"):
            q[k] = abs(v) * span / 10.0 + 0.01 * span
        elif k == "direction":
            q[k] = v if math.isinf(v) else sc(v)
        else:
            q[k] = sc(v)
    # keep orderings valid after the monotone rescale (tanh is monotone; ties may appear)
    if cls in ("SShape", "ZShape", "Ramp", "Arc", "Concave", "Rectangle", "SemiEllipse"):
        keys = [k for k in q if k not in ("height",)]
        if q[keys[0]] == q[keys[1]]:
            q[keys[1]] = q[keys[0]] + 0.25 * span
    if cls == "PiShape":
        vals = sorted([q["bottom_left"], q["top_left"], q["top_right"], q["bottom_right"]])
        if not (vals[0] < vals[1] <= vals[2] < vals[3]):
            vals = [lo, lo + span / 4, lo + span / 2, hi]
        q["bottom_left"], q["top_left"], q["top_right"], q["bottom_right"] = vals
    if cls in ("SigmoidDifference", "SigmoidProduct") and not q["left"] < q["right"]:
        q["right"] = q["left"] + 0.3 * span
    return {"name": name, "class": cls, "params": q}


def gen_engine(rng, profile="algebraic", activations=("General",), weighted=False, outputs_in_antecedent=True, refs=False):
    """A random engine description. profile: algebraic | transcendental | mixed."""
    classes = {"algebraic": ALGEBRAIC_TERMS, "transcendental": TRANSCENDENTAL_TERMS + ALGEBRAIC_TERMS, "mixed": ALGEBRAIC_TERMS + TRANSCENDENTAL_TERMS}[profile]
    sharp = rng.random() < 0.25
    n_in = rng.choice([1, 2, 2, 3])
    n_out = rng.choice([1, 1, 2])
    inputs, outputs = [], []
    for i in range(n_in):
        lo = rng.choice([0.0, -1.0, -10.0, 2.5])
        hi = lo + rng.choice([1.0, 2.0, 10.0, 7.5])
        terms = [gen_term(rng, f"t{i}{k}", lo, hi, classes) for k in range(rng.choice([2, 3]))]
        inputs.append({"name": f"in{i}", "enabled": rng.random() > 0.1, "min": lo, "max": hi, "lock_range": rng.random() < 0.2, "terms": terms})
    for i in range(n_out):
        lo = rng.choice([0.0, -1.0, -5.0])
        hi = lo + rng.choice([1.0, 4.0, 10.0])
        use_weighted = weighted and rng.random() < 0.6
        if use_weighted:
            kind = rng.choice(["constant", "monotonic", "mixed"] + (["references", "references"] if refs else []))
            if kind == "constant":
                terms = [{"name": f"o{i}{k}", "class": "Constant", "params": {"value": rng.choice([round(rng.uniform(lo, hi), 1), rng.uniform(lo, hi)])}} for k in range(rng.choice([2, 3]))]
            elif kind == "references":  # Takagi-Sugeno terms that hold a reference to the engine
                names = [f"in{j}" for j in range(n_in)]
                terms = []
                for k in range(rng.choice([2, 3])):
                    if rng.random() < 0.5:
                        coeffs = [rng.choice([1.0, 0.5, -2.0, 0.25, 0.0]) for _ in range(n_in)] + ([rng.choice([0.5, -1.0, 2.0])] if rng.random() < 0.7 else [])
                        terms.append({"name": f"o{i}{k}", "class": "Linear", "params": {"coefficients": coeffs}})
                    else:
                        parts = [f"{rng.choice(['2.0', '0.5', '1.25', '3'])} {rng.choice(['*', '/', '+', '-'])} {nm}" for nm in rng.sample(names, rng.randint(1, len(names)))]
                        formula = f" {rng.choice(['+', '-', '*'])} ".join(f"({q})" if rng.random() < 0.5 else q for q in parts) + rng.choice(["", " + 0.75", " - 1"])
                        terms.append({"name": f"o{i}{k}", "class": "Function", "params": {"formula": formula}})
            elif kind == "monotonic":
                # Concave and Sigmoid have tsukamoto(0) = +-inf: a rule that fires with degree exactly 0 must still contribute nothing
                terms = [gen_term(rng, f"o{i}{k}", lo, hi, ["Ramp", "SShape", "ZShape", "Concave", "Concave"] + (["Sigmoid", "Sigmoid"] if profile != "algebraic" else [])) for k in range(rng.choice([2, 3]))]
            else:  # both kinds in one variable: which one fires depends on the step (type inference must be per call)
                terms = [{"name": f"o{i}0", "class": "Constant", "params": {"value": round(rng.uniform(lo, hi), 1)}},
                         gen_term(rng, f"o{i}1", lo, hi, ["Ramp", "SShape", "ZShape"]),
                         {"name": f"o{i}2", "class": "Constant", "params": {"value": rng.uniform(lo, hi)}}]
            defuzz = (rng.choice(["WeightedAverage", "WeightedSum"]), rng.choice(["Automatic", "Automatic", "TakagiSugeno", "Tsukamoto"] if kind == "monotonic" else ["Automatic", "Automatic", "TakagiSugeno"]))
        else:
            terms = [gen_term(rng, f"o{i}{k}", lo, hi, classes) for k in range(rng.choice([2, 3]))]
            defuzz = (rng.choice(INTEGRAL), rng.choice([1, 2, 3, 5, 7, 8, 9, 16, 20, 33, 64]))
        outputs.append({
            "name": f"out{i}", "enabled": rng.random() > 0.1, "min": lo, "max": hi,
            "lock_range": rng.random() < 0.3, "lock_previous": rng.random() < 0.3,
            "default": rng.choice([math.nan, math.nan, math.nan, round(rng.uniform(lo - 1, hi + 1), 2), round(rng.uniform(lo - 1, hi + 1), 2), 0.0, 0.0, -0.0, math.inf, -math.inf]),
            "aggregation": "Sharp" if sharp else rng.choice(SNORMS), "defuzzifier": defuzz, "terms": terms})
    blocks = []
    for b in range(rng.choice([1, 1, 2])):
        rules = []
        for _ in range(rng.choice([1, 2, 3, 4, 6])):
            ant = gen_antecedent(rng, inputs, outputs if outputs_in_antecedent else [], depth=rng.choice([0, 1, 1, 2, 3]))
            cons = []
            for _ in range(rng.choice([1, 1, 2])):
                o = rng.choice(outputs)
                hs = [rng.choice(["very", "somewhat", "not", "extremely", "seldom"]) for _ in range(rng.choice([0, 0, 0, 1, 2]))]
                cons.append(f"{o['name']} is {' '.join(hs + [rng.choice(o['terms'])['name']])}")
            w = rng.choice([1.0, 1.0, 0.5, 0.3, 0.0, 0.75])
            rules.append({"antecedent": ant, "consequent": " and ".join(cons), "weight": w, "enabled": rng.random() > 0.15})
        act = rng.choice(list(activations))
        if act == "General":
            activation = ("General",)
        elif act in ("First", "Last"):
            activation = (act, rng.choice([0, 1, 2, 3]), rng.choice([0.0, 0.1, 0.5]))
        elif act in ("Highest", "Lowest"):
            activation = (act, rng.choice([0, 1, 2, 3]))
        elif act == "Proportional":
            activation = ("Proportional",)
        else:
            activation = ("Threshold", rng.choice(["<", "<=", "==", "!=", ">=", ">"]), rng.choice([0.0, 0.25, 0.5]))
        blocks.append({
            "name": f"rb{b}", "enabled": rng.random() > 0.1,
            "conjunction": "Sharp" if sharp else rng.choice(TNORMS), "disjunction": "Sharp" if sharp else rng.choice(SNORMS),
            "implication": "Sharp" if sharp else rng.choice(TNORMS), "activation": activation, "rules": rules})
    return {"name": "e", "inputs": inputs, "outputs": outputs, "blocks": blocks}


def gen_antecedent(rng, inputs, outputs, depth):
    if depth == 0 or rng.random() < 0.2:
        pool = inputs + (outputs if rng.random() < 0.25 else [])
        v = rng.choice(pool or inputs)
        hs = [rng.choice(["very", "somewhat", "not", "extremely", "seldom"]) for _ in range(rng.choice([0, 0, 1, 2, 3]))]
        if rng.random() < 0.07:
            return f"{v['name']} is {' '.join(hs + ['any'])}"
        return f"{v['name']} is {' '.join(hs + [rng.choice(v['terms'])['name']])}"
    op = rng.choice(["and", "or"])
    l = gen_antecedent(rng, inputs, outputs, depth - 1)
    r = gen_antecedent(rng, inputs, outputs, depth - 1)
    if rng.random() < 0.4:
        l = f"({l})"
    if rng.random() < 0.4:
        r = f"({r})"
    return f"{l} {op} {r}"


def gen_row(rng, desc):
    """One input row: interior, range bounds, term break-points and float neighbours, out of range, ±inf, NaN."""
    row = []
    for iv in desc["inputs"]:
        k = rng.random()
        lo, hi = iv["min"], iv["max"]
        if k < 0.45:
            x = rng.uniform(lo, hi)
        elif k < 0.55:
            x = rng.choice([lo, hi])
        elif k < 0.8:
            t = rng.choice(iv["terms"])
            bps = [v for v in termlib.breakpoints(t["class"], t["params"]) if math.isfinite(v)] or [lo]
            x = rng.choice(vlib.neighbours(rng.choice(bps)))
        elif k < 0.88:
            x = rng.choice([lo - rng.random() * (hi - lo), hi + rng.random() * (hi - lo)])
        elif k < 0.95:
            x = rng.choice([math.inf, -math.inf])
        else:
            x = math.nan
        row.append(float(x))
    return row


# ------------------------------------------------------------------ building the real engine
def build_term(fl, t, mod=None):
    mod = mod or fl
    cls = getattr(mod, t["class"])
    if t["class"] == "Discrete":
        return cls(t["name"], list(t["params"]["xy"]), t["params"].get("height", 1.0))
    if t["class"] == "Linear":
        return fl.Linear(t["name"], list(t["params"]["coefficients"]))
    if t["class"] == "Function":
        return fl.Function(t["name"], t["params"]["formula"])
    return cls(t["name"], **{k: float(v) for k, v in t["params"].items()})


def build_activation(fl, a):
    if a is None:
        return None
    if a[0] in ("General", "Proportional"):
        return getattr(fl, a[0])()
    if a[0] in ("First", "Last"):
        return getattr(fl, a[0])(a[1], a[2])
    if a[0] in ("Highest", "Lowest"):
        return getattr(fl, a[0])(a[1])
    return fl.Threshold(a[1], a[2])


def build_defuzzifier(fl, d):
    if d is None:
        return None
    if d[0] in INTEGRAL:
        return getattr(fl, d[0])(d[1])
    return getattr(fl, d[0])(d[1])


def build_engine(fl, desc, term_module=None):
    ins = [fl.InputVariable(name=v["name"], enabled=v["enabled"], minimum=v["min"], maximum=v["max"], lock_range=v["lock_range"],
                            terms=[build_term(fl, t, term_module) for t in v["terms"]]) for v in desc["inputs"]]
    outs = [fl.OutputVariable(name=v["name"], enabled=v["enabled"], minimum=v["min"], maximum=v["max"], lock_range=v["lock_range"],
                              lock_previous=v["lock_previous"], default_value=v["default"], aggregation=make_snorm(fl, v["aggregation"]),
                              defuzzifier=build_defuzzifier(fl, v["defuzzifier"]), terms=[build_term(fl, t, term_module) for t in v["terms"]]) for v in desc["outputs"]]
    blocks = []
    for b in desc["blocks"]:
        rules = []
        for r in b["rules"]:
            text = f"if {r['antecedent']} then {r['consequent']}" + (f" with {r['weight']!r}" if r["weight"] != 1.0 else "")
            rule = fl.Rule.create(text)
            rule.enabled = r["enabled"]
            rules.append(rule)
        blocks.append(fl.RuleBlock(name=b["name"], enabled=b["enabled"], conjunction=make_tnorm(fl, b["conjunction"]), disjunction=make_snorm(fl, b["disjunction"]),
                                   implication=make_tnorm(fl, b["implication"]), activation=build_activation(fl, b["activation"]), rules=rules))
    return fl.Engine(name=desc["name"], input_variables=ins, output_variables=outs, rule_blocks=blocks)


# ------------------------------------------------------------------ Coq literals (Core.v types over float)
def q(s):
    return vlib.coq_string(s)


def opt(x, f):
    return "None" if x is None else f"(Some {f(x)})"


def lit_tnormx(n):
    return "TSharp" if n == "Sharp" else f"(TN T_{n})"


def lit_snormx(n):
    return "SSharp" if n == "Sharp" else f"(SN S_{n})"


def lit_hedge(name):
    return f"(HG H_{name.capitalize()})"


def lit_term(fl, t):
    """From a description term."""
    if t["class"] == "Discrete":
        xy = t["params"]["xy"]
        pairs = vlib.coq_list(f"({vlib.fhex(a)}, {vlib.fhex(b)})" for a, b in zip(xy[0::2], xy[1::2]))
        return f"(TDiscrete {q(t['name'])} {pairs} {vlib.fhex(t['params'].get('height', 1.0))})"
    if t["class"] == "Linear":
        return f"(TLinear {q(t['name'])} {vlib.coq_list(vlib.fhex(c) for c in t['params']['coefficients'])})"
    if t["class"] == "Function":
        return f"(@fn_term float (NumF true []) {q(t['name'])} {q(t['params']['formula'])})"
    import inspect

    names = [n for n in inspect.signature(getattr(fl, t["class"]).__init__).parameters if n not in ("self", "name")]
    args = " ".join(vlib.fhex(float(t["params"][n])) for n in names)
    return f"(TShape {q(t['name'])} (Sh_{t['class']} {args}))"


def lit_expr(fl, engine, node):
    """From the implementation's loaded antecedent tree (Proposition / Operator objects)."""
    from fuzzylite.rule import Operator, Proposition

    if isinstance(node, Proposition):
        v = node.variable
        if any(v is iv for iv in engine.input_variables):
            vi = next(i for i, iv in enumerate(engine.input_variables) if iv is v)
            vref = f"(VIn {vi})"
        else:
            vi = next(i for i, ov in enumerate(engine.output_variables) if ov is v)
            vref = f"(VOut {vi})"
        hs = vlib.coq_list(lit_hedge(h.name) for h in node.hedges)
        ti = None if node.term is None else next(i for i, t in enumerate(v.terms) if t is node.term)
        return f"(EProp {vref} {hs} {opt(ti, str)})"
    assert isinstance(node, Operator)
    return f"(EOp {'true' if node.name == 'and' else 'false'} {lit_expr(fl, engine, node.left)} {lit_expr(fl, engine, node.right)})"


def lit_rule(fl, engine, rule):
    ante = opt(rule.antecedent.expression, lambda e: lit_expr(fl, engine, e))
    cons = []
    for c in rule.consequent.conclusions:
        vi = next(i for i, ov in enumerate(engine.output_variables) if ov is c.variable)
        ti = next(i for i, t in enumerate(c.variable.terms) if t is c.term)
        cons.append(f"(Build_conclusion {vi} {vlib.coq_list(lit_hedge(h.name) for h in c.hedges)} {ti})")
    deg = float(np.asarray(rule.activation_degree).ravel()[-1]) if np.size(rule.activation_degree) else 0.0
    trig = bool(np.asarray(rule.triggered).ravel()[-1])
    return f"(Build_rule {str(bool(rule.enabled)).lower()} {vlib.fhex(rule.weight)} {ante} {vlib.coq_list(cons)} {vlib.fhex(deg)} {str(trig).lower()})"


def lit_activation(a):
    if a is None:
        return "None"
    k = a[0]
    if k == "General":
        return "(Some AGeneral)"
    if k == "Proportional":
        return "(Some AProportional)"
    if k in ("First", "Last"):
        return f"(Some (A{k} ({a[1]})%Z {vlib.fhex(a[2])}))"
    if k in ("Highest", "Lowest"):
        return f"(Some (A{k} ({a[1]})%Z))"
    cmp = {"<": "CmpLt", "<=": "CmpLe", "==": "CmpEq", "!=": "CmpNe", ">=": "CmpGe", ">": "CmpGt"}[a[1]]
    return f"(Some (AThreshold {cmp} {vlib.fhex(a[2])}))"


def lit_defuzzifier(d):
    if d is None:
        return "None"
    if d[0] in INTEGRAL:
        return f"(Some (DIntegral {d[0]} {int(d[1])}))"
    return f"(Some (DWeighted {'true' if d[0] == 'WeightedAverage' else 'false'} W{d[1]}))"


def lit_engine(fl, desc, engine, fuzzy=None):
    """Core.engine literal of the description, with rule trees taken from the implementation's loaded rules and
    the current values of the real engine's variables."""
    ins = []
    for v, iv in zip(desc["inputs"], engine.input_variables):
        val = float(np.asarray(iv.value, dtype=float).ravel()[-1])
        ins.append(f"(Build_input_var {q(v['name'])} {str(v['enabled']).lower()} {vlib.fhex(v['min'])} {vlib.fhex(v['max'])} {str(v['lock_range']).lower()} "
                   f"{vlib.coq_list(lit_term(fl, t) for t in v['terms'])} {vlib.fhex(val)})")
    outs = []
    for v, ov in zip(desc["outputs"], engine.output_variables):
        val = float(np.asarray(ov.value, dtype=float).ravel()[-1])
        prev = float(np.asarray(ov.previous_value, dtype=float).ravel()[-1])
        outs.append(f"(Build_output_var {q(v['name'])} {str(v['enabled']).lower()} {vlib.fhex(v['min'])} {vlib.fhex(v['max'])} {str(v['lock_range']).lower()} "
                    f"{str(v['lock_previous']).lower()} {vlib.fhex(v['default'])} {opt(v['aggregation'], lit_snormx)} {lit_defuzzifier(v['defuzzifier'])} "
                    f"{vlib.coq_list(lit_term(fl, t) for t in v['terms'])} {vlib.fhex(val)} {vlib.fhex(prev)} [])")
    blocks = []
    for b, rb in zip(desc["blocks"], engine.rule_blocks):
        blocks.append(f"(Build_block {q(b['name'])} {str(b['enabled']).lower()} {opt(b['conjunction'], lit_tnormx)} {opt(b['disjunction'], lit_snormx)} "
                      f"{opt(b['implication'], lit_tnormx)} {lit_activation(b['activation'])} {vlib.coq_list(lit_rule(fl, engine, r) for r in rb.rules)})")
    return f"(Build_engine {q(desc['name'])} {vlib.coq_list(ins)} {vlib.coq_list(outs)} {vlib.coq_list(blocks)})"
